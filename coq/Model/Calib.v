(* C04 -- model of validity ranges in CALIBRATION collections:
     python/lsst/daf/butler/registry/sql_registry.py   certify / decertify / removeDatasets / findDataset(timespan=)
     python/lsst/daf/butler/registry/datasets/byDimensions/_manager.py   certify / decertify / _build_calib_overlap_query
   on the SQLite backend (no database exclusion constraint: the check is a SELECT count under a table lock +
   savepoint, followed by INSERT).

   State: the rows of the dataset_calibs_* tables (the autoincrement key is not modelled: decertify deletes
   every selected row by key, which is the same as deleting the selected rows), the live datasets (the
   dataset_id foreign key, ON DELETE CASCADE), the registered collections and dataset types.
   The overlap predicate is the REGENERATED `py_overlaps` of Gen/TimespanGen.v (C11 proves that the SQL form the
   SELECT uses equals it); the difference is the REGENERATED `py_difference` of Gen/CalibDiffGen.v (translator
   harness/translators/calib_diff.py; Proofs/CalibProofs.v proves it equal to the C11 hand model `diff GEN_MAX`).

   `chk` is the batch-distinctness check added by /repo commit 8f28e85 ("more than one dataset with data ID"):
   the faithful model is `chk = true`; `chk = false` is the code before the repair.
   No proofs here. *)
From Coq Require Import ZArith NArith List Bool.
From V Require Import Gen.TimespanGen Gen.CalibDiffGen Model.Timespan.
Import ListNotations.
Open Scope N_scope.

Inductive ckind := KCalibration | KRun | KTagged.
Inductive err := Conflict | MissingCollection | MissingDatasetType | CollectionTypeErr | DatasetTypeErr | SqlError.
Inductive outcome := Ok | Err (e : err).

(* a DatasetRef as the caller holds it: id, dataset type, data ID (carried by the object, not looked up) *)
Record ref := mkRef { f_ds : N; f_ty : N; f_did : N }.
Record crow := mkRow { r_coll : N; r_ty : N; r_did : N; r_ds : N; r_ts : TimespanGen.ts }.
Record state := mkState {
  colls : list (N * ckind);       (* registered collections *)
  dtypes : list (N * bool);       (* registered dataset types, isCalibration *)
  dsets : list N;                 (* live dataset ids (rows of the static dataset table) *)
  calibs : list crow              (* dataset_calibs_* rows in insertion order *)
}.

Inductive op :=
| Certify (c : N) (refs : list ref) (t : TimespanGen.ts)
| Decertify (c ty : N) (t : TimespanGen.ts) (sel : option (list N))
| Remove (ds : N).

Fixpoint lookup {A} (k : N) (l : list (N * A)) : option A :=
  match l with
  | [] => None
  | (k', v) :: r => if k =? k' then Some v else lookup k r
  end.
Definition memN (k : N) (l : list N) : bool := existsb (N.eqb k) l.
Definition is_calib (k : ckind) : bool := match k with KCalibration => true | _ => false end.
Definition set_calibs (s : state) (l : list crow) : state := mkState (colls s) (dtypes s) (dsets s) l.

(* DatasetRef.groupByType: a dict keyed by dataset type in order of first appearance *)
Fixpoint group_insert (r : ref) (gs : list (N * list ref)) : list (N * list ref) :=
  match gs with
  | [] => [(f_ty r, [r])]
  | (t, rs) :: gs' => if t =? f_ty r then (t, rs ++ [r]) :: gs' else (t, rs) :: group_insert r gs'
  end.
Definition group_by_type (refs : list ref) : list (N * list ref) :=
  fold_left (fun gs r => group_insert r gs) refs [].

(* `dataset.dataId in data_ids` while iterating the batch *)
Fixpoint batch_dup (rs : list ref) : bool :=
  match rs with
  | [] => false
  | r :: rest => memN (f_did r) (map f_did rest) || batch_dup rest
  end.

(* _build_calib_overlap_query: rows of this dataset type and collection whose timespan overlaps `t`,
   joined with the given data IDs (None = no join) *)
Definition selected (sel : option (list N)) (d : N) : bool :=
  match sel with None => true | Some l => memN d l end.
Definition hit (c ty : N) (t : TimespanGen.ts) (sel : option (list N)) (r : crow) : bool :=
  (r_coll r =? c) && (r_ty r =? ty) && py_overlaps (r_ts r) t && selected sel (r_did r).

(* ByDimensionsDatasetRecordStorageManager.certify for one dataset type *)
Definition certify_group (chk : bool) (s : state) (c : N) (k : ckind) (ty : N) (rs : list ref) (t : TimespanGen.ts)
  : state + err :=
  match lookup ty (dtypes s) with
  | None => inr MissingDatasetType
  | Some false => inr DatasetTypeErr
  | Some true =>
    if negb (is_calib k) then inr CollectionTypeErr
    else if chk && batch_dup rs && negb (py_isEmpty t) then inr Conflict
    else match rs with
    | [] => inl s
    | _ =>
      if existsb (hit c ty t (Some (map f_did rs))) (calibs s) then inr Conflict
      else if forallb (fun r => memN (f_ds r) (dsets s)) rs
           then inl (set_calibs s (calibs s ++ map (fun r => mkRow c ty (f_did r) (f_ds r) t) rs))
           else inr SqlError   (* FOREIGN KEY constraint failed: the dataset was deleted *)
    end
  end.

Fixpoint certify_groups (chk : bool) (s : state) (c : N) (k : ckind) (gs : list (N * list ref)) (t : TimespanGen.ts)
  : state + err :=
  match gs with
  | [] => inl s
  | (ty, rs) :: gs' =>
    match certify_group chk s c k ty rs t with
    | inl s' => certify_groups chk s' c k gs' t
    | inr e => inr e
    end
  end.

(* SqlRegistry.certify (@transactional: all or nothing) *)
Definition certify (chk : bool) (s : state) (c : N) (refs : list ref) (t : TimespanGen.ts) : state * outcome :=
  match lookup c (colls s) with
  | None => (s, Err MissingCollection)
  | Some k =>
    match certify_groups chk s c k (group_by_type refs) t with
    | inl s' => (s', Ok)
    | inr e => (s, Err e)
    end
  end.

(* SqlRegistry.decertify + manager.decertify: delete the overlapping rows, re-insert what
   Timespan.difference leaves of each *)
Definition pieces (t : TimespanGen.ts) (r : crow) : list crow :=
  map (fun p => mkRow (r_coll r) (r_ty r) (r_did r) (r_ds r) p) (py_difference (r_ts r) t).
Definition decertify_rows (c ty : N) (t : TimespanGen.ts) (sel : option (list N)) (l : list crow) : list crow :=
  filter (fun r => negb (hit c ty t sel r)) l ++ flat_map (pieces t) (filter (hit c ty t sel) l).
Definition decertify (s : state) (c ty : N) (t : TimespanGen.ts) (sel : option (list N)) : state * outcome :=
  match lookup c (colls s) with
  | None => (s, Err MissingCollection)
  | Some k =>
    match lookup ty (dtypes s) with
    | None => (s, Err MissingDatasetType)
    | Some false => (s, Err DatasetTypeErr)
    | Some true =>
      if negb (is_calib k) then (s, Err CollectionTypeErr)
      else (set_calibs s (decertify_rows c ty t sel (calibs s)), Ok)
    end
  end.

(* SqlRegistry.removeDatasets([ref]): delete from the static dataset table, ON DELETE CASCADE *)
Definition remove (s : state) (ds : N) : state * outcome :=
  (mkState (colls s) (dtypes s) (filter (fun d => negb (d =? ds)) (dsets s))
           (filter (fun r => negb (r_ds r =? ds)) (calibs s)), Ok).

Definition step (chk : bool) (s : state) (o : op) : state * outcome :=
  match o with
  | Certify c refs t => certify chk s c refs t
  | Decertify c ty t sel => decertify s c ty t sel
  | Remove ds => remove s ds
  end.
Definition run (chk : bool) (s : state) (h : list op) : state := fold_left (fun s o => fst (step chk s o)) h s.

(* ---- observations ---- *)
Definition key_match (c ty d : N) (r : crow) : bool := (r_coll r =? c) && (r_ty r =? ty) && (r_did r =? d).
(* datasets valid at instant x for (collection, dataset type, data ID) *)
Definition valid_at (s : state) (c ty d : N) (x : Z) : list N :=
  map r_ds (filter (fun r => key_match c ty d r && memb x (r_ts r)) (calibs s)).
(* rows a lookup with timespan q sees *)
Definition overlapping (s : state) (c ty d : N) (q : TimespanGen.ts) : list crow :=
  filter (fun r => key_match c ty d r && py_overlaps (r_ts r) q) (calibs s).

Inductive lookup_result := Unique (ds : N) | Ambiguous | NotFound.
(* findDataset(type, dataId, collections=[c], timespan=q) *)
Definition lookup_span (s : state) (c ty d : N) (q : TimespanGen.ts) : lookup_result :=
  match overlapping s c ty d q with
  | [] => NotFound
  | [r] => Unique (r_ds r)
  | _ => Ambiguous
  end.

(* findDataset over an ordered search path of calibration collections, as coded: one SELECT over all the
   collections, then a single pass keeping the best-ranked row and a tie flag *)
Fixpoint rank_of (c : N) (path : list N) (i : N) : option N :=
  match path with
  | [] => None
  | c' :: r => if c =? c' then Some i else rank_of c r (N.succ i)
  end.
Definition path_rows (s : state) (path : list N) (ty d : N) (q : TimespanGen.ts) : list (N * crow) :=
  flat_map (fun r => match rank_of (r_coll r) path 0 with
                     | Some i => if (r_ty r =? ty) && (r_did r =? d) && py_overlaps (r_ts r) q then [(i, r)] else []
                     | None => []
                     end) (calibs s).
Definition best_step (acc : N * crow * bool) (x : N * crow) : N * crow * bool :=
  let '(brank, brow, tie) := acc in
  if fst x <? brank then (fst x, snd x, false)
  else if fst x =? brank then (brank, brow, true)
  else acc.
Definition lookup_path (s : state) (path : list N) (ty d : N) (q : TimespanGen.ts) : lookup_result :=
  match path_rows s path ty d q with
  | [] => NotFound
  | x :: rest =>
    let '(_, brow, tie) := fold_left best_step rest (fst x, snd x, false) in
    if tie then Ambiguous else Unique (r_ds brow)
  end.
