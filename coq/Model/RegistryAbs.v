(* C02 -- the ABSTRACT specification the row-level model (Model/Registry.v) is proved to refine
   (Proofs/RegistryProofsX*.v, theorem abs_commutes in Props/C02.v).

   The abstract state has no rows, no constraints and no summaries: it is the map of the property statement
       collection -> dataset type -> data id -> option dataset
   plus the collection kinds, the registered dataset types and each live dataset's definition (type, run).
   A map cannot hold two datasets under one key, so "never two datasets with the same dataset type and data ID"
   holds by construction; uniqueness conflicts are the places where an update would overwrite another dataset.
   `astep` follows the documented order of the argument checks of each operation (that order decides WHICH
   error is reported) and updates the map; everything is executable (maps are functions).
   No proofs in this file. *)
From Coq Require Import NArith List Bool.
From V Require Import Model.Registry.
Import ListNotations.
Open Scope N_scope.

Definition amap := N -> N -> N -> option N.          (* collection, dataset type, data id -> dataset id *)
Definition adef := N -> option (N * N).               (* dataset id -> (dataset type, run) *)

Record astate := A {
  a_coll : N -> option ctype;
  a_type : N -> bool;
  a_def : adef;
  a_mem : amap
}.

Definition ainit : astate := A (fun _ => None) (fun _ => false) (fun _ => None) (fun _ _ _ => None).

(* two abstract states are the same when they answer every question alike *)
Definition aeq (a b : astate) : Prop :=
  (forall c, a_coll a c = a_coll b c) /\ (forall t, a_type a t = a_type b t) /\
  (forall i, a_def a i = a_def b i) /\ (forall c t d, a_mem a c t d = a_mem b c t d).

(* the abstraction function: what a row-level state MEANS *)
Definition dlook (ds : list dsrow) : adef := fun i => option_map (fun x => (d_type x, d_run x)) (ds_find ds i).
Definition look (tg : list row) : amap := fun c t d => find (St [] [] [] tg [] []) c t d.
Definition abs (s : state) : astate := A (coll_type s) (has_type s) (dlook (datasets s)) (look (tags s)).

(* ---- map updates ---------------------------------------------------------------------------------------- *)
(* key (collection, type, data id) of r now holds dataset r_id r *)
Definition mset (m : amap) (r : row) : amap :=
  fun c t d => if (r_coll r =? c) && (r_type r =? t) && (r_data r =? d) then Some (r_id r) else m c t d.
(* every membership (collection c, dataset i) with p c i is dropped *)
Definition mdrop (m : amap) (p : N -> N -> bool) : amap :=
  fun c t d => match m c t d with Some i => if p c i then None else Some i | None => None end.
Definition dset (f : adef) (x : dsrow) : adef := fun i => if d_id x =? i then Some (d_type x, d_run x) else f i.
Definition ddrop (f : adef) (q : N -> N * N -> bool) : adef :=
  fun i => match f i with Some tr => if q i tr then None else Some tr | None => None end.

(* a NEW dataset: its id must be unused; a NEW membership: its key must be free *)
Definition d_ins (f : adef) (x : dsrow) : option adef :=
  match f (d_id x) with Some _ => None | None => Some (dset f x) end.
Definition m_ins (m : amap) (r : row) : option amap :=
  match m (r_coll r) (r_type r) (r_data r) with Some _ => None | None => Some (mset m r) end.

(* ---- operations -------------------------------------------------------------------------------------------- *)
Definition a_register (a : astate) (c : N) (k : ctype) : astate * outcome :=
  match a_coll a c with
  | Some _ => (a, Ok)
  | None => (A (fun c' => if c =? c' then Some k else a_coll a c') (a_type a) (a_def a) (a_mem a), OkNew)
  end.

Definition a_register_type (a : astate) (t : N) : astate * outcome :=
  if a_type a t then (a, Ok)
  else (A (a_coll a) (fun t' => (t' =? t) || a_type a t') (a_def a) (a_mem a), OkNew).

Definition a_insert (a : astate) (t c : N) (items : list (N * N)) : astate * outcome :=
  if negb (a_type a t) then (a, Err MissingDatasetType) else
  match a_coll a c with
  | None => (a, Err MissingCollection)
  | Some TAGGED => (a, Err CollectionTypeErr)
  | Some RUN =>
    if negb (forallb (fun it => valid_d (fst it)) items) then (a, Err DataIdErr) else
    match items with
    | [] => (a, Ok)
    | _ =>
      match fold_opt d_ins (a_def a) (map (fun it => Ds (snd it) t c) items) with
      | None => (a, Err Conflict)
      | Some f' =>
        match fold_opt m_ins (a_mem a) (map (fun it => Row c t (fst it) (snd it)) items) with
        | None => (a, Err Conflict)
        | Some m' => (A (a_coll a) (a_type a) f' m', Ok)
        end
      end
    end
  end.

(* import of one ref into run c is impossible when
   - the dataset exists with another dataset type or run, or exists but is not the holder of the ref's key in c
     (i.e. it exists with another data ID);
   - the dataset is new and the key is taken *)
Definition a_bad (a : astate) (c : N) (f : ref) : bool :=
  match a_def a (f_id f) with
  | Some (t', r') =>
      negb (t' =? f_type f) || negb (r' =? c) ||
      negb (match a_mem a c (f_type f) (f_data f) with Some j => j =? f_id f | None => false end)
  | None => match a_mem a c (f_type f) (f_data f) with Some _ => true | None => false end
  end.
(* the batch itself must not name a dataset twice nor two datasets under one key (the temporary table has the
   PK and UNIQUE constraints): the batch inserted into an EMPTY table is accepted *)
Definition batch_ok (c : N) (refs : list ref) : bool :=
  match fold_opt tag_insert [] (map (ref_row c) refs) with Some _ => true | None => false end.

Definition a_import (a : astate) (c : N) (refs : list ref) : astate * outcome :=
  match refs with
  | [] => (a, Ok)
  | _ =>
    match a_coll a c with
    | None => (a, Err MissingCollection)
    | Some TAGGED => (a, Err CollectionTypeErr)
    | Some RUN =>
      if negb (forallb (fun f => valid_d (f_data f)) refs) then (a, Err DataIdErr) else
      if negb (forallb (fun f => a_type a (f_type f)) refs) then (a, Err MissingDatasetType) else
      if negb (batch_ok c refs) then (a, Err Conflict) else
      if existsb (a_bad a c) refs then (a, Err Conflict) else
      let fresh := filter (fun f => match a_def a (f_id f) with Some _ => false | None => true end) refs in
      match fold_opt d_ins (a_def a) (map (fun f => Ds (f_id f) (f_type f) c) fresh) with
      | None => (a, Err Conflict)
      | Some f' =>
        match fold_opt m_ins (a_mem a) (map (ref_row c) fresh) with
        | None => (a, Err Conflict)
        | Some m' => (A (a_coll a) (a_type a) f' m', Ok)
        end
      end
    end
  end.

(* associate one ref: the dataset must exist; it leaves whatever key it held in c, and takes the ref's key, which
   must not be held by another dataset.  (For an honest ref -- one whose type and data ID are the dataset's -- the
   key it held in c is the ref's key, so this is "set the key unless another dataset holds it".) *)
Definition a_assoc1 (f : adef) (c : N) (m : amap) (r : ref) : option amap :=
  match f (f_id r) with
  | None => None
  | Some _ =>
    let m0 := mdrop m (fun c' i => (f_id r =? i) && (c =? c')) in
    match m0 c (f_type r) (f_data r) with
    | Some _ => None
    | None => Some (mset m0 (ref_row c r))
    end
  end.

(* refs are handled per dataset type, in order of first occurrence (DatasetRef.groupByType); the per-type checks
   decide which error is reported *)
Fixpoint a_assoc_groups (a : astate) (c : N) (k : ctype) (refs : list ref) (ts : list N) (m : amap) : amap + err :=
  match ts with
  | [] => inl m
  | t :: r =>
    if negb (a_type a t) then inr MissingDatasetType else
    match k with
    | RUN => inr CollectionTypeErr
    | TAGGED =>
      match fold_opt (a_assoc1 (a_def a) c) m (group refs t) with
      | None => inr Conflict
      | Some m' => a_assoc_groups a c k refs r m'
      end
    end
  end.

Definition a_associate (a : astate) (c : N) (refs : list ref) : astate * outcome :=
  match a_coll a c with
  | None => (a, Err MissingCollection)
  | Some k =>
    match a_assoc_groups a c k refs (types_in_order refs []) (a_mem a) with
    | inr e => (a, Err e)
    | inl m => match refs with [] => (a, Ok) | _ => (A (a_coll a) (a_type a) (a_def a) m, Ok) end
    end
  end.

Fixpoint a_disassoc_groups (a : astate) (c : N) (k : ctype) (refs : list ref) (ts : list N) (m : amap) : amap + err :=
  match ts with
  | [] => inl m
  | t :: r =>
    if negb (a_type a t) then inr MissingDatasetType else
    match k with
    | RUN => inr CollectionTypeErr
    | TAGGED =>
      let g := group refs t in
      a_disassoc_groups a c k refs r (mdrop m (fun c' i => (c' =? c) && existsb (fun f => f_id f =? i) g))
    end
  end.

Definition a_disassociate (a : astate) (c : N) (refs : list ref) : astate * outcome :=
  match a_coll a c with
  | None => (a, Err MissingCollection)
  | Some k =>
    match a_disassoc_groups a c k refs (types_in_order refs []) (a_mem a) with
    | inr e => (a, Err e)
    | inl m => match refs with [] => (a, Ok) | _ => (A (a_coll a) (a_type a) (a_def a) m, Ok) end
    end
  end.

(* a removed dataset leaves every collection *)
Definition a_remove_datasets (a : astate) (ids : list N) : astate * outcome :=
  match ids with
  | [] => (a, Ok)
  | _ => (A (a_coll a) (a_type a) (ddrop (a_def a) (fun i _ => memN i ids)) (mdrop (a_mem a) (fun _ i => memN i ids)), Ok)
  end.

(* a removed collection loses its memberships; a removed RUN takes its datasets with it, out of every collection *)
Definition a_remove_collection (a : astate) (c : N) : astate * outcome :=
  match a_coll a c with
  | None => (a, Err MissingCollection)
  | Some _ =>
    let gone := fun i => match a_def a i with Some tr => snd tr =? c | None => false end in
    (A (fun c' => if c' =? c then None else a_coll a c') (a_type a)
       (ddrop (a_def a) (fun _ tr => snd tr =? c))
       (mdrop (a_mem a) (fun c' i => (c' =? c) || gone i)), Ok)
  end.

Definition astep (a : astate) (o : op) : astate * outcome :=
  match o with
  | RegisterRun c => a_register a c RUN
  | RegisterTagged c => a_register a c TAGGED
  | RegisterType t => a_register_type a t
  | Insert t c items => a_insert a t c items
  | Import c refs => a_import a c refs
  | Associate c refs => a_associate a c refs
  | Disassociate c refs => a_disassociate a c refs
  | RemoveDatasets ids => a_remove_datasets a ids
  | RemoveCollection c => a_remove_collection a c
  end.

Definition aexec (a : astate) (o : op) : astate := fst (astep a o).
Definition arun (h : list op) : astate := fold_left aexec h ainit.
(* the outcomes of a history, on the abstract specification and on the row-level model *)
Fixpoint aouts (a : astate) (h : list op) : list outcome :=
  match h with [] => [] | o :: r => snd (astep a o) :: aouts (aexec a o) r end.
Fixpoint outs (s : state) (h : list op) : list outcome :=
  match h with [] => [] | o :: r => snd (step s o) :: outs (exec s o) r end.

(* ---- honest references -------------------------------------------------------------------------------------- *)
(* associate is documented to take resolved refs of datasets that exist in this registry: a ref is HONEST in s when
   every membership of its dataset id carries the ref's dataset type and data ID (a ref to a dataset that has no
   membership -- e.g. one that does not exist -- is honest; it is refused).  A history is honest when every
   associate is handed honest refs at the moment it runs. *)
Definition honest_ref (s : state) (f : ref) : bool :=
  forallb (fun x => negb (r_id x =? f_id f) || ((r_type x =? f_type f) && (r_data x =? f_data f))) (tags s).
Definition honest_op (s : state) (o : op) : bool :=
  match o with Associate _ refs => forallb (honest_ref s) refs | _ => true end.
Fixpoint honest_from (s : state) (h : list op) : bool :=
  match h with [] => true | o :: r => honest_op s o && honest_from (exec s o) r end.
Definition honest (h : list op) : bool := honest_from init h.
