(* Model of store / locate / read back in a Butler repository (C01).

   State = registry-side dataset identity (id -> type, data ID, run), tagged-collection membership,
   the file datastore's records (id -> path, formatter, size), the artifacts under the datastore root
   (path -> bytes), the in-memory datastore (id -> object).  `orig` is a specification-only field: the
   object that was stored under an id when it was stored; no operation ever reads it.

   Faithful to the code that exists, quirks included:
   * FileDatastore._write_in_memory_to_artifact / _extractIngestInfo(transfer=copy|move) / transfer_from
     write the artifact with overwrite=True and never look at other datasets' records, so two datasets
     whose template output coincides share one artifact (the later write wins);
   * get resolves the artifact only through the stored record and compares the recorded size;
   * ingest of a ref that the datastore already holds is refused before anything is written (commit 2da36a1;
     the destructive behaviour before that commit survives only as `step_unfixed`);
   * an artifact is deleted on removal only when no remaining record points at its path.
   Codecs, sizes, the path function and the formatter extension are Section variables.  No proofs here. *)
From Coq Require Import String Ascii List Bool ZArith NArith.
From V Require Import Model.Template.
Import ListNotations.
Open Scope string_scope.

Record ident := mkIdent { i_type : string; i_data : list (string * string); i_run : string }.

Fixpoint data_eqb (a b : list (string * string)) : bool :=
  match a, b with
  | [], [] => true
  | (k, v) :: r, (k', v') :: r' => String.eqb k k' && String.eqb v v' && data_eqb r r'
  | _, _ => false
  end.

Definition ident_eqb (a b : ident) : bool :=
  String.eqb (i_type a) (i_type b) && data_eqb (i_data a) (i_data b) && String.eqb (i_run a) (i_run b).

(* uniqueness key of a tagged collection: dataset type + data ID *)
Definition tagkey_eqb (a b : ident) : bool :=
  String.eqb (i_type a) (i_type b) && data_eqb (i_data a) (i_data b).

Record frec := mkRec { r_path : string; r_fmt : N; r_size : Z }.

Inductive kind := KFile | KMem | KChained.
Record cfg := mkCfg { c_kind : kind; c_fmt : N }.

Inductive err := Conflict | NotFound | Integrity | DecodeErr | KeyErr | ValueErr | NotImpl | TypeErr.
Inductive outcome := Done | Refused (e : err).

(* ---- association lists ---------------------------------------------------------------------- *)
Section Assoc.
  Context {K V : Type}.
  Variable keq : K -> K -> bool.
  Fixpoint aget (l : list (K * V)) (k : K) : option V :=
    match l with [] => None | (k', v) :: r => if keq k' k then Some v else aget r k end.
  Fixpoint adel (l : list (K * V)) (k : K) : list (K * V) :=
    match l with [] => [] | (k', v) :: r => if keq k' k then adel r k else (k', v) :: adel r k end.
  Definition aset (l : list (K * V)) (k : K) (v : V) : list (K * V) := (k, v) :: adel l k.
End Assoc.

Definition memN (x : N) (l : list N) : bool := existsb (N.eqb x) l.

Section DS.
  Variable obj : Type.
  Variable bytes : Type.
  Variable enc : N -> obj -> bytes.            (* formatter id -> object -> file content *)
  Variable dec : N -> bytes -> option obj.
  Variable size : bytes -> Z.
  Variable path_of : ident -> Template.fresult. (* FileTemplate.format of the dataset's template *)
  Variable ext_of : N -> string.               (* formatter id -> file extension *)

  Record state := mkState {
    reg  : list (N * ident);
    tags : list (string * N);
    recs : list (N * frec);
    fs   : list (string * bytes);
    mem  : list (N * obj);
    orig : list (N * obj)
  }.

  Definition empty : state := mkState [] [] [] [] [] [].

  Inductive op :=
  | Put (id : N) (i : ident) (o : obj)
  | Ingest (move : bool) (id : N) (i : ident) (c : bytes)     (* external file with content c *)
  | Transfer (src : state) (id : N)                            (* butler-to-butler transfer, copy *)
  | Associate (tag : string) (id : N)
  | Disassociate (tag : string) (id : N)
  | Remove (purge : bool) (ids : list N).                      (* pruneDatasets(unstore=True[, purge, disassociate]) *)

  (* ---- reading ------------------------------------------------------------------------------ *)
  Inductive res := Got (o : obj) | Fail (e : err).

  Definition get_file (s : state) (id : N) : res :=
    match aget N.eqb (recs s) id with
    | None => Fail NotFound
    | Some r =>
        match aget String.eqb (fs s) (r_path r) with
        | None => Fail NotFound
        | Some b => if Z.eqb (size b) (r_size r)
                    then match dec (r_fmt r) b with Some o => Got o | None => Fail DecodeErr end
                    else Fail Integrity
        end
    end.

  Definition get_mem (s : state) (id : N) : res :=
    match aget N.eqb (mem s) id with Some o => Got o | None => Fail NotFound end.

  Definition get (c : cfg) (s : state) (id : N) : res :=
    match c_kind c with
    | KFile => get_file s id
    | KMem => get_mem s id
    | KChained => match get_mem s id with Got o => Got o | Fail _ => get_file s id end
    end.

  (* stored = the datastore can produce the dataset's artifact (DatasetExistence: DATASTORE + artifact) *)
  Definition stored_file (s : state) (id : N) : bool :=
    match aget N.eqb (recs s) id with
    | None => false
    | Some r => match aget String.eqb (fs s) (r_path r) with Some _ => true | None => false end
    end.

  Definition uri (s : state) (id : N) : option string :=
    match aget N.eqb (recs s) id with Some r => Some (r_path r) | None => None end.

  (* ---- registry side ------------------------------------------------------------------------ *)
  Fixpoint find_ident (l : list (N * ident)) (i : ident) : option N :=
    match l with [] => None | (k, j) :: r => if ident_eqb j i then Some k else find_ident r i end.

  (* _importDatasets: an existing identical row is accepted silently, anything conflicting refused *)
  Definition import_reg (l : list (N * ident)) (id : N) (i : ident) : option (list (N * ident)) :=
    match aget N.eqb l id with
    | Some j => if ident_eqb j i then Some l else None
    | None => match find_ident l i with Some _ => None | None => Some ((id, i) :: l) end
    end.

  Fixpoint find_tag (s : state) (tl : list (string * N)) (tag : string) (i : ident) : option N :=
    match tl with
    | [] => None
    | (t, k) :: r =>
        if String.eqb t tag
        then match aget N.eqb (reg s) k with
             | Some j => if tagkey_eqb j i then Some k else find_tag s r tag i
             | None => find_tag s r tag i
             end
        else find_tag s r tag i
    end.

  Definition in_tag (tl : list (string * N)) (tag : string) (id : N) : bool :=
    existsb (fun p => String.eqb (fst p) tag && N.eqb (snd p) id) tl.

  (* ---- artifacts ---------------------------------------------------------------------------- *)
  Definition other_rec_has_path (l : list (N * frec)) (gone : list N) (p : string) : bool :=
    existsb (fun kr => negb (memN (fst kr) gone) && String.eqb (r_path (snd kr)) p) l.

  (* emptyTrash: delete the artifact of every removed record unless a remaining record shares the path *)
  Fixpoint drop_artifacts (all : list (N * frec)) (gone : list N) (ids : list N) (f : list (string * bytes))
    : list (string * bytes) :=
    match ids with
    | [] => f
    | id :: r =>
        let f' := match aget N.eqb all id with
                  | Some rc => if other_rec_has_path all gone (r_path rc) then f else adel String.eqb f (r_path rc)
                  | None => f
                  end in
        drop_artifacts all gone r f'
    end.

  Fixpoint del_many {V} (l : list (N * V)) (ids : list N) : list (N * V) :=
    match ids with [] => l | id :: r => del_many (adel N.eqb l id) r end.

  Definition file_path (i : ident) (f : N) : Template.fresult :=
    match path_of i with
    | Template.FOk p => Template.FOk (p ++ ext_of f)
    | e => e
    end.

  Definition set_orig (l : list (N * obj)) (id : N) (o : option obj) : list (N * obj) :=
    match o with Some v => aset N.eqb l id v | None => adel N.eqb l id end.

  (* ---- one operation ------------------------------------------------------------------------ *)
  Definition step (c : cfg) (s : state) (x : op) : state * outcome :=
    match x with
    | Put id i o =>
        match aget N.eqb (reg s) id, find_ident (reg s) i with
        | None, None =>
            let reg' := (id, i) :: reg s in
            match c_kind c with
            | KMem => (mkState reg' (tags s) (recs s) (fs s) (aset N.eqb (mem s) id o) (aset N.eqb (orig s) id o), Done)
            | k =>
                match file_path i (c_fmt c) with
                | Template.FOk p =>
                    let b := enc (c_fmt c) o in
                    let mem' := match k with KChained => aset N.eqb (mem s) id o | _ => mem s end in
                    (mkState reg' (tags s) (aset N.eqb (recs s) id (mkRec p (c_fmt c) (size b)))
                             (aset String.eqb (fs s) p b) mem' (aset N.eqb (orig s) id o), Done)
                | Template.FKeyErr => (s, Refused KeyErr)
                | Template.FOutside => (s, Refused ValueErr)
                end
            end
        | _, _ => (s, Refused Conflict)
        end
    | Ingest mv id i b =>
        match import_reg (reg s) id i with
        | None => (s, Refused Conflict)
        | Some reg' =>
            match c_kind c with
            | KMem => (s, Refused NotImpl)
            | _ =>
                match aget N.eqb (recs s) id with
                | Some _ =>
                    (* commit 2da36a1: FileDatastore._refuse_datasets_already_stored at the top of _finishIngest --
                       refused before any file is transferred; the registry import is rolled back *)
                    (s, Refused Conflict)
                | None =>
                    match file_path i (c_fmt c) with
                    | Template.FOk p =>
                        (mkState reg' (tags s) (aset N.eqb (recs s) id (mkRec p (c_fmt c) (size b)))
                                 (aset String.eqb (fs s) p b) (mem s) (set_orig (orig s) id (dec (c_fmt c) b)), Done)
                    | Template.FKeyErr => (s, Refused KeyErr)
                    | Template.FOutside => (s, Refused ValueErr)
                    end
                end
            end
        end
    | Transfer src id =>
        match c_kind c with
        | KMem => (s, Refused NotImpl)
        | _ =>
            match aget N.eqb (recs src) id, aget N.eqb (reg src) id with
            | Some r, Some i =>
                match aget String.eqb (fs src) (r_path r) with
                | None => (s, Done)                                 (* skip_missing: artifact absent in source *)
                | Some b =>
                    match import_reg (reg s) id i with
                    | None => (s, Refused Conflict)
                    | Some reg' =>
                        match aget N.eqb (recs s) id with
                        | Some _ => (mkState reg' (tags s) (recs s) (fs s) (mem s) (orig s), Done)   (* already present *)
                        | None =>
                            (mkState reg' (tags s) (aset N.eqb (recs s) id r) (aset String.eqb (fs s) (r_path r) b) (mem s)
                                     (set_orig (orig s) id (match get_file src id with Got o => Some o | Fail _ => None end)), Done)
                        end
                    end
                end
            | _, _ => (s, Done)                                     (* skip_missing: source does not hold it *)
            end
        end
    | Associate tag id =>
        match aget N.eqb (reg s) id with
        | None => (s, Refused NotFound)
        | Some i =>
            if in_tag (tags s) tag id then (s, Done)
            else match find_tag s (tags s) tag i with
                 | Some _ => (s, Refused Conflict)
                 | None => (mkState (reg s) ((tag, id) :: tags s) (recs s) (fs s) (mem s) (orig s), Done)
                 end
        end
    | Disassociate tag id =>
        (mkState (reg s) (filter (fun p => negb (String.eqb (fst p) tag && N.eqb (snd p) id)) (tags s))
                 (recs s) (fs s) (mem s) (orig s), Done)
    | Remove purge ids =>
        let fs' := drop_artifacts (recs s) ids ids (fs s) in
        let reg' := if purge then del_many (reg s) ids else reg s in
        let tags' := if purge then filter (fun p => negb (memN (snd p) ids)) (tags s) else tags s in
        (mkState reg' tags' (del_many (recs s) ids) fs' (del_many (mem s) ids) (del_many (orig s) ids), Done)
    end.

  Definition run (c : cfg) (s : state) (h : list op) : state :=
    fold_left (fun st x => fst (step c st x)) h s.

  (* the behaviour BEFORE commit 2da36a1, kept only as a variant for the `_without_fix` witnesses: the ingest of a
     dataset the datastore already holds wrote the artifact first (overwrite), the record insert failed, and the
     rollback removed the artifact it had just overwritten *)
  Definition step_unfixed (c : cfg) (s : state) (x : op) : state * outcome :=
    match x with
    | Ingest mv id i b =>
        match import_reg (reg s) id i, c_kind c, aget N.eqb (recs s) id, file_path i (c_fmt c) with
        | Some _, KFile, Some _, Template.FOk p
        | Some _, KChained, Some _, Template.FOk p =>
            (mkState (reg s) (tags s) (recs s) (adel String.eqb (fs s) p) (mem s) (orig s), Refused Conflict)
        | _, _, _, _ => step c s x
        end
    | _ => step c s x
    end.

  (* ---- the guard under which the property holds ----------------------------------------------- *)
  (* the artifact path an operation is about to write, and for which dataset *)
  Definition writes (c : cfg) (s : state) (x : op) : option (N * string) :=
    match c_kind c with
    | KMem => None
    | _ =>
        match x with
        | Put id i _ =>
            match file_path i (c_fmt c) with Template.FOk p => Some (id, p) | _ => None end
        | Ingest _ id i _ =>
            match aget N.eqb (recs s) id with
            | Some _ => None                                  (* refused before anything is written (2da36a1) *)
            | None => match file_path i (c_fmt c) with Template.FOk p => Some (id, p) | _ => None end
            end
        | Transfer src id =>
            match aget N.eqb (recs src) id with Some r => Some (id, r_path r) | None => None end
        | _ => None
        end
    end.

  (* no record of ANOTHER dataset points at the path about to be written *)
  Definition collision_free (c : cfg) (s : state) (x : op) : bool :=
    match writes c s x with
    | None => true
    | Some (id, p) => negb (existsb (fun kr => negb (N.eqb (fst kr) id) && String.eqb (r_path (snd kr)) p) (recs s))
    end.

  (* an ingest of a dataset the datastore already holds (before 2da36a1 the refused operation that was not a no-op;
     no longer part of the guard) *)
  Definition reingest (s : state) (x : op) : bool :=
    match x with
    | Ingest _ id _ _ => match aget N.eqb (recs s) id with Some _ => true | None => false end
    | _ => false
    end.

  Fixpoint no_path_collision (c : cfg) (s : state) (h : list op) : bool :=
    match h with
    | [] => true
    | x :: r => collision_free c s x && no_path_collision c (fst (step c s x)) r
    end.

  (* ---- vocabulary of the theorems -------------------------------------------------------------- *)
  Definition has_rec (s : state) (id : N) : bool := match aget N.eqb (recs s) id with Some _ => true | None => false end.
  Definition has_mem (s : state) (id : N) : bool := match aget N.eqb (mem s) id with Some _ => true | None => false end.

  (* the datastore still holds the dataset (its record / in-memory entry has not been removed) *)
  Definition held (c : cfg) (s : state) (id : N) : bool :=
    match c_kind c with
    | KFile => has_rec s id
    | KMem => has_mem s id
    | KChained => has_mem s id || has_rec s id
    end.

  (* the operation is aimed at dataset id (stores it, re-ingests it, transfers it or removes it) *)
  Definition touches (x : op) (id : N) : bool :=
    match x with
    | Put k _ _ | Ingest _ k _ _ | Transfer _ k => N.eqb k id
    | Remove _ ids => memN id ids
    | Associate _ _ | Disassociate _ _ => false
    end.

  Definition purges (x : op) (id : N) : bool :=
    match x with Remove true ids => memN id ids | _ => false end.
End DS.

Arguments mkState {obj bytes}.
Arguments reg {obj bytes}. Arguments tags {obj bytes}. Arguments recs {obj bytes}.
Arguments fs {obj bytes}. Arguments mem {obj bytes}. Arguments orig {obj bytes}.
Arguments Got {obj}. Arguments Fail {obj}.
