(* C11, conversion clause: Model/TimeConv.v instantiated with real numbers and IEEE 754 binary64
   round-to-nearest-even as formalised by Flocq: every arithmetic operation returns
   round radix2 (FLT_exp (-1074) 53) ZnearestE (exact result)  -- gradual underflow included, no overflow
   (all magnitudes in the pipeline are below 2^49, see the theorems).  Definitions only. *)
From Coq Require Import ZArith Reals.
From Flocq Require Import Core.
From V Require Import Model.TimeConv.
Open Scope R_scope.

Definition b64_exp : Z -> Z := FLT_exp (-1074) 53.
Definition RN (x : R) : R := round radix2 b64_exp ZnearestE x.

Definition r_ops : fops R :=
  mk_fops R
    (fun m e => RN (IZR m * bpow radix2 e))
    (fun x y => RN (x + y)) (fun x y => RN (x - y)) (fun x y => RN (x * y)) (fun x y => RN (x / y))
    Ropp
    (fun x => IZR (ZnearestE x))
    (fun x => IZR (Zfloor x))
    Rlt_bool Req_bool Ztrunc.

(* the round trip nsec -> (jd1, jd2) -> nsec in binary64 arithmetic *)
Definition conv_jd (n : Z) : R * R := tc_nsec_to_jd R r_ops n.
Definition conv_to_nsec (t : R * R) : Z := tc_jd_to_nsec R r_ops t.
Definition conv_roundtrip (n : Z) : Z := tc_roundtrip R r_ops n.
