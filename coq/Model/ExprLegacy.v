(* C05 model, part 3: the LEGACY path  Registry.queryDataIds / queryDimensionRecords / queryDatasets(where=...)
   over the same `expr` (Model/Expr.v):

     ldnf / lcheck / lgov   registry/queries/expressions/normalForm.py (NormalFormExpression.fromTree, DISJUNCTIVE: NOT is
                            pushed to the atoms, AND distributed over OR) and check.py (InspectionVisitor per atom,
                            CheckVisitor.visitInner per AND-branch, visitOuter): which expressions are refused with
                            UserExpressionError ("No value(s) for governor dimensions", "Conflicting literal values"), and
                            the governor constraint handed to the dataset search (collections whose summary lacks every
                            listed value are dropped).  InspectionVisitor.visitUnaryOp returns its operand unchanged: a
                            NEGATED `instrument = v` atom counts exactly like a positive one (quirk kept).
     ltype / lsql           registry/queries/expressions/_predicate.py PredicateConversionVisitor (dtype discipline of the
                            `match` in visitBinaryOp / visitUnaryOp / visitIsIn) composed with lsst.daf.relation's
                            sql.Engine.convert_predicate / convert_column_expression (the Predicate tree maps 1:1 to
                            SQLAlchemy and_/or_/not_/==/in_/between).  Quirks kept:
                              * `%` is refused (KeyError '%': no entry in normalForm.BINARY_OPERATOR_PRECEDENCE);
                              * `.begin` / `.end` are refused (KeyError 'timespan.begin' in visitIdentifier);
                              * unary minus / plus yield a ColumnExpression WITHOUT dtype: every comparison / arithmetic /
                                IN item using it is refused (AssertionError "should not yield untyped nodes"), so a
                                negative literal written in expression position is refused too;
                              * `x = NULL` / `x != NULL` become the SQL comparisons `x = NULL` / `x != NULL` (never true);
                                on a timespan operand the statement fails at execution (ProgrammingError);
                              * a NULL item of an IN list is refused; a boolean column cannot be compared with NULL;
                              * a range literal a..b:s becomes  BETWEEN a AND b AND x % s = (a mod s)  with Python's floored
                                `a mod s` = SqlExpr.range_sql_old (the test repaired by d6d8862 on the new path only);
                                an inverted range (b < a - 1) is accepted and empty.
     lcompile               = lcheck, the governor values exist (else DataIdValueError), then lsql.
                            None = the interface raises (any error class).
   Not modelled (the model refuses, the generator never produces them): `<` / `>` between a time and a timespan,
   datetime operands, unary plus (transparent in `expr`; the harness does not send such cases to this model).

   iskey c   : the identifier behind column c is a dimension (primary-key) name: `dimension = literal` atoms on these are
               what InspectionVisitor records;   governed c : the column's dimension depends on the governor dimension;
   gov       : the governor's key column;  known : the governor values present in the repository.
   They are parameters: the harness supplies the fixture's table.

   No proofs in this file. *)
From Coq Require Import ZArith List Bool String.
From V Require Import Base.Tri Gen.TimespanGen Model.Expr Model.SqlExpr.
Import ListNotations.
Open Scope Z_scope.

(* ------------------------------------------------------------------ dtype of a ColumnExpression *)
Inductive lty := LInt | LReal | LStr | LTime | LSpan | LNull | LUntyped.
Definition lty_eqb (a b : lty) : bool :=
  match a, b with
  | LInt, LInt | LReal, LReal | LStr, LStr | LTime, LTime | LSpan, LSpan | LNull, LNull | LUntyped, LUntyped => true
  | _, _ => false
  end.
Definition lty_of_ty (t : ty) : option lty :=
  match t with
  | TyInt => Some LInt | TyReal => Some LReal | TyStr => Some LStr | TyTime => Some LTime | TySpan => Some LSpan
  | TyBool => None      (* boolean columns / values are Predicates, not ColumnExpressions *)
  end.
Definition lnumeric (t : lty) : bool := match t with LInt | LReal => true | _ => false end.
Definition lsortable (t : lty) : bool := match t with LInt | LReal | LStr | LTime => true | _ => false end.
Definition is_lnull (t : lty) : bool := match t with LNull => true | _ => false end.
Definition is_lspan (t : lty) : bool := match t with LSpan => true | _ => false end.

Fixpoint ltype (e : expr) : option lty :=
  match e with
  | ELit v => lty_of_ty (ty_of v)
  | ENull => Some LNull
  | ECol _ t => lty_of_ty t
  | EBegin _ | EEnd _ => None
  | ENeg a => match ltype a with Some t => if lnumeric t then Some LUntyped else None | None => None end
  | EArith o a b =>
      match ltype a, ltype b with
      | Some ta, Some tb =>
          match o with
          | OMod => None
          | _ => if lnumeric ta && lty_eqb ta tb then Some ta else None
          end
      | _, _ => None
      end
  | _ => None
  end.

(* ------------------------------------------------------------------ IN lists (visitIsIn) *)
(* one right-hand item: a range becomes its own clause, everything else joins the single value list *)
Inductive lin := LClause (q : sql) | LItems (l : list sql).
Definition lin_item (m : sql) (ta : lty) (it : item) : option lin :=
  match it with
  | ISeq vs =>
      match vs with
      | [] => Some (LItems [])       (* empty bound container: dtype None, always accepted *)
      | _ => if forallb (fun v => match lty_of_ty (ty_of v) with Some t => lty_eqb t ta | None => false end) vs
             then Some (LItems (map (fun v => SVal (Some v)) vs)) else None
      end
  | IRange s e st =>
      if lty_eqb ta LInt && (1 <=? stride_of st) then Some (LClause (range_sql_old m s e (stride_of st))) else None
  | ILit v => match lty_of_ty (ty_of v) with Some t => if lty_eqb t ta then Some (LItems [SVal (Some v)]) else None | None => None end
  | ICol c t => match lty_of_ty t with Some t' => if lty_eqb t' ta then Some (LItems [SCol c]) else None | None => None end
  | INull => if lty_eqb ta LNull then Some (LItems [SVal None]) else None
  end.
Fixpoint lin_items (m : sql) (ta : lty) (its : list item) (clauses items : list sql) : option (list sql * list sql) :=
  match its with
  | [] => Some (clauses, items)
  | it :: r =>
      match lin_item m ta it with
      | Some (LClause q) => lin_items m ta r (clauses ++ [q]) items
      | Some (LItems l) => lin_items m ta r clauses (items ++ l)
      | None => None
      end
  end.

(* ------------------------------------------------------------------ expression -> Predicate -> SQL *)
Fixpoint lsql (e : expr) : option sql :=
  match e with
  | ECol c TyBool => Some (SCol c)
  | ECmp o a b =>
      match ltype a, ltype b with
      | Some ta, Some tb =>
          if lsortable ta && lty_eqb ta tb then Some (SCmp o (sc a) (sc b))
          else if cop_is_eq o && (is_lnull ta || is_lnull tb) then
            if is_lspan ta || is_lspan tb then None else Some (SCmp o (sc a) (sc b))
          else None
      | _, _ => None
      end
  | EOverlaps a b =>
      match ltype a, ltype b with
      | Some LSpan, Some LSpan => Some (SOverlaps (sc a) (sc b))
      | Some LSpan, Some LTime => Some (SContainsT (sc a) (sc b))
      | Some LTime, Some LSpan => Some (SContainsT (sc b) (sc a))
      | _, _ => None
      end
  | EIn a its ng =>
      match ltype a with
      | Some ta =>
          match lin_items (sc a) ta its [] [] with
          | Some (clauses, items) =>
              let q := or_sql (clauses ++ match items with [] => [] | _ => [SIn (sc a) items] end) in
              Some (if ng then SNot q else q)
          | None => None
          end
      | None => None
      end
  | ENot a => match lsql a with Some q => Some (SNot q) | None => None end
  | EAnd a b => match lsql a, lsql b with Some p, Some q => Some (SAnd [p; q]) | _, _ => None end
  | EOr a b => match lsql a, lsql b with Some p, Some q => Some (SOr [p; q]) | _, _ => None end
  | _ => None
  end.

(* ------------------------------------------------------------------ normal form + CheckVisitor *)
Definition cross {A} (x y : list (list A)) : list (list A) := flat_map (fun a => map (fun b => a ++ b) y) x.

(* disjunctive normal form: OR of AND-branches of (negated?, atom) *)
Fixpoint ldnf (ng : bool) (e : expr) : list (list (bool * expr)) :=
  match e with
  | ENot a => ldnf (negb ng) a
  | EAnd a b => if ng then ldnf ng a ++ ldnf ng b else cross (ldnf ng a) (ldnf ng b)
  | EOr a b => if ng then cross (ldnf ng a) (ldnf ng b) else ldnf ng a ++ ldnf ng b
  | _ => [[(ng, e)]]
  end.

Definition item_cols (it : item) : list col := match it with ICol c _ => [c] | _ => [] end.
Fixpoint cols_of (e : expr) : list col :=
  match e with
  | ELit _ | ENull => []
  | ECol c _ => [c]
  | EBegin a | EEnd a | ENeg a | ENot a => cols_of a
  | EArith _ a b | ECmp _ a b | EOverlaps a b | EAnd a b | EOr a b => cols_of a ++ cols_of b
  | EIn a its _ => cols_of a ++ flat_map item_cols its
  end.

Definition veqb (x y : value) : bool :=
  match x, y with
  | VInt a, VInt b => a =? b
  | VReal a p, VReal b q => (a =? b) && Pos.eqb p q
  | VStr a, VStr b => String.eqb a b
  | VTime a, VTime b => a =? b
  | VSpan a b, VSpan c d => (a =? c) && (b =? d)
  | VBool a, VBool b => Bool.eqb a b
  | _, _ => false
  end.

Section Check.
  Variable iskey : col -> bool.
  Variable governed : col -> bool.
  Variable gov : col.
  Variable known : list value.      (* the governor values that exist in the repository *)

  (* TreeSummary.dataIdKey / dataIdValue of an operand (unary operators and parentheses are transparent) *)
  Fixpoint key_of (e : expr) : option col :=
    match e with ECol c _ => if iskey c then Some c else None | ENeg a => key_of a | _ => None end.
  Fixpoint val_of (e : expr) : option value :=
    match e with
    | ELit v => match v with VInt _ | VReal _ _ | VStr _ => Some v | _ => None end
    | ENeg a => val_of a
    | _ => None
    end.
  (* `key = value` / `value = key`; the sign of the atom is NOT looked at *)
  Definition atom_kv (a : bool * expr) : list (col * value) :=
    match snd a with
    | ECmp CEq x y =>
        match key_of x, val_of y with
        | Some k, Some v => [(k, v)]
        | _, _ => match val_of x, key_of y with Some v, Some k => [(k, v)] | _, _ => [] end
        end
    | _ => []
    end.
  Fixpoint kv_first (k : col) (l : list (col * value)) : option value :=
    match l with [] => None | (c, v) :: r => if N.eqb c k then Some v else kv_first k r end.
  (* visitInner: setdefault + "Conflicting literal values" *)
  Fixpoint kv_consistent (seen l : list (col * value)) : bool :=
    match l with
    | [] => true
    | (k, v) :: r =>
        match kv_first k seen with
        | Some v0 => veqb v0 v && kv_consistent seen r
        | None => kv_consistent (seen ++ [(k, v)]) r
        end
    end.
  Definition branch_kvs (br : list (bool * expr)) : list (col * value) := flat_map atom_kv br.
  Definition branch_needs_gov (br : list (bool * expr)) : bool :=
    existsb (fun a => existsb governed (cols_of (snd a))) br.
  Definition branch_ok (br : list (bool * expr)) : bool :=
    let kvs := branch_kvs br in
    kv_consistent [] kvs && (negb (branch_needs_gov br) || match kv_first gov kvs with Some _ => true | None => false end).

  Definition lcheck (e : expr) : bool := forallb branch_ok (ldnf false e).

  (* visitOuter: the governor is constrained only if every branch fixes it; then the values of all branches *)
  Fixpoint all_some {A} (l : list (option A)) : option (list A) :=
    match l with
    | [] => Some []
    | Some x :: r => match all_some r with Some t => Some (x :: t) | None => None end
    | None :: _ => None
    end.
  Definition lgov (e : expr) : option (list value) :=
    all_some (map (fun br => kv_first gov (branch_kvs br)) (ldnf false e)).

  (* "Unknown values specified for governor dimension" (DataIdValueError): every value of the constraint must exist *)
  Definition lgov_known (e : expr) : bool :=
    match lgov e with Some vs => forallb (fun v => existsb (veqb v) known) vs | None => true end.

  Definition lcompile (e : expr) : option sql := if lcheck e && lgov_known e then lsql e else None.
End Check.

(* ------------------------------------------------------------------ dataset search: collections pruned by governor *)
(* a candidate row of a dataset search carries its RUN in column runcol; runs : RUN name -> governor values in its
   collection summary.  A row survives iff the governor is unconstrained or its RUN's summary has one of the values. *)
Definition run_has (runs : list (string * list value)) (r : string) (vs : list value) : bool :=
  match find (fun p => String.eqb (fst p) r) runs with
  | Some (_, gs) => existsb (fun v => existsb (veqb v) gs) vs
  | None => false
  end.
Definition lprune_row (runs : list (string * list value)) (g : option (list value)) (run : nv) : bool :=
  match g, run with
  | Some vs, Some (VStr r) => run_has runs r vs
  | _, _ => true
  end.

(* ------------------------------------------------------------------ the fragment on which the legacy SQL is right *)
(* row-dependent part: the member of every STRIDED range (step > 1, more than one element) is NULL or >= 0 on this row *)
Definition nonneg_or_null (x : nv) : bool := match x with None => true | Some (VInt z) => 0 <=? z | Some _ => true end.
Definition item_stride_ok (x : nv) (it : item) : bool :=
  match it with
  | IRange a b st => (stride_of st =? 1) || (a =? b) || nonneg_or_null x
  | _ => true
  end.
Fixpoint stride_ok (rho : env) (e : expr) : bool :=
  match e with
  | EIn a its _ => forallb (item_stride_ok (dval rho a)) its
  | ENot a => stride_ok rho a
  | EAnd a b | EOr a b => stride_ok rho a && stride_ok rho b
  | _ => true
  end.
(* syntactic part: no comparison with NULL (the legacy `x = NULL` is the SQL comparison, never true) *)
Fixpoint no_null_cmp (e : expr) : bool :=
  match e with
  | ECmp _ a b => negb (is_ENull a) && negb (is_ENull b)
  | ENot a => no_null_cmp a
  | EAnd a b | EOr a b => no_null_cmp a && no_null_cmp b
  | _ => true
  end.
