(* Executable checkers for the correspondence check (tie K) of C02's second layer (Model/RegistryX.v): histories with
   CHAINED / CALIBRATION collections, certify, setCollectionChain and removeDatasetType replayed on the model and
   compared, step by step, with what the real registry reported.  The first-layer part of every observation (RUN / TAGGED
   collections, dataset table, tag rows, pruned queries, summaries) goes through RegistryCheck.chk_step unchanged. *)
From Coq Require Import NArith List Bool.
From V Require Import Model.Registry Model.RegistryAbs Model.RegistryCheck Model.RegistryX.
Import ListNotations.
Open Scope N_scope.

Definition xout_code (o : xout) : N :=
  match o with
  | B r => out_code r
  | X SqlErr => 7 | X DatasetTypeErr => 8 | X Orphaned => 9 | X Cycle => 10
  end.
Definition xk_code (k : xkind) : N := match k with CHAINED => 3 | CALIBRATION => 4 end.

(* remove adjacent duplicates of a sorted list *)
Fixpoint uniql (l : list (list N)) : list (list N) :=
  match l with
  | [] => []
  | x :: r => match r with
              | [] => [x]
              | y :: _ => if leqb x y then uniql r else x :: uniql r
              end
  end.

Definition m_kinds (s : xstate) := sortl (map (fun p => [fst p; xk_code (snd p)]) (xcolls s)).
Definition m_chains (s : xstate) :=
  sortl (flat_map (fun p => match snd p with CHAINED => [fst p :: chain_of s (fst p)] | CALIBRATION => [] end) (xcolls s)).
Definition m_cal (s : xstate) := sortl (map (fun q => [q_coll q; q_type q; q_data q; q_id q; q_b q; q_e q]) (calibs s)).

Record xobs := XObs {
  x_out : N;
  x_base : obs;                   (* first-layer observation (o_out is not used: 0) *)
  x_kinds : list (list N);        (* API getCollectionType: [c; 3 = CHAINED | 4 = CALIBRATION] *)
  x_chains : list (list N);       (* API getCollectionChain: c :: children *)
  x_cal : list (list N);          (* raw dataset_calibs_* rows: [c; t; d; id; b; e] *)
  x_view : list (list N);         (* queryDatasets(findFirst=False) over every CHAINED / CALIBRATION collection, as a set *)
  x_first : list (list N);        (* queryDatasets(findFirst=True) over every CHAINED collection, non-calibration types *)
  x_summ_t : list (list N);       (* getCollectionSummary of CHAINED / CALIBRATION collections *)
  x_summ_g : list (list N)
}.

Section Universe.
  Variables (cs ts gs : list N).

  Definition is_x (s : xstate) (c : N) : bool := match xkind_of s c with Some _ => true | None => false end.
  Definition is_chained (s : xstate) (c : N) : bool := match xkind_of s c with Some CHAINED => true | _ => false end.

  Definition m_view_raw (s : xstate) : list (list N) :=
    flat_map (fun c => if is_x s c then flat_map (fun t => map (fun p => [c; t; fst p; snd p]) (view s c t)) ts else []) cs.
  Definition m_view (s : xstate) := uniql (sortl (m_view_raw s)).
  Definition m_first (s : xstate) : list (list N) :=
    sortl (flat_map (fun c => if is_chained s c then
      flat_map (fun t => if is_calib_type t then [] else
        flat_map (fun d => match view_first s c t d with Some i => [[c; t; d; i]] | None => [] end) [0; 1; 2; 3]) ts else []) cs).
  (* what the summaries of the CHAINED / CALIBRATION collections must at least contain *)
  Definition m_xneed_t (s : xstate) := map (fun r => match r with c :: t :: _ => [c; t] | _ => [] end) (m_view_raw s).
  Definition m_xneed_g (s : xstate) := map (fun r => match r with c :: _ :: d :: _ => [c; gov_of d] | _ => [] end) (m_view_raw s).

  (* first differing field of one step: 0 = agrees; 1..9 are the first layer's fields *)
  Definition xchk_step (s : xstate) (o : xout) (b : xobs) : N :=
    if negb (xout_code o =? x_out b) then 1 else
    match chk_step cs ts gs (base s) Ok (x_base b) with
    | 0 =>
      if negb (lleqb (m_kinds s) (x_kinds b)) then 11 else
      if negb (lleqb (m_chains s) (x_chains b)) then 12 else
      if negb (lleqb (m_cal s) (x_cal b)) then 13 else
      if negb (lleqb (m_view s) (x_view b)) then 14 else
      if negb (lleqb (m_first s) (x_first b)) then 15 else
      if negb (subl (m_xneed_t s) (x_summ_t b)) then 16 else
      if negb (subl (m_xneed_g s) (x_summ_g b)) then 17 else 0
    | k => k
    end.

  Fixpoint xchk_from (s : xstate) (i : N) (h : list (xop * xobs)) : list N :=
    match h with
    | [] => []
    | (o, b) :: r =>
      let '(s', out) := xstep s o in
      match xchk_step s' out b with
      | 0 => xchk_from s' (N.succ i) r
      | k => [i; k]
      end
    end.
  Definition xchk_where (h : list (xop * xobs)) : list N := xchk_from xinit 0 h.
  Definition xchk_hist (h : list (xop * xobs)) : bool := match xchk_where h with [] => true | _ => false end.
End Universe.
