(* Kleene / SQL three-valued logic *)
From Coq Require Import Bool ZArith.

Inductive tri := TT | FF | UU.

Definition tri_of_bool (b : bool) : tri := if b then TT else FF.
Definition tri_and (a b : tri) : tri :=
  match a, b with
  | FF, _ | _, FF => FF
  | TT, TT => TT
  | _, _ => UU
  end.
Definition tri_or (a b : tri) : tri :=
  match a, b with
  | TT, _ | _, TT => TT
  | FF, FF => FF
  | _, _ => UU
  end.
Definition tri_not (a : tri) : tri := match a with TT => FF | FF => TT | UU => UU end.
Definition tri_is_true (a : tri) : bool := match a with TT => true | _ => false end.
Definition tri_eqb (a b : tri) : bool :=
  match a, b with TT, TT | FF, FF | UU, UU => true | _, _ => false end.

(* nullable integer columns *)
Definition sv := option Z.
Definition sv_cmp (f : Z -> Z -> bool) (a b : sv) : tri :=
  match a, b with
  | Some x, Some y => tri_of_bool (f x y)
  | _, _ => UU
  end.
Definition sv_lt := sv_cmp Z.ltb.
Definition sv_le := sv_cmp Z.leb.
Definition sv_gt := sv_cmp Z.gtb.
Definition sv_ge := sv_cmp Z.geb.
Definition sv_eq := sv_cmp Z.eqb.
Definition sv_ne := sv_cmp (fun x y => negb (Z.eqb x y)).
Definition sv_is_null (a : sv) : bool := match a with None => true | Some _ => false end.
