(* C09 -- Artifacts are deleted only when unreferenced, and only inside the datastore root.
   Statements only; every proof is `exact <lemma>` from Proofs/TrashProofs*.v.

   Model/Trash.v: record table (dataset id, record path with optional "#fragment", absolute = not owned),
   dataset_location (live) / dataset_location_trash (trash), one file map keyed by the location relative to
   the root (first component ".." or "/" = outside).  Operations Put / Ingest(copy|move; one file for several
   refs) / IngestDirect / IngestInPlace / IngestZip / Trash / EmptyTrash / Prune / RemoveRun, plus Ext (the
   environment writes or removes a file).  Template statements are over the default template and sanitising
   tables REGENERATED from /repo (Gen/TemplateGen.v).

   `guarded s h`: along the history, at every step (1) sharing_visible: two record rows that name one location
   carry the same text or are fragment paths of one artifact text, (2) the step is not an ingest of a dataset
   the datastore already holds, (3) the location the step writes is inside the root, (4) every relative record
   path names a location inside the root.  Each guard is NECESSARY on the code as it is: see the _refuted
   theorems (all four reproduced on the real Butler; known findings). *)
From Coq Require Import String Ascii List Bool NArith.
From V Require Import Model.Template Gen.TemplateGen Model.Trash
                      Proofs.TrashProofs Proofs.TrashProofs2 Proofs.TrashProofs3.
Import ListNotations.
Open Scope string_scope.

(* MAIN 1.  For EVERY start state and EVERY guarded history: whenever a step makes a file disappear (other than
   a file the environment itself removed or the source of a requested move), no dataset that is still stored
   has a record that names that file -- shared multi-ref files, zip members and fragments included. *)
Theorem delete_only_unreferenced : forall h1 x h2 s l c,
  guarded s (h1 ++ x :: h2) = true ->
  touches_env (run s h1) x l = false ->
  fget (fs (run s h1)) l = Some c -> fget (fs (fst (step (run s h1) x))) l = None ->
  referenced (fst (step (run s h1) x)) l = false.
Proof. exact delete_only_unreferenced_p. Qed.
Print Assumptions delete_only_unreferenced.

(* one step, any state (the induction step of MAIN 1) *)
Theorem step_deletes_unreferenced : forall s x l c,
  sharing_visible s = true -> reingest s x = false -> target_inside x = true ->
  touches_env s x l = false ->
  fget (fs s) l = Some c -> fget (fs (fst (step s x))) l = None ->
  referenced (fst (step s x)) l = false.
Proof. exact step_deletes_unreferenced_p. Qed.
Print Assumptions step_deletes_unreferenced.

(* emptyTrash itself needs only guard (1), for every state whatsoever *)
Theorem empty_trash_unreferenced : forall s l c,
  sharing_visible s = true ->
  fget (fs s) l = Some c -> fget (fs (empty_trash s)) l = None ->
  referenced (empty_trash s) l = false.
Proof. exact empty_trash_unreferenced_p. Qed.
Print Assumptions empty_trash_unreferenced.

(* siblings survive: while a still-stored dataset names the file, pruning others leaves it in place, unchanged *)
Theorem shared_survives : forall s ids l c,
  sharing_visible s = true -> fget (fs s) l = Some c ->
  referenced (empty_trash (do_trash s ids)) l = true ->
  fget (fs (fst (step s (Prune ids)))) l = Some c.
Proof. exact shared_survives_p. Qed.
Print Assumptions shared_survives.

(* MAIN 2.  For EVERY start state and EVERY guarded history: a location outside the root (sentinel area,
   direct-ingested / absolute files, anything above the root) that the environment itself does not touch has the
   same content -- or the same absence -- at the end as at the start: nothing is created, overwritten or removed. *)
Theorem never_touch_foreign : forall h s l,
  guarded s h = true -> inside l = false -> untouched_by_env s h l = true ->
  fget (fs (run s h)) l = fget (fs s) l.
Proof. exact never_touch_foreign_p. Qed.
Print Assumptions never_touch_foreign.

Theorem step_outside_frame : forall s x l,
  recs_inside s = true -> target_inside x = true -> inside l = false -> touches_env s x l = false ->
  fget (fs (fst (step s x))) l = fget (fs s) l.
Proof. exact step_outside_frame_p. Qed.
Print Assumptions step_outside_frame.

(* absolute (direct-ingested) record paths are never removed by emptyTrash; trash touches no file at all *)
Theorem trash_touches_no_file : forall s ids, fs (do_trash s ids) = fs s.
Proof. exact do_trash_fs. Qed.
Print Assumptions trash_touches_no_file.

(* ---- containment of the file template -------------------------------------------------------------------- *)

(* partial: for names without "%" decoding is the identity, so the written location is exactly the normalised
   template text with its extension.  (Missing for full strength: that text re-normalises to itself, i.e. its
   first component is not ".." -- FileTemplate.format's check, finish_path, guarantees that for the text before
   the extension is attached; the step from there is compared on every run, not proved.) *)
Theorem writes_inside_root_partial : forall p ext,
  no_pct p = true -> no_pct (set_ext p ext) = true -> is_abs (set_ext p ext) = false ->
  target_loc p ext = norm_comps (set_ext p ext).
Proof. exact target_loc_plain_p. Qed.
Print Assumptions writes_inside_root_partial.

Theorem record_location_plain_partial : forall p,
  no_pct p = true -> is_abs p = false -> no_pct (strip_frag p) = true -> is_abs (strip_frag p) = false ->
  loc p = norm_comps (strip_frag p).
Proof. exact loc_plain_p. Qed.
Print Assumptions record_location_plain_partial.

(* the check added by cf1a6db is needed: without it "../outside" resolves outside the root *)
Theorem containment_refuted_without_check :
  exists run raw, fmt run = FOutside
    /\ format_raw GEN_SAN_VALUE GEN_SAN_SLASH (fst GEN_DEFAULT) (fields_D "dtD" run "Cam" "0" "det0") "" = Some raw
    /\ inside (target_loc (finish_path_unchecked (fix_tail GEN_SAN_TAIL raw)) ".yaml") = false.
Proof. exact containment_refuted_without_check_p. Qed.
Print Assumptions containment_refuted_without_check.

(* ... and it is not sufficient: a run whose percent-escapes decode to ".." passes it (FINDING, reproduced) *)
Theorem containment_refuted :
  exists run p, fmt run = FOk p /\ inside (target_loc p ".yaml") = false.
Proof. exact containment_refuted_p. Qed.
Print Assumptions containment_refuted.

Theorem outside_put_refuted :
  exists run s', fget (fs st0) sent0 = Some 2%N
    /\ step st0 (Put 1 (fmt run) ".yaml" 9) = (s', Refused RuntimeErr)
    /\ fget (fs s') sent0 = None /\ inside sent0 = false.
Proof. exact outside_put_refuted_p. Qed.
Print Assumptions outside_put_refuted.

Theorem outside_ingest_refuted :
  exists run s1,
    step st0 (Ingest Copy [1%N] (fmt run) ".yaml" stage0) = (s1, Done)
    /\ fget (fs st0) sent0 = Some 2%N /\ fget (fs s1) sent0 = Some 1%N
    /\ recs_inside s1 = false
    /\ fget (fs (fst (step s1 (Prune [1%N])))) sent0 = None.
Proof. exact outside_ingest_refuted_p. Qed.
Print Assumptions outside_ingest_refuted.

(* ---- the guards of MAIN 1 are necessary (FINDINGS, reproduced) ---------------------------------------------------- *)
Theorem delete_refuted_alias :
  exists s l c,
    s = run st0 [Put 1 (fmt "aJb") ".yaml" 5; Ingest Copy [2%N] (fmt "a%4ab") ".yaml" stage0]
    /\ sharing_visible s = false
    /\ fget (fs s) l = Some c /\ fget (fs (fst (step s (Prune [2%N])))) l = None
    /\ referenced (fst (step s (Prune [2%N]))) l = true /\ inside l = true.
Proof. exact alias_refuted_p. Qed.
Print Assumptions delete_refuted_alias.

Theorem delete_refuted_reingest :
  exists s x l c,
    s = run st0 [Ingest Copy [1%N] (fmt "r1") ".yaml" stage0]
    /\ reingest s x = true /\ snd (step s x) = Refused Conflict
    /\ fget (fs s) l = Some c /\ fget (fs (fst (step s x))) l = None /\ referenced (fst (step s x)) l = true.
Proof. exact reingest_refuted_p. Qed.
Print Assumptions delete_refuted_reingest.

Theorem delete_refuted_zip_reingest :
  exists s x l c,
    s = run st0 [IngestZip [(1%N, "m1"); (2%N, "m2")] "zips/ab/z.zip" 7]
    /\ reingest s x = true /\ snd (step s x) = Refused Conflict
    /\ fget (fs s) l = Some c /\ fget (fs (fst (step s x))) l = None /\ referenced (fst (step s x)) l = true.
Proof. exact zip_reingest_refuted_p. Qed.
Print Assumptions delete_refuted_zip_reingest.

(* ---- non-vacuity ---------------------------------------------------------------------------------------------------- *)
(* a guarded history with a file shared by two refs, a zip with two members and a direct-ingested sentinel file *)
Example demo_guarded : guarded st0 demo = true.
Proof. vm_compute. reflexivity. Qed.

(* pruning one ref of the shared file and one zip member deletes nothing ... *)
Example demo_siblings_keep :
  let s := run st0 (firstn 5 demo) in
  fget (fs s) ["r2"; "dtD"; "dtD_Cam_det0_r2.yaml"] = Some 1%N /\ fget (fs s) ["zips"; "ab"; "z.zip"] = Some 7%N
  /\ referenced s ["r2"; "dtD"; "dtD_Cam_det0_r2.yaml"] = true.
Proof. vm_compute. repeat split; reflexivity. Qed.

(* ... the last ref takes the file with it, the direct-ingested file outside the root stays *)
Example demo_last_ref_deletes :
  let s := run st0 demo in
  fget (fs s) ["r2"; "dtD"; "dtD_Cam_det0_r2.yaml"] = None /\ fget (fs s) ["r1"; "dtD"; "dtD_Cam_det0_r1.yaml"] = None
  /\ fget (fs s) sent0 = Some 2%N /\ fget (fs s) ["zips"; "ab"; "z.zip"] = Some 7%N
  /\ untouched_by_env st0 demo sent0 = true.
Proof. vm_compute. repeat split; reflexivity. Qed.

Example plain_names_exist : no_pct "r1/dtD/dtD_Cam_det0_r1" = true /\ no_pct (set_ext "r1/dtD/dtD_Cam_det0_r1" ".yaml") = true.
Proof. vm_compute. split; reflexivity. Qed.
