(* C09 -- Artifacts are deleted only when unreferenced, and only inside the datastore root.
   Statements only; every proof is `exact <lemma>` from Proofs/TrashProofs*.v.

   Model/Trash.v: record table (dataset id, record path with optional "#fragment", absolute = not owned),
   dataset_location (live) / dataset_location_trash (trash), one file map keyed by the location relative to
   the root (first component ".." or "/" = outside).  Operations Put / Ingest(copy|move; one file for several
   refs) / IngestDirect / IngestInPlace / IngestZip / Trash / EmptyTrash / Prune / RemoveRun, plus Ext (the
   environment writes or removes a file).  Template statements are over the default template and sanitising
   tables REGENERATED from /repo (Gen/TemplateGen.v).

   `guarded s h`: along the history, at every step (1) sharing_visible: two record rows that name one location
   carry the same text or are fragment paths of one artifact text, [(2) "the step is not an ingest of a dataset the
   datastore already holds" -- DISCHARGED since 2da36a1: the code refuses it before any transfer,
   ingest_refused_changes_nothing], (3) the location the step writes is inside the root, (4) every relative record
   path names a location inside the root.  Guards (1) and (2) are NECESSARY on the code as it is: see the
   delete_refuted_* theorems (reproduced on the real Butler; known findings).  Since df0ecd0 the check that makes
   (3) true for put / ingest is part of the code (unchecked_*_refused, writes_inside_root_partial). *)
From Coq Require Import String Ascii List Bool NArith.
From V Require Import Model.Template Gen.TemplateGen Gen.TrashGen Model.Trash Model.TrashCheck
                      Proofs.TrashProofs Proofs.TrashProofs2 Proofs.TrashProofs3 Proofs.TrashProofsX1 Proofs.TrashProofsX2 Proofs.TrashProofsX3.
Import ListNotations.
Open Scope string_scope.

(* MAIN 1.  For EVERY start state and EVERY guarded history: whenever a step makes a file disappear (other than
   a file the environment itself removed or the source of a requested move), no dataset that is still stored
   has a record that names that file -- shared multi-ref files, zip members and fragments included. *)
Theorem delete_only_unreferenced : forall h1 x h2 s l c,
  guarded s (h1 ++ x :: h2) = true ->
  touches_env (run s h1) x l = false ->
  fget (fs (run s h1)) l = Some c -> fget (fs (fst (step (run s h1) x))) l = None ->
  referenced (fst (step (run s h1) x)) l = false.
Proof. exact delete_only_unreferenced_p. Qed.
Print Assumptions delete_only_unreferenced.

(* one step, any state (the induction step of MAIN 1) *)
Theorem step_deletes_unreferenced : forall s x l c,
  sharing_visible s = true -> target_inside x = true -> put_coherent x = true ->
  live_trash_disjoint s = true ->
  touches_env s x l = false ->
  fget (fs s) l = Some c -> fget (fs (fst (step s x))) l = None ->
  referenced (fst (step s x)) l = false.
Proof. exact step_deletes_unreferenced_p. Qed.
Print Assumptions step_deletes_unreferenced.

(* emptyTrash itself needs only guard (1), for every state whatsoever *)
Theorem empty_trash_unreferenced : forall s l c,
  sharing_visible s = true ->
  fget (fs s) l = Some c -> fget (fs (empty_trash s)) l = None ->
  referenced (empty_trash s) l = false.
Proof. exact empty_trash_unreferenced_p. Qed.
Print Assumptions empty_trash_unreferenced.

(* siblings survive: while a still-stored dataset names the file, pruning others leaves it in place, unchanged *)
Theorem shared_survives : forall s ids l c,
  sharing_visible s = true -> live_trash_disjoint s = true -> fget (fs s) l = Some c ->
  referenced (fst (step s (Prune ids))) l = true ->
  fget (fs (fst (step s (Prune ids)))) l = Some c.
Proof. exact shared_survives_p. Qed.
Print Assumptions shared_survives.

(* MAIN 2.  For EVERY start state and EVERY guarded history: a location outside the root (sentinel area,
   direct-ingested / absolute files, anything above the root) that the environment itself does not touch has the
   same content -- or the same absence -- at the end as at the start: nothing is created, overwritten or removed. *)
Theorem never_touch_foreign : forall h s l,
  guarded s h = true -> inside l = false -> untouched_by_env s h l = true ->
  fget (fs (run s h)) l = fget (fs s) l.
Proof. exact never_touch_foreign_p. Qed.
Print Assumptions never_touch_foreign.

(* MAIN 2 AT FULL STRENGTH (5539e78 modelled): NO guard on the state or on the records.  For EVERY start state -- any record
   table, including records that resolve outside the root -- and EVERY history whose operations are well-formed (op_ok: put /
   ingest carry a formatter extension, a zip path is inside, a put's text is not the root itself): a location outside the
   root that the environment does not touch keeps its content or absence.  Guard (4) recs_inside is discharged: the code
   enforces it each time a record is turned into a location. *)
Theorem never_touch_foreign_full : forall h s l,
  all_ops_ok h = true -> inside l = false -> untouched_by_env s h l = true ->
  fget (fs (run s h)) l = fget (fs s) l.
Proof. exact never_touch_foreign_full_p. Qed.
Print Assumptions never_touch_foreign_full.

Theorem step_outside_frame_full : forall s x l,
  op_ok x = true -> inside l = false -> touches_env s x l = false ->
  fget (fs (fst (step s x))) l = fget (fs s) l.
Proof. exact step_outside_frame_full_p. Qed.
Print Assumptions step_outside_frame_full.

(* emptyTrash / prune / removeRuns, ANY state, ANY records: nothing outside the root changes *)
Theorem removal_never_outside : forall s ids l, inside l = false ->
  fget (fs (fst (step s EmptyTrash))) l = fget (fs s) l
  /\ fget (fs (fst (step s (Prune ids)))) l = fget (fs s) l
  /\ fget (fs (fst (step s (RemoveRun ids)))) l = fget (fs s) l.
Proof. exact removal_never_outside_p. Qed.
Print Assumptions removal_never_outside.

Theorem step_outside_frame : forall s x l,
  target_inside x = true -> put_coherent x = true -> inside l = false -> touches_env s x l = false ->
  fget (fs (fst (step s x))) l = fget (fs s) l.
Proof. exact step_outside_frame_p. Qed.
Print Assumptions step_outside_frame.

(* absolute (direct-ingested) record paths are never removed by emptyTrash; trash touches no file at all *)
Theorem trash_touches_no_file : forall s ids, fs (do_trash s ids) = fs s.
Proof. exact do_trash_fs. Qed.
Print Assumptions trash_touches_no_file.

(* an absolute record path (transfer="direct": a file the datastore does not own, outside OR below its root) is never
   removed by emptyTrash, whatever the rest of the record table says *)
Theorem direct_never_deleted : forall s p, is_abs p = true -> deletes s p = false /\ poison s p = false.
Proof. exact direct_never_deleted_p. Qed.
Print Assumptions direct_never_deleted.

(* ---- containment ------------------------------------------------------------------------------------------------ *)

(* the model's `step` is the code of the working tree: FileDatastore builds the location of a new artifact with
   trusted_path=False at both sites (GEN_LOCATION_CHECKED, df0ecd0) and StoredFileInfo.file_location builds the location of a
   relative RECORD path with trusted_path=False (GEN_RECORD_CHECKED, 5539e78); and _finishIngest / ingest_zip refuse a
   dataset the datastore already holds BEFORE any transfer (GEN_INGEST_CHECKED, 2da36a1), and both template sites go through
   _location_from_template, which demands that the recorded path leads back to the written location (GEN_WRITE_RULE, a79f022); the four flags are regenerated from
   fileDatastore.py / stored_file_info.py / _location.py on every run; reverting any of the commits makes this theorem fail *)
Theorem model_is_the_code : step_v GEN_LOCATION_CHECKED GEN_RECORD_CHECKED GEN_INGEST_CHECKED GEN_WRITE_RULE = step.
Proof. reflexivity. Qed.
Print Assumptions model_is_the_code.

(* For ALL run / data-ID / dataset-type names (any template text p whatsoever, any escapes): a text whose RESOLVED
   (decoded, normalised) location is not under the root is refused before anything is written -- put ... *)
Theorem unchecked_put_refused : forall s id p ext c,
  inside (rel_loc (stage_a p)) = false -> step s (Put id (FOk p) ext c) = (s, Refused ValueErr).
Proof. exact unchecked_put_refused_p. Qed.
Print Assumptions unchecked_put_refused.

(* ... and ingest (copy / move), whatever the source *)
Theorem unchecked_ingest_refused : forall s m ids p ext src,
  inside (rel_loc (stage_a p)) = false ->
  fst (step s (Ingest m ids (FOk p) ext src)) = s /\ snd (step s (Ingest m ids (FOk p) ext src)) <> Done.
Proof. exact unchecked_ingest_refused_p. Qed.
Print Assumptions unchecked_ingest_refused.

(* writes_inside_root, for ALL texts (no restriction on "%", any escapes) and every extension of the shape ".x..." without
   "/" and "%" (good_ext; every formatter extension, good_ext_formatters): the location Location CHECKED is inside => the
   location WRITTEN after the extension is attached is inside.  Unconditional: the former premise ext_bridge is a theorem. *)
Theorem writes_inside_root : forall p ext,
  good_ext ext = true -> checked true p = true -> inside (target_loc p ext) = true.
Proof. exact writes_inside_root_p. Qed.
Print Assumptions writes_inside_root.

(* the link itself, for all strings: attaching the extension keeps every decoded component but the last and makes the last
   an ordinary name (unq distributes over ++ at a non-hex boundary, split_slash over ++) *)
Theorem ext_bridge_holds : forall p ext,
  good_ext ext = true -> is_abs (unq (stage_a p)) = false -> ext_bridge p ext = true.
Proof. exact ext_bridge_holds_p. Qed.
Print Assumptions ext_bridge_holds.

Theorem unquote_distributes : forall a b, nonhex_head b -> unq (a ++ b) = unq a ++ unq b.
Proof. exact unq_app. Qed.
Print Assumptions unquote_distributes.

(* kept under its old name (now a corollary shape: the premise ext_bridge is always true by ext_bridge_holds) *)
Theorem writes_inside_root_partial : forall p ext,
  is_abs (unq (stage_a p)) = false -> checked true p = true -> ext_bridge p ext = true ->
  inside (target_loc p ext) = true.
Proof. exact writes_inside_root_partial_p. Qed.
Print Assumptions writes_inside_root_partial.

(* the FORMATTER's own location on put (extension replaced on the decoded location) is inside the root as well *)
Theorem formatter_writes_inside : forall p ext,
  good_ext ext = true -> rel_loc (stage_a p) <> [] -> checked true p = true -> inside (write_loc p ext) = true.
Proof. exact formatter_writes_inside_p. Qed.
Print Assumptions formatter_writes_inside.

(* guard (3) is discharged: a put / ingest with a formatter extension either writes inside the root or is refused with the
   state unchanged *)
Theorem target_inside_or_noop : forall s x, ext_ok x = true -> zip_inside x = true ->
  target_inside x = true \/ fst (step s x) = s.
Proof. exact target_inside_or_noop_p. Qed.
Print Assumptions target_inside_or_noop.

(* MAIN 1 and MAIN 2 without guard (3): for EVERY start state and EVERY history whose put / ingest extensions are formatter
   extensions and whose zip paths are inside (guarded2) *)
Theorem delete_only_unreferenced_unconditional_target : forall h1 x h2 s l c,
  guarded2 s (h1 ++ x :: h2) = true ->
  touches_env (run s h1) x l = false ->
  fget (fs (run s h1)) l = Some c -> fget (fs (fst (step (run s h1) x))) l = None ->
  referenced (fst (step (run s h1) x)) l = false.
Proof. exact delete_only_unreferenced2_p. Qed.
Print Assumptions delete_only_unreferenced_unconditional_target.

Theorem never_touch_foreign_unconditional_target : forall h s l,
  guarded2 s h = true -> inside l = false -> untouched_by_env s h l = true ->
  fget (fs (run s h)) l = fget (fs s) l.
Proof. exact never_touch_foreign2_p. Qed.
Print Assumptions never_touch_foreign_unconditional_target.

(* a put whose guards hold stores its file exactly at the location its record names *)
Theorem put_coherent_stores : forall s id p ext c,
  refuse_w true true p = false -> held_any s [id] = false -> inside (target_loc p ext) = true ->
  put_coherent (Put id (FOk p) ext c) = true ->
  let s' := fst (step s (Put id (FOk p) ext c)) in
  snd (step s (Put id (FOk p) ext c)) = Done
  /\ fget (fs s') (target_loc p ext) = Some c
  /\ recs s' = (id, stage_a (strip_frag (join_slash (target_loc p ext)))) :: recs s.
Proof. exact put_coherent_stores_p. Qed.
Print Assumptions put_coherent_stores.

(* the component-level content of it, at full strength: "outside" is absorbing, so every prefix of an inside path,
   extended by one ordinary name, is inside *)
Theorem prefix_of_inside_is_inside : forall a init lst,
  inside (rev (fold_left (norm_step false) a [])) = true ->
  is_prefix init a = true -> plain_comp lst = true ->
  inside (rev (fold_left (norm_step false) (init ++ [lst])%list [])) = true.
Proof. exact prefix_plain_inside. Qed.
Print Assumptions prefix_of_inside_is_inside.

(* names without "%": decoding is the identity, the location is the normalised text *)
Theorem location_plain : forall p ext,
  no_pct p = true -> no_pct (set_ext p ext) = true -> is_abs (set_ext p ext) = false ->
  target_loc p ext = norm_comps (set_ext p ext).
Proof. exact target_loc_plain_p. Qed.
Print Assumptions location_plain.

Theorem record_location_plain : forall p,
  no_pct p = true -> is_abs p = false -> no_pct (strip_frag p) = true -> is_abs (strip_frag p) = false ->
  loc p = norm_comps (strip_frag p).
Proof. exact loc_plain_p. Qed.
Print Assumptions record_location_plain.

(* the four spellings of the repaired defect are refused cleanly now *)
Theorem escapes_refused_now : forall run, In run ["%2E%2E/sentinel"; "%2e%2e/sentinel"; "%252E%252E/sentinel"; "%2fsentinel"] ->
  step st0 (Put 1 (fmt run) ".yaml" 9) = (st0, Refused ValueErr)
  /\ step st0 (Ingest Copy [1%N] (fmt run) ".yaml" stage0) = (st0, Refused ValueErr).
Proof. exact escapes_refused_now_p. Qed.
Print Assumptions escapes_refused_now.

(* the textual check added by cf1a6db is needed as well: without it "../outside" resolves outside *)
Theorem containment_refuted_without_check :
  exists run raw, fmt run = FOutside
    /\ format_raw GEN_SAN_VALUE GEN_SAN_SLASH (fst GEN_DEFAULT) (fields_D "dtD" run "Cam" "0" "det0") "" = Some raw
    /\ inside (target_loc (finish_path_unchecked (fix_tail GEN_SAN_TAIL raw)) ".yaml") = false.
Proof. exact containment_refuted_without_check_p. Qed.
Print Assumptions containment_refuted_without_check.

(* before df0ecd0 (step_v false = textual check only): a percent-escaped ".." left the root (repaired finding) *)
Theorem containment_refuted_without_fix :
  exists run p, fmt run = FOk p /\ checked false p = true /\ inside (target_loc p ".yaml") = false.
Proof. exact containment_refuted_without_fix_p. Qed.
Print Assumptions containment_refuted_without_fix.

Theorem outside_put_refuted_without_fix :
  exists run s', fget (fs st0) sent0 = Some 2%N
    /\ step_v false false false false st0 (Put 1 (fmt run) ".yaml" 9) = (s', Refused RuntimeErr)
    /\ fget (fs s') sent0 = None /\ inside sent0 = false.
Proof. exact outside_put_refuted_without_fix_p. Qed.
Print Assumptions outside_put_refuted_without_fix.

Theorem outside_ingest_refuted_without_fix :
  exists run s1,
    step_v false false false false st0 (Ingest Copy [1%N] (fmt run) ".yaml" stage0) = (s1, Done)
    /\ fget (fs st0) sent0 = Some 2%N /\ fget (fs s1) sent0 = Some 1%N
    /\ recs_inside s1 = false
    /\ fget (fs (fst (step_v false false false false s1 (Prune [1%N])))) sent0 = None.
Proof. exact outside_ingest_refuted_without_fix_p. Qed.
Print Assumptions outside_ingest_refuted_without_fix.

(* ---- guard (1) of MAIN 1 is necessary (FINDING, reproduced); (2) was until 2da36a1 ---------------------------------------------------- *)
Theorem delete_refuted_alias :
  exists s l c,
    s = run st0 [Put 1 (fmt "aJb") ".yaml" 5; Ingest Copy [2%N] (fmt "a%4ab") ".yaml" stage0]
    /\ sharing_visible s = false
    /\ fget (fs s) l = Some c /\ fget (fs (fst (step s (Prune [2%N])))) l = None
    /\ referenced (fst (step s (Prune [2%N]))) l = true /\ inside l = true.
Proof. exact alias_refuted_p. Qed.
Print Assumptions delete_refuted_alias.

(* REPAIRED findings F-C09-reingest / F-C09-zip-reingest (2da36a1).  Before it (step_noichk = step_v true true false true) the target
   was overwritten first and the rollback of the refused record insert removed the artifact of the dataset that is still stored *)
Theorem delete_refuted_reingest_without_fix :
  exists s x l c,
    s = run st0 [Ingest Copy [1%N] (fmt "r1") ".yaml" stage0]
    /\ reingest s x = true /\ snd (step_noichk s x) = Refused Conflict
    /\ fget (fs s) l = Some c /\ fget (fs (fst (step_noichk s x))) l = None /\ referenced (fst (step_noichk s x)) l = true.
Proof. exact reingest_refuted_p. Qed.
Print Assumptions delete_refuted_reingest_without_fix.

Theorem delete_refuted_zip_reingest_without_fix :
  exists s x l c,
    s = run st0 [IngestZip [(1%N, "m1"); (2%N, "m2")] "zips/ab/z.zip" 7]
    /\ reingest s x = true /\ snd (step_noichk s x) = Refused Conflict
    /\ fget (fs s) l = Some c /\ fget (fs (fst (step_noichk s x))) l = None /\ referenced (fst (step_noichk s x)) l = true.
Proof. exact zip_reingest_refuted_p. Qed.
Print Assumptions delete_refuted_zip_reingest_without_fix.

(* with 2da36a1, for EVERY state and EVERY ingest (copy / move, any ids, any template result, any source): an ingest that is
   not carried out changes NOTHING -- no file inside or outside, no record, the source of a move stays.  Guard clause (2) of
   `guarded` ("no ingest of a dataset already held") is thereby discharged: MAIN 1 no longer carries it. *)
Theorem ingest_refused_changes_nothing : forall s m ids fr ext src,
  snd (step s (Ingest m ids fr ext src)) <> Done -> fst (step s (Ingest m ids fr ext src)) = s.
Proof. exact ingest_refused_changes_nothing_p. Qed.
Print Assumptions ingest_refused_changes_nothing.

Theorem zip_refused_changes_nothing : forall s members z c,
  snd (step s (IngestZip members z c)) <> Done -> fst (step s (IngestZip members z c)) = s.
Proof. exact zip_refused_changes_nothing_p. Qed.
Print Assumptions zip_refused_changes_nothing.

Theorem reingest_refused_now :
  let s := run st0 [Ingest Copy [1%N] (fmt "r1") ".yaml" stage0] in
  let z := run st0 [IngestZip [(1%N, "m1"); (2%N, "m2")] "zips/ab/z.zip" 7] in
    step s (Ingest Copy [1%N] (fmt "r1") ".yaml" stage0) = (s, Refused Conflict)
    /\ step s (Ingest Move [1%N] (fmt "r1") ".yaml" stage0) = (s, Refused Conflict)
    /\ step z (IngestZip [(1%N, "m1"); (2%N, "m2")] "zips/ab/z.zip" 7) = (z, Refused Conflict).
Proof. exact reingest_refused_now_p. Qed.
Print Assumptions reingest_refused_now.

(* REPAIRED finding F-C09-nested-escape (5539e78).  Before it (step_nofix = step_v true false true false: df0ecd0 in, record paths not
   checked at use time) ingest(copy) into a run that encodes ".." THREE times was accepted -- the written location is inside
   the root -- the record it leaves names a location OUTSIDE the root, and pruning the dataset deleted the foreign file there *)
Theorem foreign_refuted_nested_escape_without_fix :
  let s1 := fst (step_nofix st1 nested_ingest) in
    (exists p, fmt1 run3 = FOk p /\ checked true p = true)
    /\ snd (step_nofix st1 nested_ingest) = Done
    /\ target_inside nested_ingest = true
    /\ fget (fs s1) sentA = Some 3%N /\ inside sentA = false
    /\ recs_inside s1 = false
    /\ fget (fs (fst (step_nofix s1 (Prune [1%N])))) sentA = None.
Proof. exact foreign_refuted_nested_escape_p. Qed.
Print Assumptions foreign_refuted_nested_escape_without_fix.

Theorem foreign_refuted_nested_escape_put_without_fix :
  let s1 := fst (step_nofix st1 nested_put) in
    snd (step_nofix st1 nested_put) = Done
    /\ target_inside nested_put = true /\ put_coherent nested_put = false
    /\ recs s1 = [(2%N, "../sentinel/dtD/dtD_Cam_det0_.._sentinel.yaml")]
    /\ fget (fs s1) sentB = Some 4%N /\ inside sentB = false
    /\ fget (fs (fst (step_nofix s1 (Prune [2%N])))) sentB = None.
Proof. exact foreign_refuted_nested_escape_put_p. Qed.
Print Assumptions foreign_refuted_nested_escape_put_without_fix.

(* the code before a79f022 (step_nowrule) still ACCEPTED the ingest and left such a record; from that state the code as it is
   refuses prune and emptyTrash at USE time (5539e78), the foreign file keeps its content -- the residue (a dataset that can be
   neither read nor removed and blocks every later emptyTrash) that a79f022 makes unreachable (no_poisoned_rows_all_histories) *)
Theorem nested_escape_refused_now :
  let s1 := fst (step_nowrule st1 nested_ingest) in
  let s2 := fst (step s1 (Prune [1%N])) in
    snd (step_nowrule st1 nested_ingest) = Done /\ recs_inside s1 = false
    /\ snd (step s1 (Prune [1%N])) = Refused ValueErr
    /\ fget (fs s2) sentA = Some 3%N
    /\ recs s2 = recs s1 /\ live s2 = [] /\ trash s2 = [1%N]
    /\ fget (fs s2) ["%2E%2E"; "sentinel"; "dtD"; "dtD_Cam_det1_%2E%2E_sentinel.yaml"] = Some 1%N
    /\ snd (step s2 EmptyTrash) = Refused ValueErr.
Proof. exact nested_escape_refused_now_p. Qed.
Print Assumptions nested_escape_refused_now.

(* with a79f022 (step): the name is refused at WRITE time, for ingest and for put, state unchanged *)
Theorem nested_escape_refused_at_write :
  step st1 nested_ingest = (st1, Refused ValueErr) /\ step st1 nested_put = (st1, Refused ValueErr)
  /\ (exists p, fmt1 run3 = FOk p /\ checked true p = true /\ write_rule p = false).
Proof. exact nested_escape_refused_at_write_p. Qed.
Print Assumptions nested_escape_refused_at_write.

(* created_records_lead_back, PARTIAL in one respect: the decidable premise `ingest_leads_back p ext` / `put_leads_back p ext`
   (the record text, read back, names the written location) is evaluated by vm_compute on every template+location case
   (chk_path: accepted by the write-time rule => leads back) but is not derived from `write_rule p` for all strings -- the rule
   is checked by the code on the text WITHOUT the extension.  What IS proved for every state and every accepted ingest / put:
   the rule held, the records are exactly these texts, the written location is inside the root and holds the file. *)
Theorem created_records_lead_back_partial : forall s m ids p ext src s',
  step s (Ingest m ids (FOk p) ext src) = (s', Done) -> good_ext ext = true -> ingest_leads_back p ext = true ->
  write_rule p = true
  /\ (forall id, In id ids -> In (id, target_text p ext) (recs s'))
  /\ loc (target_text p ext) = target_loc p ext
  /\ inside (target_loc p ext) = true
  /\ fget (fs s') (target_loc p ext) <> None.
Proof. exact created_records_lead_back_ingest_p. Qed.
Print Assumptions created_records_lead_back_partial.

Theorem created_records_lead_back_put_partial : forall s id p ext c s',
  step s (Put id (FOk p) ext c) = (s', Done) -> good_ext ext = true -> put_leads_back p ext = true ->
  write_rule p = true
  /\ In (id, put_record p ext) (recs s')
  /\ loc (put_record p ext) = target_loc p ext
  /\ inside (target_loc p ext) = true.
Proof. exact created_records_lead_back_put_p. Qed.
Print Assumptions created_records_lead_back_put_partial.

(* guard (4) as an INVARIANT: one step keeps "every relative record resolves inside the root" when the records the operation
   itself can create do (op_recs_ok: a condition on the operation alone, no state) ... *)
Theorem recs_inside_step : forall s x, recs_inside s = true -> op_recs_ok x = true -> recs_inside (fst (step s x)) = true.
Proof. exact recs_inside_step_p. Qed.
Print Assumptions recs_inside_step.

(* ... hence for EVERY history from the empty record table (any files on disk) whose operations satisfy op_recs_ok, at every
   point: guard (4) holds, no record row can stop emptyTrash, and emptyTrash / prune / removeRuns are never refused at use time *)
Theorem no_poisoned_rows_all_histories : forall files h,
  forallb op_recs_ok h = true ->
  let s := run (init_state files) h in
    recs_inside s = true
    /\ (forall r, In r (recs s) -> poison s (snd r) = false)
    /\ snd (step s EmptyTrash) = Done
    /\ (forall ids, snd (step s (Prune ids)) = Done /\ snd (step s (RemoveRun ids)) = Done).
Proof. exact no_poisoned_rows_all_histories_p. Qed.
Print Assumptions no_poisoned_rows_all_histories.

(* guard (5) fails on "a%2eb": put is refused (FileNotFoundError) and leaves the formatter's file behind -- an orphan INSIDE
   the root, no record, nothing outside touched (replayed: corpus/C09 11; not a C09 violation) *)
Theorem put_dot_escape_orphan :
  let s1 := fst (step st0 dot_put) in
    snd (step st0 dot_put) = Refused NotFound
    /\ put_coherent dot_put = false
    /\ recs s1 = [] /\ live s1 = []
    /\ fget (fs st0) dot_orphan = None /\ fget (fs s1) dot_orphan = Some 9%N /\ inside dot_orphan = true
    /\ fget (fs s1) sent0 = fget (fs st0) sent0.
Proof. exact put_dot_escape_orphan_p. Qed.
Print Assumptions put_dot_escape_orphan.

(* "#" in a run name: a guarded history; the removed dataset's file is LEAKED (kept because another dataset of the run is
   stored: all record paths of the run share the artifact text "a") -- incomplete removal is C10's matter; no referenced file
   is lost, as MAIN 1 demands (replayed: corpus/C09 12) *)
Theorem hash_run_leaks_not_loses :
  guarded st0 hash_hist = true
  /\ let s := run st0 hash_hist in
     recs s = [(2%N, "a#b/dtD/dtD_Cam_det1_aHASHb.yaml")]
     /\ fget (fs s) ["a#b"; "dtD"; "dtD_Cam_det0_aHASHb.yaml"] = Some 5%N
     /\ referenced s ["a#b"; "dtD"; "dtD_Cam_det0_aHASHb.yaml"] = false
     /\ fget (fs s) ["a#b"; "dtD"; "dtD_Cam_det1_aHASHb.yaml"] = Some 1%N.
Proof. exact hash_run_leaks_not_loses_p. Qed.
Print Assumptions hash_run_leaks_not_loses.

(* the keep-set of emptyTrash must be the UNION of the bridge's preserved set and the fragment recount: if the recount
   REPLACED it (seeded change C09a), one trash holding a zip member and one ref of a shared plain file would delete the
   shared file under a still-stored sibling; the model (= the code) keeps both the file and the zip *)
Theorem keep_overwrite_refuted :
  sharing_visible mixed_state = true
  /\ fget (fs mixed_state) shared_l = Some 1%N
  /\ fget (delete_all_overwrite mixed_state (trashed_recs mixed_state) (fs mixed_state)) shared_l = None
  /\ referenced (empty_trash mixed_state) shared_l = true
  /\ fget (fs (empty_trash mixed_state)) shared_l = Some 1%N
  /\ fget (fs (empty_trash mixed_state)) ["zips"; "ab"; "z.zip"] = Some 7%N.
Proof. exact keep_overwrite_refuted_p. Qed.
Print Assumptions keep_overwrite_refuted.

(* ---- non-vacuity ---------------------------------------------------------------------------------------------------- *)
(* a guarded history with a file shared by two refs, a zip with two members and a direct-ingested sentinel file *)
Example demo_guarded : guarded st0 demo = true.
Proof. vm_compute. reflexivity. Qed.

(* pruning one ref of the shared file and one zip member deletes nothing ... *)
Example demo_siblings_keep :
  let s := run st0 (firstn 5 demo) in
  fget (fs s) ["r2"; "dtD"; "dtD_Cam_det0_r2.yaml"] = Some 1%N /\ fget (fs s) ["zips"; "ab"; "z.zip"] = Some 7%N
  /\ referenced s ["r2"; "dtD"; "dtD_Cam_det0_r2.yaml"] = true.
Proof. vm_compute. repeat split; reflexivity. Qed.

(* ... the last ref takes the file with it, the direct-ingested file outside the root stays *)
Example demo_last_ref_deletes :
  let s := run st0 demo in
  fget (fs s) ["r2"; "dtD"; "dtD_Cam_det0_r2.yaml"] = None /\ fget (fs s) ["r1"; "dtD"; "dtD_Cam_det0_r1.yaml"] = None
  /\ fget (fs s) sent0 = Some 2%N /\ fget (fs s) ["zips"; "ab"; "z.zip"] = Some 7%N
  /\ untouched_by_env st0 demo sent0 = true.
Proof. vm_compute. repeat split; reflexivity. Qed.

Example bridge_holds_on_escapes : ext_bridge "a%2fb/dtD/dtD_Cam_%2e%2e_x" ".yaml" = true /\ ext_bridge "r1/dtD/dtD_Cam_det0_r1" ".yaml" = true.
Proof. vm_compute. split; reflexivity. Qed.

Example plain_names_exist : no_pct "r1/dtD/dtD_Cam_det0_r1" = true /\ no_pct (set_ext "r1/dtD/dtD_Cam_det0_r1" ".yaml") = true.
Proof. vm_compute. split; reflexivity. Qed.

Example good_ext_of_formatters : good_ext GEN_EXT_YAML = true /\ good_ext GEN_EXT_JSON = true /\ good_ext GEN_EXT_PICKLE = true.
Proof. exact good_ext_formatters. Qed.

Example demo_is_guarded2 : guarded2 st0 demo = true.
Proof. exact demo_guarded2. Qed.

Example demo_is_ops_ok : all_ops_ok demo = true /\ all_ops_ok [nested_ingest; nested_put; Prune [1%N; 2%N]] = true.
Proof. exact demo_ops_ok. Qed.

Example leads_back_on_names :
  forallb (fun run => match fmt run with
                      | FOk p => refuse_w true true p || (ingest_leads_back p ".yaml" && put_leads_back p ".yaml")
                      | _ => true end)
          ["r1"; "u/v"; "a b"; "a#b"; "a%2fb"; "a%4ab"; "a%41b"; "a%2541b"; "a%252541b"; "x%2ey"; "%25252E%25252E/sentinel"; "a%"; "a%zz"] = true
  /\ forallb op_recs_ok demo = true /\ forallb op_recs_ok hash_hist = true
  /\ forallb op_recs_ok [nested_ingest; nested_put; dot_put] = true.
Proof. exact leads_back_examples. Qed.
