(* C08 -- A crash at any instant leaves a repository that reopens consistent.
   Statements only; proofs in Proofs/CrashProofsA.v .. CrashProofsG.v; model in Model/Crash.v (emptyTrash as repaired by
   /repo e615ec5: records rows and trash rows deleted in ONE transaction).

   `crash s p k` = the first k steps of plan p from state s, then recovery (the uncommitted transaction is dropped).
   Every theorem quantifies over ALL states without an open transaction (hence all states reached by any history,
   fault-free or crashed and recovered), ALL operations with ALL arguments, and ALL crash indices k (k beyond the length of
   the plan = the operation completed). *)
From Coq Require Import NArith List Bool.
From V Require Import Model.Crash Proofs.CrashProofsA Proofs.CrashProofsB Proofs.CrashProofsC Proofs.CrashProofsD Proofs.CrashProofsE
  Proofs.CrashProofsF Proofs.CrashProofsG Model.CrashShared Proofs.CrashProofsS Proofs.CrashProofsT Proofs.CrashProofsH.
Import ListNotations.
Open Scope N_scope.

(* 1. A dataset that is not a target of the interrupted call (and was not already marked for deletion) is seen exactly as
      before: same get (same content), same existence flags, same location row, same artifact. *)
Theorem crash_bystanders_intact : forall s o k d,
  ovl s = None -> is_target s o d = false -> mem d (d_trash (cdb s)) = false ->
  let s' := crash s (plan s o) k in
  get s' d = get s d /\ recorded s' d = recorded s d /\ knows s' d = knows s d /\ artifact s' d = artifact s d
  /\ mem d (d_loc (cdb s')) = mem d (d_loc (cdb s)) /\ fget (Final d) (fs s') = fget (Final d) (fs s).
Proof. exact bystander_intact_l. Qed.
Print Assumptions crash_bystanders_intact.

Theorem crash_bystanders_intact_all_histories : forall h o k d v,
  let s := run init h in
  is_target s o d = false -> mem d (d_trash (cdb s)) = false -> get s d = GotValue v ->
  get (crash s (plan s o) k) d = GotValue v.
Proof.
  intros h o k d v s T M G.
  destruct (bystander_intact_l s o k d (ovl_run h init ovl_init) T M) as [E _]. rewrite E. exact G.
Qed.
Print Assumptions crash_bystanders_intact_all_histories.

(* 2. Never a half-written artifact under a final name (nor a half-written staging file): after every prefix of every plan. *)
Theorem crash_no_partial_final : forall s o k d, Js s -> fget (Final d) (fs (crash s (plan s o) k)) <> Some Partial.
Proof. exact no_partial_final_l. Qed.
Print Assumptions crash_no_partial_final.

Theorem crash_no_partial_final_all_histories : forall h o k d,
  fget (Final d) (fs (crash (run init h) (plan (run init h) o) k)) <> Some Partial.
Proof. intros h o k d. apply no_partial_final_l. apply Js_run, Js_init. Qed.
Print Assumptions crash_no_partial_final_all_histories.

(* ... and the invariant survives crashes, so any number of crashes in a row keep it *)
Theorem crash_keeps_files_whole : forall s o k, Js s -> Js (crash s (plan s o) k).
Proof. exact Js_crash. Qed.
Print Assumptions crash_keeps_files_whole.

(* 3. An interrupted insertion (put / ingest copy / ingest move / transfer_from) is all-or-nothing for every target id:
      refused without a step, or no row at all (registry, location, records), or all rows -- and then the state IS the
      completed operation's state.  `fresh_id`: dataset ids are UUIDs, new for the datastore tables. *)
Theorem crash_insertion_all_or_nothing : forall s o k d,
  ovl s = None -> is_insert o = true -> is_target s o d = true -> fresh_id s d ->
  let s' := crash s (plan s o) k in
  plan s o = [] \/ rows_absent s' d
  \/ (recorded s' d = true /\ mem d (d_loc (cdb s')) = true /\ knows s' d = true
      /\ s' = recover (run_steps s (plan s o))).
Proof. exact insertion_rows_atomic_l. Qed.
Print Assumptions crash_insertion_all_or_nothing.

(* the rows of a transaction block never move before its commit, whatever file activity happens inside *)
Theorem uncommitted_rows_invisible : forall body s k,
  no_marker body -> ovl s = None -> (k <= S (length body))%nat ->
  cdb (crash s (SqlBegin :: body ++ [SqlCommit]) k) = cdb s.
Proof. intros. unfold crash, recover. simpl. apply txn_block_cdb_prefix; assumption. Qed.
Print Assumptions uncommitted_rows_invisible.

(* ... and a completed put / ingest holds the complete artifact with the content it was given *)
Theorem put_completes : forall s d v, ovl s = None -> insert_ok (cdb s) [d] = true ->
  let s' := run_op s (Put d v) in
  recorded s' d = true /\ knows s' d = true /\ mem d (d_loc (cdb s')) = true /\ get s' d = GotValue v
  /\ artifact s' d = true.
Proof. exact put_completes_l. Qed.
Print Assumptions put_completes.

Theorem ingest_copy_completes : forall s d v, ovl s = None -> insert_ok (cdb s) [d] = true ->
  fget (Ext d) (fs s) = Some (Complete v) ->
  let s' := run_op s (IngestCopy d) in
  recorded s' d = true /\ knows s' d = true /\ mem d (d_loc (cdb s')) = true /\ get s' d = GotValue v
  /\ artifact s' d = true.
Proof. intros s d v O OK E. cbn zeta. rewrite (run_ingest_copy_state s d v O OK E). apply put_completes_l; assumption. Qed.
Print Assumptions ingest_copy_completes.

Theorem ingest_move_completes : forall s d v, ovl s = None -> insert_ok (cdb s) [d] = true ->
  fget (Ext d) (fs s) = Some (Complete v) ->
  let s' := run_op s (IngestMove d) in
  recorded s' d = true /\ knows s' d = true /\ mem d (d_loc (cdb s')) = true /\ get s' d = GotValue v
  /\ fget (Ext d) (fs s') = None.
Proof. exact ingest_move_completes_l. Qed.
Print Assumptions ingest_move_completes.

(* goodness of a concrete state: compute its rows, then decide each clause by cases on the id *)
Ltac concrete_good :=
  split; [reflexivity|]; unfold good_db;
  match goal with |- context [cdb ?s] => let b := eval vm_compute in (cdb s) in change (cdb s) with b end;
  cbn [d_runs d_ds d_loc d_trash d_recs mem];
  repeat split; intros d; repeat match goal with |- context [d =? ?n] => destruct (N.eqb_spec d n); [subst d; simpl|] end;
  intros; try discriminate; auto; try tauto; try (intuition congruence).

(* 4. The datastore-bridge invariant `good` (every pending deletion still has its records row; located datasets have
      records and a registry row; located and pending exclude each other; no unowned records) holds initially and
      survives EVERY crash of EVERY removal (pruneDatasets purge / unstore, Datastore.trash, removeRuns, emptyTrash). *)
Theorem crash_of_removal_keeps_invariant : forall s o k, good s -> is_removal o = true -> good (crash s (plan s o) k).
Proof. exact good_crash_removal_l. Qed.
Print Assumptions crash_of_removal_keeps_invariant.

Theorem invariant_initially : good init.
Proof. exact good_init. Qed.
Print Assumptions invariant_initially.

(* 5. FULL STRENGTH (since /repo e615ec5): from the crash state u of ANY removal at ANY index, started in any good state,
      (a) emptyTrash alone leaves the trash table EMPTY and everything that was pending gone from the datastore, artifact
          included;
      (b) re-running the removal and then emptying the trash leaves the trash table EMPTY and every target gone from the
          datastore -- no records, no location row, no trash row, no artifact flag; its artifact file deleted if the
          datastore still knew it -- and from the registry for purge / removeRuns.
      `datastore_gone s d` = knows s d = false /\ no location row /\ no trash row /\ artifact s d = false. *)
Theorem rerun_completes : forall s o k ord2, good s -> is_removal o = true ->
  let u := crash s (plan s o) k in
  good u
  /\ (let u1 := run_op u (EmptyTrash ord2) in
      (forall x, mem x (d_trash (cdb u1)) = false)
      /\ (forall d, mem d (d_trash (cdb u)) = true -> datastore_gone u1 d /\ fget (Final d) (fs u1) = None))
  /\ (let u2 := run_op (run_op u o) (EmptyTrash ord2) in
      (forall x, mem x (d_trash (cdb u2)) = false)
      /\ (forall d, rerun_target u o d = true ->
                    datastore_gone u2 d /\ (purges o = true -> recorded u2 d = false)
                    /\ (knows (run_op u o) d = true -> fget (Final d) (fs u2) = None))).
Proof. exact rerun_completes_l. Qed.
Print Assumptions rerun_completes.

(* the removals themselves, run to completion from any good state (e.g. any crash state above) *)
Theorem prune_completes : forall u l ord d, good u -> mem d l = true ->
  let u' := run_op u (Prune l ord) in
  recorded u' d = false /\ datastore_gone u' d /\ (knows u d = true -> fget (Final d) (fs u') = None).
Proof. exact prune_completes_l. Qed.
Print Assumptions prune_completes.

Theorem unstore_completes : forall u l ord d, good u -> mem d l = true ->
  let u' := run_op u (Unstore l ord) in
  datastore_gone u' d /\ (knows u d = true -> fget (Final d) (fs u') = None) /\ recorded u' d = recorded u d.
Proof. exact unstore_completes_l. Qed.
Print Assumptions unstore_completes.

Theorem removeruns_completes : forall u r ord d, good u -> mem r (d_runs (cdb u)) = true -> run_of d = r ->
  let u' := run_op u (RemoveRuns r ord) in
  recorded u' d = false /\ datastore_gone u' d /\ (knows u d = true -> fget (Final d) (fs u') = None)
  /\ mem r (d_runs (cdb u')) = false.
Proof. exact removeruns_completes_l. Qed.
Print Assumptions removeruns_completes.

(* REFUTED WITHOUT THE FIX: with the two separately committed deletes of emptyTrash (the code before e615ec5,
   `plan_two_commits`) a death between the two commits leaves a trash row without records -- the invariant is broken --
   and neither the old nor the repaired re-run / emptyTrash ever removes it.  If the two-commit order returns, the
   correspondence and the oracle (signature "<op>:trash-row-survives:...") report it; finding F-C08-emptytrash-two-commits. *)
Theorem rerun_completes_refuted_without_fix : exists h o k,
  let s := run init h in
  let s' := crash s (plan_two_commits s o) k in
  good s /\ is_removal o = true /\ ~ good s'
  /\ mem 0 (d_trash (cdb (run_op_two_commits (run_op_two_commits s' o) (EmptyTrash [])))) = true
  /\ mem 0 (d_trash (cdb (run_op (run_op s' o) (EmptyTrash [])))) = true.
Proof.
  exists [Put 0 1; Put 1 2], (Unstore [0] []), 8%nat. cbn zeta.
  split; [|split; [reflexivity|split; [|split; vm_compute; reflexivity]]].
  - concrete_good.
  - intros [_ (G1 & _)]. specialize (G1 0). vm_compute in G1. specialize (G1 eq_refl). discriminate.
Qed.
Print Assumptions rerun_completes_refuted_without_fix.

(* without the fix the window is exactly the three indices between the two commits; with the fix there is none *)
Theorem stale_trash_row_window :
  let s := run init [Put 0 1; Put 1 2] in
  let o := Unstore [0] [] in
  forallb (fun k => let u := run_op (run_op (crash s (plan_two_commits s o) k) o) (EmptyTrash []) in
                    Bool.eqb (mem 0 (d_trash (cdb u))) (existsb (Nat.eqb k) [8; 9; 10]%nat))
          (seq 0 (S (length (plan_two_commits s o)))) = true
  /\ forallb (fun k => let u := run_op (run_op (crash s (plan s o) k) o) (EmptyTrash []) in negb (mem 0 (d_trash (cdb u))))
          (seq 0 (S (length (plan s o)))) = true.
Proof. split; vm_compute; reflexivity. Qed.
Print Assumptions stale_trash_row_window.

(* ================================================================================================================
   Wave 5: the invariant in every reachable state, the content of a completed transfer, programs of several operations
   ================================================================================================================ *)

(* 6. A completed transfer_from: every transferred dataset is registered, located, known to the datastore, and a fresh
      Butler reads the SOURCE content (the source repository's dataset d holds `src_value d`). *)
Theorem transfer_completes : forall s l d, ovl s = None -> insert_ok (cdb s) l = true -> mem d l = true ->
  let s' := run_op s (Transfer l) in
  recorded s' d = true /\ knows s' d = true /\ mem d (d_loc (cdb s')) = true /\ get s' d = GotValue (src_value d)
  /\ artifact s' d = true.
Proof. exact transfer_completes_l. Qed.
Print Assumptions transfer_completes.

(* 7. `good` is preserved by EVERY crash of EVERY operation, insertions included.  `fresh_targets s o`: a target that is not
      registered is not the id of a deletion that is still pending (real dataset ids are new UUIDs, so this always holds
      for the implementation; the model identifies id, slot and path, hence the guard). *)
Theorem crash_keeps_invariant : forall s o k,
  good s -> (is_insert o = true -> fresh_targets s o) -> good (crash s (plan s o) k).
Proof. exact good_crash_l. Qed.
Print Assumptions crash_keeps_invariant.

(* ... so it holds after every FAULT-FREE history, with no premise at all (there a pending deletion always belongs to a
   dataset that is still registered, and an accepted insertion never targets a registered dataset) ... *)
Theorem invariant_all_histories : forall h, good (run init h).
Proof. exact good_all_histories_l. Qed.
Print Assumptions invariant_all_histories.

(* ... and after every history in which any member may have died at any step, under the fresh-id guard. *)
Theorem invariant_all_crash_histories : forall hs, hist_fresh init hs = true -> good (runh init hs).
Proof. intros hs F. apply good_runh; [exact good_init | exact F]. Qed.
Print Assumptions invariant_all_crash_histories.

(* 8. Therefore `rerun_completes` holds from EVERY reachable state without the premise `good s`. *)
Theorem rerun_completes_all_histories : forall h o k ord2, is_removal o = true ->
  let s := run init h in
  let u := crash s (plan s o) k in
  good u
  /\ (let u1 := run_op u (EmptyTrash ord2) in
      (forall x, mem x (d_trash (cdb u1)) = false)
      /\ (forall d, mem d (d_trash (cdb u)) = true -> datastore_gone u1 d /\ fget (Final d) (fs u1) = None))
  /\ (let u2 := run_op (run_op u o) (EmptyTrash ord2) in
      (forall x, mem x (d_trash (cdb u2)) = false)
      /\ (forall d, rerun_target u o d = true ->
                    datastore_gone u2 d /\ (purges o = true -> recorded u2 d = false)
                    /\ (knows (run_op u o) d = true -> fget (Final d) (fs u2) = None))).
Proof. intros h o k ord2 R. apply rerun_completes_l; [apply good_all_histories_l | exact R]. Qed.
Print Assumptions rerun_completes_all_histories.

Theorem rerun_completes_all_crash_histories : forall hs o k ord2, hist_fresh init hs = true -> is_removal o = true ->
  let s := runh init hs in
  let u := crash s (plan s o) k in
  good u
  /\ (let u1 := run_op u (EmptyTrash ord2) in
      (forall x, mem x (d_trash (cdb u1)) = false)
      /\ (forall d, mem d (d_trash (cdb u)) = true -> datastore_gone u1 d /\ fget (Final d) (fs u1) = None))
  /\ (let u2 := run_op (run_op u o) (EmptyTrash ord2) in
      (forall x, mem x (d_trash (cdb u2)) = false)
      /\ (forall d, rerun_target u o d = true ->
                    datastore_gone u2 d /\ (purges o = true -> recorded u2 d = false)
                    /\ (knows (run_op u o) d = true -> fget (Final d) (fs u2) = None))).
Proof. intros hs o k ord2 F R. apply rerun_completes_l; [apply good_runh; [exact good_init | exact F] | exact R]. Qed.
Print Assumptions rerun_completes_all_crash_histories.

(* ... and the all-or-nothing theorem needs no `fresh_id` premise after a fault-free history *)
Theorem crash_insertion_all_or_nothing_all_histories : forall h o k d,
  let s := run init h in
  is_insert o = true -> is_target s o d = true ->
  let s' := crash s (plan s o) k in
  plan s o = [] \/ rows_absent s' d
  \/ (recorded s' d = true /\ mem d (d_loc (cdb s')) = true /\ knows s' d = true
      /\ s' = recover (run_steps s (plan s o))).
Proof.
  intros h o k d s I T. destruct (plan s o) as [|t p] eqn:E; [left; reflexivity|]. rewrite <- E.
  apply insertion_rows_atomic_l; auto.
  - apply ovl_run, ovl_init.
  - apply (fresh_id_of_good2 s o d (good2_run h init good2_init) I T). rewrite E. discriminate.
Qed.
Print Assumptions crash_insertion_all_or_nothing_all_histories.

(* 9. Programs: several operations performed one after another by one process (`plan_seq`).  A crash at ANY step of the
      program is the completed program, or a crash of exactly one of its operations started in the state the completed ones
      left -- so every single-operation theorem above applies to programs. *)
Theorem crash_of_program_is_crash_of_one_operation : forall os s k, ovl s = None ->
  crash s (plan_seq s os) k = run s os
  \/ exists pre o post k', os = pre ++ o :: post /\ crash s (plan_seq s os) k = crash (run s pre) (plan (run s pre) o) k'.
Proof. exact crash_seq_decompose. Qed.
Print Assumptions crash_of_program_is_crash_of_one_operation.

(* 10. A multi-dataset put (a loop of Butler.put over distinct new datasets) interrupted ANYWHERE: a prefix of the datasets
       is fully present (all rows, complete artifact with the given content), the rest is fully absent (no row). *)
Theorem crash_multi_put_prefix : forall l s k, good s -> insert_ok (cdb s) (map fst l) = true ->
  (forall d, mem d (map fst l) = true -> mem d (d_trash (cdb s)) = false) ->
  let u := crash s (plan_seq s (map put_of l)) k in
  exists j, Forall (fun dv => fully_present u (fst dv) (snd dv)) (firstn j l)
            /\ Forall (fun dv => rows_absent u (fst dv)) (skipn j l).
Proof. exact multi_put_prefix_l. Qed.
Print Assumptions crash_multi_put_prefix.

Theorem crash_multi_put_prefix_all_histories : forall h l k,
  let s := run init h in
  insert_ok (cdb s) (map fst l) = true ->
  let u := crash s (plan_seq s (map put_of l)) k in
  exists j, Forall (fun dv => fully_present u (fst dv) (snd dv)) (firstn j l)
            /\ Forall (fun dv => rows_absent u (fst dv)) (skipn j l).
Proof.
  intros h l k s OK. destruct (good2_run h init good2_init) as [G P]. fold s in G, P.
  apply multi_put_prefix_l; [exact G | exact OK|].
  intros d M. pose proof (insert_ok_absent _ _ _ OK M) as A.
  destruct (mem d (d_trash (cdb s))) eqn:T; [|reflexivity]. rewrite (P d T) in A. discriminate.
Qed.
Print Assumptions crash_multi_put_prefix_all_histories.

(* 11. A multi-dataset transfer_from interrupted ANYWHERE before its commit: no row of any target is visible, and the
       artifacts that have reached their final names are exactly those of a PREFIX of the refs, each complete with the source
       content; every other final name is untouched.  (After the commit the state is the completed transfer: theorem 6.) *)
Theorem crash_transfer_artifacts_prefix : forall s l k, ovl s = None -> insert_ok (cdb s) l = true ->
  let u := crash s (plan s (Transfer l)) k in
  u = run_op s (Transfer l)
  \/ (cdb u = cdb s
      /\ exists j, (forall d, mem d (firstn j l) = true -> fget (Final d) (fs u) = Some (Complete (src_value d)))
                   /\ (forall d, mem d (firstn j l) = false -> fget (Final d) (fs u) = fget (Final d) (fs s))).
Proof. exact transfer_crash_prefix_l. Qed.
Print Assumptions crash_transfer_artifacts_prefix.

(* ================================================================================================================
   Shared artifacts (Model/CrashShared.v): ONE file for several datasets -- Butler.ingest of a FileDataset with several
   refs, Butler.ingest_zip.  Records are (dataset id, artifact) pairs; operations are lists of durable effects.
   ================================================================================================================ *)

(* 12. At EVERY crash point of EVERY removal (purge, unstore, Datastore.trash, emptyTrash; any row order) a located dataset
       that is not a target keeps its rows, its record AND its artifact file -- also when it shares that file with the
       targets (one member of a zip purged, one ref of a multi-ref ingest unstored): a fresh Butler reads it as before. *)
Theorem shared_bystander_intact : forall s o d a k,
  sdisj (sb s) -> s_is_removal o = true -> s_target o d = false ->
  mem d (s_loc (sb s)) = true -> art_of (sb s) d = Some a ->
  let u := scrash s (splan s o) k in
  mem d (s_loc (sb u)) = true /\ mem d (s_trash (sb u)) = false /\ art_of (sb u) d = Some a
  /\ mem d (s_ds (sb u)) = mem d (s_ds (sb s)) /\ fget (Final a) (sf u) = fget (Final a) (sf s) /\ sget u d = sget s d.
Proof.
  intros s o d a k D R T L A u. destruct (shared_bystander_l s o d a k D R T L A) as (H1 & H2 & H3 & H4 & H5). fold u in H1, H2, H3, H4, H5.
  repeat split; auto. unfold sget. rewrite H3, A, H5. reflexivity.
Qed.
Print Assumptions shared_bystander_intact.

(* its premise `sdisj` (located and pending exclude each other) survives every crash of every removal *)
Theorem shared_disjoint_preserved : forall s o k, sdisj (sb s) -> s_is_removal o = true -> sdisj (sb (scrash s (splan s o) k)).
Proof. exact sdisj_crash_removal_l. Qed.
Print Assumptions shared_disjoint_preserved.

(* 13. A multi-ref ingest / ingest_zip (one artifact a with content v for the refs l) interrupted ANYWHERE is JOINTLY
       all-or-nothing: no committed row has changed, or the state is the completed call's and EVERY ref is registered,
       located, recorded against the artifact and reads the content. *)
Theorem shared_ingest_joint_all_or_nothing : forall s mv a v l k, sstore_ok (sb s) l = true ->
  let o := SStore mv a v l in
  let u := scrash s (splan s o) k in
  sb u = sb s
  \/ (u = srun_op s o
      /\ forall d, mem d l = true ->
           mem d (s_ds (sb u)) = true /\ mem d (s_loc (sb u)) = true /\ art_of (sb u) d = Some a /\ sget u d = GotValue v).
Proof. exact shared_store_joint_l. Qed.
Print Assumptions shared_ingest_joint_all_or_nothing.

(* 14. Never a partial file under a final name, zip included: after every prefix of every plan of the shared model. *)
Theorem shared_no_partial_final : forall s o k a, J (sf s) -> fget (Final a) (sf (scrash s (splan s o) k)) <> Some Partial.
Proof. intros s o k a H. destruct (shared_no_partial_l s o k H a) as [X _]. exact X. Qed.
Print Assumptions shared_no_partial_final.

(* 15. The shared model's invariants hold after EVERY fault-free history (`sgood`: pending deletions have records and belong
       to registered datasets, located and pending exclude each other, located datasets have records; `sgood3`: the part
       that also survives crashes, plus "no unowned records") ... *)
Theorem shared_invariant_all_histories : forall h, sgood (sb (srun sinit h)) /\ sgood3 (sb (srun sinit h)).
Proof. intros h. split; [apply sgood_all_histories_l | apply sgood3_all_histories_l]. Qed.
Print Assumptions shared_invariant_all_histories.

(* ... so the bystander theorem needs no premise about the state: after any history, at any crash point of any removal, a
   located non-target dataset reads back exactly as before, whoever shares its artifact *)
Theorem shared_bystander_intact_all_histories : forall h o d a k,
  let s := srun sinit h in
  s_is_removal o = true -> s_target o d = false -> mem d (s_loc (sb s)) = true -> art_of (sb s) d = Some a ->
  let u := scrash s (splan s o) k in
  sget u d = sget s d /\ fget (Final a) (sf u) = fget (Final a) (sf s) /\ mem d (s_loc (sb u)) = true.
Proof.
  intros h o d a k s R T L A u.
  destruct (sgood_all_histories_l h) as (_ & _ & D & _). fold s in D.
  destruct (shared_bystander_l s o d a k D R T L A) as (H1 & H2 & H3 & H4 & H5). fold u in H1, H2, H3, H4, H5.
  split; [unfold sget; rewrite H3, A, H5; reflexivity|]. split; assumption.
Qed.
Print Assumptions shared_bystander_intact_all_histories.

(* 16. `sgood3` survives EVERY crash of EVERY removal ... *)
Theorem shared_crash_keeps_invariant : forall s o k, sgood3 (sb s) -> s_is_removal o = true -> sgood3 (sb (scrash s (splan s o) k)).
Proof. exact sgood3_crash_removal_l. Qed.
Print Assumptions shared_crash_keeps_invariant.

(* ... and from the crash state u of ANY removal at ANY index (after any history), a purge / unstore of any refs l run to
   completion -- in particular the re-run of the interrupted one -- leaves the trash table EMPTY, every registered target
   and every deletion that was pending gone from the datastore (no location row, no record; no dataset row for a purge),
   and deletes the artifact as soon as EVERY dataset that refers to it is among them -- the last ref takes the file. *)
Theorem shared_rerun_completes : forall h o k l ord (purge : bool), s_is_removal o = true ->
  let s := srun sinit h in
  let u := scrash s (splan s o) k in
  let u' := srun_op u (if purge then SPrune l ord else SUnstore l ord) in
  sgood3 (sb u') /\ (forall d, mem d (s_trash (sb u')) = false)
  /\ (forall d, (mem d l && mem d (s_ds (sb u))) || mem d (s_trash (sb u)) = true ->
        mem d (s_loc (sb u')) = false /\ has_rec (sb u') d = false
        /\ (purge = true -> mem d l = true -> mem d (s_ds (sb u')) = false)
        /\ forall a, art_of (sb u) d = Some a ->
             (forall d', In (d', a) (s_recs (sb u)) -> (mem d' l && mem d' (s_ds (sb u))) || mem d' (s_trash (sb u)) = true) ->
             fget (Final a) (sf u') = None).
Proof.
  intros h o k l ord purge R s u u'.
  apply (shared_removal_completes_l u l ord purge). apply sgood3_crash_removal_l; [apply sgood3_all_histories_l | exact R].
Qed.
Print Assumptions shared_rerun_completes.

(* 17. Re-running an insertion that has COMPLETED is a refused no-op: its plan is empty and the state does not change -- put,
       ingest (copy / move), transfer_from in the step model; put / ingest / multi-ref ingest / ingest_zip (one artifact for
       the refs l) in the shared model.  In the code the registry refuses a dataset that is already registered and, since
       /repo 2da36a1, FileDatastore refuses a dataset it already holds BEFORE any file or zip is transferred (before that
       commit the refusal of a repeated ingest_zip rolled back over the stored zip). *)
Theorem rerun_of_completed_insertion_noop : forall s o, ovl s = None -> is_insert o = true -> plan s o <> [] ->
  plan (run_op s o) o = [] /\ run_op (run_op s o) o = run_op s o.
Proof. exact rerun_completed_insertion_l. Qed.
Print Assumptions rerun_of_completed_insertion_noop.

Theorem shared_rerun_of_completed_insertion_noop : forall s mv a v l, sstore_ok (sb s) l = true ->
  let o := SStore mv a v l in
  splan (srun_op s o) o = [] /\ srun_op (srun_op s o) o = srun_op s o.
Proof. exact shared_rerun_completed_store_l. Qed.
Print Assumptions shared_rerun_of_completed_insertion_noop.

(* ---- non-vacuity: the hypotheses are met by reachable, non-trivial states ------------------------------------ *)
Example ex_bystander :
  let s := run init [Put 0 1; Put 1 2; IngestMove 4] in
  ovl s = None /\ is_target s (Prune [0; 4] []) 1 = false /\ mem 1 (d_trash (cdb s)) = false /\ get s 1 = GotValue 2
  /\ length (plan s (Prune [0; 4] [])) = 11%nat.
Proof. vm_compute. repeat split. Qed.

Example ex_insertion :
  let s := run init [Put 0 1] in
  is_insert (Transfer [1; 2]) = true /\ is_target s (Transfer [1; 2]) 2 = true /\ fresh_id s 2
  /\ length (plan s (Transfer [1; 2])) = 11%nat
  /\ rows_absent (crash s (plan s (Transfer [1; 2])) 10) 2
  /\ fget (Final 2) (fs (crash s (plan s (Transfer [1; 2])) 10)) = Some (Complete 202)
  /\ recorded (crash s (plan s (Transfer [1; 2])) 11) 2 = true.
Proof. vm_compute. repeat split. Qed.

Example ex_partial_only_under_temporary_name :
  let s := run init [Put 0 1] in
  fs (crash s (plan s (Put 1 7)) 3) = (Tmp 0, Partial) :: fs s.
Proof. vm_compute. reflexivity. Qed.

Example ex_pending_deletion_completed :
  let s := run init [Put 0 1; Put 1 2] in
  let u := crash s (plan s (Prune [0] [])) 6 in        (* died after the file was deleted, before the records were *)
  mem 0 (d_trash (cdb u)) = true /\ mem 0 (d_recs (cdb u)) = true /\ knows (run_op u (EmptyTrash [])) 0 = false
  /\ rerun_target u (Prune [0] []) 0 = true /\ is_removal (Prune [0] []) = true.
Proof. vm_compute. repeat split. Qed.

Example ex_good_reachable : good (run init [Put 0 1; Put 1 2; IngestMove 4; Trash [1]]).
Proof.
  concrete_good.
Qed.

(* wave 5 *)
Example ex_transfer_content :
  let s := run init [Put 0 1] in
  insert_ok (cdb s) [5; 2] = true /\ get (run_op s (Transfer [5; 2])) 2 = GotValue 202 /\ get (run_op s (Transfer [5; 2])) 0 = GotValue 1.
Proof. vm_compute. repeat split. Qed.

(* a history with two deaths (a put after its rename, a purge between its commit and emptyTrash) passes the fresh-id guard *)
Example ex_crash_history_fresh :
  let hs := [Done (Put 0 1); Crashed (Put 1 2) 5; Done (Put 1 3); Crashed (Prune [0] []) 5; Done (Put 2 9)] in
  hist_fresh init hs = true /\ mem 0 (d_trash (cdb (runh init hs))) = true /\ get (runh init hs) 1 = GotValue 3.
Proof. vm_compute. repeat split. Qed.

(* the guard is needed IN THE MODEL (id = slot = path): re-inserting slot 0 while the purge of the old slot-0 dataset is
   still pending breaks `good`.  Not reachable in the implementation, where the new dataset has a new UUID. *)
Example ex_fresh_guard_is_needed :
  let hs := [Done (Put 0 1); Crashed (Prune [0] []) 5; Done (Put 0 2)] in
  hist_fresh init hs = false /\ mem 0 (d_loc (cdb (runh init hs))) = true /\ mem 0 (d_trash (cdb (runh init hs))) = true.
Proof. vm_compute. repeat split. Qed.

(* a three-dataset put dying while the second artifact sits under its temporary name: first present, others absent *)
Example ex_multi_put_prefix :
  let s := run init [Put 0 1] in
  let l := [(1, 11); (4, 44); (2, 22)] in
  let u := crash s (plan_seq s (map put_of l)) 12 in
  insert_ok (cdb s) (map fst l) = true /\ length (plan_seq s (map put_of l)) = 24%nat
  /\ fully_present u 1 11 /\ rows_absent u 4 /\ rows_absent u 2 /\ fget (Tmp 0) (fs u) = Some (Complete 44).
Proof. vm_compute. repeat split. Qed.

Example ex_transfer_prefix :
  let s := run init [Put 0 1] in
  let u := crash s (plan s (Transfer [5; 2; 3])) 7 in       (* second artifact written under its temporary name *)
  cdb u = cdb s /\ fget (Final 5) (fs u) = Some (Complete 205) /\ fget (Final 2) (fs u) = None /\ fget (Final 3) (fs u) = None.
Proof. vm_compute. repeat split. Qed.

(* shared artifacts: a zip (artifact 50) with members 0, 4, 2 next to dataset 1; purging member 4 and dataset 1 keeps the zip
   at every crash point, members 0 and 2 read back; purging all members deletes it *)
Example ex_shared_zip :
  let s := srun sinit [SStore false 1 11 [1]; SStore false 50 7000 [0; 4; 2]] in
  let o := SPrune [4; 1] [] in
  sdisj (sb s) /\ s_target o 0 = false /\ art_of (sb s) 0 = Some 50 /\ length (splan s o) = 3%nat
  /\ fget (Final 50) (sf (srun_op s o)) = Some (Complete 7000) /\ fget (Final 1) (sf (srun_op s o)) = None
  /\ sget (srun_op s o) 2 = GotValue 7000
  /\ fget (Final 50) (sf (srun_op (srun_op s o) (SPrune [0; 2] []))) = None.
Proof. vm_compute. repeat split; intros; discriminate. Qed.

Example ex_shared_multi_ref_joint :
  let s := srun sinit [SStore false 0 11 [0]] in
  let o := SStore false 2 102 [2; 3] in
  sstore_ok (sb s) [2; 3] = true /\ length (splan s o) = 4%nat
  /\ sb (scrash s (splan s o) 3) = sb s /\ fget (Final 2) (sf (scrash s (splan s o) 3)) = Some (Complete 102)
  /\ sget (scrash s (splan s o) 4) 3 = GotValue 102.
Proof. vm_compute. repeat split. Qed.

(* a purge of both refs of a multi-ref artifact dies after the file was unlinked, before the rows were deleted (k = 2): the
   re-run completes -- nothing pending, no record, no file; a purge of ONE ref keeps the file for the other *)
Example ex_shared_rerun :
  let s := srun sinit [SStore false 0 11 [0]; SStore false 2 102 [2; 3]] in
  let u := scrash s (splan s (SPrune [3; 2] [])) 2 in
  let u' := srun_op u (SPrune [3; 2] []) in
  length (splan s (SPrune [3; 2] [])) = 4%nat
  /\ mem 2 (s_trash (sb u)) = true /\ has_rec (sb u) 3 = true /\ fget (Final 2) (sf u) = None
  /\ has_rec (sb u') 2 = false /\ has_rec (sb u') 3 = false /\ s_trash (sb u') = [] /\ sget u' 0 = GotValue 11
  /\ sget (srun_op s (SPrune [2] [])) 3 = GotValue 102.
Proof. vm_compute. repeat split. Qed.

Example ex_rerun_completed_zip :
  let s := srun sinit [SStore false 1 11 [1]] in
  let o := SStore false 50 7000 [0; 4] in
  sstore_ok (sb s) [0; 4] = true /\ splan (srun_op s o) o = [] /\ sget (srun_op (srun_op s o) o) 4 = GotValue 7000.
Proof. vm_compute. repeat split. Qed.

Example ex_rerun_completed_ingest_move :
  let s := run init [Put 0 1] in
  plan s (IngestMove 4) <> [] /\ plan (run_op s (IngestMove 4)) (IngestMove 4) = [] /\ get (run_op (run_op s (IngestMove 4)) (IngestMove 4)) 4 = GotValue 104.
Proof. vm_compute. repeat split. intros H. discriminate. Qed.
