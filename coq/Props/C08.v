(* C08 -- A crash at any instant leaves a repository that reopens consistent.
   Statements only; proofs in Proofs/CrashProofsA.v, CrashProofsB.v, CrashProofsC.v; model in Model/Crash.v.

   `crash s p k` = the first k steps of plan p from state s, then recovery (the uncommitted transaction is dropped).
   Every theorem quantifies over ALL states without an open transaction (hence all states reached by any history,
   fault-free or crashed and recovered), ALL operations with ALL arguments, and ALL crash indices k (k beyond the length of
   the plan = the operation completed). *)
From Coq Require Import NArith List Bool.
From V Require Import Model.Crash Proofs.CrashProofsA Proofs.CrashProofsB Proofs.CrashProofsC.
Import ListNotations.
Open Scope N_scope.

(* 1. A dataset that is not a target of the interrupted call (and was not already marked for deletion) is seen exactly as
      before: same get (same content), same existence flags, same location row, same artifact. *)
Theorem crash_bystanders_intact : forall s o k d,
  ovl s = None -> is_target s o d = false -> mem d (d_trash (cdb s)) = false ->
  let s' := crash s (plan s o) k in
  get s' d = get s d /\ recorded s' d = recorded s d /\ knows s' d = knows s d /\ artifact s' d = artifact s d
  /\ mem d (d_loc (cdb s')) = mem d (d_loc (cdb s)) /\ fget (Final d) (fs s') = fget (Final d) (fs s).
Proof. exact bystander_intact_l. Qed.
Print Assumptions crash_bystanders_intact.

Theorem crash_bystanders_intact_all_histories : forall h o k d v,
  let s := run init h in
  is_target s o d = false -> mem d (d_trash (cdb s)) = false -> get s d = GotValue v ->
  get (crash s (plan s o) k) d = GotValue v.
Proof.
  intros h o k d v s T M G.
  destruct (bystander_intact_l s o k d (ovl_run h init ovl_init) T M) as [E _]. rewrite E. exact G.
Qed.
Print Assumptions crash_bystanders_intact_all_histories.

(* 2. Never a half-written artifact under a final name (nor a half-written staging file): after every prefix of every plan. *)
Theorem crash_no_partial_final : forall s o k d, Js s -> fget (Final d) (fs (crash s (plan s o) k)) <> Some Partial.
Proof. exact no_partial_final_l. Qed.
Print Assumptions crash_no_partial_final.

Theorem crash_no_partial_final_all_histories : forall h o k d,
  fget (Final d) (fs (crash (run init h) (plan (run init h) o) k)) <> Some Partial.
Proof. intros h o k d. apply no_partial_final_l. apply Js_run, Js_init. Qed.
Print Assumptions crash_no_partial_final_all_histories.

(* ... and the invariant survives crashes, so any number of crashes in a row keep it *)
Theorem crash_keeps_files_whole : forall s o k, Js s -> Js (crash s (plan s o) k).
Proof. exact Js_crash. Qed.
Print Assumptions crash_keeps_files_whole.

(* 3. An interrupted insertion (put / ingest copy / ingest move / transfer_from) is all-or-nothing for every target id:
      refused without a step, or no row at all (registry, location, records), or all rows -- and then the state IS the
      completed operation's state.  `fresh_id`: dataset ids are UUIDs, new for the datastore tables. *)
Theorem crash_insertion_all_or_nothing : forall s o k d,
  ovl s = None -> is_insert o = true -> is_target s o d = true -> fresh_id s d ->
  let s' := crash s (plan s o) k in
  plan s o = [] \/ rows_absent s' d
  \/ (recorded s' d = true /\ mem d (d_loc (cdb s')) = true /\ knows s' d = true
      /\ s' = recover (run_steps s (plan s o))).
Proof. exact insertion_rows_atomic_l. Qed.
Print Assumptions crash_insertion_all_or_nothing.

(* the rows of a transaction block never move before its commit, whatever file activity happens inside *)
Theorem uncommitted_rows_invisible : forall body s k,
  no_marker body -> ovl s = None -> (k <= S (length body))%nat ->
  cdb (crash s (SqlBegin :: body ++ [SqlCommit]) k) = cdb s.
Proof. intros. unfold crash, recover. simpl. apply txn_block_cdb_prefix; assumption. Qed.
Print Assumptions uncommitted_rows_invisible.

(* 4. Emptying the trash, run to completion from ANY recovered state (in particular after any crash of any removal),
      completes every pending deletion that still has its records row: records gone, trash row gone, artifact gone. *)
Theorem rerun_completes_partial : forall u ord d,
  ovl u = None -> mem d (d_trash (cdb u)) = true -> mem d (d_recs (cdb u)) = true ->
  let u' := run_op u (EmptyTrash ord) in
  knows u' d = false /\ mem d (d_trash (cdb u')) = false /\ fget (Final d) (fs u') = None
  /\ mem d (d_loc (cdb u')) = mem d (d_loc (cdb u)) /\ recorded u' d = recorded u d.
Proof. exact emptytrash_clears_l. Qed.
Print Assumptions rerun_completes_partial.

(* REFUTED at full strength: what is missing above is "a trash row always has its records row".  The code deletes the
   records rows and the trash rows in two separate transactions and only looks at trash rows that still have records:
   a death between the two commits leaves a trash row that neither a re-run of the removal nor emptyTrash ever removes.
   Replayed on the implementation: known finding K-C08-emptytrash-two-commits. *)
Theorem rerun_completes_refuted : exists h o k,
  let s := run init h in
  let s' := crash s (plan s o) k in
  let u := run_op (run_op s' o) (EmptyTrash []) in
  is_target s o 0 = true /\ mem 0 (d_trash (cdb u)) = true /\ mem 0 (d_trash (cdb (run_op u (EmptyTrash [])))) = true.
Proof. exists [Put 0 1; Put 1 2], (Unstore [0] []), 8%nat. vm_compute. repeat split. Qed.
Print Assumptions rerun_completes_refuted.

(* the window is exactly the two steps between the commits (same witness, every crash index) *)
Theorem stale_trash_row_only_between_the_commits :
  let s := run init [Put 0 1; Put 1 2] in
  let o := Unstore [0] [] in
  forallb (fun k => let u := run_op (run_op (crash s (plan s o) k) o) (EmptyTrash []) in
                    Bool.eqb (mem 0 (d_trash (cdb u))) (existsb (Nat.eqb k) [8; 9; 10]%nat))
          (seq 0 (S (length (plan s o)))) = true.
Proof. vm_compute. reflexivity. Qed.
Print Assumptions stale_trash_row_only_between_the_commits.

(* ---- non-vacuity: the hypotheses are met by reachable, non-trivial states ------------------------------------ *)
Example ex_bystander :
  let s := run init [Put 0 1; Put 1 2; IngestMove 4] in
  ovl s = None /\ is_target s (Prune [0; 4] []) 1 = false /\ mem 1 (d_trash (cdb s)) = false /\ get s 1 = GotValue 2
  /\ length (plan s (Prune [0; 4] [])) = 13%nat.
Proof. vm_compute. repeat split. Qed.

Example ex_insertion :
  let s := run init [Put 0 1] in
  is_insert (Transfer [1; 2]) = true /\ is_target s (Transfer [1; 2]) 2 = true /\ fresh_id s 2
  /\ length (plan s (Transfer [1; 2])) = 11%nat
  /\ rows_absent (crash s (plan s (Transfer [1; 2])) 10) 2
  /\ fget (Final 2) (fs (crash s (plan s (Transfer [1; 2])) 10)) = Some (Complete 202)
  /\ recorded (crash s (plan s (Transfer [1; 2])) 11) 2 = true.
Proof. vm_compute. repeat split. Qed.

Example ex_partial_only_under_temporary_name :
  let s := run init [Put 0 1] in
  fs (crash s (plan s (Put 1 7)) 3) = (Tmp 0, Partial) :: fs s.
Proof. vm_compute. reflexivity. Qed.

Example ex_pending_deletion_completed :
  let s := run init [Put 0 1; Put 1 2] in
  let u := crash s (plan s (Prune [0] [])) 6 in        (* died after the file was deleted, before the records were *)
  mem 0 (d_trash (cdb u)) = true /\ mem 0 (d_recs (cdb u)) = true /\ knows (run_op u (EmptyTrash [])) 0 = false.
Proof. vm_compute. repeat split. Qed.
