(* C08 -- A crash at any instant leaves a repository that reopens consistent.
   Statements only; proofs in Proofs/CrashProofsA.v .. CrashProofsE.v; model in Model/Crash.v (emptyTrash as repaired by
   /repo e615ec5: records rows and trash rows deleted in ONE transaction).

   `crash s p k` = the first k steps of plan p from state s, then recovery (the uncommitted transaction is dropped).
   Every theorem quantifies over ALL states without an open transaction (hence all states reached by any history,
   fault-free or crashed and recovered), ALL operations with ALL arguments, and ALL crash indices k (k beyond the length of
   the plan = the operation completed). *)
From Coq Require Import NArith List Bool.
From V Require Import Model.Crash Proofs.CrashProofsA Proofs.CrashProofsB Proofs.CrashProofsC Proofs.CrashProofsD Proofs.CrashProofsE.
Import ListNotations.
Open Scope N_scope.

(* 1. A dataset that is not a target of the interrupted call (and was not already marked for deletion) is seen exactly as
      before: same get (same content), same existence flags, same location row, same artifact. *)
Theorem crash_bystanders_intact : forall s o k d,
  ovl s = None -> is_target s o d = false -> mem d (d_trash (cdb s)) = false ->
  let s' := crash s (plan s o) k in
  get s' d = get s d /\ recorded s' d = recorded s d /\ knows s' d = knows s d /\ artifact s' d = artifact s d
  /\ mem d (d_loc (cdb s')) = mem d (d_loc (cdb s)) /\ fget (Final d) (fs s') = fget (Final d) (fs s).
Proof. exact bystander_intact_l. Qed.
Print Assumptions crash_bystanders_intact.

Theorem crash_bystanders_intact_all_histories : forall h o k d v,
  let s := run init h in
  is_target s o d = false -> mem d (d_trash (cdb s)) = false -> get s d = GotValue v ->
  get (crash s (plan s o) k) d = GotValue v.
Proof.
  intros h o k d v s T M G.
  destruct (bystander_intact_l s o k d (ovl_run h init ovl_init) T M) as [E _]. rewrite E. exact G.
Qed.
Print Assumptions crash_bystanders_intact_all_histories.

(* 2. Never a half-written artifact under a final name (nor a half-written staging file): after every prefix of every plan. *)
Theorem crash_no_partial_final : forall s o k d, Js s -> fget (Final d) (fs (crash s (plan s o) k)) <> Some Partial.
Proof. exact no_partial_final_l. Qed.
Print Assumptions crash_no_partial_final.

Theorem crash_no_partial_final_all_histories : forall h o k d,
  fget (Final d) (fs (crash (run init h) (plan (run init h) o) k)) <> Some Partial.
Proof. intros h o k d. apply no_partial_final_l. apply Js_run, Js_init. Qed.
Print Assumptions crash_no_partial_final_all_histories.

(* ... and the invariant survives crashes, so any number of crashes in a row keep it *)
Theorem crash_keeps_files_whole : forall s o k, Js s -> Js (crash s (plan s o) k).
Proof. exact Js_crash. Qed.
Print Assumptions crash_keeps_files_whole.

(* 3. An interrupted insertion (put / ingest copy / ingest move / transfer_from) is all-or-nothing for every target id:
      refused without a step, or no row at all (registry, location, records), or all rows -- and then the state IS the
      completed operation's state.  `fresh_id`: dataset ids are UUIDs, new for the datastore tables. *)
Theorem crash_insertion_all_or_nothing : forall s o k d,
  ovl s = None -> is_insert o = true -> is_target s o d = true -> fresh_id s d ->
  let s' := crash s (plan s o) k in
  plan s o = [] \/ rows_absent s' d
  \/ (recorded s' d = true /\ mem d (d_loc (cdb s')) = true /\ knows s' d = true
      /\ s' = recover (run_steps s (plan s o))).
Proof. exact insertion_rows_atomic_l. Qed.
Print Assumptions crash_insertion_all_or_nothing.

(* the rows of a transaction block never move before its commit, whatever file activity happens inside *)
Theorem uncommitted_rows_invisible : forall body s k,
  no_marker body -> ovl s = None -> (k <= S (length body))%nat ->
  cdb (crash s (SqlBegin :: body ++ [SqlCommit]) k) = cdb s.
Proof. intros. unfold crash, recover. simpl. apply txn_block_cdb_prefix; assumption. Qed.
Print Assumptions uncommitted_rows_invisible.

(* ... and a completed put / ingest holds the complete artifact with the content it was given *)
Theorem put_completes : forall s d v, ovl s = None -> insert_ok (cdb s) [d] = true ->
  let s' := run_op s (Put d v) in
  recorded s' d = true /\ knows s' d = true /\ mem d (d_loc (cdb s')) = true /\ get s' d = GotValue v
  /\ artifact s' d = true.
Proof. exact put_completes_l. Qed.
Print Assumptions put_completes.

Theorem ingest_copy_completes : forall s d v, ovl s = None -> insert_ok (cdb s) [d] = true ->
  fget (Ext d) (fs s) = Some (Complete v) ->
  let s' := run_op s (IngestCopy d) in
  recorded s' d = true /\ knows s' d = true /\ mem d (d_loc (cdb s')) = true /\ get s' d = GotValue v
  /\ artifact s' d = true.
Proof. intros s d v O OK E. cbn zeta. rewrite (run_ingest_copy_state s d v O OK E). apply put_completes_l; assumption. Qed.
Print Assumptions ingest_copy_completes.

Theorem ingest_move_completes : forall s d v, ovl s = None -> insert_ok (cdb s) [d] = true ->
  fget (Ext d) (fs s) = Some (Complete v) ->
  let s' := run_op s (IngestMove d) in
  recorded s' d = true /\ knows s' d = true /\ mem d (d_loc (cdb s')) = true /\ get s' d = GotValue v
  /\ fget (Ext d) (fs s') = None.
Proof. exact ingest_move_completes_l. Qed.
Print Assumptions ingest_move_completes.

(* goodness of a concrete state: compute its rows, then decide each clause by cases on the id *)
Ltac concrete_good :=
  split; [reflexivity|]; unfold good_db;
  match goal with |- context [cdb ?s] => let b := eval vm_compute in (cdb s) in change (cdb s) with b end;
  cbn [d_runs d_ds d_loc d_trash d_recs mem];
  repeat split; intros d; repeat match goal with |- context [d =? ?n] => destruct (N.eqb_spec d n); [subst d; simpl|] end;
  intros; try discriminate; auto; try tauto; try (intuition congruence).

(* 4. The datastore-bridge invariant `good` (every pending deletion still has its records row; located datasets have
      records and a registry row; located and pending exclude each other; no unowned records) holds initially and
      survives EVERY crash of EVERY removal (pruneDatasets purge / unstore, Datastore.trash, removeRuns, emptyTrash). *)
Theorem crash_of_removal_keeps_invariant : forall s o k, good s -> is_removal o = true -> good (crash s (plan s o) k).
Proof. exact good_crash_removal_l. Qed.
Print Assumptions crash_of_removal_keeps_invariant.

Theorem invariant_initially : good init.
Proof. exact good_init. Qed.
Print Assumptions invariant_initially.

(* 5. FULL STRENGTH (since /repo e615ec5): from the crash state u of ANY removal at ANY index, started in any good state,
      (a) emptyTrash alone leaves the trash table EMPTY and everything that was pending gone from the datastore, artifact
          included;
      (b) re-running the removal and then emptying the trash leaves the trash table EMPTY and every target gone from the
          datastore -- no records, no location row, no trash row, no artifact flag; its artifact file deleted if the
          datastore still knew it -- and from the registry for purge / removeRuns.
      `datastore_gone s d` = knows s d = false /\ no location row /\ no trash row /\ artifact s d = false. *)
Theorem rerun_completes : forall s o k ord2, good s -> is_removal o = true ->
  let u := crash s (plan s o) k in
  good u
  /\ (let u1 := run_op u (EmptyTrash ord2) in
      (forall x, mem x (d_trash (cdb u1)) = false)
      /\ (forall d, mem d (d_trash (cdb u)) = true -> datastore_gone u1 d /\ fget (Final d) (fs u1) = None))
  /\ (let u2 := run_op (run_op u o) (EmptyTrash ord2) in
      (forall x, mem x (d_trash (cdb u2)) = false)
      /\ (forall d, rerun_target u o d = true ->
                    datastore_gone u2 d /\ (purges o = true -> recorded u2 d = false)
                    /\ (knows (run_op u o) d = true -> fget (Final d) (fs u2) = None))).
Proof. exact rerun_completes_l. Qed.
Print Assumptions rerun_completes.

(* the removals themselves, run to completion from any good state (e.g. any crash state above) *)
Theorem prune_completes : forall u l ord d, good u -> mem d l = true ->
  let u' := run_op u (Prune l ord) in
  recorded u' d = false /\ datastore_gone u' d /\ (knows u d = true -> fget (Final d) (fs u') = None).
Proof. exact prune_completes_l. Qed.
Print Assumptions prune_completes.

Theorem unstore_completes : forall u l ord d, good u -> mem d l = true ->
  let u' := run_op u (Unstore l ord) in
  datastore_gone u' d /\ (knows u d = true -> fget (Final d) (fs u') = None) /\ recorded u' d = recorded u d.
Proof. exact unstore_completes_l. Qed.
Print Assumptions unstore_completes.

Theorem removeruns_completes : forall u r ord d, good u -> mem r (d_runs (cdb u)) = true -> run_of d = r ->
  let u' := run_op u (RemoveRuns r ord) in
  recorded u' d = false /\ datastore_gone u' d /\ (knows u d = true -> fget (Final d) (fs u') = None)
  /\ mem r (d_runs (cdb u')) = false.
Proof. exact removeruns_completes_l. Qed.
Print Assumptions removeruns_completes.

(* REFUTED WITHOUT THE FIX: with the two separately committed deletes of emptyTrash (the code before e615ec5,
   `plan_two_commits`) a death between the two commits leaves a trash row without records -- the invariant is broken --
   and neither the old nor the repaired re-run / emptyTrash ever removes it.  If the two-commit order returns, the
   correspondence and the oracle (signature "<op>:trash-row-survives:...") report it; finding F-C08-emptytrash-two-commits. *)
Theorem rerun_completes_refuted_without_fix : exists h o k,
  let s := run init h in
  let s' := crash s (plan_two_commits s o) k in
  good s /\ is_removal o = true /\ ~ good s'
  /\ mem 0 (d_trash (cdb (run_op_two_commits (run_op_two_commits s' o) (EmptyTrash [])))) = true
  /\ mem 0 (d_trash (cdb (run_op (run_op s' o) (EmptyTrash [])))) = true.
Proof.
  exists [Put 0 1; Put 1 2], (Unstore [0] []), 8%nat. cbn zeta.
  split; [|split; [reflexivity|split; [|split; vm_compute; reflexivity]]].
  - concrete_good.
  - intros [_ (G1 & _)]. specialize (G1 0). vm_compute in G1. specialize (G1 eq_refl). discriminate.
Qed.
Print Assumptions rerun_completes_refuted_without_fix.

(* without the fix the window is exactly the three indices between the two commits; with the fix there is none *)
Theorem stale_trash_row_window :
  let s := run init [Put 0 1; Put 1 2] in
  let o := Unstore [0] [] in
  forallb (fun k => let u := run_op (run_op (crash s (plan_two_commits s o) k) o) (EmptyTrash []) in
                    Bool.eqb (mem 0 (d_trash (cdb u))) (existsb (Nat.eqb k) [8; 9; 10]%nat))
          (seq 0 (S (length (plan_two_commits s o)))) = true
  /\ forallb (fun k => let u := run_op (run_op (crash s (plan s o) k) o) (EmptyTrash []) in negb (mem 0 (d_trash (cdb u))))
          (seq 0 (S (length (plan s o)))) = true.
Proof. split; vm_compute; reflexivity. Qed.
Print Assumptions stale_trash_row_window.

(* ---- non-vacuity: the hypotheses are met by reachable, non-trivial states ------------------------------------ *)
Example ex_bystander :
  let s := run init [Put 0 1; Put 1 2; IngestMove 4] in
  ovl s = None /\ is_target s (Prune [0; 4] []) 1 = false /\ mem 1 (d_trash (cdb s)) = false /\ get s 1 = GotValue 2
  /\ length (plan s (Prune [0; 4] [])) = 11%nat.
Proof. vm_compute. repeat split. Qed.

Example ex_insertion :
  let s := run init [Put 0 1] in
  is_insert (Transfer [1; 2]) = true /\ is_target s (Transfer [1; 2]) 2 = true /\ fresh_id s 2
  /\ length (plan s (Transfer [1; 2])) = 11%nat
  /\ rows_absent (crash s (plan s (Transfer [1; 2])) 10) 2
  /\ fget (Final 2) (fs (crash s (plan s (Transfer [1; 2])) 10)) = Some (Complete 202)
  /\ recorded (crash s (plan s (Transfer [1; 2])) 11) 2 = true.
Proof. vm_compute. repeat split. Qed.

Example ex_partial_only_under_temporary_name :
  let s := run init [Put 0 1] in
  fs (crash s (plan s (Put 1 7)) 3) = (Tmp 0, Partial) :: fs s.
Proof. vm_compute. reflexivity. Qed.

Example ex_pending_deletion_completed :
  let s := run init [Put 0 1; Put 1 2] in
  let u := crash s (plan s (Prune [0] [])) 6 in        (* died after the file was deleted, before the records were *)
  mem 0 (d_trash (cdb u)) = true /\ mem 0 (d_recs (cdb u)) = true /\ knows (run_op u (EmptyTrash [])) 0 = false
  /\ rerun_target u (Prune [0] []) 0 = true /\ is_removal (Prune [0] []) = true.
Proof. vm_compute. repeat split. Qed.

Example ex_good_reachable : good (run init [Put 0 1; Put 1 2; IngestMove 4; Trash [1]]).
Proof.
  concrete_good.
Qed.
