(* C02 -- Collections hold what the history says, one dataset per type + data ID.
   Statements only; every proof is `exact <lemma>` from Proofs/RegistryProofs.v.
   `run h` is the state after the history h (fold_left of `step` from the empty registry); histories range over
   ALL lists of operations with arbitrary (also invalid) arguments. *)
From Coq Require Import NArith List Bool Lia.
From V Require Import Model.Registry Proofs.RegistryProofs.
Import ListNotations.
Open Scope N_scope.

(* ukey r = (collection, dataset type, data id);  pkey r = (dataset id, collection) *)

Theorem tags_unique : forall h, NoDup (map ukey (tags (run h))).
Proof. exact tags_unique_p. Qed.
Print Assumptions tags_unique.

Theorem tags_pk_unique : forall h, NoDup (map pkey (tags (run h))).
Proof. exact tags_pk_unique_p. Qed.
Print Assumptions tags_pk_unique.

(* never two datasets with the same dataset type and data ID in a collection *)
Theorem one_dataset_per_key : forall h c t d i j,
  In (Row c t d i) (tags (run h)) -> In (Row c t d j) (tags (run h)) -> i = j.
Proof. exact one_dataset_per_key_p. Qed.
Print Assumptions one_dataset_per_key.

(* the abstract map (collection, dataset type, data id) -> dataset read off by `find` is well defined: it returns
   i exactly when the row is present (refinement of the row list to the abstract specification's map) *)
Theorem abs_map_well_defined : forall h c t d i,
  find (run h) c t d = Some i <-> In (Row c t d i) (tags (run h)).
Proof. exact find_spec_p. Qed.
Print Assumptions abs_map_well_defined.

(* every failing operation returns the same state *)
Theorem refused_changes_nothing : forall s o s' e, step s o = (s', Err e) -> s' = s.
Proof. exact refused_changes_nothing_p. Qed.
Print Assumptions refused_changes_nothing.

(* a dataset that is alive before and after a step keeps its dataset type and its run *)
Theorem definition_constant_step : forall h o i x x',
  ds_find (datasets (run h)) i = Some x -> ds_find (datasets (exec (run h) o)) i = Some x' -> x' = x.
Proof. exact step_def_constant_p. Qed.
Print Assumptions definition_constant_step.

(* one RUN for the whole life: along any continuation h' during which the dataset stays alive *)
Theorem one_run_for_life : forall h h' i,
  (forall k, (k <= length h')%nat -> alive (run (h ++ firstn k h')) i = true) ->
  run_of (run (h ++ h')) i = run_of (run h) i.
Proof. exact one_run_for_life_p. Qed.
Print Assumptions one_run_for_life.

(* RUN membership is exactly run_of: a RUN collection holds precisely the datasets whose run it is *)
Theorem run_membership : forall h c i, coll_type (run h) c = Some RUN ->
  ((exists t d, In (Row c t d i) (tags (run h))) <-> run_of (run h) i = Some c).
Proof. exact run_membership_p. Qed.
Print Assumptions run_membership.

(* every tag row refers to a live dataset and an existing collection (no rows survive a removal) *)
Theorem tags_refer_to_live : forall h r, In r (tags (run h)) ->
  alive (run h) (r_id r) = true /\ coll_type (run h) (r_coll r) <> None.
Proof. exact tags_refer_to_live_p. Qed.
Print Assumptions tags_refer_to_live.

(* TAGGED contents change only at associate / disassociate / remove steps *)
Theorem tagged_changes_only_by : forall s o c t, coll_type s c = Some TAGGED -> touches_tagged o = false ->
  contents (exec s o) c t = contents s c t.
Proof. exact tagged_frame_p. Qed.
Print Assumptions tagged_changes_only_by.

(* summaries over-approximate the contents, so pruning by them never loses a match *)
Theorem summary_over_approx : forall h c t d i, In (Row c t d i) (tags (run h)) ->
  mem2 (c, t) (summ_t (run h)) = true /\ mem2 (c, gov_of d) (summ_g (run h)) = true.
Proof. exact summary_over_approx_p. Qed.
Print Assumptions summary_over_approx.

Theorem pruned_query_eq : forall h c t g, query_with_summaries (run h) c t g = query_all (run h) c t g.
Proof. exact pruned_query_eq_p. Qed.
Print Assumptions pruned_query_eq.

(* the conflict error is raised exactly when uniqueness would break (single-entry batches; the batch forms are
   covered by tags_unique + refused_changes_nothing and by the correspondence run) *)
Theorem associate_conflict_iff_partial : forall s c i t d,
  coll_type s c = Some TAGGED -> has_type s t = true -> alive s i = true ->
  (snd (step s (Associate c [Ref i t d])) = Err Conflict <->
   exists x, In x (tags s) /\ r_coll x = c /\ r_type x = t /\ r_data x = d /\ r_id x <> i).
Proof. exact associate_conflict_iff_p. Qed.
Print Assumptions associate_conflict_iff_partial.

Theorem insert_conflict_iff_partial : forall s t c d i,
  has_type s t = true -> coll_type s c = Some RUN -> valid_d d = true -> alive s i = false ->
  (snd (step s (Insert t c [(d, i)])) = Err Conflict <->
   exists x, In x (tags s) /\ (ukey x = (c, t, d) \/ pkey x = (i, c))).
Proof. exact insert_conflict_iff_p. Qed.
Print Assumptions insert_conflict_iff_partial.

(* ---- non-vacuity: a reachable, non-trivial state and the behaviours the hypotheses talk about ------------ *)
Definition ex_h : list op :=
  [RegisterRun 0; RegisterRun 2; RegisterTagged 1; RegisterType 0; RegisterType 1;
   Insert 0 0 [(0, 100); (1, 101)]; Insert 0 2 [(0, 110)]; Associate 1 [Ref 100 0 0; Ref 101 0 1]].

Example ex_tags : length (tags (run ex_h)) = 5%nat.
Proof. vm_compute. reflexivity. Qed.
Example ex_conflict_assoc : step (run ex_h) (Associate 1 [Ref 110 0 0]) = (run ex_h, Err Conflict).
Proof. vm_compute. reflexivity. Qed.
Example ex_conflict_insert : snd (step (run ex_h) (Insert 0 0 [(1, 120)])) = Err Conflict.
Proof. vm_compute. reflexivity. Qed.
Example ex_reimport_same : step (run ex_h) (Import 0 [Ref 100 0 0]) = (run ex_h, Ok).
Proof. vm_compute. reflexivity. Qed.
Example ex_reimport_other_run : snd (step (run ex_h) (Import 2 [Ref 100 0 0])) = Err Conflict.
Proof. vm_compute. reflexivity. Qed.
Example ex_alive_through : forall k, (k <= 2)%nat ->
  alive (run (ex_h ++ firstn k [Disassociate 1 [Ref 100 0 0]; RemoveDatasets [101]])) 100 = true.
Proof. intros k H. destruct k as [|[|[|k]]]; [vm_compute; reflexivity | vm_compute; reflexivity | vm_compute; reflexivity | lia]. Qed.
Example ex_tagged : coll_type (run ex_h) 1 = Some TAGGED /\ contents (run ex_h) 1 0 = [(1, 101); (0, 100)].
Proof. vm_compute. split; reflexivity. Qed.
Example ex_remove_run_cascades : tags (exec (run ex_h) (RemoveCollection 0)) = [Row 2 0 0 110].
Proof. vm_compute. reflexivity. Qed.
Example ex_run_membership : coll_type (run ex_h) 0 = Some RUN /\ run_of (run ex_h) 101 = Some 0.
Proof. vm_compute. split; reflexivity. Qed.
Example ex_pruned_nonempty : query_with_summaries (run ex_h) 1 0 0 = [(1, 101); (0, 100)].
Proof. vm_compute. reflexivity. Qed.
