(* C02 -- Collections hold what the history says, one dataset per type + data ID.
   Statements only; every proof is `exact <lemma>` (or a projection of one) from Proofs/RegistryProofs.v / RegistryProofsX1-7.v
   (first layer, Model/Registry.v + Model/RegistryAbs.v) and Proofs/RegistryXProofs1-3.v (second layer, Model/RegistryX.v).
   `run h` is the state after the history h (fold_left of `step` from the empty registry); histories range over
   ALL lists of operations with arbitrary (also invalid) arguments. *)
From Coq Require Import NArith List Bool Lia.
From V Require Import Model.Registry Model.RegistryAbs Proofs.RegistryProofs Proofs.RegistryProofsX1 Proofs.RegistryProofsX2
  Proofs.RegistryProofsX3 Proofs.RegistryProofsX4 Proofs.RegistryProofsX5 Proofs.RegistryProofsX6 Proofs.RegistryProofsX7
  Model.RegistryX Proofs.RegistryXProofs1 Proofs.RegistryXProofs2 Proofs.RegistryXProofs3.
Import ListNotations.
Open Scope N_scope.

(* ukey r = (collection, dataset type, data id);  pkey r = (dataset id, collection) *)

Theorem tags_unique : forall h, NoDup (map ukey (tags (run h))).
Proof. exact tags_unique_p. Qed.
Print Assumptions tags_unique.

Theorem tags_pk_unique : forall h, NoDup (map pkey (tags (run h))).
Proof. exact tags_pk_unique_p. Qed.
Print Assumptions tags_pk_unique.

(* never two datasets with the same dataset type and data ID in a collection *)
Theorem one_dataset_per_key : forall h c t d i j,
  In (Row c t d i) (tags (run h)) -> In (Row c t d j) (tags (run h)) -> i = j.
Proof. exact one_dataset_per_key_p. Qed.
Print Assumptions one_dataset_per_key.

(* the abstract map (collection, dataset type, data id) -> dataset read off by `find` is well defined: it returns
   i exactly when the row is present (refinement of the row list to the abstract specification's map) *)
Theorem abs_map_well_defined : forall h c t d i,
  find (run h) c t d = Some i <-> In (Row c t d i) (tags (run h)).
Proof. exact find_spec_p. Qed.
Print Assumptions abs_map_well_defined.

(* every failing operation returns the same state *)
Theorem refused_changes_nothing : forall s o s' e, step s o = (s', Err e) -> s' = s.
Proof. exact refused_changes_nothing_p. Qed.
Print Assumptions refused_changes_nothing.

(* a dataset that is alive before and after a step keeps its dataset type and its run *)
Theorem definition_constant_step : forall h o i x x',
  ds_find (datasets (run h)) i = Some x -> ds_find (datasets (exec (run h) o)) i = Some x' -> x' = x.
Proof. exact step_def_constant_p. Qed.
Print Assumptions definition_constant_step.

(* one RUN for the whole life: along any continuation h' during which the dataset stays alive *)
Theorem one_run_for_life : forall h h' i,
  (forall k, (k <= length h')%nat -> alive (run (h ++ firstn k h')) i = true) ->
  run_of (run (h ++ h')) i = run_of (run h) i.
Proof. exact one_run_for_life_p. Qed.
Print Assumptions one_run_for_life.

(* RUN membership is exactly run_of: a RUN collection holds precisely the datasets whose run it is *)
Theorem run_membership : forall h c i, coll_type (run h) c = Some RUN ->
  ((exists t d, In (Row c t d i) (tags (run h))) <-> run_of (run h) i = Some c).
Proof. exact run_membership_p. Qed.
Print Assumptions run_membership.

(* every tag row refers to a live dataset and an existing collection (no rows survive a removal) *)
Theorem tags_refer_to_live : forall h r, In r (tags (run h)) ->
  alive (run h) (r_id r) = true /\ coll_type (run h) (r_coll r) <> None.
Proof. exact tags_refer_to_live_p. Qed.
Print Assumptions tags_refer_to_live.

(* TAGGED contents change only at associate / disassociate / remove steps *)
Theorem tagged_changes_only_by : forall s o c t, coll_type s c = Some TAGGED -> touches_tagged o = false ->
  contents (exec s o) c t = contents s c t.
Proof. exact tagged_frame_p. Qed.
Print Assumptions tagged_changes_only_by.

(* summaries over-approximate the contents, so pruning by them never loses a match *)
Theorem summary_over_approx : forall h c t d i, In (Row c t d i) (tags (run h)) ->
  mem2 (c, t) (summ_t (run h)) = true /\ mem2 (c, gov_of d) (summ_g (run h)) = true.
Proof. exact summary_over_approx_p. Qed.
Print Assumptions summary_over_approx.

Theorem pruned_query_eq : forall h c t g, query_with_summaries (run h) c t g = query_all (run h) c t g.
Proof. exact pruned_query_eq_p. Qed.
Print Assumptions pruned_query_eq.

(* the conflict error is raised exactly when uniqueness would break (single-entry batches; the batch forms are
   covered by tags_unique + refused_changes_nothing and by the correspondence run) *)
Theorem associate_conflict_iff_partial : forall s c i t d,
  coll_type s c = Some TAGGED -> has_type s t = true -> alive s i = true ->
  (snd (step s (Associate c [Ref i t d])) = Err Conflict <->
   exists x, In x (tags s) /\ r_coll x = c /\ r_type x = t /\ r_data x = d /\ r_id x <> i).
Proof. exact associate_conflict_iff_p. Qed.
Print Assumptions associate_conflict_iff_partial.

Theorem insert_conflict_iff_partial : forall s t c d i,
  has_type s t = true -> coll_type s c = Some RUN -> valid_d d = true -> alive s i = false ->
  (snd (step s (Insert t c [(d, i)])) = Err Conflict <->
   exists x, In x (tags s) /\ (ukey x = (c, t, d) \/ pkey x = (i, c))).
Proof. exact insert_conflict_iff_p. Qed.
Print Assumptions insert_conflict_iff_partial.

(* ---- refinement to the abstract specification (Model/RegistryAbs.v) ------------------------------------------
   astate = the map  collection -> dataset type -> data id -> option dataset  (+ collection kinds, dataset types,
   dataset definitions);  astep = the abstract operation on that map;  abs = what a row-level state means;
   aeq = the two abstract states answer every question alike;  arun / aouts = state and outcomes of a history on the
   abstract specification, run / outs on the row-level model.
   honest h: every associate in h is handed refs whose dataset type and data ID are those of the dataset's existing
   memberships at that moment (the documented precondition "resolved refs of datasets in this registry"); refs to
   datasets that do not exist (any more) are honest, and so is every argument of every other operation. *)

(* FULL SIMULATION: along every honest history the abstract map and the registry's rows report the same outcome at
   every step and denote the same state *)
Theorem abs_commutes : forall h, honest h = true ->
  aeq (arun h) (abs (run h)) /\ aouts ainit h = outs init h.
Proof. exact abs_commutes_p. Qed.
Print Assumptions abs_commutes.

(* one step from ANY reachable state, for EVERY operation with arbitrary arguments: the outcome and the next state
   are those of the abstract operation.  Honesty of the past is needed for import only (its validation reads every
   membership of a dataset id); for the eight other operations the state may be reached by any history. *)
Theorem abs_commutes_step : forall h o, honest h = true \/ is_import o = false ->
  snd (astep (abs (run h)) o) = snd (step (run h) o) /\
  aeq (fst (astep (abs (run h)) o)) (abs (exec (run h) o)).
Proof. exact abs_commutes_step_p. Qed.
Print Assumptions abs_commutes_step.

(* the first sentence of the property: every (collection, dataset type, data id) probe after an honest history
   returns what the abstract model of that history holds (and a map holds at most one dataset per key) *)
Theorem contents_eq_abstract : forall h, honest h = true -> forall c t d,
  find (run h) c t d = a_mem (arun h) c t d.
Proof. exact contents_eq_abstract_p. Qed.
Print Assumptions contents_eq_abstract.

Theorem definitions_eq_abstract : forall h, honest h = true -> forall i,
  option_map (fun x => (d_type x, d_run x)) (ds_find (datasets (run h)) i) = a_def (arun h) i.
Proof. exact alive_eq_abstract_p. Qed.
Print Assumptions definitions_eq_abstract.

(* along an honest history every membership of a dataset carries one dataset type and one data ID *)
Theorem memberships_agree : forall h, honest h = true -> forall x y,
  In x (tags (run h)) -> In y (tags (run h)) -> r_id x = r_id y -> r_type x = r_type y /\ r_data x = r_data y.
Proof. intros h H. exact (proj2 (proj2 (inv_run h H))). Qed.
Print Assumptions memberships_agree.

(* a history without associate is honest, whatever its arguments *)
Theorem no_associate_is_honest : forall h, no_assoc h = true -> honest h = true.
Proof. intros h H. exact (no_assoc_honest_from h init H). Qed.
Print Assumptions no_associate_is_honest.

(* ---- conflict exactly when uniqueness would break: BATCH form for insertDatasets (any reachable state, any
   batch): with valid arguments and a non-empty batch the call succeeds iff the batch names pairwise different new
   ids and pairwise different data IDs, none of the ids is in use and none of the (run, type, data ID) keys is held;
   otherwise it is refused with Conflict (and by refused_changes_nothing changes nothing) *)
Theorem insert_batch_ok_iff : forall h t c items,
  has_type (run h) t = true -> coll_type (run h) c = Some RUN ->
  forallb (fun it => valid_d (fst it)) items = true -> items <> [] ->
  (snd (step (run h) (Insert t c items)) = Ok <->
   (NoDup (map snd items) /\ NoDup (map fst items) /\
    forall d i, In (d, i) items -> alive (run h) i = false /\ find (run h) c t d = None)) /\
  (snd (step (run h) (Insert t c items)) = Ok \/ snd (step (run h) (Insert t c items)) = Err Conflict).
Proof. exact insert_batch_ok_iff_p. Qed.
Print Assumptions insert_batch_ok_iff.

Theorem insert_conflict_iff : forall h t c items,
  has_type (run h) t = true -> coll_type (run h) c = Some RUN ->
  forallb (fun it => valid_d (fst it)) items = true -> items <> [] ->
  (snd (step (run h) (Insert t c items)) = Err Conflict <->
   ~ (NoDup (map snd items) /\ NoDup (map fst items) /\
      forall d i, In (d, i) items -> alive (run h) i = false /\ find (run h) c t d = None)).
Proof. exact insert_conflict_iff_batch_p. Qed.
Print Assumptions insert_conflict_iff.

(* BATCH form for associate (any reachable state, any batch of honest refs to live datasets of registered types, TAGGED
   collection): refused with Conflict exactly when another dataset of the collection holds one of the batch's keys, or
   two refs of the batch with different ids share a key; otherwise it succeeds *)
Theorem associate_conflict_iff : forall h c refs,
  coll_type (run h) c = Some TAGGED ->
  (forall f, In f refs -> has_type (run h) (f_type f) = true /\ alive (run h) (f_id f) = true /\ honest_ref (run h) f = true) ->
  (snd (step (run h) (Associate c refs)) = Err Conflict <->
   (exists f x, In f refs /\ In x (tags (run h)) /\
      r_coll x = c /\ r_type x = f_type f /\ r_data x = f_data f /\ r_id x <> f_id f) \/
   (exists f g, In f refs /\ In g refs /\ f_type f = f_type g /\ f_data f = f_data g /\ f_id f <> f_id g)) /\
  (snd (step (run h) (Associate c refs)) = Ok \/ snd (step (run h) (Associate c refs)) = Err Conflict).
Proof. exact associate_conflict_iff_batch_p. Qed.
Print Assumptions associate_conflict_iff.

(* BATCH form for _importDatasets, declaratively (any reachable state -- forged memberships included --, any batch, valid
   arguments): the import succeeds iff the batch names pairwise different dataset ids under pairwise different (type, data ID)
   keys and, for every ref: an existing dataset with that id has the ref's type and lives in this run; every membership of that
   id carries the ref's type and data ID; the key (run, type, data ID) is free or held by this very dataset (import_good).
   Otherwise it is refused with Conflict (and changes nothing). *)
Theorem import_batch_ok_iff : forall h c refs,
  coll_type (run h) c = Some RUN -> forallb (fun f => valid_d (f_data f)) refs = true ->
  forallb (fun f => has_type (run h) (f_type f)) refs = true -> refs <> [] ->
  (snd (step (run h) (Import c refs)) = Ok <-> import_good (run h) c refs) /\
  (snd (step (run h) (Import c refs)) = Ok \/ snd (step (run h) (Import c refs)) = Err Conflict).
Proof. exact import_batch_ok_iff_p. Qed.
Print Assumptions import_batch_ok_iff.

Theorem import_conflict_iff : forall h c refs,
  coll_type (run h) c = Some RUN -> forallb (fun f => valid_d (f_data f)) refs = true ->
  forallb (fun f => has_type (run h) (f_type f)) refs = true -> refs <> [] ->
  (snd (step (run h) (Import c refs)) = Err Conflict <-> ~ import_good (run h) c refs).
Proof. exact import_conflict_iff_batch_p. Qed.
Print Assumptions import_conflict_iff.

(* ---- abs_commutes for histories with FORGED refs, with the exact guard.  import_guard s c refs: every ref of the batch is
   honest in s or the abstract map refuses it anyway (a_bad).  guarded h: the guard holds at every Import of h; associates
   may be handed any ref (forged type / data ID included).  Honest histories are guarded. *)
Theorem abs_commutes_guarded : forall h, guarded h = true ->
  aeq (arun h) (abs (run h)) /\ aouts ainit h = outs init h.
Proof. exact abs_commutes_guarded_p. Qed.
Print Assumptions abs_commutes_guarded.

Theorem abs_commutes_import_guard : forall h c refs, import_guard (run h) c refs = true ->
  snd (astep (abs (run h)) (Import c refs)) = snd (step (run h) (Import c refs)) /\
  aeq (fst (astep (abs (run h)) (Import c refs))) (abs (exec (run h) (Import c refs))).
Proof. exact abs_commutes_import_guard_p. Qed.
Print Assumptions abs_commutes_import_guard.

Theorem honest_is_guarded : forall h, honest h = true -> guarded h = true.
Proof. exact honest_guarded. Qed.
Print Assumptions honest_is_guarded.

(* the guard is needed: a forged TAGGED membership (dataset 100 of data ID 0 associated as data ID 1) makes the re-import of
   the dataset's true ref fail in the registry (second validation query) where the map accepts it *)
Definition ex_forged : list op :=
  [RegisterRun 0; RegisterTagged 1; RegisterType 0; Insert 0 0 [(0, 100)]; Associate 1 [Ref 100 0 1]; Import 0 [Ref 100 0 0]].
Theorem abs_commutes_unguarded_refuted : exists h, guarded h = false /\ aouts ainit h <> outs init h.
Proof. exists ex_forged. split; [vm_compute; reflexivity|]. vm_compute. intros H. discriminate H. Qed.
Print Assumptions abs_commutes_unguarded_refuted.

(* ==== SECOND LAYER (Model/RegistryX.v): the registry with CHAINED and CALIBRATION collections, setCollectionChain,
   certify and removeDatasetType.  xstate contains a first-layer state (`base`); `Base o` is a first-layer operation;
   xrun h = the state after ANY history of first- and second-layer operations with arbitrary arguments. ==== *)

(* the first layer's guarantees hold in the presence of chains, calibration collections and type removal *)
Theorem x_tags_unique : forall h, NoDup (map ukey (tags (base (xrun h)))) /\ NoDup (map pkey (tags (base (xrun h)))).
Proof. intros h. exact (proj1 (x_binv_run h)). Qed.
Print Assumptions x_tags_unique.

Theorem x_one_dataset_per_key : forall h c t d i j,
  In (Row c t d i) (tags (base (xrun h))) -> In (Row c t d j) (tags (base (xrun h))) -> i = j.
Proof. intros h c t d i j. exact (uniq_key (base (xrun h)) c t d i j (proj1 (x_binv_run h))). Qed.
Print Assumptions x_one_dataset_per_key.

Theorem x_tags_refer_to_live : forall h r, In r (tags (base (xrun h))) ->
  alive (base (xrun h)) (r_id r) = true /\ coll_type (base (xrun h)) (r_coll r) <> None.
Proof. intros h. exact (proj1 (proj2 (proj1 (proj2 (x_binv_run h))))). Qed.
Print Assumptions x_tags_refer_to_live.

Theorem x_summary_over_approx : forall h r, In r (tags (base (xrun h))) ->
  mem2 (r_coll r, r_type r) (summ_t (base (xrun h))) = true /\ mem2 (r_coll r, gov_of (r_data r)) (summ_g (base (xrun h))) = true.
Proof. intros h. exact (proj2 (proj2 (x_binv_run h))). Qed.
Print Assumptions x_summary_over_approx.

(* every refused operation (documented error of either layer) returns the same state *)
Theorem x_refused_changes_nothing : forall s o s' r, xstep s o = (s', r) -> refusal r = true -> s' = s.
Proof. exact x_refused_changes_nothing_p. Qed.
Print Assumptions x_refused_changes_nothing.

(* TAGGED contents change only at first-layer associate / disassociate / remove steps: not at certify, setCollectionChain,
   removeDatasetType, registrations *)
Theorem x_tagged_changes_only_by : forall s o c t, coll_type (base s) c = Some TAGGED -> xtouches_tagged o = false ->
  contents (base (xexec s o)) c t = contents (base s) c t.
Proof. exact x_tagged_frame_p. Qed.
Print Assumptions x_tagged_changes_only_by.

(* certify membership is not TAGGED (or RUN) membership: certify never touches the first layer -- no tag row, no dataset *)
Theorem certify_is_not_tag_membership : forall s c refs b len, base (xexec s (Certify c refs b len)) = base s.
Proof. exact certify_base_unchanged_p. Qed.
Print Assumptions certify_is_not_tag_membership.

(* removal cascades: after any history every calibration row refers to a live dataset and a CALIBRATION collection *)
Theorem x_calibs_refer_to_live : forall h q, In q (calibs (xrun h)) ->
  alive (base (xrun h)) (q_id q) = true /\ xkind_of (xrun h) (q_coll q) = Some CALIBRATION.
Proof. intros h q Hq. destruct (x_calfk_run h q Hq) as [A K]. split; [apply alive_iff_in; exact A|exact K]. Qed.
Print Assumptions x_calibs_refer_to_live.

(* the calibration analogue of one-dataset-per-key: two certified memberships of one (collection, type, data ID) never have
   overlapping validity ranges -- at any instant at most one dataset *)
Theorem x_calib_ranges_disjoint : forall h l1 q l2 q', calibs (xrun h) = l1 ++ q :: l2 -> In q' l2 ->
  q_coll q = q_coll q' -> q_type q = q_type q' -> q_data q = q_data q' -> q_e q <= q_b q' \/ q_e q' <= q_b q.
Proof.
  intros h l1 q l2 q' E Hq' K1 K2 K3. pose proof (x_caldisj_run h) as D. rewrite E in D.
  exact (caldisj_split l1 q l2 D q' Hq' (conj K1 (conj K2 K3))).
Qed.
Print Assumptions x_calib_ranges_disjoint.

(* what queryDatasets shows for a collection of any kind = the union over its flattened children; flattened children are
   never chains; a chain holds nothing itself; a non-chained collection shows what it holds *)
Theorem chain_view_is_union : forall s c t p,
  In p (view s c t) <-> exists c', In c' (flatten s (fuel_of s) [c]) /\ In p (holds s c' t).
Proof. exact view_union_p. Qed.
Print Assumptions chain_view_is_union.

Theorem chain_members_not_chained : forall s n cs c', In c' (flatten s n cs) -> xkind_of s c' <> Some CHAINED.
Proof. exact flatten_not_chained. Qed.
Print Assumptions chain_members_not_chained.

Theorem view_of_plain_collection : forall s c t, xkind_of s c <> Some CHAINED -> view s c t = holds s c t.
Proof. exact view_plain_p. Qed.
Print Assumptions view_of_plain_collection.

(* find-first over a chain returns the dataset of the FIRST flattened child that holds the key, and nothing iff no child does *)
Theorem find_first_is_first_holder : forall s c t d i, view_first s c t d = Some i ->
  exists l1 c' l2, flatten s (fuel_of s) [c] = l1 ++ c' :: l2 /\ In (d, i) (holds s c' t) /\
    forall c'', In c'' l1 -> forall j, ~ In (d, j) (holds s c'' t).
Proof. exact view_first_spec. Qed.
Print Assumptions find_first_is_first_holder.

Theorem find_first_none_iff_absent : forall s c t d, view_first s c t d = None -> forall j, ~ In (d, j) (view s c t).
Proof. exact view_first_none. Qed.
Print Assumptions find_first_none_iff_absent.

(* removeDatasetType of a registered type: refused with OrphanedRecordError exactly while a dataset / tag / calibration
   row of the type exists; otherwise the type is gone and no dataset, tag row or calibration row changes *)
Theorem remove_type_exact : forall s t, has_type (base s) t = true ->
  (snd (xstep s (RemoveType t)) = X Orphaned <-> type_in_use s t = true) /\
  (snd (xstep s (RemoveType t)) = B Ok <-> type_in_use s t = false) /\
  (type_in_use s t = false -> has_type (base (xexec s (RemoveType t))) t = false /\
     datasets (base (xexec s (RemoveType t))) = datasets (base s) /\ tags (base (xexec s (RemoveType t))) = tags (base s) /\
     calibs (xexec s (RemoveType t)) = calibs s /\
     forall t', t' <> t -> has_type (base (xexec s (RemoveType t))) t' = has_type (base s) t').
Proof. exact remove_type_spec. Qed.
Print Assumptions remove_type_exact.

(* the dataset-type foreign key over ALL histories: every dataset row, tag row and calibration row carries a registered
   dataset type -- removeDatasetType never leaves a row of a removed type behind *)
Theorem x_types_registered : forall h,
  (forall x, In x (datasets (base (xrun h))) -> has_type (base (xrun h)) (d_type x) = true) /\
  (forall r, In r (tags (base (xrun h))) -> has_type (base (xrun h)) (r_type r) = true) /\
  (forall q, In q (calibs (xrun h)) -> has_type (base (xrun h)) (q_type q) = true).
Proof. intros h. destruct (x_typesok_run h) as [[A Bt] C]. split; [exact A|split; [exact Bt|exact C]]. Qed.
Print Assumptions x_types_registered.

(* conservativity: on histories of first-layer operations the second layer IS the first (same states, same outcomes), so
   theorems 1-23 are theorems about it *)
Theorem x_conservative : forall h,
  xrun (map Base h) = lift (run h) /\ xouts_from xinit (map Base h) = map B (outs init h).
Proof. exact lift_run. Qed.
Print Assumptions x_conservative.

(* ---- non-vacuity: a reachable, non-trivial state and the behaviours the hypotheses talk about ------------ *)
Definition ex_h : list op :=
  [RegisterRun 0; RegisterRun 2; RegisterTagged 1; RegisterType 0; RegisterType 1;
   Insert 0 0 [(0, 100); (1, 101)]; Insert 0 2 [(0, 110)]; Associate 1 [Ref 100 0 0; Ref 101 0 1]].

Example ex_tags : length (tags (run ex_h)) = 5%nat.
Proof. vm_compute. reflexivity. Qed.
Example ex_conflict_assoc : step (run ex_h) (Associate 1 [Ref 110 0 0]) = (run ex_h, Err Conflict).
Proof. vm_compute. reflexivity. Qed.
Example ex_conflict_insert : snd (step (run ex_h) (Insert 0 0 [(1, 120)])) = Err Conflict.
Proof. vm_compute. reflexivity. Qed.
Example ex_reimport_same : step (run ex_h) (Import 0 [Ref 100 0 0]) = (run ex_h, Ok).
Proof. vm_compute. reflexivity. Qed.
Example ex_reimport_other_run : snd (step (run ex_h) (Import 2 [Ref 100 0 0])) = Err Conflict.
Proof. vm_compute. reflexivity. Qed.
Example ex_alive_through : forall k, (k <= 2)%nat ->
  alive (run (ex_h ++ firstn k [Disassociate 1 [Ref 100 0 0]; RemoveDatasets [101]])) 100 = true.
Proof. intros k H. destruct k as [|[|[|k]]]; [vm_compute; reflexivity | vm_compute; reflexivity | vm_compute; reflexivity | lia]. Qed.
Example ex_tagged : coll_type (run ex_h) 1 = Some TAGGED /\ contents (run ex_h) 1 0 = [(1, 101); (0, 100)].
Proof. vm_compute. split; reflexivity. Qed.
Example ex_remove_run_cascades : tags (exec (run ex_h) (RemoveCollection 0)) = [Row 2 0 0 110].
Proof. vm_compute. reflexivity. Qed.
Example ex_run_membership : coll_type (run ex_h) 0 = Some RUN /\ run_of (run ex_h) 101 = Some 0.
Proof. vm_compute. split; reflexivity. Qed.
Example ex_pruned_nonempty : query_with_summaries (run ex_h) 1 0 0 = [(1, 101); (0, 100)].
Proof. vm_compute. reflexivity. Qed.

(* the refinement theorems are not vacuous: ex_h (which contains an associate) is honest, the abstract run holds the
   same memberships, reports the same outcomes, and refuses the same conflicts *)
Example ex_honest : honest ex_h = true.
Proof. vm_compute. reflexivity. Qed.
Example ex_honest_longer : honest (ex_h ++ [Associate 1 [Ref 110 0 0]; RemoveDatasets [100]; Import 2 [Ref 100 0 0; Ref 120 1 3];
                                            Associate 1 [Ref 100 0 0; Ref 120 1 3]; RemoveCollection 0]) = true.
Proof. vm_compute. reflexivity. Qed.
Example ex_abs_mem : a_mem (arun ex_h) 1 0 0 = Some 100 /\ a_mem (arun ex_h) 1 0 1 = Some 101 /\ a_mem (arun ex_h) 2 0 0 = Some 110
                     /\ a_mem (arun ex_h) 1 0 2 = None.
Proof. vm_compute. repeat split; reflexivity. Qed.
Example ex_abs_outs : aouts ainit (ex_h ++ [Associate 1 [Ref 110 0 0]]) = [OkNew; OkNew; OkNew; OkNew; OkNew; Ok; Ok; Ok; Err Conflict].
Proof. vm_compute. reflexivity. Qed.
Example ex_forged_not_honest : honest (ex_h ++ [Associate 1 [Ref 110 0 1]]) = false.
Proof. vm_compute. reflexivity. Qed.
Example ex_batch_dup_data : snd (step (run ex_h) (Insert 1 0 [(2, 130); (2, 131)])) = Err Conflict.
Proof. vm_compute. reflexivity. Qed.
Example ex_batch_ok : snd (step (run ex_h) (Insert 1 0 [(2, 130); (3, 131)])) = Ok.
Proof. vm_compute. reflexivity. Qed.
Example ex_assoc_batch_clash_inside : snd (step (run ex_h) (Associate 1 [Ref 101 0 1; Ref 110 0 0])) = Err Conflict
  /\ forallb (honest_ref (run ex_h)) [Ref 101 0 1; Ref 110 0 0] = true.
Proof. vm_compute. split; reflexivity. Qed.
Example ex_assoc_batch_two_new : snd (step (run (ex_h ++ [Disassociate 1 [Ref 100 0 0]])) (Associate 1 [Ref 110 0 0; Ref 100 0 0])) = Err Conflict.
Proof. vm_compute. reflexivity. Qed.
Example ex_assoc_batch_ok : snd (step (run (ex_h ++ [Disassociate 1 [Ref 100 0 0]])) (Associate 1 [Ref 110 0 0; Ref 101 0 1])) = Ok.
Proof. vm_compute. reflexivity. Qed.

(* second layer: a history with a calibration collection (4), a chain (3) over [calib 4; run 0; tagged 1], certified ranges *)
Definition ex_x : list xop :=
  map Base [RegisterRun 0; RegisterRun 2; RegisterTagged 1; RegisterType 0; RegisterType 2;
            Insert 2 0 [(0, 100); (1, 101)]; Insert 2 2 [(0, 110)]; Insert 0 2 [(3, 111)]; Associate 1 [Ref 110 2 0]] ++
  [RegisterChained 3; RegisterCalib 4; SetChain 3 [4; 0; 1; 0]; Certify 4 [Ref 100 2 0] 0 1; Certify 4 [Ref 110 2 0] 2 0].

Example ex_x_calibs : calibs (xrun ex_x) = [CRow 4 2 0 110 2 3; CRow 4 2 0 100 0 2].
Proof. vm_compute. reflexivity. Qed.
Example ex_x_chain_view : view (xrun ex_x) 3 2 = [(0, 110); (0, 100); (1, 101); (0, 100); (0, 110)]
  /\ flatten (xrun ex_x) (fuel_of (xrun ex_x)) [3] = [4; 0; 1].
Proof. vm_compute. split; reflexivity. Qed.
Example ex_x_find_first : view_first (xrun ex_x) 3 0 3 = None /\ view_first (xrun (ex_x ++ [SetChain 3 [1; 2]])) 3 2 0 = Some 110
  /\ view_first (xrun (ex_x ++ [SetChain 3 [2; 1]])) 3 0 3 = Some 111.
Proof. vm_compute. repeat split; reflexivity. Qed.
Example ex_x_certify_overlap : xstep (xrun ex_x) (Certify 4 [Ref 110 2 0] 1 0) = (xrun ex_x, B (Err Conflict)).
Proof. vm_compute. reflexivity. Qed.
Example ex_x_certify_not_tagged : tags (base (xexec (xrun ex_x) (Certify 4 [Ref 101 2 1] 0 5))) = tags (base (xrun ex_x))
  /\ length (calibs (xexec (xrun ex_x) (Certify 4 [Ref 101 2 1] 0 5))) = 3%nat.
Proof. vm_compute. split; reflexivity. Qed.
Example ex_x_remove_cascades : calibs (xexec (xrun ex_x) (Base (RemoveDatasets [100]))) = [CRow 4 2 0 110 2 3]
  /\ calibs (xexec (xrun ex_x) (Base (RemoveCollection 2))) = [CRow 4 2 0 100 0 2].
Proof. vm_compute. split; reflexivity. Qed.
Example ex_x_child_not_removable : xstep (xrun ex_x) (Base (RemoveCollection 0)) = (xrun ex_x, X SqlErr)
  /\ snd (xstep (xrun ex_x) (SetChain 3 [3])) = X Cycle.
Proof. vm_compute. split; reflexivity. Qed.
Example ex_x_remove_type : snd (xstep (xrun ex_x) (RemoveType 2)) = X Orphaned
  /\ snd (xstep (xrun (ex_x ++ [Base (RemoveDatasets [111])])) (RemoveType 0)) = B Ok
  /\ has_type (base (xrun (ex_x ++ [Base (RemoveDatasets [111]); RemoveType 0]))) 0 = false.
Proof. vm_compute. repeat split; reflexivity. Qed.

(* the guarded theorems are not vacuous: a history with a forged associate and a later import is guarded but not honest *)
Example ex_guarded_forged : guarded (ex_h ++ [Associate 1 [Ref 110 0 1]; Import 0 [Ref 130 1 2]; Import 2 [Ref 110 0 1]]) = true
  /\ honest (ex_h ++ [Associate 1 [Ref 110 0 1]; Import 0 [Ref 130 1 2]; Import 2 [Ref 110 0 1]]) = false.
Proof. vm_compute. split; reflexivity. Qed.
Example ex_import_good : snd (step (run ex_h) (Import 0 [Ref 100 0 0; Ref 130 1 2])) = Ok
  /\ snd (step (run ex_h) (Import 0 [Ref 130 1 2; Ref 131 1 2])) = Err Conflict
  /\ snd (step (run ex_h) (Import 0 [Ref 100 0 1])) = Err Conflict.
Proof. vm_compute. repeat split; reflexivity. Qed.
