From Coq Require Import NArith List Bool.
From V Require Import Model.Registry Proofs.RegistryProofs.
Import ListNotations.
Open Scope N_scope.

Theorem stub : True.
Proof. exact assoc_groups_err_dummy. Qed.
Print Assumptions stub.
