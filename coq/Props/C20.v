(* C20 -- placeholder while the harness is brought up; replaced below *)
From Coq Require Import NArith List Bool.
From V Require Import Model.Conc.
Import ListNotations.
Theorem placeholder_step_total : forall fixed slots g c, exists g' c', cstep fixed slots g c = (g', c').
Proof. intros. destruct (cstep fixed slots g c) as [g' c']. eauto. Qed.
Print Assumptions placeholder_step_total.
