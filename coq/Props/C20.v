(* C20 -- Concurrent clients of one repository behave as if they ran one after another.

   Model: Model/Conc.v.  An API call of a client runs as a sequence of atomic STEPS (one registry transaction block --
   SQLite BEGIN IMMEDIATE is a global write lock --, one run of reads outside a block, or one datastore file operation);
   a schedule (any list of naturals: entry k picks the (k mod #live)-th unfinished client) decides who runs the next
   step.  `run_all fixed slots g clients schedule` is the interleaved run (the lowest-numbered client runs when the
   schedule is exhausted), `run_serial` the run in which a pick executes a WHOLE call.  fixed = true is the code as it
   is; fixed = false the variant with the chain cycle check before the block (before fbfd646).
   Statements only; proofs in Proofs/ConcProofs*.v. *)
From Coq Require Import NArith List Bool.
From V Require Import Model.Conc Model.ConcEnum Proofs.ConcProofs Proofs.ConcProofsB Proofs.ConcProofsC Proofs.ConcProofsD Proofs.ConcProofsE.
Import ListNotations.
Open Scope N_scope.

(* ---- 1. calls whose decisions are re-read inside their single block: every schedule IS a serial order *)

(* for ALL states, programs and schedules: if every call is a single block (put, associate, removeCollection, chain edits
   as repaired) the interleaved run equals the serial run in the order of the schedule (the commit order): same
   per-client outcomes, same final state *)
Theorem closed_ops_serializable : forall fixed slots sched g cs, all_closed fixed cs = true ->
  run_sched fixed slots g cs sched = run_serial fixed slots g cs sched.
Proof. exact closed_ops_serializable_p. Qed.
Print Assumptions closed_ops_serializable.

Theorem put_closed : forall fixed run det v, single_block fixed (Put run det v) = true.
Proof. exact put_closed_p. Qed.
Print Assumptions put_closed.

Theorem associate_closed : forall fixed t rs, single_block fixed (Assoc t rs) = true.
Proof. exact assoc_closed_p. Qed.
Print Assumptions associate_closed.

Theorem remove_collection_closed : forall fixed n, single_block fixed (RmColl n) = true.
Proof. exact rmcoll_closed_p. Qed.
Print Assumptions remove_collection_closed.

Theorem chain_edit_closed_with_fix : forall c ch,
  single_block true (SetChain c ch) = true /\ single_block true (Prepend c ch) = true /\
  single_block true (Extend c ch) = true /\ single_block true (Unchain c ch) = true.
Proof. exact chain_edit_closed_with_fix_p. Qed.
Print Assumptions chain_edit_closed_with_fix.

(* a single-block call really is one step, whatever the state *)
Theorem single_block_is_one_step : forall fixed o, single_block fixed o = true ->
  forall slots g own s, exists g' r own', mstep fixed slots g own o s = (g', Done r own').
Proof. exact single_block_done. Qed.
Print Assumptions single_block_is_one_step.

(* without fbfd646 a chain edit is still running after its first step (the check), so it is not closed *)
Theorem chain_edit_not_closed_without_fix :
  exists g s', colls g <> [] /\ mstep false [] g [] (SetChain 1 [2]) s0 = (g, Cont s').
Proof. exact chain_edit_not_closed_without_fix_p. Qed.
Print Assumptions chain_edit_not_closed_without_fix.

(* ---- 2. chain edits are not lost / no cycle *)

(* witness schedule check1, check2, write1, write2 on the variant with the check outside the block: A -> B -> A *)
Theorem chain_cycle_race_refuted_without_fix :
  exists sched, let '(g, cs) := run_all false [] g_chain p_chain sched in
                cyclic g = true /\ map outs cs = [[OkU]; [OkU]].
Proof. exact chain_cycle_race_refuted_without_fix_p. Qed.
Print Assumptions chain_cycle_race_refuted_without_fix.

(* the code as it is: under EVERY schedule one of the two opposite edits is refused and no cycle is left *)
Theorem chain_cycle_race_fixed_all_schedules : forall sched,
  let '(g, cs) := run_all true [] g_chain p_chain sched in
  cyclic g = false /\ (map outs cs = [[OkU]; [Err ECycle]] \/ map outs cs = [[Err ECycle]; [OkU]]).
Proof. exact chain_cycle_race_fixed_all_schedules_p. Qed.
Print Assumptions chain_cycle_race_fixed_all_schedules.

(* ---- 3. get-or-create and one winner *)

(* Database.sync inside its block, for every state: absent -> created, True; present with the same type -> False, state
   untouched; present with another type -> conflict, state untouched *)
Theorem get_or_create : forall g n t,
  match lookup n (colls g) with
  | None => exists g', sync_coll g n t = (g', inl true) /\ lookup n (colls g') = Some t /\ dsets g' = dsets g
  | Some t' => if ctype_eqb t t' then sync_coll g n t = (g, inl false) else sync_coll g n t = (g, inr EConflict)
  end.
Proof. exact sync_get_or_create_p. Qed.
Print Assumptions get_or_create.

(* for EVERY state, programs and schedule (both variants): a collection name is never registered twice *)
Theorem one_collection_per_name : forall fixed slots sched g cs,
  uniq_names g -> uniq_names (fst (run_all fixed slots g cs sched)).
Proof. exact one_collection_per_name_p. Qed.
Print Assumptions one_collection_per_name.

(* three clients registering the same run, every schedule of 9 picks (the domain is finite: picks are taken modulo the
   number of live clients <= 3, and 9 picks finish all three calls): exactly one True, the others False, one collection *)
Theorem get_or_create_three_clients_9_picks :
  forallb (fun sched => let '(g, cs) := run_all true [] g_empty p_reg3 sched in
                        one_true cs && Nat.eqb (length (colls g)) 1) (all_scheds 9) = true.
Proof. exact get_or_create_three_clients_p. Qed.
Print Assumptions get_or_create_three_clients_9_picks.

(* for EVERY state, programs and schedule: at most one dataset per (run, data ID) -- of several conflicting inserts at
   most one wins *)
Theorem one_winner : forall fixed slots sched g cs,
  uniq_keys g -> uniq_keys (fst (run_all fixed slots g cs sched)).
Proof. exact one_dataset_per_key_p. Qed.
Print Assumptions one_winner.

(* the arbitration at the step: a put succeeds only on a free key and takes it; on a taken key it is refused with a
   conflict and changes nothing *)
Theorem put_one_winner_step : forall fixed slots g own run det v s g' r own',
  mstep fixed slots g own (Put run det v) s = (g', Done r own') ->
  (r = OkU -> has_key g run det = false /\ memN run (runs g) = true /\ has_key g' run det = true) /\
  (has_key g run det = true -> lookup run (colls g) = Some CRun -> r = Err EConflict /\ g' = g).
Proof. exact put_one_winner_step_p. Qed.
Print Assumptions put_one_winner_step.

(* ---- 4. multi-block calls: what the faithful model does NOT satisfy (each witness is replayed on the real Butler) *)

(* two-phase removal is NOT serializable against a put that re-uses the data ID: emptyTrash reads the trash, the put
   commits a new dataset whose artifact has the same path, emptyTrash deletes it: visible and unreadable *)
Theorem two_phase_removal_serializable_refuted :
  exists sched, let '(g, cs) := run_all true (slots_of g_r1) g_r1 p_prune_put sched in
                map outs cs = [[OkU]; [OkU]] /\ has_key g 3 0 = true /\ all_readable g = false.
Proof. exact visible_readable_refuted_p. Qed.
Print Assumptions two_phase_removal_serializable_refuted.

(* ... while both serial orders of these two calls leave everything visible readable *)
Theorem two_phase_removal_serial_orders_fine :
  forall order, In order [[0; 0]; [1; 0]]%nat ->
  all_readable (fst (run_serial true (slots_of g_r1) g_r1 p_prune_put order)) = true.
Proof. exact visible_readable_serial_p. Qed.
Print Assumptions two_phase_removal_serial_orders_fine.

(* registration of one name with two types: the loser gets a conflict that no serial order produces (they answer
   False); the state is that of the serial orders *)
Theorem register_type_race_refuted :
  (exists sched, map outs (snd (run_all true [] g_empty p_reg2 sched)) = [[OkB true]; [Err EConflict]]) /\
  (forall order, In order [[0; 0]; [1; 0]]%nat ->
     ~ In (Err EConflict) (concat (map outs (snd (run_serial true [] g_empty p_reg2 order))))).
Proof. exact register_type_race_refuted_p. Qed.
Print Assumptions register_type_race_refuted.

(* registerRun is two blocks; a removeCollection between them makes it fail half-way *)
Theorem register_run_halfway_refuted :
  exists sched, map outs (snd (run_all true [] g_empty p_regrm sched)) = [[Err ESqlIntegrity]; [OkU]].
Proof. exact regrun_halfway_refuted_p. Qed.
Print Assumptions register_run_halfway_refuted.

(* ... and in between another client's registerRun answers False ("already there") and its put into that run is refused
   with a conflict (the run row the dataset row refers to does not exist yet); the three serial orders never refuse it so *)
Theorem register_run_halfway_put_refuted :
  (exists sched, let '(g, cs) := run_all true [] g_empty p_reg_put sched in
                 map outs cs = [[OkB true]; [OkB false; Err EConflict]] /\ dsets g = []) /\
  (forall order, In order [[0; 0; 0]; [1; 0; 0]; [1; 1; 0]]%nat ->
     ~ In (Err EConflict) (concat (map outs (snd (run_serial true [] g_empty p_reg_put order))))).
Proof. exact regrun_halfway_put_refuted_p. Qed.
Print Assumptions register_run_halfway_put_refuted.

(* removeRuns reads the datasets of the run before its block; a put in between makes the block fail, nothing is lost *)
Theorem remove_runs_put_race_refuted :
  exists sched, let '(g, cs) := run_all true (slots_of g_r1) g_r1 p_rr_put sched in
                map outs cs = [[Err ESqlIntegrity]; [OkU]] /\ all_readable g = true /\ length (dsets g) = 2%nat.
Proof. exact removerun_put_race_refuted_p. Qed.
Print Assumptions remove_runs_put_race_refuted.

(* ---- 5. completeness of the list of mechanisms (finite domains, EVERY interleaving explored by vm_compute) *)

(* 40 x 40 pairs of programs over registration / removal / put / associate / prune / removeRuns / emptyTrash / chain edits /
   dataset-type registration on shared names (Proofs/ConcProofsD.v `alphabet`), two clients, every interleaving of their
   steps: a result (outcomes + what a fresh Butler sees) that no serial order produces is explained by one of five
   mechanisms -- two collection types registered for one name; registerRun with a removal between its blocks; put into a run
   whose registerRun is between its blocks; removeRuns with a put after its query; emptyTrash against a put on one path
   (the only one that leaves a visible dataset unreadable).  Each is a known finding with its own signature. *)
Theorem two_clients_nonserial_classes_complete : all_explained wslots world all_pairs = true.
Proof. exact two_clients_nonserial_classes_complete_p. Qed.
Print Assumptions two_clients_nonserial_classes_complete.

(* the same for THREE clients over the five programs on one fresh name (125 triples) *)
Theorem three_clients_nonserial_classes_complete : all_explained wslots world all_triples = true.
Proof. exact three_clients_nonserial_classes_complete_p. Qed.
Print Assumptions three_clients_nonserial_classes_complete.

(* every one of the five mechanisms does occur in the model *)
Theorem mechanisms_occur :
  nonserial wslots world [[RegRun 4]; [RegColl 4 CTagged]] <> [] /\
  nonserial wslots world [[RegRun 4]; [RmColl 4]] <> [] /\
  nonserial wslots world [[RegRun 4]; [Put 4 1 52]] <> [] /\
  nonserial wslots world [[RemoveRun 3]; [Put 3 2 9]] <> [] /\
  nonserial wslots world [[Prune [RKey 3 0]]; [Put 3 0 9]] <> [].
Proof. exact mechanisms_occur_p. Qed.
Print Assumptions mechanisms_occur.

(* ---- 6. the dimension-group key (first dataset type over a set of dimensions new to the repository) *)

(* _DimensionGroupStorage.save as it is -- lock, THEN re-read, then insert: any clients, EVERY schedule: one key per group *)
Theorem dimension_group_key_unique : forall sched t cs, dg_unique t -> dg_unique (fst (dg_run true t cs sched)).
Proof. exact dimension_group_key_unique_p. Qed.
Print Assumptions dimension_group_key_unique.

(* re-read BEFORE the lock: refresh, refresh, insert, insert allocates two keys for one group *)
Theorem dimension_group_key_refuted_without_locked_reread :
  exists sched, fst (dg_run false [] [mkDG 7 None false; mkDG 7 None false] sched) = [(0, 7); (1, 7)].
Proof. exact dimension_group_key_refuted_without_locked_reread_p. Qed.
Print Assumptions dimension_group_key_refuted_without_locked_reread.

(* ---- non-vacuity *)
Example closed_programs_exist :
  all_closed true [client_of [Put 3 0 9; Assoc 5 [ROwn]]; client_of [SetChain 1 [2]; RmColl 4]] = true.
Proof. reflexivity. Qed.
Example uniq_initial : uniq_keys g_r1 /\ uniq_names g_r1.
Proof. split; vm_compute; repeat constructor; simpl; intuition discriminate. Qed.
Example interleaving_differs_from_default :
  snd (run_all true (slots_of g_r1) g_r1 p_prune_put [0; 0; 1]%nat) <> snd (run_all true (slots_of g_r1) g_r1 p_prune_put [1]%nat).
Proof. vm_compute. discriminate. Qed.
