(* C14 -- The parser follows the documented grammar and rejects everything else cleanly.
   Statements only; every proof is `exact <lemma>` (Proofs/ParserProofs.v, ParserProofs2.v, ParserProofsCanon.v,
   ParserProofsFuel.v, ParserProofsX.v, ParserProofsConv.v, ParserProofsShow*.v, LexerProofs.v) or a closed computation.  The precedence tuple, productions, token list, reserved words and lexer regexes are
   REGENERATED from parserYacc.py / parserLex.py (Gen/GrammarGen.v) on every run; the model parser reads its
   binding powers from that table, so these theorems are re-checked against what the source says now.

   tv  : text of a time literal -> its value (None: rejected)      -- astropy, external, universally quantified
   tun : a time value -> a text that a repaired printer would write; tshow : what str(Time) writes
   ev f x := exists n, forall fuel >= n, f fuel = POk x            -- "for all large enough fuel" (never PFuel) *)
From Coq Require Import ZArith List Bool String Ascii Lia.
From V Require Import Model.Expr Model.SqlExpr
                      Model.ExprTree Model.Lexer Model.Parser Model.ParserConv Gen.GrammarGen
                      Proofs.ParserProofs Proofs.ParserProofs2 Proofs.LexerProofs
                      Proofs.ParserProofsCanon Proofs.ParserProofsFuel Proofs.ParserProofsX Proofs.ParserProofsConv
                      Model.ParserShow Proofs.ParserProofsShow Proofs.ParserProofsShow2 Proofs.ParserProofsShow3
                      Model.ConvPrims Gen.ConvGen Model.ConvVisit Proofs.ConvProofs Proofs.ConvProofsRej Proofs.LexerProofsWs.
Import ListNotations.
Close Scope Z_scope.   (* opened by Model/Expr.v *)
Open Scope string_scope.
Open Scope list_scope.

(* ===================================================================== tie T: the tables the model was written for *)
Theorem gen_precedence_expected :
  GrammarGen.precedence =
  [(ALeft, ["OR"]); (ALeft, ["AND"]); (ANon, ["OVERLAPS"]); (ANon, ["EQ"; "NE"]); (ANon, ["LT"; "LE"; "GT"; "GE"]);
   (ALeft, ["ADD"; "SUB"]); (ALeft, ["MUL"; "DIV"; "MOD"]); (ARight, ["UPLUS"; "UMINUS"; "NOT"])].
Proof. reflexivity. Qed.
Print Assumptions gen_precedence_expected.

Theorem gen_productions_expected :
  GrammarGen.productions =
  [("input", ["expr"]); ("input", ["empty"]); ("empty", []);
   ("expr", ["expr"; "OR"; "expr"]); ("expr", ["expr"; "AND"; "expr"]); ("expr", ["NOT"; "expr"]); ("expr", ["bool_primary"]);
   ("bool_primary", ["bool_primary"; "EQ"; "predicate"]); ("bool_primary", ["bool_primary"; "NE"; "predicate"]);
   ("bool_primary", ["bool_primary"; "LT"; "predicate"]); ("bool_primary", ["bool_primary"; "LE"; "predicate"]);
   ("bool_primary", ["bool_primary"; "GE"; "predicate"]); ("bool_primary", ["bool_primary"; "GT"; "predicate"]);
   ("bool_primary", ["bool_primary"; "OVERLAPS"; "predicate"]); ("bool_primary", ["predicate"]);
   ("predicate", ["bit_expr"; "IN"; "LPAREN"; "literal_or_id_list"; "RPAREN"]);
   ("predicate", ["bit_expr"; "NOT"; "IN"; "LPAREN"; "literal_or_id_list"; "RPAREN"]);
   ("predicate", ["bit_expr"]);
   ("identifier", ["SIMPLE_IDENTIFIER"]); ("identifier", ["QUALIFIED_IDENTIFIER"]);
   ("literal_or_id_list", ["literal_or_id_list"; "COMMA"; "literal"]);
   ("literal_or_id_list", ["literal_or_id_list"; "COMMA"; "identifier"]);
   ("literal_or_id_list", ["literal_or_id_list"; "COMMA"; "bind_name"]);
   ("literal_or_id_list", ["literal"]); ("literal_or_id_list", ["identifier"]); ("literal_or_id_list", ["bind_name"]);
   ("bind_name", ["BIND_NAME"]);
   ("bit_expr", ["bit_expr"; "ADD"; "bit_expr"]); ("bit_expr", ["bit_expr"; "SUB"; "bit_expr"]);
   ("bit_expr", ["bit_expr"; "MUL"; "bit_expr"]); ("bit_expr", ["bit_expr"; "DIV"; "bit_expr"]);
   ("bit_expr", ["bit_expr"; "MOD"; "bit_expr"]); ("bit_expr", ["simple_expr"]);
   ("simple_expr", ["literal"]); ("simple_expr", ["identifier"]); ("simple_expr", ["bind_name"]);
   ("simple_expr", ["function_call"]);
   ("simple_expr", ["ADD"; "simple_expr"; "%prec"; "UPLUS"]); ("simple_expr", ["SUB"; "simple_expr"; "%prec"; "UMINUS"]);
   ("simple_expr", ["LPAREN"; "expr"; "RPAREN"]); ("simple_expr", ["LPAREN"; "expr"; "COMMA"; "expr"; "RPAREN"]);
   ("literal", ["NUMERIC_LITERAL"]);
   ("literal", ["ADD"; "NUMERIC_LITERAL"; "%prec"; "UPLUS"]); ("literal", ["SUB"; "NUMERIC_LITERAL"; "%prec"; "UMINUS"]);
   ("literal", ["STRING_LITERAL"]); ("literal", ["TIME_LITERAL"]); ("literal", ["RANGE_LITERAL"]);
   ("function_call", ["SIMPLE_IDENTIFIER"; "LPAREN"; "expr_list"; "RPAREN"]);
   ("expr_list", ["expr_list"; "COMMA"; "expr"]); ("expr_list", ["expr"]); ("expr_list", ["empty"])].
Proof. reflexivity. Qed.
Print Assumptions gen_productions_expected.

Theorem gen_lexer_tables_expected :
  GrammarGen.reserved = [("IN", "IN"); ("OR", "OR"); ("AND", "AND"); ("NOT", "NOT"); ("OVERLAPS", "OVERLAPS")] /\
  GrammarGen.tokens =
    ["NUMERIC_LITERAL"; "TIME_LITERAL"; "STRING_LITERAL"; "RANGE_LITERAL"; "QUALIFIED_IDENTIFIER"; "SIMPLE_IDENTIFIER";
     "BIND_NAME"; "LPAREN"; "RPAREN"; "EQ"; "NE"; "LT"; "LE"; "GT"; "GE"; "ADD"; "SUB"; "MUL"; "DIV"; "MOD"; "COMMA";
     "IN"; "OR"; "AND"; "NOT"; "OVERLAPS"] /\
  GrammarGen.lex_ignore = " \t" /\ GrammarGen.lex_flags = ["IGNORECASE"; "VERBOSE"].
Proof. repeat split; reflexivity. Qed.
Print Assumptions gen_lexer_tables_expected.

Theorem gen_lex_rules_expected :
  GrammarGen.lex_rules =
  [("newline", "\n+"); ("TIME_LITERAL", "T'.*?'"); ("STRING_LITERAL", "'.*?'");
   ("RANGE_LITERAL", "(?P<start>-?\d+)\s*\.\.\s*(?P<stop>-?\d+)(\s*:\s*(?P<stride>[1-9]\d*))?");
   ("NUMERIC_LITERAL", "\d+(\.\d*)?(e[-+]?\d+)?|\.\d+(e[-+]?\d+)?");
   ("QUALIFIED_IDENTIFIER", "[a-zA-Z_][a-zA-Z0-9_]*(\.[a-zA-Z_][a-zA-Z0-9_]*){1,2}");
   ("SIMPLE_IDENTIFIER", "[a-zA-Z_][a-zA-Z0-9_]*"); ("BIND_NAME", "[:][a-zA-Z_][a-zA-Z0-9_]*");
   ("ADD", "\+"); ("GE", ">="); ("LE", "<="); ("LPAREN", "\("); ("MUL", "\*"); ("NE", "!="); ("RPAREN", "\)");
   ("COMMA", ","); ("DIV", "/"); ("EQ", "="); ("GT", ">"); ("LT", "<"); ("MOD", "%"); ("SUB", "-")].
Proof. reflexivity. Qed.
Print Assumptions gen_lex_rules_expected.

(* the documented order ("same as C++ or Python"), read off the generated table through the model's lvl/asc *)
Theorem table_order :
  lvl BOr < lvl BAnd /\ lvl BAnd < not_lvl /\
  lvl BAdd = lvl BSub /\ lvl BSub < lvl BMul /\ lvl BMul = lvl BDiv /\ lvl BDiv = lvl BMod /\ 1 <= lvl BOr /\ 1 <= lvl BAdd /\
  forall o, (is_logic o || is_arith o) = true -> asc o = ALeft.
Proof. repeat split; try (vm_compute; lia). intros o H; destruct o; try discriminate H; reflexivity. Qed.
Print Assumptions table_order.

(* ===================================================================== round trip (token level, unbounded trees) *)
(* canonical t: t is a tree the grammar can produce (stratified levels, Parens exactly where written, operands of an
   operator of level p have level >= p on the left and > p on the right, signed literals only inside IN lists, time
   values that print back to a parseable text) *)

(* full strength, for the printer a repaired __str__ would be (T'..' and :name kept) *)
Theorem parse_print : forall tv tun t,
  canonical tv tun t = true -> ev (fun fuel => parse tv fuel (print_fix tun t)) (Some t).
Proof. exact parse_print_fix_p. Qed.
Print Assumptions parse_print.

(* what holds for the printer that exists (Node.__str__): the same, for trees without TimeLiteral / BindName *)
Theorem parse_print_partial : forall tv tun tshow t,
  canonical tv tun t = true -> plain t = true -> ev (fun fuel => parse tv fuel (print tshow t)) (Some t).
Proof. exact parse_print_p. Qed.
Print Assumptions parse_print_partial.

(* ... and it fails exactly there: witnesses replayed on the implementation = known finding F-C14-str-time *)
Theorem parse_print_bind_refuted : forall tv tun tshow x,
  canonical tv tun (Bind x) = true /\ forall fuel, parse tv fuel (print tshow (Bind x)) <> POk (Some (Bind x)).
Proof. exact print_bind_refuted_p. Qed.
Print Assumptions parse_print_bind_refuted.

Theorem parse_print_time_refuted : forall tv tshow v fuel,
  parse tv fuel (print tshow (Time v)) <> POk (Some (Time v)).
Proof. exact print_time_refuted_p. Qed.
Print Assumptions parse_print_time_refuted.

Theorem paren_redundant : forall tv tun t,
  canonical tv tun t = true -> ev (fun fuel => parse tv fuel (TLP :: print_fix tun t ++ [TRP])) (Some (Parens t)).
Proof. exact paren_redundant_p. Qed.
Print Assumptions paren_redundant.

(* non-vacuity: a = b OR NOT c + d * - e NOT IN (1, -2, 3..9:2, :x) AND (f(g, 'h') < T'..' OR (u, v) OVERLAPS POINT(1, 2)) *)
Definition tv_id (s : string) : option string := Some s.
Definition sample_tree : tree :=
  Binary (Binary (Ident "a") BEq (Ident "b")) BOr
    (Binary (Unary UNot (IsIn (Binary (Ident "c") BAdd (Binary (Ident "d.e") BMul (Unary UMinus (Ident "e"))))
                              [Num "1"; Num "-2"; Range 3 9 (Some 2%Z); Bind "x"] true)) BAnd
       (Parens (Binary (Binary (Call "f" [Ident "g"; Str "h"]) BLt (Time "2020-01-01")) BOr
                  (Binary (Tuple (Ident "u") (Ident "v")) BOverlaps (Point (Num "1") (Num "2")))))).
Example sample_is_canonical : canonical tv_id (fun v => v) sample_tree = true.
Proof. vm_compute. reflexivity. Qed.
Example sample_round_trip : parse_tokens tv_id (print_fix (fun v => v) sample_tree) = POk (Some sample_tree).
Proof. vm_compute. reflexivity. Qed.
Example sample_plain_is_canonical :
  canonical tv_id (fun v => v) (Binary (Ident "a") BOr (Binary (Ident "b") BAnd (Unary UNot (Ident "c")))) = true /\
  plain (Binary (Ident "a") BOr (Binary (Ident "b") BAnd (Unary UNot (Ident "c")))) = true.
Proof. vm_compute. auto. Qed.
(* not canonical: what the parser can never return *)
Example non_canonical :
  canonical tv_id (fun v => v) (Binary (Ident "a") BAnd (Binary (Ident "b") BOr (Ident "c"))) = false /\
  canonical tv_id (fun v => v) (Binary (Ident "a") BSub (Binary (Ident "b") BSub (Ident "c"))) = false /\
  canonical tv_id (fun v => v) (Binary (Ident "a") BAdd (Num "-1")) = false.
Proof. vm_compute. auto. Qed.

(* ===================================================================== precedence and associativity, every operator pair *)
Theorem prec_pairs : forall tv o1 o2 a b c,
  (is_logic o1 && is_logic o2 || is_arith o1 && is_arith o2) = true ->
  parse_tokens tv (tri a o1 b o2 c) =
  POk (Some (if Nat.ltb (lvl o1) (lvl o2) then right_nested a o1 b o2 c else left_nested a o1 b o2 c)).
Proof. exact prec_pairs_p. Qed.
Print Assumptions prec_pairs.

Theorem cmp_left_nested : forall tv o1 o2 a b c, is_cmp o1 = true -> is_cmp o2 = true ->
  parse_tokens tv (tri a o1 b o2 c) = POk (Some (left_nested a o1 b o2 c)).
Proof. exact cmp_left_nested_p. Qed.
Print Assumptions cmp_left_nested.

Theorem class_order : forall tv oa oc ol a b c,
  is_arith oa = true -> is_cmp oc = true -> is_logic ol = true ->
  parse_tokens tv (tri a oa b oc c) = POk (Some (left_nested a oa b oc c)) /\
  parse_tokens tv (tri a oc b oa c) = POk (Some (right_nested a oc b oa c)) /\
  parse_tokens tv (tri a oc b ol c) = POk (Some (left_nested a oc b ol c)) /\
  parse_tokens tv (tri a ol b oc c) = POk (Some (right_nested a ol b oc c)) /\
  parse_tokens tv (tri a oa b ol c) = POk (Some (left_nested a oa b ol c)) /\
  parse_tokens tv (tri a ol b oa c) = POk (Some (right_nested a ol b oa c)).
Proof. exact class_order_p. Qed.
Print Assumptions class_order.

Theorem not_placement : forall tv oc ol a b,
  is_cmp oc = true -> is_logic ol = true ->
  parse_tokens tv [TNOT; TId a; bop_token oc; TId b] = POk (Some (Unary UNot (Binary (Ident a) oc (Ident b)))) /\
  parse_tokens tv [TNOT; TId a; bop_token ol; TId b] = POk (Some (Binary (Unary UNot (Ident a)) ol (Ident b))) /\
  parse_tokens tv [TNOT; TId a; TIN; TLP; TId b; TRP] = POk (Some (Unary UNot (IsIn (Ident a) [Ident b] false))) /\
  parse_tokens tv [TNOT; TNOT; TId a] = POk (Some (Unary UNot (Unary UNot (Ident a)))).
Proof. exact not_placement_p. Qed.
Print Assumptions not_placement.

Theorem unary_sign : forall tv oa a b n,
  is_arith oa = true ->
  parse_tokens tv [TSUB; TId a; bop_token oa; TId b] = POk (Some (Binary (Unary UMinus (Ident a)) oa (Ident b))) /\
  parse_tokens tv [TId a; bop_token oa; TSUB; TId b] = POk (Some (Binary (Ident a) oa (Unary UMinus (Ident b)))) /\
  parse_tokens tv [TSUB; TNum n] = POk (Some (Unary UMinus (Num n))) /\
  parse_tokens tv [TId a; TIN; TLP; TSUB; TNum n; TCOMMA; TADD; TNum n; TRP] =
    POk (Some (IsIn (Ident a) [Num (String "-"%char n); Num (String "+"%char n)] false)).
Proof. exact unary_sign_p. Qed.
Print Assumptions unary_sign.

(* concrete documented facts that a changed precedence row would break *)
Theorem documented_precedence : forall tv a b c,
  parse_tokens tv [TId a; TOR; TId b; TAND; TId c] = POk (Some (Binary (Ident a) BOr (Binary (Ident b) BAnd (Ident c)))) /\
  parse_tokens tv [TId a; TAND; TId b; TOR; TId c] = POk (Some (Binary (Binary (Ident a) BAnd (Ident b)) BOr (Ident c))) /\
  parse_tokens tv [TId a; TADD; TId b; TMUL; TId c] = POk (Some (Binary (Ident a) BAdd (Binary (Ident b) BMul (Ident c)))) /\
  parse_tokens tv [TId a; TMOD; TId b; TSUB; TId c] = POk (Some (Binary (Binary (Ident a) BMod (Ident b)) BSub (Ident c))) /\
  parse_tokens tv [TId a; TSUB; TId b; TSUB; TId c] = POk (Some (Binary (Binary (Ident a) BSub (Ident b)) BSub (Ident c))) /\
  parse_tokens tv [TId a; TDIV; TId b; TDIV; TId c] = POk (Some (Binary (Binary (Ident a) BDiv (Ident b)) BDiv (Ident c))) /\
  parse_tokens tv [TNOT; TId a; TAND; TId b] = POk (Some (Binary (Unary UNot (Ident a)) BAnd (Ident b))).
Proof. intros. repeat split; reflexivity. Qed.
Print Assumptions documented_precedence.

Theorem rejects : forall tv a b,
  parse_tokens tv [TId a; TIN; TLP; TId b; TRP; TIN; TLP; TId b; TRP] = PErr ESyntax /\
  parse_tokens tv [TId a; TNOT; TId b] = PErr ESyntax /\
  parse_tokens tv [TId a; TIN; TLP; TRP] = PErr ESyntax /\
  parse_tokens tv [TLP; TRP] = PErr ESyntax /\
  parse_tokens tv [TId a; TId b] = PErr ESyntax /\
  parse_tokens tv [TId a; TEQ] = PErr ESyntax /\
  parse_tokens tv [TId a; TIN; TLP; TLP; TId b; TRP; TRP] = PErr ESyntax /\
  parse_tokens tv [TId a; TEQ; TId b; TBad] = PErr ESyntax /\
  parse_tokens tv [TId "POINT"; TLP; TNum "1"; TRP] = PErr EArity /\
  parse_tokens tv [] = POk None.
Proof. exact rejects_p. Qed.
Print Assumptions rejects.

(* the faithful model accepts a string outside the documented grammar (known finding F-C14-call-comma) *)
Theorem call_leading_comma_refuted : forall tv,
  exists ts t, hd_error (skipn 2 ts) = Some TCOMMA /\ parse_tokens tv ts = POk (Some t).
Proof. exact call_leading_comma_refuted_p. Qed.
Print Assumptions call_leading_comma_refuted.

(* ===================================================================== lexer *)
Theorem keyword_case : forall s, keyword_of (upper s) = keyword_of s.
Proof. exact keyword_case_p. Qed.
Print Assumptions keyword_case.

Theorem keyword_same_case : forall s1 s2, upper s1 = upper s2 -> keyword_of s1 = keyword_of s2.
Proof. exact keyword_same_case_p. Qed.
Print Assumptions keyword_same_case.

Theorem classify_spec : forall s,
  classify s =
  if String.eqb "IN" (upper s) then TIN else if String.eqb "OR" (upper s) then TOR
  else if String.eqb "AND" (upper s) then TAND else if String.eqb "NOT" (upper s) then TNOT
  else if String.eqb "OVERLAPS" (upper s) then TOVERLAPS else TId s.
Proof. exact classify_spec_p. Qed.
Print Assumptions classify_spec.

Theorem lex_skip_ws : forall ws l fuel,
  forallb is_ws ws = true -> lex_chars (List.length ws + fuel) (ws ++ l) = lex_chars fuel l.
Proof. exact lex_skip_ws_p. Qed.
Print Assumptions lex_skip_ws.

Theorem number_value : forall ds r, ds <> [] -> forallb is_digit ds = true -> not_digit_next r ->
  m_int (ds ++ r) = Some (digits_val ds, r) /\ m_int ("-"%char :: ds ++ r) = Some ((- digits_val ds)%Z, r).
Proof. exact m_int_value. Qed.
Print Assumptions number_value.

Theorem digits_positional : forall ds d, digits_val (ds ++ [d]) = (digits_val ds * 10 + digit_val d)%Z.
Proof. exact digits_val_snoc. Qed.
Print Assumptions digits_positional.

Theorem range_value : forall a b r,
  a <> [] -> b <> [] -> forallb is_digit a = true -> forallb is_digit b = true -> plain_next r ->
  m_range (a ++ "."%char :: "."%char :: b ++ r) = Some (TRange (digits_val a) (digits_val b) None, r).
Proof. exact range_value_p. Qed.
Print Assumptions range_value.

Example range_value_hyps :
  let a := list_ascii_of_string "130" in let b := list_ascii_of_string "145" in let r := list_ascii_of_string ")" in
  a <> [] /\ b <> [] /\ forallb is_digit a = true /\ forallb is_digit b = true /\ plain_next r /\
  m_range (a ++ "."%char :: "."%char :: b ++ r) = Some (TRange 130 145 None, r).
Proof. vm_compute. repeat split; try discriminate; auto. Qed.
Example keyword_case_example : keyword_of "aNd" = Some TAND /\ keyword_of "android" = None /\ upper "aNd" = "AND".
Proof. vm_compute. auto. Qed.

(* ===================================================================== converse of the round trip, fuel, strings *)
(* tok_wf: a NUMERIC token has no sign, a SIMPLE_IDENTIFIER token has no dot -- true of everything the lexer emits
   (lexer_tokens_wf); tun_inverts tv tun: the text a repaired printer writes for a time value parses back to it *)

(* every tree the parser returns, for any fuel and any well-formed token list, is canonical *)
Theorem parse_canonical : forall tv tun, tun_inverts tv tun ->
  forall fuel ts t, toks_wf ts = true -> parse tv fuel ts = POk (Some t) -> canonical tv tun t = true.
Proof. exact parse_canonical_p. Qed.
Print Assumptions parse_canonical.

Theorem lexer_tokens_wf : forall s, toks_wf (lex s) = true.
Proof. exact lex_wf_p. Qed.
Print Assumptions lexer_tokens_wf.

Theorem parse_string_canonical : forall tv tun, tun_inverts tv tun ->
  forall s t, parse_string tv s = POk (Some t) -> canonical tv tun t = true.
Proof. exact parse_string_canonical_p. Qed.
Print Assumptions parse_string_canonical.

(* fuel_for (12 * tokens + 20) is enough for every token list, and more fuel never changes the answer *)
Theorem fuel_adequate : forall tv ts fuel, fuel_for ts <= fuel -> parse tv fuel ts <> PFuel.
Proof. exact ParserProofsFuel.fuel_adequate. Qed.
Print Assumptions fuel_adequate.

Theorem fuel_monotone : forall tv f f' ts, f <= f' -> parse tv f ts <> PFuel -> parse tv f' ts = parse tv f ts.
Proof. exact parse_fuel_mono. Qed.
Print Assumptions fuel_monotone.

Theorem fuel_stable : forall tv ts fuel, fuel_for ts <= fuel -> parse tv fuel ts = parse_tokens tv ts.
Proof. exact parse_fuel_stable. Qed.
Print Assumptions fuel_stable.

Theorem parse_string_total : forall tv s, parse_string tv s <> PFuel.
Proof. exact parse_string_total_p. Qed.
Print Assumptions parse_string_total.

(* the round trip without "large enough fuel": with the fuel the model really uses *)
Theorem parse_print_tokens : forall tv tun t,
  canonical tv tun t = true -> parse_tokens tv (print_fix tun t) = POk (Some t).
Proof. exact parse_print_tokens_p. Qed.
Print Assumptions parse_print_tokens.

Theorem print_fix_injective : forall tv tun t1 t2, canonical tv tun t1 = true -> canonical tv tun t2 = true ->
  print_fix tun t1 = print_fix tun t2 -> t1 = t2.
Proof. exact print_fix_injective_p. Qed.
Print Assumptions print_fix_injective.

(* the clause "printing a parse tree and parsing it again yields the same tree", for EVERY string that parses
   (repaired printer; with the existing Node.__str__ for trees without TimeLiteral / BindName) *)
Theorem reparse_string : forall tv tun, tun_inverts tv tun -> forall s t,
  parse_string tv s = POk (Some t) -> parse_tokens tv (print_fix tun t) = POk (Some t).
Proof. exact reparse_string_p. Qed.
Print Assumptions reparse_string.

Theorem reparse_string_partial : forall tv tun, tun_inverts tv tun -> forall tshow s t,
  parse_string tv s = POk (Some t) -> plain t = true -> parse_tokens tv (print tshow t) = POk (Some t).
Proof. exact reparse_string_partial_p. Qed.
Print Assumptions reparse_string_partial.

Example tun_inverts_satisfiable : tun_inverts tv_id (fun v => v).
Proof. intros s v _. reflexivity. Qed.
Example reparse_example :
  parse_string tv_id "NOT a.b < -1 + c*2 OR d IN (-1, 2..5:3, :x) AND (T'2020-01-01', e) OVERLAPS f(1)" =
  POk (Some (Binary (Unary UNot (Binary (Ident "a.b") BLt (Binary (Unary UMinus (Num "1")) BAdd (Binary (Ident "c") BMul (Num "2"))))) BOr
               (Binary (IsIn (Ident "d") [Num "-1"; Range 2 5 (Some 3%Z); Bind "x"] false) BAnd
                  (Binary (Tuple (Time "2020-01-01") (Ident "e")) BOverlaps (Call "f" [Num "1"]))))).
Proof. vm_compute. reflexivity. Qed.

(* ===================================================================== the round trip over STRINGS *)
(* show_fix / show : Node.__str__ character for character (Model/ParserShow.v; compared with str(tree) on every run).
   quote_free: no quote and no newline -- a T'...' literal cannot contain one. *)

(* Python str(int), as printed in range literals, reads back as the same integer *)
Theorem show_int_value : forall z r, not_digit_next r -> m_int (show_Z z ++ r) = Some (z, r).
Proof. exact m_int_show_Z. Qed.
Print Assumptions show_int_value.

(* compositional: if every leaf payload is a text the lexer reads as its own token (payload_ok: numbers are numeric
   spellings, strings are quote free, identifiers are identifiers that are not keywords, ...), the printed expression
   lexes to exactly the printed token list -- whatever the tree shape, spaces, commas, parentheses, keywords *)
Theorem lex_show : forall fixed tshow t, payload_ok fixed tshow t -> range_ok t = true ->
  lex (string_of_list_ascii (show_g fixed tshow t)) = print_g fixed tshow t.
Proof. exact lex_show_payload_p. Qed.
Print Assumptions lex_show.

(* every token the lexer emits carries such a payload, ranges have a stride >= 1 *)
Theorem lexer_payloads_ok : forall s, Forall tok_ok2 (lex s).
Proof. exact lex_tok_ok2. Qed.
Print Assumptions lexer_payloads_ok.

(* hence, for EVERY string that parses: lex (str(tree)) = print tree, and parsing str(tree) gives the tree back *)
Theorem lex_show_parsed : forall tv tun, (forall v, quote_free (cs (tun v)) = true) ->
  forall s t, parse_string tv s = POk (Some t) -> lex (string_of_list_ascii (show_fix tun t)) = print_fix tun t.
Proof. exact lex_show_parsed_p. Qed.
Print Assumptions lex_show_parsed.

Theorem round_trip_string : forall tv tun, tun_inverts tv tun -> (forall v, quote_free (cs (tun v)) = true) ->
  forall s t, parse_string tv s = POk (Some t) -> parse_string tv (string_of_list_ascii (show_fix tun t)) = POk (Some t).
Proof. exact reparse_show_string_p. Qed.
Print Assumptions round_trip_string.

(* the same for the printer that exists, on trees without TimeLiteral / BindName (no hypothesis about astropy's text) *)
Theorem round_trip_string_partial : forall tv tun, tun_inverts tv tun ->
  forall tshow s t, parse_string tv s = POk (Some t) -> plain t = true ->
  parse_string tv (string_of_list_ascii (show tshow t)) = POk (Some t).
Proof. exact reparse_show_string_plain_p. Qed.
Print Assumptions round_trip_string_partial.

Example round_trip_string_example :
  let s := "NOT a.b < -1 + c*2 OR d IN (-1, 2..5:3, :x) AND (T'2020-01-01', e) OVERLAPS f(1)" in
  exists t, parse_string tv_id s = POk (Some t) /\
    string_of_list_ascii (show_fix (fun v => v) t) = "NOT a.b < - 1 + c * 2 OR d IN (-1, 2..5:3, :x) AND (T'2020-01-01', e) OVERLAPS f(1)" /\
    parse_string tv_id (string_of_list_ascii (show_fix (fun v => v) t)) = POk (Some t).
Proof. eexists. split; [vm_compute; reflexivity|]. split; vm_compute; reflexivity. Qed.

(* ===================================================================== the conversion layer (typing) *)
(* of_tree : ExprTree.tree -> C05's Expr.expr (identifier / bind resolution res, bound as parameters), then C05's
   SqlExpr.conv (None = InvalidQueryError).  typeof = the documented typing (C05).  quirk_free e: no `/` and no IN
   with a time member -- the two places where the code's typing is known to differ from the documented one. *)

(* conv accepts only documented-well-typed boolean expressions ... *)
Theorem conv_accepts_typed : forall e f, quirk_free e = true -> conv e = Some f -> typeof e = Some DBool.
Proof. exact conv_accepts_typed_p. Qed.
Print Assumptions conv_accepts_typed.

(* ... i.e. an ill-typed expression is rejected (partial: guard quirk_free) *)
Theorem rejects_ill_typed_partial : forall e, quirk_free e = true -> typeof e <> Some DBool -> conv e = None.
Proof. exact rejects_ill_typed_p. Qed.
Print Assumptions rejects_ill_typed_partial.

(* without the guard the faithful model refutes it: C05's findings range-on-quotient and time-in-is-equality *)
Theorem rejects_ill_typed_refuted :
  (exists e, typeof e = None /\ conv e <> None /\ quirk_free e = false) /\
  typeof (EIn (EArith ODiv (ECol 1%N TyInt) (ELit (VInt 2))) [IRange 1 2 None] false) = None /\
  conv (EIn (EArith ODiv (ECol 1%N TyInt) (ELit (VInt 2))) [IRange 1 2 None] false) <> None /\
  typeof (EIn (EBegin (ECol 2%N TySpan)) [ILit (VTime 10); ILit (VTime 20)] false) = None /\
  conv (EIn (EBegin (ECol 2%N TySpan)) [ILit (VTime 10); ILit (VTime 20)] false) <> None.
Proof. exact rejects_ill_typed_refuted_p. Qed.
Print Assumptions rejects_ill_typed_refuted.

(* numeric literals have their documented values: a digit string is that integer (signed inside IN lists); decimal
   and exponent spellings are the exact rational that was written (examples; compared with Python on every run) *)
Theorem num_value_int : forall ds, ds <> [] -> forallb is_digit ds = true ->
  num_value (string_of_list_ascii ds) = VInt (digits_val ds) /\
  num_value (string_of_list_ascii ("-"%char :: ds)) = VInt (- digits_val ds) /\
  num_value (string_of_list_ascii ("+"%char :: ds)) = VInt (digits_val ds).
Proof. exact num_value_int_p. Qed.
Print Assumptions num_value_int.

Example num_value_examples :
  num_value "007" = VInt 7 /\ num_value "-12" = VInt (-12) /\ num_value "1.5e3" = VReal 1500 1 /\ num_value ".5" = VReal 5 10 /\
  num_value "1." = VReal 1 1 /\ num_value "2.E+2" = VReal 200 1 /\ num_value "1.5e-3" = VReal 15 10000 /\ num_value "1E3" = VReal 1000 1.
Proof. vm_compute. repeat split; reflexivity. Qed.

(* the whole path lexer, parser, of_tree, conv: what an accepted string is *)
Theorem accept_spec : forall res bound tns tv tun s, tun_inverts tv tun -> where_verdict res bound tns tv s = Accept ->
  parse_string tv s = POk None \/
  exists t e f, parse_string tv s = POk (Some t) /\ canonical tv tun t = true /\ of_tree res bound tns t = TConv e /\ conv e = Some f.
Proof. exact accept_spec_p. Qed.
Print Assumptions accept_spec.

Theorem accept_well_typed : forall res bound tns tv s t e,
  parse_string tv s = POk (Some t) -> of_tree res bound tns t = TConv e -> quirk_free e = true ->
  where_verdict res bound tns tv s = Accept -> typeof e = Some DBool.
Proof. exact accept_well_typed_p. Qed.
Print Assumptions accept_well_typed.

(* "any string that is not a valid, well-typed expression is rejected": not valid ... *)
Theorem invalid_rejected : forall res bound tns tv s e, parse_string tv s = PErr e -> where_verdict res bound tns tv s = Reject.
Proof. exact invalid_rejected_p. Qed.
Print Assumptions invalid_rejected.

(* ... valid but ill typed (no claim for an equality between timespans: finding F-C14-timespan-eq) *)
Theorem ill_typed_rejected : forall res bound tns tv s t e,
  parse_string tv s = POk (Some t) -> of_tree res bound tns t = TConv e ->
  quirk_free e = true -> typeof e <> Some DBool -> has_span_eq e = false -> where_verdict res bound tns tv s = Reject.
Proof. exact ill_typed_rejected_p. Qed.
Print Assumptions ill_typed_rejected.

Theorem never_accepted_ill_typed : forall res bound tns tv s t e,
  parse_string tv s = POk (Some t) -> of_tree res bound tns t = TConv e ->
  quirk_free e = true -> typeof e <> Some DBool -> where_verdict res bound tns tv s <> Accept.
Proof. exact never_accepted_ill_typed_p. Qed.
Print Assumptions never_accepted_ill_typed.

(* function calls and range literals outside IN never convert; parentheses are transparent; an identifier that
   visitIdentifier refuses (or an unbound bind name) anywhere in the tree prevents conversion *)
Theorem refused_shapes : forall res bound tns f args a b st x,
  of_tree res bound tns (Call f args) = TRej /\ of_tree res bound tns (Range a b st) = TRej /\
  of_tree res bound tns (Binary x BEq (Range a b st)) <> TConv (ENull) /\
  (forall e, of_tree res bound tns (Binary (Range a b st) BEq x) <> TConv e) /\
  (forall e, of_tree res bound tns (Unary UNot (Range a b st)) <> TConv e) /\
  (forall e, of_tree res bound tns (Parens (Call f args)) <> TConv e).
Proof. exact refused_shapes_p. Qed.
Print Assumptions refused_shapes.

Theorem parens_transparent : forall res bound tns t,
  of_tree res bound tns (Parens t) = of_tree res bound tns t /\
  tree_verdict res bound tns (Parens t) = tree_verdict res bound tns t.
Proof. exact parens_transparent_p. Qed.
Print Assumptions parens_transparent.

Theorem unknown_name_never_converts : forall res bound tns n t e,
  res n = None -> mentions n t = true -> of_tree res bound tns t <> TConv e.
Proof. exact unknown_name_never_converts_p. Qed.
Print Assumptions unknown_name_never_converts.

(* non-vacuity: a resolution table with an int, a string, a timespan and a region column and two bind names *)
Definition res_ex (n : string) : option rid :=
  if String.eqb n "detector" then Some (RCol 0%N TyInt) else if String.eqb n "instrument" then Some (RCol 1%N TyStr)
  else if String.eqb n "visit.timespan" then Some (RCol 2%N TySpan) else if String.eqb n "visit.timespan.begin" then Some (RBegin 2%N)
  else if String.eqb n "visit.region" then Some ROther else if String.eqb n "null" then Some RNull
  else if String.eqb n "ids" then Some (RSeq [VInt 1; VInt 2]) else if String.eqb n "d" then Some (RLit (VInt 1)) else None.
Definition bound_ex (n : string) : bool := String.eqb n "ids" || String.eqb n "d".
Definition verdict_ex := where_verdict res_ex bound_ex (fun _ => 0%Z) tv_id.
Example verdict_examples :
  verdict_ex "Detector IN (1..5:2, :ids, :D) AND NOT (instrument = 'Cam' OR (T'2020-01-01', NULL) OVERLAPS visit.timespan)" = Accept /\
  verdict_ex "detector = 'a'" = Reject /\ verdict_ex "detector" = Reject /\ verdict_ex "detector = 1..5" = Reject /\
  verdict_ex "detector = :nobody" = Reject /\ verdict_ex "foo(detector) = 1" = Reject /\ verdict_ex "detector = 1 AND" = Reject /\
  verdict_ex "+instrument = 'a'" = Reject /\ verdict_ex "(1, 2) OVERLAPS visit.timespan" = Reject /\ verdict_ex "" = Accept /\
  verdict_ex "visit.region OVERLAPS POINT(1, 2)" = NoClaim /\ verdict_ex "visit.timespan = visit.timespan" = NoClaim /\
  verdict_ex "visit.timespan.begin < T'2020-01-01' AND detector.nosuch = 1" = Reject.
Proof. vm_compute. repeat split; reflexivity. Qed.
Example ill_typed_rejected_hyps :
  exists t e, parse_string tv_id "detector = 'a' OR instrument" = POk (Some t) /\ of_tree res_ex bound_ex (fun _ => 0%Z) t = TConv e /\
    quirk_free e = true /\ typeof e <> Some DBool /\ has_span_eq e = false.
Proof. eexists; eexists. repeat split; try (vm_compute; reflexivity). vm_compute. discriminate. Qed.


(* ===================================================================== wave 6: tie T for the conversion layer.
   Gen/ConvGen.v holds the `match` arms of queries/_expression_strings.py `_ConversionVisitor` (visitBinaryOp, visitUnaryOp,
   visitIsIn, visitBind, visitNumericLiteral, visitTupleNode, ... and _convert_in_clause_to_predicate, _to_timespan_bound,
   _convert_comparison_operator) REGENERATED from the source on every run; `visit` folds them over the tree the way exprTree.py's
   Node.visit does.  res = identifier resolution (parameter), res_wf = it never yields a boolean LITERAL. *)
Theorem gen_conv_agrees : forall res bound tns, (forall n b, res n <> Some (RLit (VBool b))) ->
  forall t e, of_tree res bound tns t = TConv e -> visit res bound tns t = rep e.
Proof. exact gen_conv_agrees_p. Qed.
Print Assumptions gen_conv_agrees.

Theorem gen_predicate_is_conv : forall res bound tns, (forall n b, res n <> Some (RLit (VBool b))) ->
  forall t e f, of_tree res bound tns t = TConv e -> conv e = Some f -> visit res bound tns t = Ok (XPred f).
Proof. exact gen_predicate_is_conv_p. Qed.
Print Assumptions gen_predicate_is_conv.

Theorem gen_accepts_iff_conv : forall res bound tns, (forall n b, res n <> Some (RLit (VBool b))) ->
  forall t e, of_tree res bound tns t = TConv e ->
  gen_accepts res bound tns t = Some (match conv e with Some _ => true | None => false end).
Proof. exact gen_accepts_iff_conv_p. Qed.
Print Assumptions gen_accepts_iff_conv.

Theorem gen_verdict : forall res bound tns, (forall n b, res n <> Some (RLit (VBool b))) ->
  forall t e, of_tree res bound tns t = TConv e -> has_span_eq e = false ->
  tree_verdict res bound tns t = match gen_accepts res bound tns t with Some true => Accept | _ => Reject end.
Proof. exact gen_verdict_p. Qed.
Print Assumptions gen_verdict.

(* numeric literal rule as the source states it (int(text), on ValueError float(text)) = the documented one *)
Theorem gen_numeric_rule : forall s, gen_visitNumericLiteral s = Ok (XCol (ELit (num_value s))).
Proof. exact gen_numeric_rule_p. Qed.
Print Assumptions gen_numeric_rule.

(* a..b:s in an IN list: Predicate.in_range(member, a, b + 1, s), i.e. C05's leaf with the inclusive stop b *)
Theorem gen_range_stop : forall m a b st, ctype m = Some TyInt -> (1 <= stride_of st)%Z -> (a <= b + 1)%Z ->
  gen_convert_in_clause_to_predicate m (XRange a b st) = Ok (BLeaf (LInRange m a b (stride_of st))).
Proof. exact gen_range_stop_p. Qed.
Print Assumptions gen_range_stop.

Theorem gen_null_comparison : forall a,
  gen_visitBinaryOp BEq (XCol a) XNull = Ok (XPred (BLeaf (LIsNull a))) /\
  gen_visitBinaryOp BNe (XCol a) XNull = Ok (XPred (BNot (BLeaf (LIsNull a)))) /\
  gen_visitBinaryOp BEq XNull (XCol a) = Ok (XPred (BLeaf (LIsNull a))) /\
  gen_visitBinaryOp BNe XNull (XCol a) = Ok (XPred (BNot (BLeaf (LIsNull a)))) /\
  gen_visitBinaryOp BLt (XCol a) XNull = Invalid /\ gen_visitBinaryOp BEq XNull XNull = Invalid.
Proof. exact gen_null_comparison_p. Qed.
Print Assumptions gen_null_comparison.

Theorem gen_refused_shapes : forall o a b st vs f args x,
  gen_visitBinaryOp o (XRange a b st) x = Invalid /\ gen_visitBinaryOp o x (XRange a b st) = Invalid /\
  gen_visitBinaryOp o (XSeq vs) x = Invalid /\ gen_visitBinaryOp o x (XSeq vs) = Invalid /\
  (forall u, gen_visitUnaryOp u (XRange a b st) = Invalid /\ gen_visitUnaryOp u (XSeq vs) = Invalid /\ gen_visitUnaryOp u XNull = Invalid) /\
  gen_visitFunctionCall f args = Invalid /\
  (forall ng rs, gen_visitIsIn (XRange a b st) rs ng = Invalid /\ gen_visitIsIn XNull rs ng = Invalid /\ gen_visitIsIn (XSeq vs) rs ng = Invalid) /\
  (forall ra, gen_visitTupleNode [ra] = Invalid) /\ gen_visitTupleNode [XRange a b st; x] = Invalid.
Proof. exact gen_refused_shapes_p. Qed.
Print Assumptions gen_refused_shapes.

(* the definitions the generated code relies on but that are not translated (wrapper classes, _make_literal,
   _get_boolean_column_reference, convert_expression_string_to_predicate) are the ones the model was written for *)
Theorem gen_conv_untranslated_expected : gen_untranslated_digest = "3b63822e0d49739c20386e33e1585a35".
Proof. reflexivity. Qed.
Print Assumptions gen_conv_untranslated_expected.

(* non-vacuity: the regenerated visitor on a concrete tree (premises of gen_conv_agrees hold for res_ex) *)
Example gen_visit_example :
  (forall n b, res_ex n <> Some (RLit (VBool b))) /\
  exists t e f, parse_string tv_id "Detector IN (1..5:2, :ids, :D) AND NOT (instrument = 'Cam' OR detector = NULL)" = POk (Some t) /\
    of_tree res_ex bound_ex (fun _ => 0%Z) t = TConv e /\ conv e = Some f /\ visit res_ex bound_ex (fun _ => 0%Z) t = Ok (XPred f) /\
    f = SqlExpr.BAnd
          (SqlExpr.BOr (SqlExpr.BOr (SqlExpr.BOr (BConst false) (BLeaf (LInRange (ECol 0%N TyInt) 1 5 2)))
                                    (BLeaf (LInList (ECol 0%N TyInt) [VInt 1; VInt 2])))
                       (BLeaf (LCmp CEq (ECol 0%N TyInt) (ELit (VInt 1)))))
          (BNot (SqlExpr.BOr (BLeaf (LCmp CEq (ECol 1%N TyStr) (ELit (VStr "Cam")))) (BLeaf (LIsNull (ECol 0%N TyInt))))).
Proof.
  split.
  - intros n b. unfold res_ex. repeat match goal with |- context[if ?c then _ else _] => destruct c end; discriminate.
  - eexists; eexists; eexists. repeat split; vm_compute; reflexivity.
Qed.
Example gen_visit_rejects :
  gen_accepts res_ex bound_ex (fun _ => 0%Z) (Binary (Ident "detector") BEq (Str "a")) = Some false /\
  gen_accepts res_ex bound_ex (fun _ => 0%Z) (Ident "detector") = Some false /\
  gen_accepts res_ex bound_ex (fun _ => 0%Z) (Binary (Ident "detector") BEq (Bind "nobody")) = Some false /\
  gen_accepts res_ex bound_ex (fun _ => 0%Z) (Unary UPlus (Str "a")) = Some false.
Proof. vm_compute. repeat split; reflexivity. Qed.


(* ---- the refusing direction.  supported res bound t: no POINT node, no identifier that resolves outside C05's column types
   (region, uuid, ingest_date: ROther), IN items of the shapes the grammar builds (literal | identifier | bind name, not .begin/.end).
   On such trees of_tree never says "unsupported", the regenerated visitor never crashes, and it agrees with the hand model in BOTH
   directions: where of_tree converts it returns rep e, where of_tree says InvalidQueryError it raises InvalidQueryError or
   returns a _RangeLiteral / _Sequence (which every consumer and the top level refuse). *)
Theorem gen_visit_total : forall res bound tns, (forall n b, res n <> Some (RLit (VBool b))) ->
  forall t, supported res bound t = true ->
  match of_tree res bound tns t with
  | TConv e => visit res bound tns t = rep e
  | TRej => refusing (visit res bound tns t)
  | TUnsup => False
  end.
Proof. exact visit_total_p. Qed.
Print Assumptions gen_visit_total.

Theorem gen_rejects : forall res bound tns, (forall n b, res n <> Some (RLit (VBool b))) ->
  forall t, supported res bound t = true -> of_tree res bound tns t = TRej -> gen_accepts res bound tns t = Some false.
Proof. exact gen_rejects_p. Qed.
Print Assumptions gen_rejects.

Theorem gen_verdict_total : forall res bound tns, (forall n b, res n <> Some (RLit (VBool b))) ->
  forall t, supported res bound t = true -> (forall e, of_tree res bound tns t = TConv e -> has_span_eq e = false) ->
  tree_verdict res bound tns t = match gen_accepts res bound tns t with Some true => Accept | _ => Reject end.
Proof. exact gen_verdict_total_p. Qed.
Print Assumptions gen_verdict_total.

Example gen_rejects_example :
  let t1 := Binary (Ident "detector") BEq (Bind "ids") in            (* a bound list outside IN *)
  let t2 := IsIn (Ident "detector") [Num "1"; Ident "nosuch"] false in (* unresolvable item *)
  let t3 := Tuple (Num "1") (Ident "null") in                         (* tuple bound that is not a time *)
  supported res_ex bound_ex t1 = true /\ of_tree res_ex bound_ex (fun _ => 0%Z) t1 = TRej /\ gen_accepts res_ex bound_ex (fun _ => 0%Z) t1 = Some false /\
  supported res_ex bound_ex t2 = true /\ of_tree res_ex bound_ex (fun _ => 0%Z) t2 = TRej /\ gen_accepts res_ex bound_ex (fun _ => 0%Z) t2 = Some false /\
  supported res_ex bound_ex t3 = true /\ of_tree res_ex bound_ex (fun _ => 0%Z) t3 = TRej /\ gen_accepts res_ex bound_ex (fun _ => 0%Z) t3 = Some false /\
  supported res_ex bound_ex (Binary (Ident "visit.region") BOverlaps (Point (Num "1") (Num "2"))) = false.
Proof. vm_compute. repeat split; reflexivity. Qed.

(* ===================================================================== wave 6: insignificant whitespace, as a theorem over the lexer.
   chunk c t: the text c is read as exactly the token t whenever blanks (space, tab, newline) or the end of the input follow
   (and no `..` follows the blanks).  spelled ps ts: ps lists chunks with the blanks after each -- a non-empty run between
   consecutive chunks -- and ts their tokens.  render ps is the text. *)
Theorem lex_spelled : forall ps ts w0, spelled ps ts -> ws_run w0 = true -> lex_cs (w0 ++ render ps) = ts.
Proof. exact lex_spelled_p. Qed.
Print Assumptions lex_spelled.

(* any two spellings of one chunk list lex alike, whatever the runs of blanks before, between and after the chunks *)
Theorem ws_insensitive : forall ps1 ps2 ts1 ts2 w1 w2,
  map fst ps1 = map fst ps2 -> spelled ps1 ts1 -> spelled ps2 ts2 -> ws_run w1 = true -> ws_run w2 = true ->
  lex (string_of_list_ascii (w1 ++ render ps1)) = lex (string_of_list_ascii (w2 ++ render ps2)) /\
  lex (string_of_list_ascii (w1 ++ render ps1)) = ts1.
Proof. exact ws_insensitive_p. Qed.
Print Assumptions ws_insensitive.

(* what is a chunk: identifiers and keywords in any letter case, qualified identifiers, numeric literals, bind names,
   quoted strings and time literals (blanks INSIDE the quotes are significant: they are part of the chunk), all signs *)
Theorem chunk_words : forall i, is_ident i = true -> chunk i (classify (string_of_list_ascii i)) /\ chunk (":"%char :: i) (TBind (string_of_list_ascii i)).
Proof. intros i H. split; [exact (chunk_ident_p i H) | exact (chunk_bind_p i H)]. Qed.
Print Assumptions chunk_words.

Theorem chunk_literals : forall txt b,
  (qual_text txt -> chunk txt (TQId (string_of_list_ascii txt))) /\
  (num_text txt -> chunk txt (TNum (string_of_list_ascii txt))) /\
  (quote_free b = true -> chunk ("'" :: b ++ ["'"]) (TStr (string_of_list_ascii b)) /\
                          chunk ("T" :: "'" :: b ++ ["'"]) (TTime (string_of_list_ascii b)) /\
                          chunk ("t" :: "'" :: b ++ ["'"]) (TTime (string_of_list_ascii b)))%char.
Proof.
  intros txt b. split; [exact (chunk_qualified_p txt)|]. split; [exact (chunk_number_p txt)|].
  intros H. split; [exact (chunk_string_p b H) | exact (chunk_time_p b H)].
Qed.
Print Assumptions chunk_literals.

Theorem chunk_signs : Forall (fun p => chunk (fst p) (snd p)) sign_chunks.
Proof. exact chunk_signs_p. Qed.
Print Assumptions chunk_signs.

(* non-vacuity: two spellings of  detector <= :d aNd instrument = 'a  b'  *)
Example ws_insensitive_example :
  let chunks := [cs "detector"; cs "<="; cs ":d"; cs "aNd"; cs "instrument"; cs "="; cs "'a  b'"] in
  let toks := [TId "detector"; TLE; TBind "d"; TAND; TId "instrument"; TEQ; TStr "a  b"] in
  let sp1 := combine chunks [cs " "; cs " "; cs " "; cs " "; cs " "; cs " "; []] in
  let sp2 := combine chunks [["009"; "010"]; cs "   "; ["010"]; cs " "; ["009"]; cs "  "; cs "  "]%char in
  spelled sp1 toks /\ spelled sp2 toks /\
  lex (string_of_list_ascii ([] ++ render sp1)) = lex (string_of_list_ascii (cs "  " ++ render sp2)).
Proof.
  assert (C1 : chunk (cs "detector") (TId "detector")) by exact (chunk_ident_p (cs "detector") eq_refl).
  assert (C2 : chunk (cs "<=") TLE) by (apply (proj1 (Forall_forall _ _) chunk_signs_p (cs "<=", TLE)); simpl; tauto).
  assert (C3 : chunk (cs ":d") (TBind "d")) by exact (chunk_bind_p (cs "d") eq_refl).
  assert (C4 : chunk (cs "aNd") TAND) by exact (chunk_ident_p (cs "aNd") eq_refl).
  assert (C5 : chunk (cs "instrument") (TId "instrument")) by exact (chunk_ident_p (cs "instrument") eq_refl).
  assert (C6 : chunk (cs "=") TEQ) by (apply (proj1 (Forall_forall _ _) chunk_signs_p (cs "=", TEQ)); simpl; tauto).
  assert (C7 : chunk (cs "'a  b'") (TStr "a  b")) by exact (chunk_string_p (cs "a  b") eq_refl).
  assert (S1 : spelled (combine [cs "detector"; cs "<="; cs ":d"; cs "aNd"; cs "instrument"; cs "="; cs "'a  b'"]
                                [cs " "; cs " "; cs " "; cs " "; cs " "; cs " "; []])
                       [TId "detector"; TLE; TBind "d"; TAND; TId "instrument"; TEQ; TStr "a  b"]).
  { simpl. repeat (split; [assumption|split; [reflexivity|split; [discriminate || (intros; congruence)|]]]). exact I. }
  assert (S2 : spelled (combine [cs "detector"; cs "<="; cs ":d"; cs "aNd"; cs "instrument"; cs "="; cs "'a  b'"]
                                [["009"; "010"]; cs "   "; ["010"]; cs " "; ["009"]; cs "  "; cs "  "]%char)
                       [TId "detector"; TLE; TBind "d"; TAND; TId "instrument"; TEQ; TStr "a  b"]).
  { simpl. repeat (split; [assumption|split; [reflexivity|split; [discriminate || (intros; congruence)|]]]). exact I. }
  split; [exact S1|]. split; [exact S2|].
  pose proof (fun H => ws_insensitive_p _ _ _ _ [] (cs "  ") H S1 S2 eq_refl eq_refl) as K.
  destruct (K eq_refl) as [E _]. exact E.
Qed.
