(* C14 -- placeholder while the harness is brought up; replaced by the real statements *)
From Coq Require Import List String.
From V Require Import Model.ExprTree Model.Lexer Model.Parser Gen.GrammarGen.
Import ListNotations.
Theorem gen_flags_expected : GrammarGen.lex_flags = ["IGNORECASE"; "VERBOSE"]%string.
Proof. reflexivity. Qed.
Print Assumptions gen_flags_expected.
