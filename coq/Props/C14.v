(* C14 -- The parser follows the documented grammar and rejects everything else cleanly.
   Statements only; every proof is `exact <lemma>` (Proofs/ParserProofs.v, ParserProofs2.v, LexerProofs.v) or a
   closed computation.  The precedence tuple, productions, token list, reserved words and lexer regexes are
   REGENERATED from parserYacc.py / parserLex.py (Gen/GrammarGen.v) on every run; the model parser reads its
   binding powers from that table, so these theorems are re-checked against what the source says now.

   tv  : text of a time literal -> its value (None: rejected)      -- astropy, external, universally quantified
   tun : a time value -> a text that a repaired printer would write; tshow : what str(Time) writes
   ev f x := exists n, forall fuel >= n, f fuel = POk x            -- "for all large enough fuel" (never PFuel) *)
From Coq Require Import ZArith List Bool String Ascii Lia.
From V Require Import Model.ExprTree Model.Lexer Model.Parser Gen.GrammarGen
                      Proofs.ParserProofs Proofs.ParserProofs2 Proofs.LexerProofs.
Import ListNotations.
Open Scope string_scope.
Open Scope list_scope.

(* ===================================================================== tie T: the tables the model was written for *)
Theorem gen_precedence_expected :
  GrammarGen.precedence =
  [(ALeft, ["OR"]); (ALeft, ["AND"]); (ANon, ["OVERLAPS"]); (ANon, ["EQ"; "NE"]); (ANon, ["LT"; "LE"; "GT"; "GE"]);
   (ALeft, ["ADD"; "SUB"]); (ALeft, ["MUL"; "DIV"; "MOD"]); (ARight, ["UPLUS"; "UMINUS"; "NOT"])].
Proof. reflexivity. Qed.
Print Assumptions gen_precedence_expected.

Theorem gen_productions_expected :
  GrammarGen.productions =
  [("input", ["expr"]); ("input", ["empty"]); ("empty", []);
   ("expr", ["expr"; "OR"; "expr"]); ("expr", ["expr"; "AND"; "expr"]); ("expr", ["NOT"; "expr"]); ("expr", ["bool_primary"]);
   ("bool_primary", ["bool_primary"; "EQ"; "predicate"]); ("bool_primary", ["bool_primary"; "NE"; "predicate"]);
   ("bool_primary", ["bool_primary"; "LT"; "predicate"]); ("bool_primary", ["bool_primary"; "LE"; "predicate"]);
   ("bool_primary", ["bool_primary"; "GE"; "predicate"]); ("bool_primary", ["bool_primary"; "GT"; "predicate"]);
   ("bool_primary", ["bool_primary"; "OVERLAPS"; "predicate"]); ("bool_primary", ["predicate"]);
   ("predicate", ["bit_expr"; "IN"; "LPAREN"; "literal_or_id_list"; "RPAREN"]);
   ("predicate", ["bit_expr"; "NOT"; "IN"; "LPAREN"; "literal_or_id_list"; "RPAREN"]);
   ("predicate", ["bit_expr"]);
   ("identifier", ["SIMPLE_IDENTIFIER"]); ("identifier", ["QUALIFIED_IDENTIFIER"]);
   ("literal_or_id_list", ["literal_or_id_list"; "COMMA"; "literal"]);
   ("literal_or_id_list", ["literal_or_id_list"; "COMMA"; "identifier"]);
   ("literal_or_id_list", ["literal_or_id_list"; "COMMA"; "bind_name"]);
   ("literal_or_id_list", ["literal"]); ("literal_or_id_list", ["identifier"]); ("literal_or_id_list", ["bind_name"]);
   ("bind_name", ["BIND_NAME"]);
   ("bit_expr", ["bit_expr"; "ADD"; "bit_expr"]); ("bit_expr", ["bit_expr"; "SUB"; "bit_expr"]);
   ("bit_expr", ["bit_expr"; "MUL"; "bit_expr"]); ("bit_expr", ["bit_expr"; "DIV"; "bit_expr"]);
   ("bit_expr", ["bit_expr"; "MOD"; "bit_expr"]); ("bit_expr", ["simple_expr"]);
   ("simple_expr", ["literal"]); ("simple_expr", ["identifier"]); ("simple_expr", ["bind_name"]);
   ("simple_expr", ["function_call"]);
   ("simple_expr", ["ADD"; "simple_expr"; "%prec"; "UPLUS"]); ("simple_expr", ["SUB"; "simple_expr"; "%prec"; "UMINUS"]);
   ("simple_expr", ["LPAREN"; "expr"; "RPAREN"]); ("simple_expr", ["LPAREN"; "expr"; "COMMA"; "expr"; "RPAREN"]);
   ("literal", ["NUMERIC_LITERAL"]);
   ("literal", ["ADD"; "NUMERIC_LITERAL"; "%prec"; "UPLUS"]); ("literal", ["SUB"; "NUMERIC_LITERAL"; "%prec"; "UMINUS"]);
   ("literal", ["STRING_LITERAL"]); ("literal", ["TIME_LITERAL"]); ("literal", ["RANGE_LITERAL"]);
   ("function_call", ["SIMPLE_IDENTIFIER"; "LPAREN"; "expr_list"; "RPAREN"]);
   ("expr_list", ["expr_list"; "COMMA"; "expr"]); ("expr_list", ["expr"]); ("expr_list", ["empty"])].
Proof. reflexivity. Qed.
Print Assumptions gen_productions_expected.

Theorem gen_lexer_tables_expected :
  GrammarGen.reserved = [("IN", "IN"); ("OR", "OR"); ("AND", "AND"); ("NOT", "NOT"); ("OVERLAPS", "OVERLAPS")] /\
  GrammarGen.tokens =
    ["NUMERIC_LITERAL"; "TIME_LITERAL"; "STRING_LITERAL"; "RANGE_LITERAL"; "QUALIFIED_IDENTIFIER"; "SIMPLE_IDENTIFIER";
     "BIND_NAME"; "LPAREN"; "RPAREN"; "EQ"; "NE"; "LT"; "LE"; "GT"; "GE"; "ADD"; "SUB"; "MUL"; "DIV"; "MOD"; "COMMA";
     "IN"; "OR"; "AND"; "NOT"; "OVERLAPS"] /\
  GrammarGen.lex_ignore = " \t" /\ GrammarGen.lex_flags = ["IGNORECASE"; "VERBOSE"].
Proof. repeat split; reflexivity. Qed.
Print Assumptions gen_lexer_tables_expected.

Theorem gen_lex_rules_expected :
  GrammarGen.lex_rules =
  [("newline", "\n+"); ("TIME_LITERAL", "T'.*?'"); ("STRING_LITERAL", "'.*?'");
   ("RANGE_LITERAL", "(?P<start>-?\d+)\s*\.\.\s*(?P<stop>-?\d+)(\s*:\s*(?P<stride>[1-9]\d*))?");
   ("NUMERIC_LITERAL", "\d+(\.\d*)?(e[-+]?\d+)?|\.\d+(e[-+]?\d+)?");
   ("QUALIFIED_IDENTIFIER", "[a-zA-Z_][a-zA-Z0-9_]*(\.[a-zA-Z_][a-zA-Z0-9_]*){1,2}");
   ("SIMPLE_IDENTIFIER", "[a-zA-Z_][a-zA-Z0-9_]*"); ("BIND_NAME", "[:][a-zA-Z_][a-zA-Z0-9_]*");
   ("ADD", "\+"); ("GE", ">="); ("LE", "<="); ("LPAREN", "\("); ("MUL", "\*"); ("NE", "!="); ("RPAREN", "\)");
   ("COMMA", ","); ("DIV", "/"); ("EQ", "="); ("GT", ">"); ("LT", "<"); ("MOD", "%"); ("SUB", "-")].
Proof. reflexivity. Qed.
Print Assumptions gen_lex_rules_expected.

(* the documented order ("same as C++ or Python"), read off the generated table through the model's lvl/asc *)
Theorem table_order :
  lvl BOr < lvl BAnd /\ lvl BAnd < not_lvl /\
  lvl BAdd = lvl BSub /\ lvl BSub < lvl BMul /\ lvl BMul = lvl BDiv /\ lvl BDiv = lvl BMod /\ 1 <= lvl BOr /\ 1 <= lvl BAdd /\
  forall o, (is_logic o || is_arith o) = true -> asc o = ALeft.
Proof. repeat split; try (vm_compute; lia). intros o H; destruct o; try discriminate H; reflexivity. Qed.
Print Assumptions table_order.

(* ===================================================================== round trip (token level, unbounded trees) *)
(* canonical t: t is a tree the grammar can produce (stratified levels, Parens exactly where written, operands of an
   operator of level p have level >= p on the left and > p on the right, signed literals only inside IN lists, time
   values that print back to a parseable text) *)

(* full strength, for the printer a repaired __str__ would be (T'..' and :name kept) *)
Theorem parse_print : forall tv tun t,
  canonical tv tun t = true -> ev (fun fuel => parse tv fuel (print_fix tun t)) (Some t).
Proof. exact parse_print_fix_p. Qed.
Print Assumptions parse_print.

(* what holds for the printer that exists (Node.__str__): the same, for trees without TimeLiteral / BindName *)
Theorem parse_print_partial : forall tv tun tshow t,
  canonical tv tun t = true -> plain t = true -> ev (fun fuel => parse tv fuel (print tshow t)) (Some t).
Proof. exact parse_print_p. Qed.
Print Assumptions parse_print_partial.

(* ... and it fails exactly there: witnesses replayed on the implementation = known finding F-C14-str-time *)
Theorem parse_print_bind_refuted : forall tv tun tshow x,
  canonical tv tun (Bind x) = true /\ forall fuel, parse tv fuel (print tshow (Bind x)) <> POk (Some (Bind x)).
Proof. exact print_bind_refuted_p. Qed.
Print Assumptions parse_print_bind_refuted.

Theorem parse_print_time_refuted : forall tv tshow v fuel,
  parse tv fuel (print tshow (Time v)) <> POk (Some (Time v)).
Proof. exact print_time_refuted_p. Qed.
Print Assumptions parse_print_time_refuted.

Theorem paren_redundant : forall tv tun t,
  canonical tv tun t = true -> ev (fun fuel => parse tv fuel (TLP :: print_fix tun t ++ [TRP])) (Some (Parens t)).
Proof. exact paren_redundant_p. Qed.
Print Assumptions paren_redundant.

(* non-vacuity: a = b OR NOT c + d * - e NOT IN (1, -2, 3..9:2, :x) AND (f(g, 'h') < T'..' OR (u, v) OVERLAPS POINT(1, 2)) *)
Definition tv_id (s : string) : option string := Some s.
Definition sample_tree : tree :=
  Binary (Binary (Ident "a") BEq (Ident "b")) BOr
    (Binary (Unary UNot (IsIn (Binary (Ident "c") BAdd (Binary (Ident "d.e") BMul (Unary UMinus (Ident "e"))))
                              [Num "1"; Num "-2"; Range 3 9 (Some 2%Z); Bind "x"] true)) BAnd
       (Parens (Binary (Binary (Call "f" [Ident "g"; Str "h"]) BLt (Time "2020-01-01")) BOr
                  (Binary (Tuple (Ident "u") (Ident "v")) BOverlaps (Point (Num "1") (Num "2")))))).
Example sample_is_canonical : canonical tv_id (fun v => v) sample_tree = true.
Proof. vm_compute. reflexivity. Qed.
Example sample_round_trip : parse_tokens tv_id (print_fix (fun v => v) sample_tree) = POk (Some sample_tree).
Proof. vm_compute. reflexivity. Qed.
Example sample_plain_is_canonical :
  canonical tv_id (fun v => v) (Binary (Ident "a") BOr (Binary (Ident "b") BAnd (Unary UNot (Ident "c")))) = true /\
  plain (Binary (Ident "a") BOr (Binary (Ident "b") BAnd (Unary UNot (Ident "c")))) = true.
Proof. vm_compute. auto. Qed.
(* not canonical: what the parser can never return *)
Example non_canonical :
  canonical tv_id (fun v => v) (Binary (Ident "a") BAnd (Binary (Ident "b") BOr (Ident "c"))) = false /\
  canonical tv_id (fun v => v) (Binary (Ident "a") BSub (Binary (Ident "b") BSub (Ident "c"))) = false /\
  canonical tv_id (fun v => v) (Binary (Ident "a") BAdd (Num "-1")) = false.
Proof. vm_compute. auto. Qed.

(* ===================================================================== precedence and associativity, every operator pair *)
Theorem prec_pairs : forall tv o1 o2 a b c,
  (is_logic o1 && is_logic o2 || is_arith o1 && is_arith o2) = true ->
  parse_tokens tv (tri a o1 b o2 c) =
  POk (Some (if Nat.ltb (lvl o1) (lvl o2) then right_nested a o1 b o2 c else left_nested a o1 b o2 c)).
Proof. exact prec_pairs_p. Qed.
Print Assumptions prec_pairs.

Theorem cmp_left_nested : forall tv o1 o2 a b c, is_cmp o1 = true -> is_cmp o2 = true ->
  parse_tokens tv (tri a o1 b o2 c) = POk (Some (left_nested a o1 b o2 c)).
Proof. exact cmp_left_nested_p. Qed.
Print Assumptions cmp_left_nested.

Theorem class_order : forall tv oa oc ol a b c,
  is_arith oa = true -> is_cmp oc = true -> is_logic ol = true ->
  parse_tokens tv (tri a oa b oc c) = POk (Some (left_nested a oa b oc c)) /\
  parse_tokens tv (tri a oc b oa c) = POk (Some (right_nested a oc b oa c)) /\
  parse_tokens tv (tri a oc b ol c) = POk (Some (left_nested a oc b ol c)) /\
  parse_tokens tv (tri a ol b oc c) = POk (Some (right_nested a ol b oc c)) /\
  parse_tokens tv (tri a oa b ol c) = POk (Some (left_nested a oa b ol c)) /\
  parse_tokens tv (tri a ol b oa c) = POk (Some (right_nested a ol b oa c)).
Proof. exact class_order_p. Qed.
Print Assumptions class_order.

Theorem not_placement : forall tv oc ol a b,
  is_cmp oc = true -> is_logic ol = true ->
  parse_tokens tv [TNOT; TId a; bop_token oc; TId b] = POk (Some (Unary UNot (Binary (Ident a) oc (Ident b)))) /\
  parse_tokens tv [TNOT; TId a; bop_token ol; TId b] = POk (Some (Binary (Unary UNot (Ident a)) ol (Ident b))) /\
  parse_tokens tv [TNOT; TId a; TIN; TLP; TId b; TRP] = POk (Some (Unary UNot (IsIn (Ident a) [Ident b] false))) /\
  parse_tokens tv [TNOT; TNOT; TId a] = POk (Some (Unary UNot (Unary UNot (Ident a)))).
Proof. exact not_placement_p. Qed.
Print Assumptions not_placement.

Theorem unary_sign : forall tv oa a b n,
  is_arith oa = true ->
  parse_tokens tv [TSUB; TId a; bop_token oa; TId b] = POk (Some (Binary (Unary UMinus (Ident a)) oa (Ident b))) /\
  parse_tokens tv [TId a; bop_token oa; TSUB; TId b] = POk (Some (Binary (Ident a) oa (Unary UMinus (Ident b)))) /\
  parse_tokens tv [TSUB; TNum n] = POk (Some (Unary UMinus (Num n))) /\
  parse_tokens tv [TId a; TIN; TLP; TSUB; TNum n; TCOMMA; TADD; TNum n; TRP] =
    POk (Some (IsIn (Ident a) [Num (String "-"%char n); Num (String "+"%char n)] false)).
Proof. exact unary_sign_p. Qed.
Print Assumptions unary_sign.

(* concrete documented facts that a changed precedence row would break *)
Theorem documented_precedence : forall tv a b c,
  parse_tokens tv [TId a; TOR; TId b; TAND; TId c] = POk (Some (Binary (Ident a) BOr (Binary (Ident b) BAnd (Ident c)))) /\
  parse_tokens tv [TId a; TAND; TId b; TOR; TId c] = POk (Some (Binary (Binary (Ident a) BAnd (Ident b)) BOr (Ident c))) /\
  parse_tokens tv [TId a; TADD; TId b; TMUL; TId c] = POk (Some (Binary (Ident a) BAdd (Binary (Ident b) BMul (Ident c)))) /\
  parse_tokens tv [TId a; TMOD; TId b; TSUB; TId c] = POk (Some (Binary (Binary (Ident a) BMod (Ident b)) BSub (Ident c))) /\
  parse_tokens tv [TId a; TSUB; TId b; TSUB; TId c] = POk (Some (Binary (Binary (Ident a) BSub (Ident b)) BSub (Ident c))) /\
  parse_tokens tv [TId a; TDIV; TId b; TDIV; TId c] = POk (Some (Binary (Binary (Ident a) BDiv (Ident b)) BDiv (Ident c))) /\
  parse_tokens tv [TNOT; TId a; TAND; TId b] = POk (Some (Binary (Unary UNot (Ident a)) BAnd (Ident b))).
Proof. intros. repeat split; reflexivity. Qed.
Print Assumptions documented_precedence.

Theorem rejects : forall tv a b,
  parse_tokens tv [TId a; TIN; TLP; TId b; TRP; TIN; TLP; TId b; TRP] = PErr ESyntax /\
  parse_tokens tv [TId a; TNOT; TId b] = PErr ESyntax /\
  parse_tokens tv [TId a; TIN; TLP; TRP] = PErr ESyntax /\
  parse_tokens tv [TLP; TRP] = PErr ESyntax /\
  parse_tokens tv [TId a; TId b] = PErr ESyntax /\
  parse_tokens tv [TId a; TEQ] = PErr ESyntax /\
  parse_tokens tv [TId a; TIN; TLP; TLP; TId b; TRP; TRP] = PErr ESyntax /\
  parse_tokens tv [TId a; TEQ; TId b; TBad] = PErr ESyntax /\
  parse_tokens tv [TId "POINT"; TLP; TNum "1"; TRP] = PErr EArity /\
  parse_tokens tv [] = POk None.
Proof. exact rejects_p. Qed.
Print Assumptions rejects.

(* the faithful model accepts a string outside the documented grammar (known finding F-C14-call-comma) *)
Theorem call_leading_comma_refuted : forall tv,
  exists ts t, hd_error (skipn 2 ts) = Some TCOMMA /\ parse_tokens tv ts = POk (Some t).
Proof. exact call_leading_comma_refuted_p. Qed.
Print Assumptions call_leading_comma_refuted.

(* ===================================================================== lexer *)
Theorem keyword_case : forall s, keyword_of (upper s) = keyword_of s.
Proof. exact keyword_case_p. Qed.
Print Assumptions keyword_case.

Theorem keyword_same_case : forall s1 s2, upper s1 = upper s2 -> keyword_of s1 = keyword_of s2.
Proof. exact keyword_same_case_p. Qed.
Print Assumptions keyword_same_case.

Theorem classify_spec : forall s,
  classify s =
  if String.eqb "IN" (upper s) then TIN else if String.eqb "OR" (upper s) then TOR
  else if String.eqb "AND" (upper s) then TAND else if String.eqb "NOT" (upper s) then TNOT
  else if String.eqb "OVERLAPS" (upper s) then TOVERLAPS else TId s.
Proof. exact classify_spec_p. Qed.
Print Assumptions classify_spec.

Theorem lex_skip_ws : forall ws l fuel,
  forallb is_ws ws = true -> lex_chars (List.length ws + fuel) (ws ++ l) = lex_chars fuel l.
Proof. exact lex_skip_ws_p. Qed.
Print Assumptions lex_skip_ws.

Theorem number_value : forall ds r, ds <> [] -> forallb is_digit ds = true -> not_digit_next r ->
  m_int (ds ++ r) = Some (digits_val ds, r) /\ m_int ("-"%char :: ds ++ r) = Some ((- digits_val ds)%Z, r).
Proof. exact m_int_value. Qed.
Print Assumptions number_value.

Theorem digits_positional : forall ds d, digits_val (ds ++ [d]) = (digits_val ds * 10 + digit_val d)%Z.
Proof. exact digits_val_snoc. Qed.
Print Assumptions digits_positional.

Theorem range_value : forall a b r,
  a <> [] -> b <> [] -> forallb is_digit a = true -> forallb is_digit b = true -> plain_next r ->
  m_range (a ++ "."%char :: "."%char :: b ++ r) = Some (TRange (digits_val a) (digits_val b) None, r).
Proof. exact range_value_p. Qed.
Print Assumptions range_value.

Example range_value_hyps :
  let a := list_ascii_of_string "130" in let b := list_ascii_of_string "145" in let r := list_ascii_of_string ")" in
  a <> [] /\ b <> [] /\ forallb is_digit a = true /\ forallb is_digit b = true /\ plain_next r /\
  m_range (a ++ "."%char :: "."%char :: b ++ r) = Some (TRange 130 145 None, r).
Proof. vm_compute. repeat split; try discriminate; auto. Qed.
Example keyword_case_example : keyword_of "aNd" = Some TAND /\ keyword_of "android" = None /\ upper "aNd" = "AND".
Proof. vm_compute. auto. Qed.
