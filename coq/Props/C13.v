(* C13 -- Data IDs mean one thing: standardisation and expansion are consistent.
   Statements only; every proof is `exact <lemma>` from Proofs/DataIdProofs.v, Proofs/DataIdProofsExpand.v (generic: ANY
   universe, ANY mappings, ANY record store, unbounded) or Proofs/DataIdProofsShipped.v (the current universe
   REGENERATED from /repo's dimensions.yaml; worked examples).  Model: Model/DataId.v over the C12 universe/group model.

   Vocabulary
     merged mp kw df      := (kw ++ mp) ++ df      mapping, overridden by keywords, completed by defaults (first binding wins)
     dc_get d k           d[k]  (None = KeyError)
     extends k' k         every binding of k is a binding of k'
     rec_ok u D G K x ro  `ro` is what the store D holds for element x under the values K gives to x's required dimensions:
                          a stored row ALL of whose implied values are K's values (and K has a non-null value for x when x is a
                          dimension), or no row while x is neither a dimension of the group nor relationship-defining
     consistent u D G K recs   every entry of recs is rec_ok *)
From Coq Require Import String List Bool Arith ZArith.
From V Require Import Model.Universe Model.Group Model.DataId Model.DataIdCheck Gen.Universes
  Proofs.GroupProofs Proofs.DataIdProofs Proofs.DataIdProofsExpand Proofs.DataIdProofsShipped Proofs.DataIdProofsErrors Proofs.DataIdProofsUnion.
Import ListNotations.
Open Scope string_scope.
Open Scope list_scope.

(* ---- == and hash: the dimensions and the required values, nothing else (implied values present or not, attached
        records, how the ID was spelled do not enter) ---- *)
Theorem eq_spec : forall a b,
  dc_eq a b = true <-> gnames (dgroup a) = gnames (dgroup b) /\ required_values a = required_values b.
Proof. exact dc_eq_spec. Qed.
Print Assumptions eq_spec.

Theorem eq_is_equivalence :
  (forall a, dc_eq a a = true) /\ (forall a b, dc_eq a b = dc_eq b a)
  /\ (forall a b c, dc_eq a b = true -> dc_eq b c = true -> dc_eq a c = true).
Proof. exact (conj dc_eq_refl (conj dc_eq_sym dc_eq_trans)). Qed.
Print Assumptions eq_is_equivalence.

Theorem hash_respects_eq : forall u la lb a b,
  mkgroup u la = GOk (dgroup a) -> mkgroup u lb = GOk (dgroup b) ->
  dc_eq a b = true -> dc_hash_key a = dc_hash_key b.
Proof. exact hash_respects_eq_p. Qed.
Print Assumptions hash_respects_eq.

(* the hashed tuple separates unequal data IDs (no structural collisions) *)
Theorem hash_key_injective : forall u la lb a b, wf_universe u = true ->
  mkgroup u la = GOk (dgroup a) -> mkgroup u lb = GOk (dgroup b) ->
  dc_hash_key a = dc_hash_key b -> dc_eq a b = true.
Proof. exact hash_injective_p. Qed.
Print Assumptions hash_key_injective.

(* two standardized data IDs over the same dimensions are == exactly when their inputs agree on the REQUIRED dimensions *)
Theorem eq_of_standardized : forall u l mp1 kw1 df1 mp2 kw2 df2 a b,
  standardize u (Some l) mp1 kw1 df1 = Ok a -> standardize u (Some l) mp2 kw2 df2 = Ok b ->
  (dc_eq a b = true <->
   forall k, In k (grequired (dgroup a)) -> aget (merged mp1 kw1 df1) k = aget (merged mp2 kw2 df2) k).
Proof. exact standardize_eq_p. Qed.
Print Assumptions eq_of_standardized.

(* ---- standardize commutes with the key/value set ---- *)
Theorem standardize_dimensions : forall u l mp kw df d,
  standardize u (Some l) mp kw df = Ok d -> mkgroup u l = GOk (dgroup d).
Proof. exact standardize_dims_p. Qed.
Print Assumptions standardize_dimensions.

Theorem standardize_restricts : forall u dims mp kw df d k v,
  standardize u dims mp kw df = Ok d -> dc_get d k = Some v -> aget (merged mp kw df) k = Some v.
Proof. exact standardize_restricts_p. Qed.
Print Assumptions standardize_restricts.

Theorem standardize_required_values : forall u dims mp kw df d k,
  standardize u dims mp kw df = Ok d -> In k (grequired (dgroup d)) ->
  dc_get d k = aget (merged mp kw df) k /\ exists v, dc_get d k = Some v.
Proof. exact standardize_required_p. Qed.
Print Assumptions standardize_required_values.

Theorem standardize_full_values : forall u dims mp kw df d,
  standardize u dims mp kw df = Ok d ->
  (forall k, In k (gnames (dgroup d)) -> has_key (merged mp kw df) k = true) ->
  forall k, In k (gnames (dgroup d)) -> dc_get d k = aget (merged mp kw df) k.
Proof. exact standardize_full_p. Qed.
Print Assumptions standardize_full_values.

Theorem standardize_ok_iff : forall u l mp kw df,
  (exists d, standardize u (Some l) mp kw df = Ok d) <->
  exists G, mkgroup u l = GOk G /\ forall k, In k (grequired G) -> has_key (merged mp kw df) k = true.
Proof. exact standardize_ok_iff_p. Qed.
Print Assumptions standardize_ok_iff.

(* extra keys, entry order, the mapping / keyword split, shadowed duplicates: the same key -> value function gives
   the SAME data ID (all fields) *)
Theorem standardize_spelling_irrelevant : forall u l mp1 kw1 df1 mp2 kw2 df2,
  (forall k, aget (merged mp1 kw1 df1) k = aget (merged mp2 kw2 df2) k) ->
  standardize u (Some l) mp1 kw1 df1 = standardize u (Some l) mp2 kw2 df2.
Proof. exact standardize_spelling_p. Qed.
Print Assumptions standardize_spelling_irrelevant.

(* ---- subset / union commute with the key/value sets (data IDs without attached records) ---- *)
Theorem subset_restricts : forall u d l s, drecs d = None -> subset u d l = Ok s ->
  exists T, mkgroup u l = GOk T /\ gnames (dgroup s) = gnames T /\
    forall k v, dc_get s k = Some v -> dc_get d k = Some v.
Proof. exact subset_plain_p. Qed.
Print Assumptions subset_restricts.

Theorem union_values : forall u a b c, drecs a = None -> union u a b = Ok c ->
  exists G, gunion u (dgroup a) (dgroup b) = GOk G /\ gnames (dgroup c) = gnames G /\
    forall k v, dc_get c k = Some v -> dc_get b k = Some v \/ dc_get a k = Some v.
Proof. exact union_plain_p. Qed.
Print Assumptions union_values.

(* a.union(b) == b.union(a) whenever the operands agree on their common keys (the documented "unspecified on conflicting
   common keys" as the explicit hypothesis agree_on_common); has_required = the value tuple holds the required values
   under the required keys, true of everything standardize returns (next theorem) *)
Theorem union_commutes : forall u la lb a b c1 c2, wf_universe u = true ->
  mkgroup u la = GOk (dgroup a) -> mkgroup u lb = GOk (dgroup b) -> drecs a = None -> drecs b = None ->
  has_required a -> has_required b -> agree_on_common a b ->
  union u a b = Ok c1 -> union u b a = Ok c2 -> dc_eq c1 c2 = true.
Proof. exact union_commutes_p. Qed.
Print Assumptions union_commutes.

Theorem standardize_has_required : forall u dims mp kw df d, standardize u dims mp kw df = Ok d -> has_required d.
Proof. exact standardize_has_required_p. Qed.
Print Assumptions standardize_has_required.

(* ---- expansion ---- *)
(* SOUND, for any universe, store, group and lookup order: a successful walk keeps every given value, visits exactly the
   lookup order, and every record it attaches is the stored row identified by the final values, whose implied values
   ARE the final values; dimensions of the group and relationship-defining elements all have their row *)
Theorem expand_sound : forall u D G k0 k1 recs, expand_keys u D G k0 = Ok (k1, recs) ->
  extends k1 k0 /\ glookup G = GOk (map fst recs) /\ consistent u D G k1 recs.
Proof. exact expand_keys_sound_p. Qed.
Print Assumptions expand_sound.

(* REJECTS contradictions: if some element of the lookup order has, under the given key values, a stored row one of whose
   implied values differs from a value the data ID carries, no expansion is returned (the model's only failure results are
   the exception classes, so: an error is raised) *)
Theorem expand_rejects_contradiction : forall u D G k0 x e kv r d v w,
  (exists order, glookup G = GOk order /\ In x order) ->
  find_elem u x = Some e -> map_opt (aget k0) (ereq e) = Some kv -> fetch D e kv = Some r ->
  In (d, v) (zip_pad (eimp e) (rimp r)) -> aget k0 d = Some w -> w <> v ->
  forall res, expand_keys u D G k0 <> Ok res.
Proof. exact expand_rejects_p. Qed.
Print Assumptions expand_rejects_contradiction.

(* COMPLETE: whenever a consistent full assignment K extending the given values exists, the walk succeeds and returns
   bindings of K -- for any well-formed universe and any group whose lookup order has the C12 properties (lookup_okb) *)
Theorem expand_complete : forall u D l G K k0,
  wf_universe u = true -> dims_selfb u = true -> mkgroup u l = GOk G -> lookup_okb u G = true ->
  (forall p, In p (grequired G) -> has_key k0 p = true) -> extends K k0 ->
  (forall n, In n (gnames G) -> present K n = true) ->
  (forall x, In x (gelements G) -> exists ro, rec_ok u D G K x ro) ->
  exists k1 recs, expand_keys u D G k0 = Ok (k1, recs) /\ extends K k1.
Proof. exact expand_complete_p. Qed.
Print Assumptions expand_complete.

(* ... hence, with C12's exhaustive lookup-order theorem, for EVERY group over the (<= 16, today 13) non-skypix dimensions of
   the current universe, with no assumption left about the order *)
Theorem expand_complete_current : forall D l G K k0,
  In l (all_subsets (nonskypix_dimension_names u_current)) -> mkgroup u_current l = GOk G ->
  (forall p, In p (grequired G) -> has_key k0 p = true) -> extends K k0 ->
  (forall n, In n (gnames G) -> present K n = true) ->
  (forall x, In x (gelements G) -> exists ro, rec_ok u_current D G K x ro) ->
  exists k1 recs, expand_keys u_current D G k0 = Ok (k1, recs) /\ extends K k1.
Proof. exact expand_complete_current_p. Qed.
Print Assumptions expand_complete_current.

(* facts of the regenerated universe the model of fetch_one / the completeness proof rely on *)
Theorem current_universe_facts : dims_selfb u_current = true /\ minimal_required_ok u_current = true.
Proof. exact (conj dims_self_current_p minimal_required_current_p). Qed.
Print Assumptions current_universe_facts.

(* ---- failures: only the documented data-ID error classes (model of the code after /repo 02977ba, which repaired the
        finding F-C13-expand-keyerror) ---- *)
(* standardize fails only with DimensionNameError (unknown name, or a required dimension without value); in particular the
   fuelled closure never runs out of fuel in a well-formed universe, whatever names it is given *)
Theorem standardize_errors_documented : forall u dims mp kw df e, wf_universe u = true ->
  standardize u dims mp kw df = Err e -> e = EDimensionName.
Proof. exact standardize_err_p. Qed.
Print Assumptions standardize_errors_documented.

(* expanding a standardized data ID (group built by mkgroup, lookup order with the C12 properties) fails only with
   DimensionNameError / DataIdValueError / InconsistentDataIdError -- any universe, any store, any values *)
Theorem expand_errors_documented : forall u D l d e, mkgroup u l = GOk (dgroup d) -> lookup_okb u (dgroup d) = true ->
  expand u D d = Err e -> documented e = true.
Proof. exact expand_err_p. Qed.
Print Assumptions expand_errors_documented.

(* expandDataId as a whole (standardize, then expand), mapping / keywords / defaults / dimensions arbitrary *)
Theorem expand_data_id_errors_documented : forall u D dims mp kw df e, wf_universe u = true ->
  (forall d, standardize u dims mp kw df = Ok d -> lookup_okb u (dgroup d) = true) ->
  expand_data_id u D dims mp kw df = Err e -> documented e = true.
Proof. exact expand_data_id_err_p. Qed.
Print Assumptions expand_data_id_errors_documented.

(* ... with no hypothesis left for every request over the non-skypix dimensions of the current universe *)
Theorem expand_data_id_errors_documented_current : forall D l mp kw df e,
  In l (all_subsets (nonskypix_dimension_names u_current)) ->
  expand_data_id u_current D (Some l) mp kw df = Err e -> documented e = true.
Proof. exact expand_data_id_err_current_p. Qed.
Print Assumptions expand_data_id_errors_documented_current.

(* the same statement is FALSE for the code before 02977ba (bare KeyError for an unknown key): the witness that was
   replayed on the implementation; the repaired model answers DimensionNameError on it *)
Theorem expand_errors_documented_refuted_without_fix :
  exists mp e, expand_data_id_bare u_current ex_db None mp [] [] = Err e /\ documented e = false
    /\ expand_data_id u_current ex_db None mp [] [] = Err EDimensionName.
Proof. exact expand_unknown_key_refuted_without_fix_p. Qed.
Print Assumptions expand_errors_documented_refuted_without_fix.

(* ---- non-vacuity / worked examples on the current universe ---- *)
Example expansion_example :
  summary (expand_data_id u_current ex_db None [("visit", VInt 5); ("instrument", VStr "Cam")] [] [])
  = Ok ([("instrument", VStr "Cam"); ("visit", VInt 5); ("band", VStr "g"); ("day_obs", VInt 20240101);
         ("physical_filter", VStr "pf1")], true).
Proof. exact ex_expand_ok_p. Qed.

Example complete_implied_contradiction_refused :
  summary (expand_data_id u_current ex_db None
             [("instrument", VStr "Cam"); ("visit", VInt 5); ("band", VStr "g"); ("day_obs", VInt 20240101);
              ("physical_filter", VStr "pf2")] [] []) = Err EInconsistent.
Proof. exact ex_expand_contradiction_p. Qed.

Example contradicting_records_refused :
  summary (expand_data_id u_current ex_db None [("instrument", VStr "Cam"); ("visit", VInt 5); ("exposure", VInt 51)] [] [])
  = Err EInconsistent.
Proof. exact ex_expand_records_contradict_p. Qed.

(* why the statement says "COMPLETE set of implied values": a partial set is dropped by standardize and never checked *)
Example partial_implied_values_are_dropped :
  summary (expand_data_id u_current ex_db None
             [("instrument", VStr "Cam"); ("visit", VInt 5); ("physical_filter", VStr "pf2")] [] [])
  = Ok ([("instrument", VStr "Cam"); ("visit", VInt 5); ("band", VStr "g"); ("day_obs", VInt 20240101);
         ("physical_filter", VStr "pf1")], true).
Proof. exact ex_partial_implied_dropped_p. Qed.

Example missing_row_refused :
  summary (expand_data_id u_current ex_db None [("instrument", VStr "Cam"); ("visit", VInt 6)] [] []) = Err EDataIdValue.
Proof. exact ex_missing_row_p. Qed.

Example equal_whatever_the_spelling :
  exists a b, standardize u_current None [("visit", VInt 5); ("instrument", VStr "Cam")] [] [] = Ok a
    /\ expand_data_id u_current ex_db (Some ["visit"]) [("foo", VInt 1)] [("visit", VInt 5)] [("instrument", VStr "Cam")] = Ok b
    /\ dc_eq a b = true /\ dc_hash_key a = dc_hash_key b /\ dfull a = false /\ dfull b = true /\ has_recs b = true.
Proof. exact ex_eq_spellings_p. Qed.

Example complete_hypotheses_satisfiable :
  exists G K, mkgroup u_current ["visit"] = GOk G /\ lookup_okb u_current G = true
    /\ (forall n, In n (gnames G) -> present K n = true)
    /\ (forall x, In x (gelements G) -> exists ro, rec_ok u_current ex_db G K x ro).
Proof. exact ex_complete_hyps_p. Qed.

Example union_commutes_example :
  exists a b c1 c2, standardize u_current None [("instrument", VStr "Cam"); ("visit", VInt 5)] [] [] = Ok a
    /\ standardize u_current None [("detector", VInt 1); ("instrument", VStr "Cam")] [] [] = Ok b
    /\ union u_current a b = Ok c1 /\ union u_current b a = Ok c2 /\ dc_eq c1 c2 = true
    /\ dmapping c1 = [("instrument", VStr "Cam"); ("detector", VInt 1); ("visit", VInt 5)].
Proof. exact ex_union_commutes_p. Qed.
