(* C13 -- Data IDs mean one thing: standardisation and expansion are consistent.
   Statements only; every proof is `exact <lemma>` from Proofs/DataIdProofs.v, Proofs/DataIdProofsExpand.v (generic: ANY
   universe, ANY mappings, ANY record store, unbounded) or Proofs/DataIdProofsShipped.v (the current universe
   REGENERATED from /repo's dimensions.yaml; worked examples).  Model: Model/DataId.v over the C12 universe/group model.

   Vocabulary
     merged mp kw df      := (kw ++ mp) ++ df      mapping, overridden by keywords, completed by defaults (first binding wins)
     dc_get d k           d[k]  (None = KeyError)
     extends k' k         every binding of k is a binding of k'
     rec_ok u D G K x ro  `ro` is what the store D holds for element x under the values K gives to x's required dimensions:
                          a stored row ALL of whose implied values are K's values (and K has a non-null value for x when x is a
                          dimension), or no row while x is neither a dimension of the group nor relationship-defining
     consistent u D G K recs   every entry of recs is rec_ok *)
From Coq Require Import String List Bool Arith ZArith.
From V Require Import Model.Universe Model.Group Model.DataId Model.DataIdX Model.DataIdCheck Gen.Universes
  Proofs.GroupProofs Proofs.DataIdProofs Proofs.DataIdProofsExpand Proofs.DataIdProofsShipped Proofs.DataIdProofsErrors Proofs.DataIdProofsUnion
  Proofs.DataIdProofsX Proofs.DataIdProofsX2 Proofs.DataIdProofsX3 Proofs.DataIdProofsOldA Proofs.DataIdProofsX4 Proofs.DataIdProofsX5 Proofs.DataIdProofsX6 Proofs.DataIdProofsX7.
Import ListNotations.
Open Scope string_scope.
Open Scope list_scope.

(* ---- == and hash: the dimensions and the required values, nothing else (implied values present or not, attached
        records, how the ID was spelled do not enter) ---- *)
Theorem eq_spec : forall a b,
  dc_eq a b = true <-> gnames (dgroup a) = gnames (dgroup b) /\ required_values a = required_values b.
Proof. exact dc_eq_spec. Qed.
Print Assumptions eq_spec.

Theorem eq_is_equivalence :
  (forall a, dc_eq a a = true) /\ (forall a b, dc_eq a b = dc_eq b a)
  /\ (forall a b c, dc_eq a b = true -> dc_eq b c = true -> dc_eq a c = true).
Proof. exact (conj dc_eq_refl (conj dc_eq_sym dc_eq_trans)). Qed.
Print Assumptions eq_is_equivalence.

Theorem hash_respects_eq : forall u la lb a b,
  mkgroup u la = GOk (dgroup a) -> mkgroup u lb = GOk (dgroup b) ->
  dc_eq a b = true -> dc_hash_key a = dc_hash_key b.
Proof. exact hash_respects_eq_p. Qed.
Print Assumptions hash_respects_eq.

(* the hashed tuple separates unequal data IDs (no structural collisions) *)
Theorem hash_key_injective : forall u la lb a b, wf_universe u = true ->
  mkgroup u la = GOk (dgroup a) -> mkgroup u lb = GOk (dgroup b) ->
  dc_hash_key a = dc_hash_key b -> dc_eq a b = true.
Proof. exact hash_injective_p. Qed.
Print Assumptions hash_key_injective.

(* two standardized data IDs over the same dimensions are == exactly when their inputs agree on the REQUIRED dimensions *)
Theorem eq_of_standardized : forall u l mp1 kw1 df1 mp2 kw2 df2 a b,
  standardize u (Some l) mp1 kw1 df1 = Ok a -> standardize u (Some l) mp2 kw2 df2 = Ok b ->
  (dc_eq a b = true <->
   forall k, In k (grequired (dgroup a)) -> aget (merged mp1 kw1 df1) k = aget (merged mp2 kw2 df2) k).
Proof. exact standardize_eq_p. Qed.
Print Assumptions eq_of_standardized.

(* ---- standardize commutes with the key/value set ---- *)
Theorem standardize_dimensions : forall u l mp kw df d,
  standardize u (Some l) mp kw df = Ok d -> mkgroup u l = GOk (dgroup d).
Proof. exact standardize_dims_p. Qed.
Print Assumptions standardize_dimensions.

Theorem standardize_restricts : forall u dims mp kw df d k v,
  standardize u dims mp kw df = Ok d -> dc_get d k = Some v -> aget (merged mp kw df) k = Some v.
Proof. exact standardize_restricts_p. Qed.
Print Assumptions standardize_restricts.

Theorem standardize_required_values : forall u dims mp kw df d k,
  standardize u dims mp kw df = Ok d -> In k (grequired (dgroup d)) ->
  dc_get d k = aget (merged mp kw df) k /\ exists v, dc_get d k = Some v.
Proof. exact standardize_required_p. Qed.
Print Assumptions standardize_required_values.

Theorem standardize_full_values : forall u dims mp kw df d,
  standardize u dims mp kw df = Ok d ->
  (forall k, In k (gnames (dgroup d)) -> has_key (merged mp kw df) k = true) ->
  forall k, In k (gnames (dgroup d)) -> dc_get d k = aget (merged mp kw df) k.
Proof. exact standardize_full_p. Qed.
Print Assumptions standardize_full_values.

Theorem standardize_ok_iff : forall u l mp kw df,
  (exists d, standardize u (Some l) mp kw df = Ok d) <->
  exists G, mkgroup u l = GOk G /\ forall k, In k (grequired G) -> has_key (merged mp kw df) k = true.
Proof. exact standardize_ok_iff_p. Qed.
Print Assumptions standardize_ok_iff.

(* extra keys, entry order, the mapping / keyword split, shadowed duplicates: the same key -> value function gives
   the SAME data ID (all fields) *)
Theorem standardize_spelling_irrelevant : forall u l mp1 kw1 df1 mp2 kw2 df2,
  (forall k, aget (merged mp1 kw1 df1) k = aget (merged mp2 kw2 df2) k) ->
  standardize u (Some l) mp1 kw1 df1 = standardize u (Some l) mp2 kw2 df2.
Proof. exact standardize_spelling_p. Qed.
Print Assumptions standardize_spelling_irrelevant.

(* ---- subset / union commute with the key/value sets (data IDs without attached records) ---- *)
Theorem subset_restricts : forall u d l s, drecs d = None -> subset u d l = Ok s ->
  exists T, mkgroup u l = GOk T /\ gnames (dgroup s) = gnames T /\
    forall k v, dc_get s k = Some v -> dc_get d k = Some v.
Proof. exact subset_plain_p. Qed.
Print Assumptions subset_restricts.

Theorem union_values : forall u a b c, drecs a = None -> union u a b = Ok c ->
  exists G, gunion u (dgroup a) (dgroup b) = GOk G /\ gnames (dgroup c) = gnames G /\
    forall k v, dc_get c k = Some v -> dc_get b k = Some v \/ dc_get a k = Some v.
Proof. exact union_plain_p. Qed.
Print Assumptions union_values.

(* a.union(b) == b.union(a) whenever the operands agree on their common keys (the documented "unspecified on conflicting
   common keys" as the explicit hypothesis agree_on_common); has_required = the value tuple holds the required values
   under the required keys, true of everything standardize returns (next theorem) *)
Theorem union_commutes : forall u la lb a b c1 c2, wf_universe u = true ->
  mkgroup u la = GOk (dgroup a) -> mkgroup u lb = GOk (dgroup b) -> drecs a = None -> drecs b = None ->
  has_required a -> has_required b -> agree_on_common a b ->
  union u a b = Ok c1 -> union u b a = Ok c2 -> dc_eq c1 c2 = true.
Proof. exact union_commutes_p. Qed.
Print Assumptions union_commutes.

Theorem standardize_has_required : forall u dims mp kw df d, standardize u dims mp kw df = Ok d -> has_required d.
Proof. exact standardize_has_required_p. Qed.
Print Assumptions standardize_has_required.

(* ---- expansion ---- *)
(* SOUND, for any universe, store, group and lookup order: a successful walk keeps every given value, visits exactly the
   lookup order, and every record it attaches is the stored row identified by the final values, whose implied values
   ARE the final values; dimensions of the group and relationship-defining elements all have their row *)
Theorem expand_sound : forall u D G k0 k1 recs, expand_keys u D G k0 = Ok (k1, recs) ->
  extends k1 k0 /\ glookup G = GOk (map fst recs) /\ consistent u D G k1 recs.
Proof. exact expand_keys_sound_p. Qed.
Print Assumptions expand_sound.

(* REJECTS contradictions: if some element of the lookup order has, under the given key values, a stored row one of whose
   implied values differs from a value the data ID carries, no expansion is returned (the model's only failure results are
   the exception classes, so: an error is raised) *)
Theorem expand_rejects_contradiction : forall u D G k0 x e kv r d v w,
  (exists order, glookup G = GOk order /\ In x order) ->
  find_elem u x = Some e -> map_opt (aget k0) (ereq e) = Some kv -> fetch D e kv = Some r ->
  In (d, v) (zip_pad (eimp e) (rimp r)) -> aget k0 d = Some w -> w <> v ->
  forall res, expand_keys u D G k0 <> Ok res.
Proof. exact expand_rejects_p. Qed.
Print Assumptions expand_rejects_contradiction.

(* COMPLETE: whenever a consistent full assignment K extending the given values exists, the walk succeeds and returns
   bindings of K -- for any well-formed universe and any group whose lookup order has the C12 properties (lookup_okb) *)
Theorem expand_complete : forall u D l G K k0,
  wf_universe u = true -> dims_selfb u = true -> mkgroup u l = GOk G -> lookup_okb u G = true ->
  (forall p, In p (grequired G) -> has_key k0 p = true) -> extends K k0 ->
  (forall n, In n (gnames G) -> present K n = true) ->
  (forall x, In x (gelements G) -> exists ro, rec_ok u D G K x ro) ->
  exists k1 recs, expand_keys u D G k0 = Ok (k1, recs) /\ extends K k1.
Proof. exact expand_complete_p. Qed.
Print Assumptions expand_complete.

(* ... hence, with C12's exhaustive lookup-order theorem, for EVERY group over the (<= 16, today 13) non-skypix dimensions of
   the current universe, with no assumption left about the order *)
Theorem expand_complete_current : forall D l G K k0,
  In l (all_subsets (nonskypix_dimension_names u_current)) -> mkgroup u_current l = GOk G ->
  (forall p, In p (grequired G) -> has_key k0 p = true) -> extends K k0 ->
  (forall n, In n (gnames G) -> present K n = true) ->
  (forall x, In x (gelements G) -> exists ro, rec_ok u_current D G K x ro) ->
  exists k1 recs, expand_keys u_current D G k0 = Ok (k1, recs) /\ extends K k1.
Proof. exact expand_complete_current_p. Qed.
Print Assumptions expand_complete_current.

(* facts of the regenerated universe the model of fetch_one / the completeness proof rely on *)
Theorem current_universe_facts : dims_selfb u_current = true /\ minimal_required_ok u_current = true.
Proof. exact (conj dims_self_current_p minimal_required_current_p). Qed.
Print Assumptions current_universe_facts.

(* ---- failures: only the documented data-ID error classes (model of the code after /repo 02977ba, which repaired the
        finding F-C13-expand-keyerror) ---- *)
(* standardize fails only with DimensionNameError (unknown name, or a required dimension without value); in particular the
   fuelled closure never runs out of fuel in a well-formed universe, whatever names it is given *)
Theorem standardize_errors_documented : forall u dims mp kw df e, wf_universe u = true ->
  standardize u dims mp kw df = Err e -> e = EDimensionName.
Proof. exact standardize_err_p. Qed.
Print Assumptions standardize_errors_documented.

(* expanding a standardized data ID (group built by mkgroup, lookup order with the C12 properties) fails only with
   DimensionNameError / DataIdValueError / InconsistentDataIdError -- any universe, any store, any values *)
Theorem expand_errors_documented : forall u D l d e, mkgroup u l = GOk (dgroup d) -> lookup_okb u (dgroup d) = true ->
  expand u D d = Err e -> documented e = true.
Proof. exact expand_err_p. Qed.
Print Assumptions expand_errors_documented.

(* expandDataId as a whole (standardize, then expand), mapping / keywords / defaults / dimensions arbitrary *)
Theorem expand_data_id_errors_documented : forall u D dims mp kw df e, wf_universe u = true ->
  (forall d, standardize u dims mp kw df = Ok d -> lookup_okb u (dgroup d) = true) ->
  expand_data_id u D dims mp kw df = Err e -> documented e = true.
Proof. exact expand_data_id_err_p. Qed.
Print Assumptions expand_data_id_errors_documented.

(* ... with no hypothesis left for every request over the non-skypix dimensions of the current universe *)
Theorem expand_data_id_errors_documented_current : forall D l mp kw df e,
  In l (all_subsets (nonskypix_dimension_names u_current)) ->
  expand_data_id u_current D (Some l) mp kw df = Err e -> documented e = true.
Proof. exact expand_data_id_err_current_p. Qed.
Print Assumptions expand_data_id_errors_documented_current.

(* the same statement is FALSE for the code before 02977ba (bare KeyError for an unknown key): the witness that was
   replayed on the implementation; the repaired model answers DimensionNameError on it *)
Theorem expand_errors_documented_refuted_without_fix :
  exists mp e, expand_data_id_bare u_current ex_db None mp [] [] = Err e /\ documented e = false
    /\ expand_data_id u_current ex_db None mp [] [] = Err EDimensionName.
Proof. exact expand_unknown_key_refuted_without_fix_p. Qed.
Print Assumptions expand_errors_documented_refuted_without_fix.

(* ---- non-vacuity / worked examples on the current universe ---- *)
Example expansion_example :
  summary (expand_data_id u_current ex_db None [("visit", VInt 5); ("instrument", VStr "Cam")] [] [])
  = Ok ([("instrument", VStr "Cam"); ("visit", VInt 5); ("band", VStr "g"); ("day_obs", VInt 20240101);
         ("physical_filter", VStr "pf1")], true).
Proof. exact ex_expand_ok_p. Qed.

Example complete_implied_contradiction_refused :
  summary (expand_data_id u_current ex_db None
             [("instrument", VStr "Cam"); ("visit", VInt 5); ("band", VStr "g"); ("day_obs", VInt 20240101);
              ("physical_filter", VStr "pf2")] [] []) = Err EInconsistent.
Proof. exact ex_expand_contradiction_p. Qed.

Example contradicting_records_refused :
  summary (expand_data_id u_current ex_db None [("instrument", VStr "Cam"); ("visit", VInt 5); ("exposure", VInt 51)] [] [])
  = Err EInconsistent.
Proof. exact ex_expand_records_contradict_p. Qed.

(* why the statement says "COMPLETE set of implied values": a partial set is dropped by standardize and never checked *)
Example partial_implied_values_are_dropped :
  summary (expand_data_id u_current ex_db None
             [("instrument", VStr "Cam"); ("visit", VInt 5); ("physical_filter", VStr "pf2")] [] [])
  = Ok ([("instrument", VStr "Cam"); ("visit", VInt 5); ("band", VStr "g"); ("day_obs", VInt 20240101);
         ("physical_filter", VStr "pf1")], true).
Proof. exact ex_partial_implied_dropped_p. Qed.

Example missing_row_refused :
  summary (expand_data_id u_current ex_db None [("instrument", VStr "Cam"); ("visit", VInt 6)] [] []) = Err EDataIdValue.
Proof. exact ex_missing_row_p. Qed.

Example equal_whatever_the_spelling :
  exists a b, standardize u_current None [("visit", VInt 5); ("instrument", VStr "Cam")] [] [] = Ok a
    /\ expand_data_id u_current ex_db (Some ["visit"]) [("foo", VInt 1)] [("visit", VInt 5)] [("instrument", VStr "Cam")] = Ok b
    /\ dc_eq a b = true /\ dc_hash_key a = dc_hash_key b /\ dfull a = false /\ dfull b = true /\ has_recs b = true.
Proof. exact ex_eq_spellings_p. Qed.

Example complete_hypotheses_satisfiable :
  exists G K, mkgroup u_current ["visit"] = GOk G /\ lookup_okb u_current G = true
    /\ (forall n, In n (gnames G) -> present K n = true)
    /\ (forall x, In x (gelements G) -> exists ro, rec_ok u_current ex_db G K x ro).
Proof. exact ex_complete_hyps_p. Qed.

Example union_commutes_example :
  exists a b c1 c2, standardize u_current None [("instrument", VStr "Cam"); ("visit", VInt 5)] [] [] = Ok a
    /\ standardize u_current None [("detector", VInt 1); ("instrument", VStr "Cam")] [] [] = Ok b
    /\ union u_current a b = Ok c1 /\ union u_current b a = Ok c2 /\ dc_eq c1 c2 = true
    /\ dmapping c1 = [("instrument", VStr "Cam"); ("detector", VInt 1); ("visit", VInt 5)].
Proof. exact ex_union_commutes_p. Qed.

(* ======================================================================================================================
   Wave 5: union totality, expandDataId as a whole, the `records=` argument, the older shipped universes, alternate keys.
   New vocabulary
     recs_cover d            a data ID with attached records is full and has a record entry for every element of its group
     comb_imp_closedb u      no join table (combination) of u has implied dimensions
     minimal_required_ok u   every element's minimal group requires exactly the element's own required dimensions
     expand_data_id_x        CODE-EXACT expandDataId: key values go through `standardize(keys, element.minimal_group)` as in
                             the code, `records=` supplied (Model/DataIdX.v); the correspondence run evaluates THIS function
     supported_universes     [u_current; u_old2 .. u_old7] (regenerated from dimensions.yaml / old_dimensions/*.yaml)
     rec_ok_r                like rec_ok, but an entry for which a record was supplied IS the supplied one
   ====================================================================================================================== *)

(* ---- union is total ---- *)
Theorem union_total : forall u la lb a b, wf_universe u = true ->
  mkgroup u la = GOk (dgroup a) -> mkgroup u lb = GOk (dgroup b) -> has_required a -> has_required b ->
  recs_cover a -> recs_cover b -> exists c, union u a b = Ok c.
Proof. exact union_total_p. Qed.
Print Assumptions union_total.

(* without records the result is characterised completely *)
Theorem union_total_plain : forall u la lb a b, wf_universe u = true ->
  mkgroup u la = GOk (dgroup a) -> mkgroup u lb = GOk (dgroup b) -> drecs a = None -> drecs b = None ->
  has_required a -> has_required b ->
  exists c G, union u a b = Ok c /\ gunion u (dgroup a) (dgroup b) = GOk G /\ dgroup c = G /\ has_required c /\
    (forall k v, dc_get c k = Some v -> dc_get b k = Some v \/ dc_get a k = Some v) /\
    (forall k, In k (grequired G) -> exists v, dc_get c k = Some v).
Proof. exact union_total_plain_p. Qed.
Print Assumptions union_total_plain.

(* ---- Registry.expandDataId as ONE function: standardize, the walk, the final standardize(keys).expanded(records) ---- *)
(* SOUND: the returned data ID has the standardized dimensions, keeps every standardized value, is full, carries one record
   entry per element of the lookup order, and every entry is the stored row under THE RETURNED values, with implied values
   equal to the returned values (or the empty data ID) *)
Theorem expand_data_id_sound : forall u D dims mp kw df d,
  wf_universe u = true -> dims_selfb u = true -> comb_imp_closedb u = true ->
  (forall s, standardize u dims mp kw df = Ok s -> lookup_okb u (dgroup s) = true) ->
  expand_data_id u D dims mp kw df = Ok d ->
  exists s, standardize u dims mp kw df = Ok s /\ dgroup d = dgroup s /\
    (forall k v, dc_get s k = Some v -> dc_get d k = Some v) /\
    (is_nil (gnames (dgroup d)) = true /\ d = s \/
     is_nil (gnames (dgroup d)) = false /\ dfull d = true /\
     exists recs, drecs d = Some recs /\ glookup (dgroup d) = GOk (map fst recs) /\
       consistent u D (dgroup d) (dmapping d) recs).
Proof. exact expand_data_id_sound_p. Qed.
Print Assumptions expand_data_id_sound.

(* COMPLETE: a consistent full assignment K extending the standardized data ID exists => expandDataId returns a full data ID
   with records whose every value is K's (so the answer does not depend on the lookup order) *)
Theorem expand_data_id_complete : forall u D dims mp kw df s K,
  wf_universe u = true -> dims_selfb u = true ->
  standardize u dims mp kw df = Ok s -> lookup_okb u (dgroup s) = true ->
  extends K (dmapping s) -> (forall n, In n (gnames (dgroup s)) -> present K n = true) ->
  (forall x, In x (gelements (dgroup s)) -> exists ro, rec_ok u D (dgroup s) K x ro) ->
  exists d, expand_data_id u D dims mp kw df = Ok d /\ dgroup d = dgroup s /\ dfull d = true /\ has_recs d = true /\
    forall k v, dc_get d k = Some v -> aget K k = Some v.
Proof. exact expand_data_id_complete_p. Qed.
Print Assumptions expand_data_id_complete.

(* ---- the code-exact model and the model of the theorems above are the same function where minimal_required_ok ---- *)
Theorem code_exact_model_agrees : forall u D given dims mp kw df, minimal_required_ok u = true ->
  expand_data_id_x u D given dims mp kw df = expand_data_id_r u D given dims mp kw df.
Proof. exact expand_data_id_x_eq_p. Qed.
Print Assumptions code_exact_model_agrees.

Theorem code_exact_model_agrees_plain : forall u D dims mp kw df, minimal_required_ok u = true ->
  expand_data_id_x u D [] dims mp kw df = expand_data_id u D dims mp kw df.
Proof. exact expand_data_id_x_plain_p. Qed.
Print Assumptions code_exact_model_agrees_plain.

Theorem code_exact_model_agrees_dc : forall u D given dims d kw df, minimal_required_ok u = true ->
  expand_data_id_dc_x u D given dims d kw df = expand_data_id_dc u D given dims d kw df.
Proof. exact expand_data_id_dc_x_eq_p. Qed.
Print Assumptions code_exact_model_agrees_dc.

(* ---- every supported shipped universe (current, daf_butler 2..7; <= 13 non-skypix dimensions each), no hypothesis left,
        code-exact model ---- *)
Theorem supported_universe_facts :
  forallb universe_facts supported_universes = true /\
  forallb (fun u => Nat.leb (length (nonskypix_dimension_names u)) 13) shipped_universes = true.
Proof. exact (conj supported_facts_p bound_old_p). Qed.
Print Assumptions supported_universe_facts.

Theorem expand_data_id_sound_shipped : forall u D l mp kw df d, In u supported_universes ->
  In l (all_subsets (nonskypix_dimension_names u)) ->
  expand_data_id_x u D [] (Some l) mp kw df = Ok d ->
  exists s, standardize u (Some l) mp kw df = Ok s /\ dgroup d = dgroup s /\
    (forall k v, dc_get s k = Some v -> dc_get d k = Some v) /\
    (is_nil (gnames (dgroup d)) = true /\ d = s \/
     is_nil (gnames (dgroup d)) = false /\ dfull d = true /\
     exists recs, drecs d = Some recs /\ glookup (dgroup d) = GOk (map fst recs) /\
       consistent u D (dgroup d) (dmapping d) recs).
Proof. exact expand_data_id_sound_shipped_p. Qed.
Print Assumptions expand_data_id_sound_shipped.

Theorem expand_data_id_complete_shipped : forall u D l mp kw df s K, In u supported_universes ->
  In l (all_subsets (nonskypix_dimension_names u)) ->
  standardize u (Some l) mp kw df = Ok s ->
  extends K (dmapping s) -> (forall n, In n (gnames (dgroup s)) -> present K n = true) ->
  (forall x, In x (gelements (dgroup s)) -> exists ro, rec_ok u D (dgroup s) K x ro) ->
  exists d, expand_data_id_x u D [] (Some l) mp kw df = Ok d /\ dgroup d = dgroup s /\ dfull d = true /\ has_recs d = true /\
    forall k v, dc_get d k = Some v -> aget K k = Some v.
Proof. exact expand_data_id_complete_shipped_p. Qed.
Print Assumptions expand_data_id_complete_shipped.

Theorem expand_data_id_errors_documented_shipped : forall u D l mp kw df e, In u supported_universes ->
  In l (all_subsets (nonskypix_dimension_names u)) ->
  expand_data_id_x u D [] (Some l) mp kw df = Err e -> documented e = true.
Proof. exact expand_data_id_err_shipped_p. Qed.
Print Assumptions expand_data_id_errors_documented_shipped.

(* ---- daf_butler universes 0 and 1: completeness is FALSE for the code (finding F-C13-old-universe-minimal-group).
        {instrument: Cam, exposure: 50, visit_system: 0} has consistent stored rows (ex_db0: the visit_definition row
        (Cam, 0, 50) -> visit 5), yet expandDataId raises DimensionNameError "no value for required dimension visit": the
        fetch key of visit_definition goes through its minimal group, which requires `visit`.  The model that reads the key
        values directly (Model/DataId.expand) succeeds on the same input. ---- *)
Theorem old_universes_differ :
  wf_universe u_old0 = true /\ wf_universe u_old1 = true /\ dims_selfb u_old0 = true /\ dims_selfb u_old1 = true /\
  comb_imp_closedb u_old0 = false /\ comb_imp_closedb u_old1 = false /\
  minimal_required_ok u_old0 = false /\ minimal_required_ok u_old1 = false.
Proof. exact old01_facts_p. Qed.
Print Assumptions old_universes_differ.

Theorem expand_complete_refuted_universe0 :
  exists s, standardize u_old0 None ex_id0 [] [] = Ok s /\ lookup_okb u_old0 (dgroup s) = true /\
    extends ex_K0 (dmapping s) /\ (forall n, In n (gnames (dgroup s)) -> present ex_K0 n = true) /\
    (forall x, In x (gelements (dgroup s)) -> exists ro, rec_ok u_old0 ex_db0 (dgroup s) ex_K0 x ro) /\
    expand_data_id_x u_old0 ex_db0 [] None ex_id0 [] [] = Err EDimensionName /\
    (exists d, expand_data_id u_old0 ex_db0 None ex_id0 [] [] = Ok d).
Proof. exact expand_complete_refuted_universe0_p. Qed.
Print Assumptions expand_complete_refuted_universe0.

Theorem expand_complete_refuted_universe1 :
  exists s, standardize u_old1 None ex_id0 [] [] = Ok s /\ lookup_okb u_old1 (dgroup s) = true /\
    extends ex_K0 (dmapping s) /\ (forall n, In n (gnames (dgroup s)) -> present ex_K0 n = true) /\
    (forall x, In x (gelements (dgroup s)) -> exists ro, rec_ok u_old1 ex_db0 (dgroup s) ex_K0 x ro) /\
    expand_data_id_x u_old1 ex_db0 [] None ex_id0 [] [] = Err EDimensionName /\
    (exists d, expand_data_id u_old1 ex_db0 None ex_id0 [] [] = Ok d).
Proof. exact expand_complete_refuted_universe1_p. Qed.
Print Assumptions expand_complete_refuted_universe1.

(* ---- the `records=` argument ---- *)
Theorem expand_records_none : forall u D dims mp kw df,
  expand_data_id_r u D [] dims mp kw df = expand_data_id u D dims mp kw df.
Proof. exact expand_data_id_r_nil_p. Qed.
Print Assumptions expand_records_none.

(* SOUND with supplied records: a supplied entry is attached as is and its implied values ARE the final values; every
   other entry is the stored row *)
Theorem expand_records_sound : forall u D G given k0 k1 recs, expand_keys_r u D G given k0 = Ok (k1, recs) ->
  extends k1 k0 /\ glookup G = GOk (map fst recs) /\ forall x ro, In (x, ro) recs -> rec_ok_r u D G given k1 x ro.
Proof. exact expand_keys_r_sound_p. Qed.
Print Assumptions expand_records_sound.

Theorem expand_records_rejects_contradiction : forall u D G given k0 x e r d v w,
  (exists order, glookup G = GOk order /\ In x order) ->
  find_elem u x = Some e -> aget given x = Some (Some r) ->
  In (d, v) (zip_pad (eimp e) (rimp r)) -> aget k0 d = Some w -> w <> v ->
  forall res, expand_keys_r u D G given k0 <> Ok res.
Proof. exact expand_r_rejects_p. Qed.
Print Assumptions expand_records_rejects_contradiction.

(* supplied records that are what the walk fetches change nothing *)
Theorem expand_records_agree : forall u D given dims mp kw df s k1 recs,
  standardize u dims mp kw df = Ok s -> expand_keys u D (dgroup s) (dmapping s) = Ok (k1, recs) ->
  (forall x g ro, aget given x = Some g -> In (x, ro) recs -> ro = g) ->
  expand_data_id_r u D given dims mp kw df = expand_data_id u D dims mp kw df.
Proof. exact expand_data_id_r_agree_p. Qed.
Print Assumptions expand_records_agree.

(* ---- alternate keys (_rewrite_data_id): a lookup with a uniqueness condition ---- *)
Theorem altkey_rewrite_sound : forall u F known dn cs k', has_key known dn = false -> rewrite_one u F known dn cs = RWOk k' ->
  exists e r, find_elem u dn = Some e /\ is_dimension e = true /\ In r (frows F dn) /\ row_matches e dn cs known r = true /\
    (forall r', In r' (frows F dn) -> row_matches e dn cs known r' = true -> r' = r) /\
    k' = known ++ [(dn, last (fkey r) VNone)].
Proof. exact rewrite_one_sound_p. Qed.
Print Assumptions altkey_rewrite_sound.

Theorem altkey_rewrite_complete : forall u F known dn cs e r, find_elem u dn = Some e -> is_dimension e = true ->
  has_key known dn = false -> NoDup (frows F dn) -> In r (frows F dn) -> row_matches e dn cs known r = true ->
  (forall r', In r' (frows F dn) -> row_matches e dn cs known r' = true -> r' = r) ->
  rewrite_one u F known dn cs = RWOk (known ++ [(dn, last (fkey r) VNone)]).
Proof. exact rewrite_one_complete_p. Qed.
Print Assumptions altkey_rewrite_complete.

Theorem altkey_rewrite_refuses : forall u F known dn cs e, find_elem u dn = Some e -> is_dimension e = true ->
  has_key known dn = false ->
  (matching_rows u F dn cs known = [] -> rewrite_one u F known dn cs = RWErr RWNoMatch) /\
  (forall r1 r2 rest, matching_rows u F dn cs known = r1 :: r2 :: rest -> rewrite_one u F known dn cs = RWErr RWAmbiguous).
Proof. exact rewrite_one_refuses_p. Qed.
Print Assumptions altkey_rewrite_refuses.

Theorem altkey_explicit_checked : forall u F known dn cs k', has_key known dn = true -> rewrite_one u F known dn cs = RWOk k' ->
  k' = known /\ forall r, explicit_rows u F dn known = [r] -> fields_agree r cs = true.
Proof. exact rewrite_one_explicit_p. Qed.
Print Assumptions altkey_explicit_checked.

Theorem altkey_keeps_given_values : forall u F by_record known k', rewrite_all u F known by_record = RWOk k' -> extends k' known.
Proof. exact rewrite_all_extends_p. Qed.
Print Assumptions altkey_keeps_given_values.

(* the alternate spelling and the primary-key spelling are THE SAME data ID *)
Theorem altkey_same_data_id : forall u F known dn cs e r l, find_elem u dn = Some e -> is_dimension e = true ->
  has_key known dn = false -> NoDup (frows F dn) -> In r (frows F dn) -> row_matches e dn cs known r = true ->
  (forall r', In r' (frows F dn) -> row_matches e dn cs known r' = true -> r' = r) ->
  exists k', rewrite_one u F known dn cs = RWOk k' /\
    standardize u (Some l) k' [] [] = standardize u (Some l) ((dn, last (fkey r) VNone) :: known) [] [].
Proof. exact altkey_same_data_id_p. Qed.
Print Assumptions altkey_same_data_id.

(* ---- worked examples ---- *)
Example supplied_record_same_answer :
  expand_data_id_x u_current ex_db [("visit", Some visit5)] None [("instrument", VStr "Cam"); ("visit", VInt 5)] [] []
  = expand_data_id_x u_current ex_db [] None [("instrument", VStr "Cam"); ("visit", VInt 5)] [] [].
Proof. exact ex_records_same_p. Qed.

(* a supplied record is used AS IS (its own key is never compared with the data ID): the caller's responsibility *)
Example supplied_record_key_unchecked :
  summary (expand_data_id_x u_current ex_db [] None [("instrument", VStr "Cam"); ("visit", VInt 6)] [] []) = Err EDataIdValue /\
  summary (expand_data_id_x u_current ex_db [("visit", Some visit5)] None [("instrument", VStr "Cam"); ("visit", VInt 6)] [] [])
  = Ok ([("instrument", VStr "Cam"); ("visit", VInt 6); ("band", VStr "g"); ("day_obs", VInt 20240101);
         ("physical_filter", VStr "pf1")], true).
Proof. exact ex_records_key_unchecked_p. Qed.

Example supplied_record_contradiction_refused :
  summary (expand_data_id_x u_current ex_db [("visit", Some (mkRecord [VStr "Cam"; VInt 5] [VInt 20240101; VStr "pf2"]))] None
             [("instrument", VStr "Cam"); ("visit", VInt 5); ("band", VStr "g"); ("day_obs", VInt 20240101);
              ("physical_filter", VStr "pf1")] [] []) = Err EInconsistent.
Proof. exact ex_records_contradiction_p. Qed.

Example union_of_expanded_ids :
  exists a b c, expand_data_id u_current ex_db None [("instrument", VStr "Cam"); ("visit", VInt 5)] [] [] = Ok a
    /\ expand_data_id u_current ex_db None [("instrument", VStr "Cam"); ("exposure", VInt 50)] [] [] = Ok b
    /\ recs_cover a /\ recs_cover b /\ has_required a /\ has_required b
    /\ union u_current a b = Ok c /\ dfull c = true /\ has_recs c = false
    /\ gnames (dgroup c) = ["band"; "instrument"; "day_obs"; "group"; "physical_filter"; "exposure"; "visit"].
Proof. exact ex_union_expanded_p. Qed.

Example alternate_key_examples :
  rewrite_all u_current ex_fdb [("instrument", VStr "Cam")] [("detector", [("full_name", VStr "det1")])]
    = RWOk [("instrument", VStr "Cam"); ("detector", VInt 1)]
  /\ rewrite_all u_current ex_fdb [] [("detector", [("full_name", VStr "det1")])] = RWErr RWAmbiguous
  /\ rewrite_all u_current ex_fdb [("instrument", VStr "Cam")] [("detector", [("full_name", VStr "nope")])] = RWErr RWNoMatch
  /\ rewrite_all u_current ex_fdb [("instrument", VStr "Cam"); ("detector", VInt 0)] [("detector", [("full_name", VStr "det1")])]
     = RWErr RWInconsistent.
Proof. exact ex_altkey_p. Qed.





(* ---- union with ATTACHED RECORDS (any of the three classes on either side) ---- *)
Theorem union_values_any : forall u la lb a b c, wf_universe u = true ->
  mkgroup u la = GOk (dgroup a) -> mkgroup u lb = GOk (dgroup b) -> has_required a -> has_required b ->
  recs_cover a -> recs_cover b -> union u a b = Ok c ->
  exists G, gunion u (dgroup a) (dgroup b) = GOk G /\ dgroup c = G /\ has_required c /\
    forall k v, dc_get c k = Some v -> dc_get b k = Some v \/ dc_get a k = Some v.
Proof. exact union_strong_any. Qed.
Print Assumptions union_values_any.

(* union_commutes at full strength: with or without attached records *)
Theorem union_commutes_any : forall u la lb a b c1 c2, wf_universe u = true ->
  mkgroup u la = GOk (dgroup a) -> mkgroup u lb = GOk (dgroup b) -> has_required a -> has_required b ->
  recs_cover a -> recs_cover b -> agree_on_common a b ->
  union u a b = Ok c1 -> union u b a = Ok c2 -> dc_eq c1 c2 = true.
Proof. exact union_commutes_any_p. Qed.
Print Assumptions union_commutes_any.

(* supplied / carried records that ARE the stored rows under the final values (given_stored): the ordinary soundness *)
Theorem expand_records_sound_stored : forall u D G given k0 k1 recs,
  expand_keys_r u D G given k0 = Ok (k1, recs) -> given_stored u D given k1 ->
  extends k1 k0 /\ glookup G = GOk (map fst recs) /\ consistent u D G k1 recs.
Proof. exact expand_keys_r_sound_stored_p. Qed.
Print Assumptions expand_records_sound_stored.

(* ======================================================================================================================
   Unions of data IDs with records; DataCoordinate arguments of expandDataId after /repo 822ddb5 and b51cefc.
     wf_dataid u d           d's group is a group of u, d holds its required values, and is full if it has records
     standardize_dc2         standardize(DataCoordinate, ...) after 822ddb5 (subset's KeyError -> DimensionNameError)
     carried_ok d s          all(standardized.mapping.get(k, v) == v for k, v in dataId.mapping.items())     (b51cefc)
     carried_valid u e keys r   43639c3: a carried record's own required key values equal the keys of the data ID being expanded
     expand_keys_c / expand_data_id_dc_x3   the walk / expandDataId(DataCoordinate, dimensions=, records=, **kw) AS SHIPPED (43639c3)
     expand_data_id_dc_x2    the b51cefc variant (whole-mapping test), expand_data_id_dc_x the code before the repairs (witnesses only)
     carried_stored u D c    every non-None carried record is a row of the store (fetching its own key gives it; key complete, non-null)
     rec_ok_c                an attached record for an element the argument carried a non-None record for, and every fetched record, is
                             the stored row under the final values (rec_ok); a carried None stays None; records= entries as rec_ok_r
   ====================================================================================================================== *)

(* a union may claim hasRecords() only if it has a record for EVERY ELEMENT of its group (and is full): recs_cover is preserved
   (seed C13b replaced `elements` by `names` in that test) *)
Theorem union_claims_records_only_if_complete : forall u la lb a b c, wf_universe u = true ->
  mkgroup u la = GOk (dgroup a) -> mkgroup u lb = GOk (dgroup b) -> recs_cover a -> recs_cover b ->
  union u a b = Ok c -> recs_cover c.
Proof. exact union_recs_cover_p. Qed.
Print Assumptions union_claims_records_only_if_complete.

(* WHICH records the union of two expanded data IDs carries *)
Theorem union_records_carried : forall u a b c ra rb, drecs a = Some ra -> drecs b = Some rb -> union u a b = Ok c ->
  c = a \/ c = b \/ has_recs c = false \/ c = make_empty (dgroup c) \/
  exists rc, drecs c = Some rc /\ forall e, aget rc e =
    match (if memb e (gelements (dgroup b)) then aget rb e else None) with
    | Some x => Some x
    | None => if memb e (gelements (dgroup a)) then aget ra e else None
    end.
Proof. exact union_records_carried_p. Qed.
Print Assumptions union_records_carried.



Theorem standardize_dc_errors_documented : forall u dims d kw df e, wf_universe u = true -> wf_dataid u d ->
  standardize_dc2 u dims d kw df = Err e -> e = EDimensionName.
Proof. exact standardize_dc2_err. Qed.
Print Assumptions standardize_dc_errors_documented.

Theorem expand_dc_errors_documented_refuted_without_fix :
  exists d e, standardize u_current None [("instrument", VStr "Cam")] [] [] = Ok d /\
    expand_data_id_dc_x u_current ex_db [] (Some ["detector"]) d [] [] = Err e /\ documented e = false /\
    expand_data_id_dc_x2 u_current ex_db [] (Some ["detector"]) d [] [] = Err EDimensionName.
Proof. exact expand_dc_keyerror_refuted_without_fix_p. Qed.
Print Assumptions expand_dc_errors_documented_refuted_without_fix.





Theorem expand_dc_carried_records_refuted_without_fix :
  exists a d, expand_data_id_x u_current ex_db2 [] None [("instrument", VStr "Cam"); ("visit", VInt 5)] [] [] = Ok a /\
    expand_data_id_dc_x u_current ex_db2 [] None a [("visit", VInt 7)] [] = Ok d /\
    dc_get d "visit" = Some (VInt 7) /\ dc_get d "physical_filter" = Some (VStr "pf1") /\
    expand_data_id_x u_current ex_db2 [] None (dmapping d) [] [] = Err EInconsistent /\
    expand_data_id_dc_x2 u_current ex_db2 [] None a [("visit", VInt 7)] [] = Err EInconsistent.
Proof. exact expand_dc_carried_records_refuted_without_fix_p. Qed.
Print Assumptions expand_dc_carried_records_refuted_without_fix.



(* ---- expandDataId(DataCoordinate, ...) as shipped since 43639c3 ---- *)
(* SOUND, with NO hypothesis relating the standardized data ID to the argument: the per-record validation makes every attached
   non-None carried record -- kept or fetched again -- and every fetched record the stored row under the RETURNED values, with
   implied values equal to the returned values *)
Theorem expand_dc_sound : forall u D G carried given k0 k1 recs,
  minimal_required_ok u = true -> dims_selfb u = true -> carried_stored u D carried ->
  expand_keys_c u D G carried given k0 = Ok (k1, recs) ->
  extends k1 k0 /\ glookup G = GOk (map fst recs) /\ forall x ro, In (x, ro) recs -> rec_ok_c u D G carried given k1 x ro.
Proof. exact expand_keys_c_sound_p. Qed.
Print Assumptions expand_dc_sound.

Theorem expand_dc_without_carried_records : forall u D G given k0, expand_keys_c u D G [] given k0 = expand_keys_x u D G given k0.
Proof. exact expand_keys_c_nil_p. Qed.
Print Assumptions expand_dc_without_carried_records.

(* ONLY DOCUMENTED FAILURES *)
Theorem expand_dc_errors_documented : forall u D given dims d kw df e, wf_universe u = true ->
  minimal_required_ok u = true -> dims_selfb u = true -> wf_dataid u d -> carried_stored u D (carried_records d) ->
  (forall s, standardize_dc2 u dims d kw df = Ok s -> lookup_okb u (dgroup s) = true) ->
  expand_data_id_dc_x3 u D given dims d kw df = Err e -> documented e = true.
Proof. exact expand_dc3_err_p. Qed.
Print Assumptions expand_dc_errors_documented.

(* the b51cefc variant still attached pf1's record to pf2 (finding F-C13-expand-dc-carried-record-of-dropped-value, repaired by
   43639c3); the shipped model returns exactly the expansion of the mapping {Cam, visit 7} *)
Theorem expand_dc_carried_records_residual_refuted_without_fix :
  exists p d d', expand_data_id_x u_current ex_db2 [] None [("instrument", VStr "Cam"); ("physical_filter", VStr "pf1")] [] [] = Ok p /\
    expand_data_id_dc_x2 u_current ex_db2 [] None p [("visit", VInt 7)] [] = Ok d /\
    dc_get d "physical_filter" = Some (VStr "pf2") /\ dc_get d "band" = Some (VStr "g") /\
    expand_data_id_x u_current ex_db2 [] None [("instrument", VStr "Cam"); ("visit", VInt 7)] [] [] = Ok d' /\
    dc_get d' "band" = Some (VStr "r") /\
    expand_data_id_dc_x3 u_current ex_db2 [] None p [("visit", VInt 7)] [] = Ok d'.
Proof. exact expand_dc_residual_refuted_without_fix_p. Qed.
Print Assumptions expand_dc_carried_records_residual_refuted_without_fix.

Example shipped_answers_on_the_earlier_witnesses :
  (exists d, standardize u_current None [("instrument", VStr "Cam")] [] [] = Ok d /\
     expand_data_id_dc_x3 u_current ex_db [] (Some ["detector"]) d [] [] = Err EDimensionName) /\
  (exists a, expand_data_id_x u_current ex_db2 [] None [("instrument", VStr "Cam"); ("visit", VInt 5)] [] [] = Ok a /\
     expand_data_id_dc_x3 u_current ex_db2 [] None a [("visit", VInt 7)] [] = Err EInconsistent /\
     expand_data_id_dc_x3 u_current ex_db2 [] None a [] [] = Ok a).
Proof. exact expand_dc_shipped_answers_p. Qed.

Example soundness_hypotheses_satisfiable :
  exists a, expand_data_id_x u_current ex_db2 [] None [("instrument", VStr "Cam"); ("visit", VInt 5)] [] [] = Ok a /\
    carried_stored u_current ex_db2 (carried_records a) /\ minimal_required_ok u_current = true /\ dims_selfb u_current = true.
Proof. exact carried_stored_example_p. Qed.
