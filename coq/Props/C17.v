(* C17 -- Caches never change an answer and stay within their configured bounds.
   Statements only; proofs are `exact <lemma>` from Proofs/CacheProofs{,B,C}.v (the `_refuted` witnesses are computed).

   PART 1, the datastore file cache (Model/Cache.v):
     mstep age_fix c now op (disk, mgr)   one operation of one DatastoreCacheManager with configuration c at time now
     wstep / wrun                         two managers on ONE cache directory, a clock, files deleted / written by others
     age_fix = true  : the code as it is (delta.total_seconds(), /repo 9b27982);  false : delta.seconds (before the repair)
     after_move ... = the (directory, registry) right after move_to_cache
     WInv w : file names unique, sizes >= 0, and for BOTH managers: entry names unique and cache_size = sum of entry sizes
   PART 2, the registry caches of caching_context():
     rstep fx use_cache : fx = as_coded is the code as it is; (mkFixes false true true) the code before /repo d43ed5b
                          (setCollectionChain left the summary cache alone); (mkFixes true false true) the code before
                          /repo 65fc362 (removeCollection left the summary cache alone; the cache is keyed by the
                          collection's integer key and SQLite reuses the key of a removed collection);
                          (mkFixes true true false) removal with the cached record discarded BEFORE the database
                          delete (which may refuse) instead of after it;
                          use_cache = false = the same client without contexts
     an operation the registry refuses (unknown collection, removing a chain's child, ...) answers err_ans, changes nothing
     wf_tables t   : keys unique; chains exist, are one level deep, their children exist
     Coherent t cs : every cached record / summary equals what the tables say now for the collection that has that
                     name / key now, every cached key is in use, and a record cache marked `full` holds every collection.
     QColls / QDataGlob : pattern and `...` lookups; they answer from the record cache alone once it is `full`. *)
From Coq Require Import ZArith NArith List Bool Lia.
From V Require Import Model.Cache Model.CacheButler Proofs.CacheProofs Proofs.CacheProofsB Proofs.CacheProofsC Proofs.CacheProofsD Gen.CacheExpireGen Proofs.CacheProofsE.
Import ListNotations.
Open Scope Z_scope.

(* ---- bookkeeping: for EVERY history of both managers, the clock and outside interference ---- *)
Theorem bookkeeping_inv : forall age_fix ca cb h w, Forall wf_wop h -> WInv w -> WInv (wrun age_fix ca cb w h).
Proof. intros. now apply WInv_wrun. Qed.
Print Assumptions bookkeeping_inv.

Theorem bookkeeping_from_empty : forall age_fix ca cb h, Forall wf_wop h ->
  let w := wrun age_fix ca cb empty_world h in
  msize (w_a w) = sum_sizes (entries (w_a w)) /\ msize (w_b w) = sum_sizes (entries (w_b w))
  /\ NoDup (keys (entries (w_a w))) /\ NoDup (keys (entries (w_b w))).
Proof.
  intros. destruct (WInv_wrun age_fix ca cb h empty_world H WInv_empty) as [_ [[A1 [_ A2]] [B1 [_ B2]]]]. auto.
Qed.
Print Assumptions bookkeeping_from_empty.

(* after a scan the registry's entries are exactly the files on disk *)
Theorem scan_sync : forall disk m k, In k (keys (entries (scan disk m))) <-> In k (keys disk).
Proof. exact scan_keys. Qed.
Print Assumptions scan_sync.

(* ---- bounds right after move_to_cache, from ANY state of the directory and the registry ---- *)
Theorem bound_files : forall age_fix thr now k size disk m, 0 <= thr -> DInv disk ->
  Z.of_nat (length (entries (snd (after_move age_fix (mkCfg MFiles thr) now k size (disk, m))))) <= thr + 1
  /\ Z.of_nat (length (fst (after_move age_fix (mkCfg MFiles thr) now k size (disk, m)))) <= thr + 1.
Proof. exact move_files_bound. Qed.
Print Assumptions bound_files.

(* at most thr + 1 different datasets are cached *)
Theorem bound_datasets : forall age_fix thr now k size disk m, 0 <= thr ->
  exists allowed, Z.of_nat (length allowed) <= thr + 1 /\
    forall e, In e (entries (snd (after_move age_fix (mkCfg MDatasets thr) now k size (disk, m)))) -> In (e_ref e) allowed.
Proof. exact move_datasets_bound. Qed.
Print Assumptions bound_datasets.

Theorem bound_size : forall age_fix thr now k size disk m, 0 <= thr -> 0 <= size -> DInv disk -> MInv m ->
  msize (snd (after_move age_fix (mkCfg MSize thr) now k size (disk, m))) <= thr + size.
Proof. exact move_size_bound. Qed.
Print Assumptions bound_size.

(* all ages, also beyond one day *)
Theorem bound_age : forall thr now k size disk m e, 0 <= thr ->
  In e (entries (snd (after_move true (mkCfg MAge thr) now k size (disk, m)))) -> now - e_ctime e <= thr.
Proof. exact move_age_bound. Qed.
Print Assumptions bound_age.

(* with the seconds FIELD of the timedelta (the code before 9b27982) a file 86 410 s old survives a 60 s threshold *)
Definition age_history : list wop := [OpA (Move 0%N 10); Tick 86410; OpA (Move 4%N 10)].
Theorem age_refuted_with_seconds_field :
  exists e, In e (entries (w_a (wrun false (mkCfg MAge 60) (mkCfg MAge 60) empty_world age_history)))
            /\ 86410 - e_ctime e > 60.
Proof. exists (mkEntry 0%N 10 0). vm_compute. split; [left; reflexivity | reflexivity]. Qed.
Print Assumptions age_refuted_with_seconds_field.

Theorem age_history_ok_now :
  keys (entries (w_a (wrun true (mkCfg MAge 60) (mkCfg MAge 60) empty_world age_history))) = [4%N].
Proof. vm_compute. reflexivity. Qed.
Print Assumptions age_history_ok_now.

(* ---- removal: no entry and no known file of a removed dataset stays; find never invents content ---- *)
Theorem remove_leaves_no_entry : forall age_fix c now refs disk m e,
  In e (entries (snd (fst (mstep age_fix c now (Remove refs) (disk, m))))) -> existsb (N.eqb (e_ref e)) refs = false.
Proof. exact remove_complete. Qed.
Print Assumptions remove_leaves_no_entry.

Theorem remove_deletes_known_files : forall age_fix c now refs disk m e x,
  In e (entries m) -> existsb (N.eqb (e_ref e)) refs = true ->
  In x (fst (fst (mstep age_fix c now (Remove refs) (disk, m)))) -> e_key x <> e_key e.
Proof. exact remove_deletes_files. Qed.
Print Assumptions remove_deletes_known_files.

Theorem find_returns_only_files_on_disk : forall age_fix c now k disk m s,
  snd (mstep age_fix c now (Find k) (disk, m)) = RFound s -> exists e, In e disk /\ e_key e = k /\ e_size e = s.
Proof. exact find_never_invents. Qed.
Print Assumptions find_returns_only_files_on_disk.

(* code as it is, a manager WITHOUT an expiry mode never rescans: after another client evicted the file, move_to_cache
   finds the name in its registry, stores nothing and reports it cached -- the registry lists a file that is not in
   the directory (reproduced on the implementation; known finding F-C17-nomode-ghost) *)
Definition ghost_history : list wop := [OpA (Move 8%N 60); OpB (Move 4%N 101); OpA (Move 8%N 60)].
Theorem move_without_mode_ghost_entry_refuted :
  let w := wrun true (mkCfg MNone 0) (mkCfg MDatasets 0) empty_world ghost_history in
  keys (entries (w_a w)) = [8%N] /\ keys (w_disk w) = [4%N]
  /\ snd (wstep true (mkCfg MNone 0) (mkCfg MDatasets 0)
            (wrun true (mkCfg MNone 0) (mkCfg MDatasets 0) empty_world (firstn 2 ghost_history)) (OpA (Move 8%N 60))) = RCached.
Proof. vm_compute. repeat split; reflexivity. Qed.
Print Assumptions move_without_mode_ghost_entry_refuted.

(* with any expiry mode configured the same history re-caches the file *)
Theorem move_with_mode_no_ghost :
  let w := wrun true (mkCfg MDatasets 5) (mkCfg MDatasets 0) empty_world ghost_history in
  keys (entries (w_a w)) = [4%N; 8%N] /\ keys (w_disk w) = [4%N; 8%N].
Proof. vm_compute. split; reflexivity. Qed.
Print Assumptions move_with_mode_no_ghost.

(* with ANY expiry mode configured (files / datasets / size / age), from ANY state of the directory and the registry:
   the file just moved is in the directory and in the registry, and every registry entry has its file *)
Theorem moved_file_present : forall age_fix c now k size disk m, expiring (c_mode c) ->
  In k (keys (fst (after_move age_fix c now k size (disk, m)))) /\ In k (keys (entries (snd (after_move age_fix c now k size (disk, m))))).
Proof. exact moved_file_present_p. Qed.
Print Assumptions moved_file_present.

Theorem entries_have_files_after_move : forall age_fix c now k size disk m x, expiring (c_mode c) ->
  In x (keys (entries (snd (after_move age_fix c now k size (disk, m))))) -> In x (keys (fst (after_move age_fix c now k size (disk, m)))).
Proof. exact move_entries_on_disk_p. Qed.
Print Assumptions entries_have_files_after_move.

(* non-vacuity: a reachable two-client state with evictions satisfies the invariant's hypotheses *)
Example bookkeeping_example :
  let h := [OpA (Move 0%N 10); Tick 1; OpB (Move 4%N 20); Tick 1; OpA (Move 8%N 30); OpB (Find 8%N); ExtDelete 4%N; OpA Scan] in
  Forall wf_wop h /\ keys (w_disk (wrun true (mkCfg MFiles 1) (mkCfg MFiles 1) empty_world h)) = [8%N].
Proof. split; [repeat constructor; simpl; lia | vm_compute; reflexivity]. Qed.

(* ---- registry caches ---- *)
Open Scope N_scope.

Theorem cache_transparent : forall t cs ty c, wf_tables t -> Coherent t cs ->
  fst (query_datasets t cs ty c) = fst (query_datasets t no_caches ty c)
  /\ fst (fetch_summary t cs c) = fst (fetch_summary t no_caches c).
Proof. exact cache_transparent_p. Qed.
Print Assumptions cache_transparent.

(* coherence is an invariant of EVERY history -- contexts, registrations, removals (with key reuse), chain edits, puts and
   queries in any order, well-formed or refused -- and every answer of every history is the answer of the same client
   without caching contexts *)
Theorem coherent_inv : forall h t cs, wf_tables t -> Coherent t cs ->
  Coherent (fst (fst (rrun as_coded true (t, cs) h))) (snd (fst (rrun as_coded true (t, cs) h))).
Proof. intros. apply (run_transparent_p h t cs); auto. Qed.
Print Assumptions coherent_inv.

Theorem run_transparent : forall h,
  snd (rrun as_coded true (empty_tables, no_caches) h) = snd (rrun as_coded false (empty_tables, no_caches) h).
Proof. intros. apply (run_transparent_p h empty_tables no_caches); [apply wf_empty | apply coherent_none]. Qed.
Print Assumptions run_transparent.

(* the same from any well-formed registry and any warm, coherent cache *)
Theorem run_transparent_from_coherent : forall h t cs, wf_tables t -> Coherent t cs ->
  snd (rrun as_coded true (t, cs) h) = snd (rrun as_coded false (t, no_caches) h).
Proof. intros. apply (run_transparent_p h t cs); auto. Qed.
Print Assumptions run_transparent_from_coherent.

Theorem wf_tables_inv : forall h t cs, wf_tables t -> Coherent t cs -> wf_tables (fst (fst (rrun as_coded true (t, cs) h))).
Proof. intros. apply (run_transparent_p h t cs); auto. Qed.
Print Assumptions wf_tables_inv.

(* WITHOUT the invalidation of d43ed5b (setCollectionChain leaving the summary cache alone) a chain edit inside a context
   makes getCollectionSummary of the chain stale: removing that line breaks `coherent_inv` / `run_transparent` *)
Definition chain_history : list rop :=
  [Register 0 false; Register 1 false; Register 4 true; SetChain 4 [0]; Put 10 0 0; Put 11 1 1;
   Enter; QSummary 4; SetChain 4 [0; 1]; QSummary 4].
Theorem coherence_refuted_without_chain_fix :
  snd (rrun (mkFixes false true true) true (empty_tables, no_caches) chain_history) = [[]; []; []; []; []; []; []; [0]; []; [0]]
  /\ snd (rrun (mkFixes false true true) false (empty_tables, no_caches) chain_history) = [[]; []; []; []; []; []; []; [0]; []; [0; 1]].
Proof. vm_compute. split; reflexivity. Qed.
Print Assumptions coherence_refuted_without_chain_fix.

Theorem chain_edit_transparent :
  snd (rrun as_coded true (empty_tables, no_caches) chain_history) = [[]; []; []; []; []; []; []; [0]; []; [0; 1]].
Proof. vm_compute. reflexivity. Qed.
Print Assumptions chain_edit_transparent.

(* WITHOUT the invalidation of 65fc362 (removeCollection leaving the summary cache alone): the summary cached under the
   key of a removed collection is handed to the next collection registered, which gets that key *)
Definition key_reuse_history : list rop :=
  [Enter; Register 2 false; Put 0 7 2; QSummary 2; RemoveColl 2; Register 3 false; QSummary 3].
Theorem coherence_refuted_without_removal_fix :
  snd (rrun (mkFixes true false true) true (empty_tables, no_caches) key_reuse_history) = [[]; []; []; [7]; []; []; [7]]
  /\ snd (rrun (mkFixes true false true) false (empty_tables, no_caches) key_reuse_history) = [[]; []; []; [7]; []; []; []].
Proof. vm_compute. split; reflexivity. Qed.
Print Assumptions coherence_refuted_without_removal_fix.

Theorem key_reuse_transparent :
  snd (rrun as_coded true (empty_tables, no_caches) key_reuse_history) = [[]; []; []; [7]; []; []; []]
  /\ key_of (fst (fst (rrun as_coded true (empty_tables, no_caches) [Register 2 false; RemoveColl 2; Register 3 false]))) 3 = Some 1.
Proof. vm_compute. split; reflexivity. Qed.
Print Assumptions key_reuse_transparent.

(* a request the registry refuses changes neither the tables nor any later answer: in particular a removal that the
   database refuses (the collection is a chain's child) leaves the collection in a FULL record cache.  With the cached
   record discarded BEFORE the database delete, the pattern lookups after the refused removal omit a collection that
   still exists (and its datasets) *)
Definition refused_removal_history : list rop :=
  [Register 0 false; Register 1 false; Register 4 true; SetChain 4 [0]; Put 10 0 0; Put 11 0 1;
   Enter; QColls [0; 1; 4]; RemoveColl 0; QColls [0; 1; 4]; QDataGlob 0 [0; 1]].
Theorem coherence_refuted_with_discard_before_delete :
  snd (rrun (mkFixes true true false) true (empty_tables, no_caches) refused_removal_history)
    = [[]; []; []; []; []; []; []; [0; 1; 4]; [9999]; [1; 4]; [11]]
  /\ snd (rrun (mkFixes true true false) false (empty_tables, no_caches) refused_removal_history)
    = [[]; []; []; []; []; []; []; [0; 1; 4]; [9999]; [0; 1; 4]; [10; 11]].
Proof. vm_compute. split; reflexivity. Qed.
Print Assumptions coherence_refuted_with_discard_before_delete.

Theorem refused_removal_transparent :
  snd (rrun as_coded true (empty_tables, no_caches) refused_removal_history)
    = [[]; []; []; []; []; []; []; [0; 1; 4]; [9999]; [0; 1; 4]; [10; 11]].
Proof. vm_compute. reflexivity. Qed.
Print Assumptions refused_removal_transparent.

(* every refused request leaves the tables as they were (so, by `run_transparent`, every later answer is the uncached one) *)
Theorem refused_changes_no_table : forall fx use_cache t cs o,
  snd (rstep fx use_cache (t, cs) o) = err_ans -> (forall c, o <> QSummary c) -> (forall ty c, o <> QData ty c) ->
  (forall a, o <> QColls a) -> (forall ty a, o <> QDataGlob ty a) ->
  fst (fst (rstep fx use_cache (t, cs) o)) = t.
Proof. exact refused_tables_same. Qed.
Print Assumptions refused_changes_no_table.

(* a client sees its own completed write (the repaired invalidation of 72f8c65: the summary cache is dropped) *)
Theorem own_write_visible : forall use_cache t cs id ty run,
  wf_tables t -> Coherent t cs -> key_of t run <> None -> lookup run (chains t) = None ->
  In id (snd (rstep as_coded use_cache (fst (rstep as_coded use_cache (t, cs) (Put id ty run))) (QData ty run))).
Proof. exact own_write_visible_p. Qed.
Print Assumptions own_write_visible.

(* non-vacuity: a history with a cached read, a put, a removal, a re-registration and reads inside one context *)
Example own_write_example :
  snd (rrun as_coded true (empty_tables, no_caches)
         [Register 0 false; Register 4 true; SetChain 4 [0]; Enter; QData 1 0; Put 12 1 0; QData 1 0; QData 1 4;
          RemoveColl 0; SetChain 4 []; RemoveColl 0; Register 0 false; QData 1 0; QSummary 4])
  = [[]; []; []; []; []; []; [12]; [12]; [9999]; []; []; []; []; []].
Proof. vm_compute. reflexivity. Qed.

(* ------------------------------------------------------------------------------------------------------------------ *)
(* PART 3, the Butler-level path through the file cache (Model/CacheButler.v): Butler.put / get / pruneDatasets on a
   FileDatastore with a non-local root, two clients (configurations ca, cb) sharing one cache directory, single-file and
   disassembled (multi-file) datasets, cache files deleted / the directory emptied by other processes.
     bstep f ca cb s op : (state, answer);  brun : a history;  cfg_off : the file cache disabled
     respects F op      : a put writes, under the cache name k, the content F k (one name, one content: datasets are
                          immutable) and component indices are < 4
     BInv F s           : every file in the cache directory holds the content F assigns to its name; every recorded file
                          is in the remote store with the recorded size; a record's files carry their dataset's id *)
Open Scope Z_scope.

(* never content for a dataset that has been removed: from ANY state, whoever removes it, whatever happens afterwards
   (short of putting the dataset again), with any cache configuration and any cache content *)
Theorem butler_removed_no_content : forall f ca cb s who who' d h, Forall (not_put d) h ->
  snd (bstep f ca cb (fst (brun f ca cb (fst (bstep f ca cb s (BRemove who d))) h)) (BGet who' d)) = BNotFound.
Proof. exact removed_no_content_p. Qed.
Print Assumptions butler_removed_no_content.

(* with immutable contents, EVERY history of puts, gets, removals by both clients, ticks and outside deletions gives, with
   ANY two cache configurations, exactly the answers of the same clients with the file cache disabled *)
Theorem butler_cache_transparent : forall f ca cb F h, Forall (respects F) h ->
  snd (brun f ca cb empty_b h) = snd (brun f cfg_off cfg_off empty_b h).
Proof.
  intros. apply (butler_transparent_p f ca cb f cfg_off cfg_off F h empty_b empty_b); auto using BInv_empty.
Qed.
Print Assumptions butler_cache_transparent.

(* ... and every file in the cache directory always holds the current content of its name; a get answers with the
   recorded files (so a client reads its own completed put, whichever files the cache still holds) *)
Theorem butler_cache_files_current : forall f ca cb F h, Forall (respects F) h ->
  BInv F (fst (brun f ca cb empty_b h)).
Proof. intros. apply BInv_run; auto using BInv_empty. Qed.
Print Assumptions butler_cache_files_current.

Theorem butler_get_answers_records : forall f ca cb F s who d fs, BInv F s -> lookup d (b_recs s) = Some fs ->
  snd (bstep f ca cb s (BGet who d)) = BContent fs.
Proof. intros. rewrite (answer_spec f ca cb F s (BGet who d) H). cbn [spec_ans]. rewrite H0. reflexivity. Qed.
Print Assumptions butler_get_answers_records.

(* code as it is, WITHOUT the immutability assumption: client A puts dataset 1 (content 15) and caches it; client B, whose
   registry never saw that file, removes the dataset (`remove_from_cache` only removes what the manager knows: the file
   stays); the dataset is put again under the same id with other content (18): `move_to_cache` scans, finds the name
   registered and keeps the OLD file.  Every later get finds the old file; here the sizes differ, so the read fails its
   size check (FileIntegrityError) while the same clients without the cache read the new content.  With contents of
   equal size the old content is returned silently (reproduced on the implementation; known finding F-C17-reput-stale) *)
Definition reput_history : list bop := [BPut false 1%N [(0%N, 15)]; BRemove true 1%N; BPut true 1%N [(0%N, 18)]; BGet false 1%N].
Theorem butler_reput_other_content_refuted :
  snd (brun true (mkCfg MDatasets 4) (mkCfg MDatasets 4) empty_b reput_history) = [BOk; BOk; BOk; BIntegrity]
  /\ snd (brun true cfg_off cfg_off empty_b reput_history) = [BOk; BOk; BOk; BContent [(4%N, 18)]]
  /\ map (fun e => (e_key e, e_size e)) (w_disk (b_w (fst (brun true (mkCfg MDatasets 4) (mkCfg MDatasets 4) empty_b reput_history)))) = [(4%N, 15)].
Proof. vm_compute. repeat split; reflexivity. Qed.
Print Assumptions butler_reput_other_content_refuted.

(* the same history with the removal done by the client that cached the file is answered as without the cache *)
Theorem butler_reput_by_owner_ok :
  snd (brun true (mkCfg MDatasets 4) (mkCfg MDatasets 4) empty_b
         [BPut false 1%N [(0%N, 15)]; BRemove false 1%N; BPut true 1%N [(0%N, 18)]; BGet false 1%N])
  = [BOk; BOk; BOk; BContent [(4%N, 18)]].
Proof. vm_compute. reflexivity. Qed.
Print Assumptions butler_reput_by_owner_ok.

(* the expiry bounds at the Butler level: right after a put by a client in files / datasets mode (the last manager call
   of a put is a move_to_cache), whatever the other client and other processes did before *)
Theorem butler_put_bound_files : forall f ca cb thr s (who : bool) d files c sz, 0 <= thr ->
  (if who then cb else ca) = mkCfg MFiles thr -> WInv (b_w s) -> Forall (fun p => 0 <= snd p) files ->
  lookup d (b_recs s) = None ->
  Z.of_nat (length (w_disk (b_w (fst (bstep f ca cb s (BPut who d (files ++ [(c, sz)]))))))) <= thr + 1.
Proof. exact put_bound_files_p. Qed.
Print Assumptions butler_put_bound_files.

Theorem butler_put_bound_datasets : forall f ca cb thr s (who : bool) d files c sz, 0 <= thr ->
  (if who then cb else ca) = mkCfg MDatasets thr -> lookup d (b_recs s) = None ->
  exists allowed, Z.of_nat (length allowed) <= thr + 1 /\
    forall e, In e (entries (let w := b_w (fst (bstep f ca cb s (BPut who d (files ++ [(c, sz)])))) in if who then w_b w else w_a w)) ->
              In (e_ref e) allowed.
Proof. exact put_bound_datasets_p. Qed.
Print Assumptions butler_put_bound_datasets.

(* non-vacuity: a history with a three-file dataset, an eviction, a removal by the other client, a get of the removed
   dataset and a second put of the same content respects a content function, and its answers are as stated *)
Example butler_example :
  let F := fun k : N => if N.eqb k 4 then 15 else if N.eqb k 9 then 17 else if N.eqb k 10 then 19 else 21 in
  let h := [BPut false 1%N [(0%N, 15)]; BPut false 2%N [(1%N, 17); (2%N, 19); (3%N, 21)]; BGet true 2%N; BGet true 1%N;
            BRemove true 2%N; BGet false 2%N; BPut false 2%N [(1%N, 17); (2%N, 19); (3%N, 21)]; BWipe; BGet true 2%N] in
  Forall (respects F) h
  /\ snd (brun true (mkCfg MFiles 2) (mkCfg MDatasets 1) empty_b h)
     = [BOk; BOk; BContent [(9%N, 17); (10%N, 19); (11%N, 21)]; BContent [(4%N, 15)]; BOk; BNotFound; BOk; BOk;
        BContent [(9%N, 17); (10%N, 19); (11%N, 21)]].
Proof.
  split; [|vm_compute; reflexivity].
  repeat (apply Forall_cons;
    [cbn [respects]; first [exact I | intros c sz Hi; simpl in Hi;
       repeat (destruct Hi as [Hi|Hi]; [inversion Hi; subst; split; [reflexivity | vm_compute; reflexivity]|]); destruct Hi] |]).
  apply Forall_nil.
Qed.

(* ------------------------------------------------------------------------------------------------------------------ *)
(* PART 4, tie T: Gen/CacheExpireGen.v is regenerated on every run from the source of `_expire_cache` (the threshold
   tests of the four modes, that the scan comes before them and the no-mode return before the scan); `gen_expire` is the
   expiry assembled from the generated tests.  It is the hand model's expiry, so every theorem above about `expire true` /
   `after_move true` is a theorem about the tests as written in the source; the bounds are restated over them. *)
Theorem expire_thresholds_as_coded : forall c now dm, gen_expire c now dm = expire true c now dm.
Proof. exact gen_expire_eq. Qed.
Print Assumptions expire_thresholds_as_coded.

Theorem bounds_over_generated_tests : forall thr now k size disk m, 0 <= thr ->
  (DInv disk ->
     Z.of_nat (length (entries (snd (gen_after_move (mkCfg MFiles thr) now k size (disk, m))))) <= thr + 1
     /\ Z.of_nat (length (fst (gen_after_move (mkCfg MFiles thr) now k size (disk, m)))) <= thr + 1)
  /\ (exists allowed, Z.of_nat (length allowed) <= thr + 1 /\
        forall e, In e (entries (snd (gen_after_move (mkCfg MDatasets thr) now k size (disk, m)))) -> In (e_ref e) allowed)
  /\ (0 <= size -> DInv disk -> MInv m -> msize (snd (gen_after_move (mkCfg MSize thr) now k size (disk, m))) <= thr + size)
  /\ (forall e, In e (entries (snd (gen_after_move (mkCfg MAge thr) now k size (disk, m)))) -> now - e_ctime e <= thr).
Proof.
  intros. rewrite !gen_after_move_eq. split; [|split; [|split]].
  - intros. now apply move_files_bound.
  - now apply move_datasets_bound.
  - intros. now apply move_size_bound.
  - intros. now apply (move_age_bound thr now k size disk m).
Qed.
Print Assumptions bounds_over_generated_tests.
