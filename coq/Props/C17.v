(* C17 -- Caches never change an answer and stay within their configured bounds.
   Statements only; proofs are `exact <lemma>` from Proofs/CacheProofs{,B,C}.v (the `_refuted` witnesses are computed).

   PART 1, the datastore file cache (Model/Cache.v):
     mstep age_fix c now op (disk, mgr)   one operation of one DatastoreCacheManager with configuration c at time now
     wstep / wrun                         two managers on ONE cache directory, a clock, files deleted / written by others
     age_fix = true  : the code as it is (delta.total_seconds(), /repo 9b27982);  false : delta.seconds (before the repair)
     after_move ... = the (directory, registry) right after move_to_cache
     WInv w : file names unique, sizes >= 0, and for BOTH managers: entry names unique and cache_size = sum of entry sizes
   PART 2, the registry caches of caching_context():
     rstep fx use_cache : fx = as_coded is the code as it is; (mkFixes false true true) the code before /repo d43ed5b
                          (setCollectionChain left the summary cache alone); (mkFixes true false true) the code before
                          /repo 65fc362 (removeCollection left the summary cache alone; the cache is keyed by the
                          collection's integer key and SQLite reuses the key of a removed collection);
                          (mkFixes true true false) removal with the cached record discarded BEFORE the database
                          delete (which may refuse) instead of after it;
                          use_cache = false = the same client without contexts
     an operation the registry refuses (unknown collection, removing a chain's child, ...) answers err_ans, changes nothing
     wf_tables t   : keys unique; chains exist, are one level deep, their children exist
     Coherent t cs : every cached record / summary equals what the tables say now for the collection that has that
                     name / key now, every cached key is in use, and a record cache marked `full` holds every collection.
     QColls / QDataGlob : pattern and `...` lookups; they answer from the record cache alone once it is `full`. *)
From Coq Require Import ZArith NArith List Bool Lia.
From V Require Import Model.Cache Proofs.CacheProofs Proofs.CacheProofsB Proofs.CacheProofsC.
Import ListNotations.
Open Scope Z_scope.

(* ---- bookkeeping: for EVERY history of both managers, the clock and outside interference ---- *)
Theorem bookkeeping_inv : forall age_fix ca cb h w, Forall wf_wop h -> WInv w -> WInv (wrun age_fix ca cb w h).
Proof. intros. now apply WInv_wrun. Qed.
Print Assumptions bookkeeping_inv.

Theorem bookkeeping_from_empty : forall age_fix ca cb h, Forall wf_wop h ->
  let w := wrun age_fix ca cb empty_world h in
  msize (w_a w) = sum_sizes (entries (w_a w)) /\ msize (w_b w) = sum_sizes (entries (w_b w))
  /\ NoDup (keys (entries (w_a w))) /\ NoDup (keys (entries (w_b w))).
Proof.
  intros. destruct (WInv_wrun age_fix ca cb h empty_world H WInv_empty) as [_ [[A1 [_ A2]] [B1 [_ B2]]]]. auto.
Qed.
Print Assumptions bookkeeping_from_empty.

(* after a scan the registry's entries are exactly the files on disk *)
Theorem scan_sync : forall disk m k, In k (keys (entries (scan disk m))) <-> In k (keys disk).
Proof. exact scan_keys. Qed.
Print Assumptions scan_sync.

(* ---- bounds right after move_to_cache, from ANY state of the directory and the registry ---- *)
Theorem bound_files : forall age_fix thr now k size disk m, 0 <= thr -> DInv disk ->
  Z.of_nat (length (entries (snd (after_move age_fix (mkCfg MFiles thr) now k size (disk, m))))) <= thr + 1
  /\ Z.of_nat (length (fst (after_move age_fix (mkCfg MFiles thr) now k size (disk, m)))) <= thr + 1.
Proof. exact move_files_bound. Qed.
Print Assumptions bound_files.

(* at most thr + 1 different datasets are cached *)
Theorem bound_datasets : forall age_fix thr now k size disk m, 0 <= thr ->
  exists allowed, Z.of_nat (length allowed) <= thr + 1 /\
    forall e, In e (entries (snd (after_move age_fix (mkCfg MDatasets thr) now k size (disk, m)))) -> In (e_ref e) allowed.
Proof. exact move_datasets_bound. Qed.
Print Assumptions bound_datasets.

Theorem bound_size : forall age_fix thr now k size disk m, 0 <= thr -> 0 <= size -> DInv disk -> MInv m ->
  msize (snd (after_move age_fix (mkCfg MSize thr) now k size (disk, m))) <= thr + size.
Proof. exact move_size_bound. Qed.
Print Assumptions bound_size.

(* all ages, also beyond one day *)
Theorem bound_age : forall thr now k size disk m e, 0 <= thr ->
  In e (entries (snd (after_move true (mkCfg MAge thr) now k size (disk, m)))) -> now - e_ctime e <= thr.
Proof. exact move_age_bound. Qed.
Print Assumptions bound_age.

(* with the seconds FIELD of the timedelta (the code before 9b27982) a file 86 410 s old survives a 60 s threshold *)
Definition age_history : list wop := [OpA (Move 0%N 10); Tick 86410; OpA (Move 4%N 10)].
Theorem age_refuted_with_seconds_field :
  exists e, In e (entries (w_a (wrun false (mkCfg MAge 60) (mkCfg MAge 60) empty_world age_history)))
            /\ 86410 - e_ctime e > 60.
Proof. exists (mkEntry 0%N 10 0). vm_compute. split; [left; reflexivity | reflexivity]. Qed.
Print Assumptions age_refuted_with_seconds_field.

Theorem age_history_ok_now :
  keys (entries (w_a (wrun true (mkCfg MAge 60) (mkCfg MAge 60) empty_world age_history))) = [4%N].
Proof. vm_compute. reflexivity. Qed.
Print Assumptions age_history_ok_now.

(* ---- removal: no entry and no known file of a removed dataset stays; find never invents content ---- *)
Theorem remove_leaves_no_entry : forall age_fix c now refs disk m e,
  In e (entries (snd (fst (mstep age_fix c now (Remove refs) (disk, m))))) -> existsb (N.eqb (e_ref e)) refs = false.
Proof. exact remove_complete. Qed.
Print Assumptions remove_leaves_no_entry.

Theorem remove_deletes_known_files : forall age_fix c now refs disk m e x,
  In e (entries m) -> existsb (N.eqb (e_ref e)) refs = true ->
  In x (fst (fst (mstep age_fix c now (Remove refs) (disk, m)))) -> e_key x <> e_key e.
Proof. exact remove_deletes_files. Qed.
Print Assumptions remove_deletes_known_files.

Theorem find_returns_only_files_on_disk : forall age_fix c now k disk m s,
  snd (mstep age_fix c now (Find k) (disk, m)) = RFound s -> exists e, In e disk /\ e_key e = k /\ e_size e = s.
Proof. exact find_never_invents. Qed.
Print Assumptions find_returns_only_files_on_disk.

(* code as it is, a manager WITHOUT an expiry mode never rescans: after another client evicted the file, move_to_cache
   finds the name in its registry, stores nothing and reports it cached -- the registry lists a file that is not in
   the directory (reproduced on the implementation; known finding F-C17-nomode-ghost) *)
Definition ghost_history : list wop := [OpA (Move 8%N 60); OpB (Move 4%N 101); OpA (Move 8%N 60)].
Theorem move_without_mode_ghost_entry_refuted :
  let w := wrun true (mkCfg MNone 0) (mkCfg MDatasets 0) empty_world ghost_history in
  keys (entries (w_a w)) = [8%N] /\ keys (w_disk w) = [4%N]
  /\ snd (wstep true (mkCfg MNone 0) (mkCfg MDatasets 0)
            (wrun true (mkCfg MNone 0) (mkCfg MDatasets 0) empty_world (firstn 2 ghost_history)) (OpA (Move 8%N 60))) = RCached.
Proof. vm_compute. repeat split; reflexivity. Qed.
Print Assumptions move_without_mode_ghost_entry_refuted.

(* with any expiry mode configured the same history re-caches the file *)
Theorem move_with_mode_no_ghost :
  let w := wrun true (mkCfg MDatasets 5) (mkCfg MDatasets 0) empty_world ghost_history in
  keys (entries (w_a w)) = [4%N; 8%N] /\ keys (w_disk w) = [4%N; 8%N].
Proof. vm_compute. split; reflexivity. Qed.
Print Assumptions move_with_mode_no_ghost.

(* with ANY expiry mode configured (files / datasets / size / age), from ANY state of the directory and the registry:
   the file just moved is in the directory and in the registry, and every registry entry has its file *)
Theorem moved_file_present : forall age_fix c now k size disk m, expiring (c_mode c) ->
  In k (keys (fst (after_move age_fix c now k size (disk, m)))) /\ In k (keys (entries (snd (after_move age_fix c now k size (disk, m))))).
Proof. exact moved_file_present_p. Qed.
Print Assumptions moved_file_present.

Theorem entries_have_files_after_move : forall age_fix c now k size disk m x, expiring (c_mode c) ->
  In x (keys (entries (snd (after_move age_fix c now k size (disk, m))))) -> In x (keys (fst (after_move age_fix c now k size (disk, m)))).
Proof. exact move_entries_on_disk_p. Qed.
Print Assumptions entries_have_files_after_move.

(* non-vacuity: a reachable two-client state with evictions satisfies the invariant's hypotheses *)
Example bookkeeping_example :
  let h := [OpA (Move 0%N 10); Tick 1; OpB (Move 4%N 20); Tick 1; OpA (Move 8%N 30); OpB (Find 8%N); ExtDelete 4%N; OpA Scan] in
  Forall wf_wop h /\ keys (w_disk (wrun true (mkCfg MFiles 1) (mkCfg MFiles 1) empty_world h)) = [8%N].
Proof. split; [repeat constructor; simpl; lia | vm_compute; reflexivity]. Qed.

(* ---- registry caches ---- *)
Open Scope N_scope.

Theorem cache_transparent : forall t cs ty c, wf_tables t -> Coherent t cs ->
  fst (query_datasets t cs ty c) = fst (query_datasets t no_caches ty c)
  /\ fst (fetch_summary t cs c) = fst (fetch_summary t no_caches c).
Proof. exact cache_transparent_p. Qed.
Print Assumptions cache_transparent.

(* coherence is an invariant of EVERY history -- contexts, registrations, removals (with key reuse), chain edits, puts and
   queries in any order, well-formed or refused -- and every answer of every history is the answer of the same client
   without caching contexts *)
Theorem coherent_inv : forall h t cs, wf_tables t -> Coherent t cs ->
  Coherent (fst (fst (rrun as_coded true (t, cs) h))) (snd (fst (rrun as_coded true (t, cs) h))).
Proof. intros. apply (run_transparent_p h t cs); auto. Qed.
Print Assumptions coherent_inv.

Theorem run_transparent : forall h,
  snd (rrun as_coded true (empty_tables, no_caches) h) = snd (rrun as_coded false (empty_tables, no_caches) h).
Proof. intros. apply (run_transparent_p h empty_tables no_caches); [apply wf_empty | apply coherent_none]. Qed.
Print Assumptions run_transparent.

(* the same from any well-formed registry and any warm, coherent cache *)
Theorem run_transparent_from_coherent : forall h t cs, wf_tables t -> Coherent t cs ->
  snd (rrun as_coded true (t, cs) h) = snd (rrun as_coded false (t, no_caches) h).
Proof. intros. apply (run_transparent_p h t cs); auto. Qed.
Print Assumptions run_transparent_from_coherent.

Theorem wf_tables_inv : forall h t cs, wf_tables t -> Coherent t cs -> wf_tables (fst (fst (rrun as_coded true (t, cs) h))).
Proof. intros. apply (run_transparent_p h t cs); auto. Qed.
Print Assumptions wf_tables_inv.

(* WITHOUT the invalidation of d43ed5b (setCollectionChain leaving the summary cache alone) a chain edit inside a context
   makes getCollectionSummary of the chain stale: removing that line breaks `coherent_inv` / `run_transparent` *)
Definition chain_history : list rop :=
  [Register 0 false; Register 1 false; Register 4 true; SetChain 4 [0]; Put 10 0 0; Put 11 1 1;
   Enter; QSummary 4; SetChain 4 [0; 1]; QSummary 4].
Theorem coherence_refuted_without_chain_fix :
  snd (rrun (mkFixes false true true) true (empty_tables, no_caches) chain_history) = [[]; []; []; []; []; []; []; [0]; []; [0]]
  /\ snd (rrun (mkFixes false true true) false (empty_tables, no_caches) chain_history) = [[]; []; []; []; []; []; []; [0]; []; [0; 1]].
Proof. vm_compute. split; reflexivity. Qed.
Print Assumptions coherence_refuted_without_chain_fix.

Theorem chain_edit_transparent :
  snd (rrun as_coded true (empty_tables, no_caches) chain_history) = [[]; []; []; []; []; []; []; [0]; []; [0; 1]].
Proof. vm_compute. reflexivity. Qed.
Print Assumptions chain_edit_transparent.

(* WITHOUT the invalidation of 65fc362 (removeCollection leaving the summary cache alone): the summary cached under the
   key of a removed collection is handed to the next collection registered, which gets that key *)
Definition key_reuse_history : list rop :=
  [Enter; Register 2 false; Put 0 7 2; QSummary 2; RemoveColl 2; Register 3 false; QSummary 3].
Theorem coherence_refuted_without_removal_fix :
  snd (rrun (mkFixes true false true) true (empty_tables, no_caches) key_reuse_history) = [[]; []; []; [7]; []; []; [7]]
  /\ snd (rrun (mkFixes true false true) false (empty_tables, no_caches) key_reuse_history) = [[]; []; []; [7]; []; []; []].
Proof. vm_compute. split; reflexivity. Qed.
Print Assumptions coherence_refuted_without_removal_fix.

Theorem key_reuse_transparent :
  snd (rrun as_coded true (empty_tables, no_caches) key_reuse_history) = [[]; []; []; [7]; []; []; []]
  /\ key_of (fst (fst (rrun as_coded true (empty_tables, no_caches) [Register 2 false; RemoveColl 2; Register 3 false]))) 3 = Some 1.
Proof. vm_compute. split; reflexivity. Qed.
Print Assumptions key_reuse_transparent.

(* a request the registry refuses changes neither the tables nor any later answer: in particular a removal that the
   database refuses (the collection is a chain's child) leaves the collection in a FULL record cache.  With the cached
   record discarded BEFORE the database delete, the pattern lookups after the refused removal omit a collection that
   still exists (and its datasets) *)
Definition refused_removal_history : list rop :=
  [Register 0 false; Register 1 false; Register 4 true; SetChain 4 [0]; Put 10 0 0; Put 11 0 1;
   Enter; QColls [0; 1; 4]; RemoveColl 0; QColls [0; 1; 4]; QDataGlob 0 [0; 1]].
Theorem coherence_refuted_with_discard_before_delete :
  snd (rrun (mkFixes true true false) true (empty_tables, no_caches) refused_removal_history)
    = [[]; []; []; []; []; []; []; [0; 1; 4]; [9999]; [1; 4]; [11]]
  /\ snd (rrun (mkFixes true true false) false (empty_tables, no_caches) refused_removal_history)
    = [[]; []; []; []; []; []; []; [0; 1; 4]; [9999]; [0; 1; 4]; [10; 11]].
Proof. vm_compute. split; reflexivity. Qed.
Print Assumptions coherence_refuted_with_discard_before_delete.

Theorem refused_removal_transparent :
  snd (rrun as_coded true (empty_tables, no_caches) refused_removal_history)
    = [[]; []; []; []; []; []; []; [0; 1; 4]; [9999]; [0; 1; 4]; [10; 11]].
Proof. vm_compute. reflexivity. Qed.
Print Assumptions refused_removal_transparent.

(* every refused request leaves the tables as they were (so, by `run_transparent`, every later answer is the uncached one) *)
Theorem refused_changes_no_table : forall fx use_cache t cs o,
  snd (rstep fx use_cache (t, cs) o) = err_ans -> (forall c, o <> QSummary c) -> (forall ty c, o <> QData ty c) ->
  (forall a, o <> QColls a) -> (forall ty a, o <> QDataGlob ty a) ->
  fst (fst (rstep fx use_cache (t, cs) o)) = t.
Proof. exact refused_tables_same. Qed.
Print Assumptions refused_changes_no_table.

(* a client sees its own completed write (the repaired invalidation of 72f8c65: the summary cache is dropped) *)
Theorem own_write_visible : forall use_cache t cs id ty run,
  wf_tables t -> Coherent t cs -> key_of t run <> None -> lookup run (chains t) = None ->
  In id (snd (rstep as_coded use_cache (fst (rstep as_coded use_cache (t, cs) (Put id ty run))) (QData ty run))).
Proof. exact own_write_visible_p. Qed.
Print Assumptions own_write_visible.

(* non-vacuity: a history with a cached read, a put, a removal, a re-registration and reads inside one context *)
Example own_write_example :
  snd (rrun as_coded true (empty_tables, no_caches)
         [Register 0 false; Register 4 true; SetChain 4 [0]; Enter; QData 1 0; Put 12 1 0; QData 1 0; QData 1 4;
          RemoveColl 0; SetChain 4 []; RemoveColl 0; Register 0 false; QData 1 0; QSummary 4])
  = [[]; []; []; []; []; []; [12]; [12]; [9999]; []; []; []; []; []].
Proof. vm_compute. reflexivity. Qed.
