(* C05 -- A where-expression selects exactly the rows for which it is true.
   Statements only; every proof is `exact <lemma>` from Proofs/ExprProofs{A,B,C}.v.

     dval / deval   documented meaning of an expression on a row (Model/Expr.v; three-valued, None / UU = unknown)
     typeof         documented typing;  DQuot = an integer expression containing `/` (possibly fractional)
     conv, compile  what the code does: expression -> Predicate (its operands are C15's REGENERATED py_build of the
                    formula the visitor builds) -> SQL (Model/SqlExpr.v); seval = SQLite semantics; the timespan operators
                    are C11's REGENERATED column expressions (Gen/TimespanGen.v)
     env_ok         the row agrees with the declared column types where the expression looks
     bounds_ok      every `.begin` / `.end` is applied to a timespan that is not NULL on this row (without it the
                    property is violated by the code: null_timespan_bound_refuted) *)
From Coq Require Import ZArith List Bool String Lia.
From V Require Import Base.Tri Gen.TimespanGen Model.Pred Gen.PredGen Model.Expr Model.SqlExpr
  Model.ExprLegacy Gen.RangeGen Proofs.ExprProofsA Proofs.ExprProofsB Proofs.ExprProofsC Proofs.ExprProofsL Proofs.ExprProofsM Proofs.ExprProofsN Proofs.ExprProofsR.
Import ListNotations.
Open Scope Z_scope.

(* ---- the main theorem: for EVERY well-typed expression and EVERY row the generated SQL has the documented value,
   and the expression is accepted *)
Theorem compile_correct : forall rho e,
  typeof e = Some DBool -> env_ok rho e = true -> bounds_ok rho e = true ->
  exists q, compile e = Some q /\ tri_of_nv (seval rho q) = deval rho e.
Proof. exact compile_correct_p. Qed.
Print Assumptions compile_correct.

(* WHERE keeps exactly the candidate rows on which the expression is TRUE (not false, not unknown) *)
Theorem select_exact : forall (R : Type) (envof : R -> env) e q rows,
  typeof e = Some DBool -> compile e = Some q ->
  (forall r, In r rows -> env_ok (envof r) e = true /\ bounds_ok (envof r) e = true) ->
  forall r, In r (select envof q rows) <-> In r rows /\ deval (envof r) e = TT.
Proof. exact select_exact_p. Qed.
Print Assumptions select_exact.

Theorem select_only_candidates : forall (R : Type) (envof : R -> env) q rows r, In r (select envof q rows) -> In r rows.
Proof. exact select_sublist_p. Qed.
Print Assumptions select_only_candidates.

Theorem welltyped_accepted : forall rho e,
  typeof e = Some DBool -> env_ok rho e = true -> bounds_ok rho e = true -> compile e <> None.
Proof. exact welltyped_accepted_p. Qed.
Print Assumptions welltyped_accepted.

(* ---- the pieces, per operator family *)
(* expression -> Predicate: the formula built by the visitor means what the expression means *)
Theorem convert_correct : forall rho e,
  typeof e = Some DBool -> env_ok rho e = true -> bounds_ok rho e = true ->
  exists f, conv e = Some f /\ bfeval rho f = deval rho e.
Proof. exact conv_correct. Qed.
Print Assumptions convert_correct.

(* column expressions (literals, columns, unary minus, + - * / %, .begin/.end): SQL value = documented value *)
Theorem scalar_correct : forall rho e, scalar e = true -> bounds_ok rho e = true -> seval rho (sc e) = dval rho e.
Proof. exact sc_correct. Qed.
Print Assumptions scalar_correct.

(* Predicate.operands (AND of ORs of possibly negated leaves, 0 / 1 / many operands) -> SQL: Kleene value of the CNF *)
Theorem cnf_sql_correct : forall rho tbl p,
  tri_of_nv (seval rho (cnf_sql range_sql tbl p)) = eval3 (tval rho tbl) p.
Proof. exact cnf_sql_eval. Qed.
Print Assumptions cnf_sql_correct.

(* leaves are numbered consistently: the C15 formula over leaf indices evaluates like the formula over leaves *)
Theorem numbering_correct : forall rho f tbl fm tbl',
  number f tbl = (fm, tbl') ->
  (exists ext, tbl' = tbl ++ ext) /\ Proofs.PredProofs.no_flags fm = true /\
  forall more, feval3 (tval rho (tbl' ++ more)) fm = bfeval rho f.
Proof. exact number_correct. Qed.
Print Assumptions numbering_correct.

(* documented typing implies the implementation's column type, so the validators accept *)
Theorem typeof_implies_column_type : forall e t, typeof e = Some t -> t <> DBool -> scalar e = true /\ ctype e = Some (erase t).
Proof. exact typeof_scalar. Qed.
Print Assumptions typeof_implies_column_type.

Theorem type_preservation : forall rho e t v,
  typeof e = Some t -> env_ok rho e = true -> dval rho e = Some v -> vty_ok t v.
Proof. exact preservation. Qed.
Print Assumptions type_preservation.

(* ---- strided ranges: for ALL integer members, negative ones included, and for NULL *)
Theorem in_range_correct : forall rho m x a b s, 1 <= s -> seval rho m = Some (VInt x) ->
  tri_of_nv (seval rho (range_sql m a b s)) = tri_of_bool (in_seqb x a b s).
Proof. exact in_range_int. Qed.
Print Assumptions in_range_correct.

Theorem in_range_null_unknown : forall rho m a b s, seval rho m = None ->
  tri_of_nv (seval rho (range_sql m a b s)) = UU.
Proof. exact in_range_null. Qed.
Print Assumptions in_range_null_unknown.

(* ---- the same over gen_visit_in_range = SqlColumnVisitor.visit_in_range REGENERATED from the source (Gen/RangeGen.v,
   harness/translators/expr_range.py); stop is the EXCLUSIVE upper bound the visitor receives, None = open-ended.
   range_sql (the definition compile / compile_correct are stated over) IS the generated function on every bounded range,
   so an edit of the range test -- e.g. a truthiness test where `stop is None` is meant, which turns the upper bound -1
   (stop = 0) into "no upper bound" (seeded change C05b) -- breaks these proofs *)
Theorem range_gen_matches_model : forall m a b s, gen_visit_in_range m a (Some (b + 1)) s = range_sql m a b s.
Proof. exact range_gen_matches_model_p. Qed.
Print Assumptions range_gen_matches_model.

Theorem in_range_correct_gen : forall rho m x a stop s, 1 <= s -> seval rho m = Some (VInt x) ->
  tri_of_nv (seval rho (gen_visit_in_range m a (Some stop) s)) = tri_of_bool (in_seqb x a (stop - 1) s).
Proof. exact in_range_gen_p. Qed.
Print Assumptions in_range_correct_gen.

Theorem in_range_null_unknown_gen : forall rho m a stop s, seval rho m = None ->
  tri_of_nv (seval rho (gen_visit_in_range m a (Some stop) s)) = UU.
Proof. exact in_range_gen_null_p. Qed.
Print Assumptions in_range_null_unknown_gen.

Theorem range_gen_open_correct : forall rho m x a s, 1 <= s -> seval rho m = Some (VInt x) ->
  tri_of_nv (seval rho (gen_visit_in_range m a None s)) = tri_of_bool ((a <=? x) && ((x - a) mod s =? 0)).
Proof. exact range_gen_open_p. Qed.
Print Assumptions range_gen_open_correct.

(* non-vacuity at the bound itself: -3..-1 (stop = 0) does not contain 5 and contains -2 *)
Example range_gen_upper_bound_minus_one :
  tri_of_nv (seval (fun _ => None) (gen_visit_in_range (SVal (Some (VInt 5))) (-3) (Some 0) 1)) = FF /\
  tri_of_nv (seval (fun _ => None) (gen_visit_in_range (SVal (Some (VInt (-2)))) (-3) (Some 0) 1)) = TT.
Proof. exact range_gen_stop_zero_p. Qed.

(* in_seqb is the documented meaning: "a..b:s is equivalent to the sequence a, a+s, a+2s, ... not exceeding b" *)
Theorem in_seqb_spec : forall x a b s, 0 < s ->
  (in_seqb x a b s = true <-> exists k, 0 <= k /\ x = a + k * s /\ x <= b).
Proof. exact in_seqb_spec_p. Qed.
Print Assumptions in_seqb_spec.

Theorem in_seqb_is_sequence_membership : forall x a b s, 0 < s -> (In x (range_seq a b s) <-> in_seqb x a b s = true).
Proof. exact in_seqb_range_seq_p. Qed.
Print Assumptions in_seqb_is_sequence_membership.

(* the strided test as it was before repair d6d8862 does NOT have this property (member -3 of -3..3:2) ... *)
Theorem in_range_old_refuted : exists x a b s, 1 <= s /\
  tri_of_nv (seval (fun _ => None) (range_sql_old (SVal (Some (VInt x))) a b s)) <> tri_of_bool (in_seqb x a b s).
Proof. exact range_old_refuted_p. Qed.
Print Assumptions in_range_old_refuted.

(* ... and through the whole path: detector 7, `detector - 10 IN (-3..3:2)` is true, the old SQL says false, the current true *)
Theorem compile_old_refuted :
  typeof e_stride = Some DBool /\ env_ok (rho_det 7) e_stride = true /\ bounds_ok (rho_det 7) e_stride = true /\
  deval (rho_det 7) e_stride = TT /\
  match compile_old e_stride with Some q => tri_of_nv (seval (rho_det 7) q) = FF | None => False end /\
  match compile e_stride with Some q => tri_of_nv (seval (rho_det 7) q) = TT | None => False end.
Proof. exact compile_old_refuted_p. Qed.
Print Assumptions compile_old_refuted.

(* ---- NULL handling *)
Theorem null_comparison_unknown : forall o x, cmp3 o None x = UU /\ cmp3 o x None = UU.
Proof. exact null_comparison_unknown_p. Qed.
Print Assumptions null_comparison_unknown.

Theorem null_arithmetic_null : forall o x, arith o None x = None /\ arith o x None = None.
Proof. exact arith_null_p. Qed.
Print Assumptions null_arithmetic_null.

Theorem zero_divisor_null : forall x, arith ODiv x (Some (VInt 0)) = None /\ arith OMod x (Some (VInt 0)) = None.
Proof. exact div_zero_null_p. Qed.
Print Assumptions zero_divisor_null.

Theorem not_of_unknown_is_unknown : forall rho e, deval rho e = UU -> deval rho (ENot e) = UU.
Proof. exact not_unknown_p. Qed.
Print Assumptions not_of_unknown_is_unknown.

Theorem unknown_not_selected : forall rho q, keeps rho q = true <-> tri_of_nv (seval rho q) = TT.
Proof. exact keeps_iff_true. Qed.
Print Assumptions unknown_not_selected.

Theorem null_test_two_valued : forall rho a,
  deval rho (ECmp CEq a ENull) = tri_of_bool (is_null (dval rho a)) /\
  deval rho (ECmp CNe a ENull) = tri_of_bool (negb (is_null (dval rho a))).
Proof. exact is_null_two_valued_p. Qed.
Print Assumptions null_test_two_valued.

Theorem modulo_is_truncated : forall a b, b <> 0 -> arith OMod (Some (VInt a)) (Some (VInt b)) = Some (VInt (Z.rem a b)).
Proof. exact mod_truncated_p. Qed.
Print Assumptions modulo_is_truncated.

(* ---- the constraint summary that prunes the collections of a dataset search (PredicateConstraintsSummary):
   whenever the predicate is true on a row, the row's value of every extracted key equals the extracted literal *)
Theorem constraint_summary_sound : forall rho iskey tbl p c v,
  eval3 (tval rho tbl) p = TT -> In (c, v) (summary iskey tbl p) ->
  cmp3 CEq (rho c) (Some v) = TT \/ cmp3 CEq (Some v) (rho c) = TT.
Proof. exact summary_sound_p. Qed.
Print Assumptions constraint_summary_sound.

Theorem where_summary_sound : forall rho iskey e q c v,
  compile e = Some q -> keeps rho q = true -> In (c, v) (where_summary iskey e) ->
  cmp3 CEq (rho c) (Some v) = TT \/ cmp3 CEq (Some v) (rho c) = TT.
Proof. exact where_summary_sound_p. Qed.
Print Assumptions where_summary_sound.

(* reading an inverted `==` as a constraint is unsound: NOT (instrument = 'Cam') keeps the 'Oth' row, the unsound
   summary says instrument = 'Cam' (and the collections holding that row are pruned); the faithful summary is empty *)
Theorem constraint_summary_inverted_eq_refuted :
  match compile e_notgov with Some q => keeps rho_oth q = true | None => False end /\
  where_summary_g true (fun _ => true) e_notgov = [(0%N, VStr "Cam")] /\
  where_summary (fun _ => true) e_notgov = [] /\
  cmp3 CEq (rho_oth 0%N) (Some (VStr "Cam")) = FF.
Proof. exact summary_bad_refuted_p. Qed.
Print Assumptions constraint_summary_inverted_eq_refuted.

(* ---- where the faithful model violates the property (each witness replays on the real Butler: known findings) *)
(* `.begin` of a NULL timespan is nanosecond 0 in SQL: the row is kept although the comparison is unknown; this is why
   compile_correct carries bounds_ok *)
Theorem null_timespan_bound_refuted :
  typeof e_nb = Some DBool /\ env_ok (fun _ => None) e_nb = true /\ bounds_ok (fun _ => None) e_nb = false /\
  deval (fun _ => None) e_nb = UU /\
  match compile e_nb with Some q => keeps (fun _ => None) q = true | None => False end.
Proof. exact null_bound_refuted_p. Qed.
Print Assumptions null_timespan_bound_refuted.

(* `detector / 2 IN (1..2)` is outside the documented typing (DQuot is not an integer) but is accepted by the code and
   keeps detector 3, whose quotient 3/2 is no member of the integer sequence 1, 2 *)
Theorem range_on_quotient_refuted :
  typeof e_quot = None /\ deval (rho_det 3) e_quot = FF /\
  match compile e_quot with Some q => keeps (rho_det 3) q = true | None => False end.
Proof. exact quot_range_refuted_p. Qed.
Print Assumptions range_on_quotient_refuted.

(* `t IN (t1, t2)`: documented as containment in [t1, t2); the code tests equality with t1 or t2 *)
Theorem time_in_refuted :
  (10 <= 15 < 20) /\ typeof e_tin = None /\
  match compile e_tin with Some q => tri_of_nv (seval (fun _ => None) q) = FF | None => False end.
Proof. exact time_in_refuted_p. Qed.
Print Assumptions time_in_refuted.

(* ---- `.begin` / `.end`: bounds_ok is EXACTLY the guard.  For every well-typed column expression and every row the SQL
   value equals the documented value if and only if no `.begin` / `.end` in it is applied to a NULL timespan ... *)
Theorem scalar_correct_iff : forall rho e t,
  typeof e = Some t -> t <> DBool -> env_ok rho e = true ->
  (seval rho (sc e) = dval rho e <-> bounds_ok rho e = true).
Proof. exact scalar_correct_iff_p. Qed.
Print Assumptions scalar_correct_iff.

(* ... and where it fails the SQL value is nanosecond 0 (COALESCE(col, 0)) while the documented value is NULL *)
Theorem null_bound_is_zero : forall rho a,
  scalar a = true -> bounds_ok rho a = true -> dval rho a = None ->
  seval rho (sc (EBegin a)) = Some (VTime 0) /\ seval rho (sc (EEnd a)) = Some (VTime 0) /\
  dval rho (EBegin a) = None /\ dval rho (EEnd a) = None.
Proof. exact null_bound_is_zero_p. Qed.
Print Assumptions null_bound_is_zero.

(* ---- the LEGACY interfaces (Model/ExprLegacy.v: normal form + CheckVisitor, PredicateConversionVisitor, daf_relation
   SQL).  lcompile = None when the interface raises.  "Whenever they accept an expression" they return the rows on which
   it is true, on the fragment
       no_null_cmp e       no comparison with NULL                       (outside: legacy_null_comparison_refuted)
       stride_ok rho e     the member of every strided range (step > 1, more than one element) is NULL or >= 0 on the row
                                                                         (outside: legacy_stride_negative_refuted)
   and for dataset searches additionally plain_gov (legacy_governor_sound / legacy_negated_governor_refuted).
   No bounds_ok premise: what is accepted has no `.begin` / `.end` (legacy_accepts_no_bounds). *)
Theorem legacy_agrees : forall iskey governed gov known rho e q,
  typeof e = Some DBool -> env_ok rho e = true -> no_null_cmp e = true -> stride_ok rho e = true ->
  lcompile iskey governed gov known e = Some q -> tri_of_nv (seval rho q) = deval rho e.
Proof. exact legacy_agrees_p. Qed.
Print Assumptions legacy_agrees.

Theorem legacy_select_exact : forall iskey governed gov known (R : Type) (envof : R -> env) e q rows,
  typeof e = Some DBool -> no_null_cmp e = true -> lcompile iskey governed gov known e = Some q ->
  (forall r, In r rows -> env_ok (envof r) e = true /\ stride_ok (envof r) e = true) ->
  forall r, In r (select envof q rows) <-> In r rows /\ deval (envof r) e = TT.
Proof. exact legacy_select_exact_p. Qed.
Print Assumptions legacy_select_exact.

(* the same rows as the new interfaces *)
Theorem legacy_same_rows : forall iskey governed gov known rho e q,
  typeof e = Some DBool -> env_ok rho e = true -> no_null_cmp e = true -> stride_ok rho e = true ->
  lcompile iskey governed gov known e = Some q -> exists q', compile e = Some q' /\ keeps rho q' = keeps rho q.
Proof. exact legacy_same_rows_p. Qed.
Print Assumptions legacy_same_rows.

(* what the legacy converter accepts: never `%`, `.begin`, `.end`; never a comparison with a unary-minus operand *)
Theorem legacy_accepts_no_bounds : forall rho e q, lsql e = Some q -> bounds_ok rho e = true.
Proof. exact lsql_bounds. Qed.
Print Assumptions legacy_accepts_no_bounds.

Theorem legacy_refuses_mod_and_bounds : forall e q, lsql e = Some q -> uses_mod_or_bound e = false.
Proof. exact lsql_plain. Qed.
Print Assumptions legacy_refuses_mod_and_bounds.

Theorem legacy_refuses_negated_operand : forall o a b,
  ltype b <> Some LNull -> lsql (ECmp o (ENeg a) b) = None /\ lsql (ECmp o b (ENeg a)) = None.
Proof. exact lsql_neg_cmp. Qed.
Print Assumptions legacy_refuses_negated_operand.

(* ... and conversely every documented-well-typed expression WITHOUT NULL comparisons, NULL items, unary minus, `%`,
   `.begin`, `.end` (lplain) passes the converter: on well-typed input those are its only refusals *)
Theorem legacy_accepts_plain : forall e,
  typeof e = Some DBool -> no_null_cmp e = true -> lplain e = true -> lsql e <> None.
Proof. exact lsql_accepts_p. Qed.
Print Assumptions legacy_accepts_plain.

(* the strided range test of lsst.daf.relation (= the pre-d6d8862 test) is right exactly under the stride guard *)
Theorem legacy_range_correct : forall rho m x a b s, 1 <= s -> seval rho m = Some (VInt x) ->
  (s = 1 \/ a = b \/ 0 <= x) ->
  tri_of_nv (seval rho (range_sql_old m a b s)) = tri_of_bool (in_seqb x a b s).
Proof. exact range_old_int. Qed.
Print Assumptions legacy_range_correct.

(* the two legacy-only deviations: witnesses outside the fragment, accepted, documented TRUE, not returned; the new
   interface returns them (known findings F-C05-legacy-null-comparison, F-C05-legacy-stride-negative-member) *)
Theorem legacy_null_comparison_refuted :
  typeof e_lnull = Some DBool /\ env_ok (fun _ => None) e_lnull = true /\ stride_ok (fun _ => None) e_lnull = true /\
  no_null_cmp e_lnull = false /\ deval (fun _ => None) e_lnull = TT /\
  match lsql e_lnull with Some q => tri_of_nv (seval (fun _ => None) q) = UU | None => False end /\
  match compile e_lnull with Some q => keeps (fun _ => None) q = true | None => False end.
Proof. exact legacy_null_cmp_refuted_p. Qed.
Print Assumptions legacy_null_comparison_refuted.

Theorem legacy_stride_negative_refuted :
  typeof e_lstride = Some DBool /\ env_ok (rho_seq (-1)) e_lstride = true /\ no_null_cmp e_lstride = true /\
  stride_ok (rho_seq (-1)) e_lstride = false /\ deval (rho_seq (-1)) e_lstride = TT /\
  match lsql e_lstride with Some q => tri_of_nv (seval (rho_seq (-1)) q) = FF | None => False end /\
  match compile e_lstride with Some q => keeps (rho_seq (-1)) q = true | None => False end.
Proof. exact legacy_stride_refuted_p. Qed.
Print Assumptions legacy_stride_negative_refuted.

(* the disjunctive normal form CheckVisitor works on (NOT pushed to the atoms, AND distributed over OR) has the Kleene
   value of the expression, for every expression and row *)
Theorem legacy_normal_form_sound : forall rho e ng,
  dnf_val rho (ldnf ng e) = if ng then tri_not (deval rho e) else deval rho e.
Proof. exact ldnf_sound_p. Qed.
Print Assumptions legacy_normal_form_sound.

(* the governor constraint handed to the dataset search (collections lacking every listed value are dropped): sound when
   all governor atoms are POSITIVE equalities with a literal (plain_gov) ... *)
Theorem legacy_governor_sound : forall iskey gov rho e vs,
  plain_gov iskey gov e = true -> lgov iskey gov e = Some vs -> deval rho e = TT ->
  exists v, In v vs /\ (cmp3 CEq (rho gov) (Some v) = TT \/ cmp3 CEq (Some v) (rho gov) = TT).
Proof. exact lgov_sound_p. Qed.
Print Assumptions legacy_governor_sound.

(* ... and violated by a negated one: NOT (instrument = 'Cam') keeps the 'Oth' row, the constraint is {'Cam'}, the RUN
   holding only 'Oth' datasets is dropped (known finding F-C05-legacy-negated-governor) *)
Theorem legacy_negated_governor_refuted :
  let iskey := fun c => N.eqb c 0 in
  plain_gov iskey 0%N e_notgov = false /\
  lgov iskey 0%N e_notgov = Some [VStr "Cam"] /\
  deval rho_oth e_notgov = TT /\
  match lcompile iskey (fun _ => true) 0%N [VStr "Cam"; VStr "Oth"] e_notgov with
  | Some q => keeps rho_oth q = true | None => False end /\
  lprune_row [("rO"%string, [VStr "Oth"]); ("rm"%string, [VStr "Cam"; VStr "Oth"])]
             (lgov iskey 0%N e_notgov) (Some (VStr "rO")) = false /\
  lprune_row [("rO"%string, [VStr "Oth"]); ("rm"%string, [VStr "Cam"; VStr "Oth"])]
             (lgov iskey 0%N e_notgov) (Some (VStr "rm")) = true.
Proof. exact legacy_negated_governor_refuted_p. Qed.
Print Assumptions legacy_negated_governor_refuted.

(* ---- non-vacuity: the hypotheses of compile_correct / select_exact are satisfiable by a non-trivial expression
   (strided range on a negative member, NOT of a boolean column, timespan OVERLAPS instant, `= NULL`) on a row that is kept *)
Example compile_correct_nonvacuous :
  typeof e_ex = Some DBool /\ env_ok rho_ex e_ex = true /\ bounds_ok rho_ex e_ex = true /\ deval rho_ex e_ex = TT /\
  match compile e_ex with Some q => keeps rho_ex q = true | None => False end.
Proof. exact compile_correct_example_p. Qed.

Example in_seqb_examples :
  in_seqb (-3) (-3) 3 2 = true /\ in_seqb 1 (-3) 3 2 = true /\ in_seqb 0 (-3) 3 2 = false /\
  range_seq (-10) (-1) 2 = [-10; -8; -6; -4; -2] /\ range_seq 1 10 3 = [1; 4; 7; 10].
Proof. vm_compute. repeat split; reflexivity. Qed.

(* non-vacuity of legacy_agrees: accepted (governor given), inside the fragment, strided range on a non-negative member,
   value list, bound container, NOT OVERLAPS; the row is kept *)
Example legacy_agrees_nonvacuous :
  typeof e_lex = Some DBool /\ env_ok rho_lex e_lex = true /\ no_null_cmp e_lex = true /\ stride_ok rho_lex e_lex = true /\
  deval rho_lex e_lex = TT /\
  match lcompile (fun c => N.eqb c 0) (fun _ => true) 0%N [VStr "Cam"] e_lex with
  | Some q => keeps rho_lex q = true | None => False end.
Proof. exact legacy_agrees_example_p. Qed.

Example legacy_accepts_plain_nonvacuous : typeof e_lex = Some DBool /\ no_null_cmp e_lex = true /\ lplain e_lex = true.
Proof. vm_compute. repeat split; reflexivity. Qed.
