(* C07 -- A failed operation or transaction block leaves registry and datastore untouched.
   Statements only; every proof is `exact <lemma>` from Proofs/TxnProofs.v.

   Model/Txn.v: `exec shipped p s` runs program p (operations, Butler.transaction blocks, try/except, user failures)
   from state s; `fuse s = Some k` makes the k-th I/O / SQL boundary reached raise instead of doing its work, `hard s`
   makes that fault a BaseException.  The theorems quantify over ALL programs (any nesting depth, any mix of
   operations, removals included), ALL start states (any enclosing open blocks) and ALL fault positions / flavours.
   `cfault s'` records that the fault fired at a COMMIT / RELEASE boundary.

   File-system side (Proofs/TxnFiles.v): for ADDITIVE programs (no purge / unstore / emptyTrash anywhere) and start
   states in which every artifact belongs to a registered dataset (`no_orphan`, established by every committed additive
   history), a program that raises has restored the artifacts and the staging area -- for every nesting, fault position
   and flavour short of a COMMIT / RELEASE fault.  File maps are compared extensionally (`feq`: same content in every
   slot), because an undone Move ingest re-creates the staged file at the front of the association list. *)
From Coq Require Import NArith List Bool.
From V Require Import Model.Txn Model.TxnCheck Proofs.TxnProofs Proofs.TxnFiles Proofs.TxnProofsRm.
Import ListNotations.
Open Scope N_scope.

(* --- registry side of block_atomic: a block that raises has restored every registry table, at every nesting depth,
   for every program (removals included) and every fault position other than its own COMMIT / RELEASE boundary;
   for the OUTERMOST block (no SQL transaction open before) also at the COMMIT boundary *)
Theorem block_atomic_registry : forall ps s s' h,
  exec shipped (PBlock ps) s = (s', Raised h) -> (cfault s' = false \/ sql s = []) -> cur s' = cur s.
Proof. exact block_registry_atomic_p. Qed.
Print Assumptions block_atomic_registry.

(* --- pointer_restored / SQL nesting closed: after ANY program, outcome and fault the SQL block stack is what it was
   and the datastore transaction chain has its old length and old tail *)
Theorem frames_restored : forall p s s' r, exec shipped p s = (s', r) ->
  sql s' = sql s /\ length (ptr s') = length (ptr s) /\ tl (ptr s') = tl (ptr s).
Proof. exact frame_p. Qed.
Print Assumptions frames_restored.

Theorem pointer_restored : forall p s s' r, exec shipped p s = (s', r) -> ptr s = [] -> ptr s' = [] /\ sql s' = sql s.
Proof. exact pointer_restored_p. Qed.
Print Assumptions pointer_restored.

(* --- inner_caught_rolls_back_inner_only *)
Theorem inner_caught_rolls_back_inner_only : forall ps s s1,
  exec shipped (PBlock ps) s = (s1, Raised false) ->
  exec shipped (PTry (PBlock ps)) s = (s1, Normal) /\
  (cfault s1 = false -> cur s1 = cur s) /\ sql s1 = sql s /\ tl (ptr s1) = tl (ptr s) /\ length (ptr s1) = length (ptr s).
Proof. exact inner_caught_p. Qed.
Print Assumptions inner_caught_rolls_back_inner_only.

(* --- additive_op_atomic (registry side) for the two operations that write artifacts, at every depth *)
Theorem put_atomic_registry : forall d v s s' h,
  exec_op shipped (Put d v) s = (s', Raised h) -> (cfault s' = false \/ sql s = []) -> cur s' = cur s.
Proof. exact put_registry_atomic_p. Qed.
Print Assumptions put_atomic_registry.

Theorem ingest_atomic_registry : forall m d s s' h,
  exec_op shipped (Ingest m d) s = (s', Raised h) -> (cfault s' = false \/ sql s = []) -> cur s' = cur s.
Proof. exact ingest_registry_atomic_p. Qed.
Print Assumptions ingest_atomic_registry.

(* --- block_atomic, FILE side, full strength for additive programs: every nesting depth, caught and uncaught inner
   failures, every fault position and flavour, every start state satisfying the invariant (inside or outside other
   transactions) *)
Theorem block_atomic_files : forall ps s s' h,
  additive_list ps = true -> no_orphan s -> exec shipped (PBlock ps) s = (s', Raised h) -> cfault s' = false ->
  feq (fs s') (fs s) /\ feq (ext s') (ext s) /\ ptr s' = ptr s /\ no_orphan s'.
Proof. exact block_files_atomic_p. Qed.
Print Assumptions block_atomic_files.

(* the same for ANY additive program that raises (an operation, a try around a hard fault, a user failure) *)
Theorem additive_prog_atomic_files : forall p s s' h,
  additive p = true -> no_orphan s -> exec shipped p s = (s', Raised h) -> cfault s' = false ->
  feq (fs s') (fs s) /\ feq (ext s') (ext s) /\ ptr s' = ptr s /\ no_orphan s'.
Proof. exact prog_files_atomic_p. Qed.
Print Assumptions additive_prog_atomic_files.

(* --- additive_op_atomic, FILE side: every operation other than the three removals, failing at any boundary *)
Theorem additive_op_atomic_files : forall o s s' h,
  additive_op o = true -> no_orphan s -> exec shipped (POp o) s = (s', Raised h) -> cfault s' = false ->
  feq (fs s') (fs s) /\ feq (ext s') (ext s) /\ ptr s' = ptr s /\ no_orphan s'.
Proof. exact op_files_atomic_p. Qed.
Print Assumptions additive_op_atomic_files.

(* its two instances that write artifacts: put and ingest (copy and move) *)
Theorem put_atomic_files : forall d v s s' h,
  no_orphan s -> exec shipped (POp (Put d v)) s = (s', Raised h) -> cfault s' = false ->
  feq (fs s') (fs s) /\ feq (ext s') (ext s) /\ ptr s' = ptr s /\ no_orphan s'.
Proof. exact put_files_atomic_p. Qed.
Print Assumptions put_atomic_files.

Theorem ingest_atomic_files : forall mo d s s' h,
  no_orphan s -> exec shipped (POp (Ingest mo d)) s = (s', Raised h) -> cfault s' = false ->
  feq (fs s') (fs s) /\ feq (ext s') (ext s) /\ ptr s' = ptr s /\ no_orphan s'.
Proof. exact ingest_files_atomic_p. Qed.
Print Assumptions ingest_atomic_files.

(* --- the undo-log invariant behind them: an additive program that ends normally inside a datastore transaction has
   pushed onto the current log exactly entries whose replay restores the files *)
Theorem additive_log_restores : forall p s s' l rest,
  additive p = true -> no_orphan s -> ptr s = l :: rest -> exec shipped p s = (s', Normal) -> cfault s' = false ->
  no_orphan s' /\ exists l', ptr s' = (l' ++ l) :: rest /\ restores l' s' s.
Proof. exact prog_log_restores_p. Qed.
Print Assumptions additive_log_restores.

(* --- the invariant is kept by every additive program whatever its outcome, and holds after every committed additive
   history from the empty repository *)
Theorem no_orphan_preserved : forall p s s' r,
  additive p = true -> no_orphan s -> exec shipped p s = (s', r) -> cfault s' = false -> no_orphan s'.
Proof. exact prog_no_orphan_p. Qed.
Print Assumptions no_orphan_preserved.

Theorem no_orphan_reachable : forall e pre, additive_list pre = true -> no_orphan (run_pre shipped pre (init e)).
Proof. exact no_orphan_reachable_p. Qed.
Print Assumptions no_orphan_reachable.

(* --- exactly the runs of the correspondence: committed additive pre-history, then an additive program with the fault
   armed at ANY boundary j, ordinary or BaseException; if it raises, the observed file vectors are those of before and
   no transaction is left open *)
Theorem reachable_additive_atomic_observed : forall e pre p j h s' h',
  additive_list pre = true -> additive p = true ->
  exec shipped p (armed (run_pre shipped pre (init e)) j h) = (s', Raised h') -> cfault s' = false ->
  fvec (fs s') = fvec (fs (run_pre shipped pre (init e))) /\ fvec (ext s') = fvec (ext (run_pre shipped pre (init e))) /\
  ptr s' = [] /\ sql s' = [].
Proof. exact reachable_atomic_p. Qed.
Print Assumptions reachable_additive_atomic_observed.

(* --- the guard is necessary at EVERY depth: a fault at the RELEASE SAVEPOINT of an inner block makes the block raise
   with its rows and its artifact in place (replays on the implementation: design.d/C07.md, finding 5) *)
Theorem block_atomic_refuted_release_fault :
  exists j, let '(s', r) := exec shipped (PBlock [POp (Put 0 1)]) (with_fuse j s_in) in
            r = Raised false /\ ds (cur s') = [0] /\ ds (cur s_in) = [] /\ fget 0 (fs s') = Some 1 /\ fs s_in = [] /\
            cfault s' = true.
Proof. exact release_fault_inner_p. Qed.
Print Assumptions block_atomic_refuted_release_fault.

Theorem inner_escape_refuted_release_fault :
  exists j, let '(s', r) := exec shipped prog_rel (with_fuse j (init e0)) in
            r = Normal /\ fuse s' = None /\ cfault s' = true /\ ds (cur s') = [0] /\ tags (cur s') = [0] /\ fget 0 (fs s') = Some 1.
Proof. exact release_fault_program_p. Qed.
Print Assumptions inner_escape_refuted_release_fault.

(* --- every action of the model keeps the frame discipline (the lemma the others rest on), for every operation *)
Theorem op_frames : forall o s s' r, exec_op shipped o s = (s', r) ->
  sql s' = sql s /\ hard s' = hard s /\ tl (ptr s') = tl (ptr s) /\ length (ptr s') = length (ptr s).
Proof. exact WB_exec_op. Qed.
Print Assumptions op_frames.

(* --- reverting a repair breaks a theorem: witnesses on the model variants without the fix, next to the shipped result
   (the fourth repair, e615ec5, has its pair further down: purge_trash_table_drains / trash_row_stuck_refuted_...) *)
Theorem block_atomic_refuted_without_pointer_fix :
  let '(s', r) := exec nofix_ptr prog_ptr (init e0) in
  r = Raised false /\ fget 0 (fs s') = Some 1 /\ ds (cur s') = [] /\ ptr s' <> [].
Proof. exact ptr_witness_nofix. Qed.
Print Assumptions block_atomic_refuted_without_pointer_fix.

Theorem pointer_fix_witness_shipped :
  let '(s', r) := exec shipped prog_ptr (init e0) in r = Raised false /\ fs s' = [] /\ ds (cur s') = [] /\ ptr s' = [].
Proof. exact ptr_witness_shipped. Qed.
Print Assumptions pointer_fix_witness_shipped.

Theorem inner_escape_refuted_without_savepoint_fix :
  let '(s', r) := exec nofix_sp prog_sp (init e0) in
  r = Normal /\ mem 1 (ds (cur s')) = true /\ mem 1 (loc (cur s')) = true /\ fget 1 (fs s') = None.
Proof. exact sp_witness_nofix. Qed.
Print Assumptions inner_escape_refuted_without_savepoint_fix.

Theorem savepoint_fix_witness_shipped :
  let '(s', r) := exec shipped prog_sp (init e0) in
  r = Normal /\ ds (cur s') = [0] /\ loc (cur s') = [0] /\ fs s' = [(0, 1)].
Proof. exact sp_witness_shipped. Qed.
Print Assumptions savepoint_fix_witness_shipped.

Theorem dimension_cache_refuted_without_reset_fix :
  let '(s', r) := exec nofix_dc prog_dc (init e0) in r = Raised false /\ dims (cur s') = [] /\ dimvis s' = [0].
Proof. exact dc_witness_nofix. Qed.
Print Assumptions dimension_cache_refuted_without_reset_fix.

Theorem dimension_cache_witness_shipped :
  let '(s', r) := exec shipped prog_dc (init e0) in r = Raised false /\ dims (cur s') = [] /\ dimvis s' = [].
Proof. exact dc_witness_shipped. Qed.
Print Assumptions dimension_cache_witness_shipped.

(* --- the property at full strength is FALSE on the faithful model (each witness replays on the implementation:
   known_findings.d/C07.json).  s_one = one stored dataset in slot 1. *)
(* block_atomic / additive_op_atomic, file side: a DB error at the outermost COMMIT leaves the new artifact behind *)
Theorem additive_op_atomic_refuted_commit_fault :
  exists j, let '(s', r) := exec shipped (POp (Put 0 1)) (with_fuse j s_one) in
            r = Raised false /\ cur s' = cur s_one /\ fget 0 (fs s') = Some 1 /\ fget 0 (fs s_one) = None.
Proof. exact commit_fault_orphan_p. Qed.
Print Assumptions additive_op_atomic_refuted_commit_fault.

(* block_atomic, file side: a removal inside a block that then fails has already deleted the artifact *)
Theorem block_atomic_refuted_removal_inside :
  let '(s', r) := exec shipped (PBlock [POp (Purge 1); PFail]) s_one in
  r = Raised false /\ cur s' = cur s_one /\ fget 1 (fs s_one) = Some 2 /\ fget 1 (fs s') = None.
Proof. exact removal_in_failed_block_p. Qed.
Print Assumptions block_atomic_refuted_removal_inside.

(* leftovers_collected_by_empty_trash: two fault positions of a purge leave an artifact nothing refers to *)
Theorem leftovers_refuted_trash_insert_swallowed :
  exists j, let '(s', r) := exec shipped (POp (Purge 1)) (with_fuse j s_one) in
            r = Normal /\ ds (cur s') = [] /\ trash (cur s') = [] /\ fget 1 (fs (after_empty s')) = Some 2.
Proof. exact trash_insert_swallowed_p. Qed.
Print Assumptions leftovers_refuted_trash_insert_swallowed.

Theorem leftovers_refuted_delete_error_swallowed :
  exists j, let '(s', r) := exec shipped (POp (Purge 1)) (with_fuse j s_one) in
            r = Normal /\ ds (cur s') = [] /\ trash (cur s') = [] /\ recs (cur s') = [] /\ fget 1 (fs (after_empty s')) = Some 2.
Proof. exact delete_error_swallowed_p. Qed.
Print Assumptions leftovers_refuted_delete_error_swallowed.

(* --- removal_all_or_nothing, REGISTRY side, full strength: pruneDatasets(purge) started in ANY state (top level or
   inside open transactions), with a fault at ANY boundary, of either flavour, whatever its outcome: either the three
   registry tables it edits are exactly what they were, or the target is gone from all three -- and in both cases
   every other dataset's rows are untouched ("never harms a dataset it did not target") *)
Theorem removal_registry_all_or_nothing : forall d s s' r, exec_op shipped (Purge d) s = (s', r) ->
  (ds (cur s') = ds (cur s) /\ tags (cur s') = tags (cur s) /\ certs (cur s') = certs (cur s)) \/
  (mem d (ds (cur s')) = false /\ mem d (tags (cur s')) = false /\ mem d (certs (cur s')) = false /\
   forall x, x <> d -> mem x (ds (cur s')) = mem x (ds (cur s)) /\ mem x (tags (cur s')) = mem x (tags (cur s)) /\
                      mem x (certs (cur s')) = mem x (certs (cur s))).
Proof. exact purge_registry_all_or_nothing_p. Qed.
Print Assumptions removal_registry_all_or_nothing.

Theorem removal_never_harms_other_datasets_registry : forall d s s' r x, exec_op shipped (Purge d) s = (s', r) -> x <> d ->
  mem x (ds (cur s')) = mem x (ds (cur s)) /\ mem x (tags (cur s')) = mem x (tags (cur s)) /\ mem x (certs (cur s')) = mem x (certs (cur s)).
Proof. exact purge_bystanders_p. Qed.
Print Assumptions removal_never_harms_other_datasets_registry.

(* removal_all_or_nothing + leftovers_collected_by_empty_trash, PARTIAL: for the purge of the one stored dataset, at
   every other fault position (finite domain: the purge reaches fewer than 40 boundaries; bound in the statement) the
   registry removal is all-or-nothing and whatever is left behind is collected by the next emptyTrash *)
Theorem removal_all_or_nothing_partial : forall j, (j < 40)%nat -> j <> 4%nat -> j <> 8%nat -> purge_ok j = true.
Proof. exact purge_faults_p. Qed.
Print Assumptions removal_all_or_nothing_partial.

(* --- e615ec5 (emptyTrash deletes records and trash rows in one transaction): on the shipped model the trash table is
   empty after the follow-up emptyTrash at EVERY fault position of the purge (finite, bound in the statement); on the
   model variant with two separate commits a fault between them leaves a trash row that no emptyTrash ever deletes *)
Theorem purge_trash_table_drains : forall j, (j < 40)%nat -> trash_drained shipped j = true.
Proof. exact purge_trash_drains_p. Qed.
Print Assumptions purge_trash_table_drains.

Theorem trash_row_stuck_refuted_without_emptytrash_fix :
  exists j, let '(s', r) := exec nofix_et (POp (Purge 1)) (with_fuse j s_one) in
            r = Raised false /\ ds (cur s') = [] /\ fs s' = [] /\
            recs (cur (after_empty_c nofix_et s')) = [] /\ trash (cur (after_empty_c nofix_et s')) = [1] /\
            trash (cur (after_empty_c nofix_et (after_empty_c nofix_et s'))) = [1].
Proof. exact trash_row_stuck_without_fix_p. Qed.
Print Assumptions trash_row_stuck_refuted_without_emptytrash_fix.

(* non-vacuity: the hypotheses are satisfiable by reachable, non-trivial runs *)
Example block_raises_after_work :
  let '(s', r) := exec shipped (PBlock [POp (Put 0 1); POp (Ingest Move 2); POp (Assoc 0); PFail]) s_one in
  r = Raised false /\ cfault s' = false /\ cur s' = cur s_one /\ fs s' = fs s_one /\ ext s' = [(2, 102); (0, 100); (1, 101); (3, 103)].
Proof. vm_compute. repeat split. Qed.

Example nested_inner_caught :
  let s := fst (exec shipped (POp (Put 0 1)) s_one) in
  let '(s1, r) := exec shipped (PBlock [POp (Put 2 5); PTry (PBlock [POp (Put 3 6); POp (Cert 0); PFail]); POp (Assoc 2)]) s in
  r = Normal /\ ds (cur s1) = [2; 0; 1] /\ tags (cur s1) = [2] /\ certs (cur s1) = [] /\ fget 3 (fs s1) = None /\ fget 2 (fs s1) = Some 5.
Proof. vm_compute. repeat split. Qed.

(* the file-side hypotheses are satisfiable: s_one is reachable and satisfies the invariant; the block of
   block_raises_after_work is additive; literal equality of the staging list is NOT what holds *)
Example s_one_no_orphan : no_orphan s_one.
Proof. exact no_orphan_s_one. Qed.

Example additive_example : additive (PBlock [POp (Put 0 1); POp (Ingest Move 2); POp (Assoc 0); PTry (PBlock [POp (Put 3 4); PFail]); PFail]) = true.
Proof. reflexivity. Qed.

Example staging_list_order_changes :
  let '(s', r) := exec shipped (PBlock [POp (Ingest Move 2); PFail]) s_one in
  r = Raised false /\ cfault s' = false /\ ext s' <> ext s_one /\ fvec (ext s') = fvec (ext s_one).
Proof. exact ext_literal_differs_p. Qed.
