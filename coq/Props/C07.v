(* C07 -- A failed operation or transaction block leaves registry and datastore untouched.
   Statements only; every proof is `exact <lemma>` from Proofs/TxnProofs.v.

   Model/Txn.v: `exec shipped p s` runs program p (operations, Butler.transaction blocks, try/except, user failures)
   from state s; `fuse s = Some k` makes the k-th I/O / SQL boundary reached raise instead of doing its work, `hard s`
   makes that fault a BaseException.  The theorems quantify over ALL programs (any nesting depth, any mix of
   operations, removals included), ALL start states (any enclosing open blocks) and ALL fault positions / flavours.
   `cfault s'` records that the fault fired at a COMMIT / RELEASE boundary.

   File-system side (Proofs/TxnFiles.v): for ADDITIVE programs (no purge / unstore / emptyTrash anywhere) and start
   states in which every artifact belongs to a registered dataset (`no_orphan`, established by every committed additive
   history), a program that raises has restored the artifacts and the staging area -- for every nesting, fault position
   and flavour short of a COMMIT / RELEASE fault.  File maps are compared extensionally (`feq`: same content in every
   slot), because an undone Move ingest re-creates the staged file at the front of the association list. *)
From Coq Require Import NArith List Bool.
From V Require Import Model.Txn Model.TxnCheck Proofs.TxnProofs Proofs.TxnFiles Proofs.TxnFilesX Proofs.TxnProofsRm Proofs.TxnProofsLo Proofs.TxnProofsLo2 Proofs.TxnProofsLo3.
Import ListNotations.
Open Scope N_scope.

(* --- registry side of block_atomic: a block that raises has restored every registry table, at every nesting depth,
   for every program (removals included) and every fault position other than its own COMMIT / RELEASE boundary;
   for the OUTERMOST block (no SQL transaction open before) also at the COMMIT boundary *)
Theorem block_atomic_registry : forall ps s s' h,
  exec shipped (PBlock ps) s = (s', Raised h) -> (cfault s' = false \/ sql s = []) -> cur s' = cur s.
Proof. exact block_registry_atomic_p. Qed.
Print Assumptions block_atomic_registry.

(* --- pointer_restored / SQL nesting closed: after ANY program, outcome and fault the SQL block stack is what it was
   and the datastore transaction chain has its old length and old tail *)
Theorem frames_restored : forall p s s' r, exec shipped p s = (s', r) ->
  sql s' = sql s /\ length (ptr s') = length (ptr s) /\ tl (ptr s') = tl (ptr s).
Proof. exact frame_p. Qed.
Print Assumptions frames_restored.

Theorem pointer_restored : forall p s s' r, exec shipped p s = (s', r) -> ptr s = [] -> ptr s' = [] /\ sql s' = sql s.
Proof. exact pointer_restored_p. Qed.
Print Assumptions pointer_restored.

(* --- inner_caught_rolls_back_inner_only *)
Theorem inner_caught_rolls_back_inner_only : forall ps s s1,
  exec shipped (PBlock ps) s = (s1, Raised false) ->
  exec shipped (PTry (PBlock ps)) s = (s1, Normal) /\
  (cfault s1 = false -> cur s1 = cur s) /\ sql s1 = sql s /\ tl (ptr s1) = tl (ptr s) /\ length (ptr s1) = length (ptr s).
Proof. exact inner_caught_p. Qed.
Print Assumptions inner_caught_rolls_back_inner_only.

(* --- additive_op_atomic (registry side) for the two operations that write artifacts, at every depth *)
Theorem put_atomic_registry : forall d v s s' h,
  exec_op shipped (Put d v) s = (s', Raised h) -> (cfault s' = false \/ sql s = []) -> cur s' = cur s.
Proof. exact put_registry_atomic_p. Qed.
Print Assumptions put_atomic_registry.

Theorem ingest_atomic_registry : forall m d s s' h,
  exec_op shipped (Ingest m d) s = (s', Raised h) -> (cfault s' = false \/ sql s = []) -> cur s' = cur s.
Proof. exact ingest_registry_atomic_p. Qed.
Print Assumptions ingest_atomic_registry.

(* --- block_atomic, FILE side, full strength for additive programs: every nesting depth, caught and uncaught inner
   failures, every fault position and flavour, every start state satisfying the invariant (inside or outside other
   transactions) *)
Theorem block_atomic_files : forall ps s s' h,
  additive_list ps = true -> no_orphan s -> exec shipped (PBlock ps) s = (s', Raised h) -> cfault s' = false ->
  feq (fs s') (fs s) /\ feq (ext s') (ext s) /\ ptr s' = ptr s /\ no_orphan s'.
Proof. exact block_files_atomic_p. Qed.
Print Assumptions block_atomic_files.

(* the same for ANY additive program that raises (an operation, a try around a hard fault, a user failure) *)
Theorem additive_prog_atomic_files : forall p s s' h,
  additive p = true -> no_orphan s -> exec shipped p s = (s', Raised h) -> cfault s' = false ->
  feq (fs s') (fs s) /\ feq (ext s') (ext s) /\ ptr s' = ptr s /\ no_orphan s'.
Proof. exact prog_files_atomic_p. Qed.
Print Assumptions additive_prog_atomic_files.

(* --- additive_op_atomic, FILE side: every operation other than the three removals, failing at any boundary *)
Theorem additive_op_atomic_files : forall o s s' h,
  additive_op o = true -> no_orphan s -> exec shipped (POp o) s = (s', Raised h) -> cfault s' = false ->
  feq (fs s') (fs s) /\ feq (ext s') (ext s) /\ ptr s' = ptr s /\ no_orphan s'.
Proof. exact op_files_atomic_p. Qed.
Print Assumptions additive_op_atomic_files.

(* its two instances that write artifacts: put and ingest (copy and move) *)
Theorem put_atomic_files : forall d v s s' h,
  no_orphan s -> exec shipped (POp (Put d v)) s = (s', Raised h) -> cfault s' = false ->
  feq (fs s') (fs s) /\ feq (ext s') (ext s) /\ ptr s' = ptr s /\ no_orphan s'.
Proof. exact put_files_atomic_p. Qed.
Print Assumptions put_atomic_files.

Theorem ingest_atomic_files : forall mo d s s' h,
  no_orphan s -> exec shipped (POp (Ingest mo d)) s = (s', Raised h) -> cfault s' = false ->
  feq (fs s') (fs s) /\ feq (ext s') (ext s) /\ ptr s' = ptr s /\ no_orphan s'.
Proof. exact ingest_files_atomic_p. Qed.
Print Assumptions ingest_atomic_files.

(* --- transfer_from (Butler.transfer_from(source, [ref], transfer="copy")) as an operation of the model.
   Registry side, every depth / state / fault position: *)
Theorem transfer_atomic_registry : forall d s s' h,
  exec_op shipped (Transfer d) s = (s', Raised h) -> (cfault s' = false \/ sql s = []) -> cur s' = cur s.
Proof. exact transfer_registry_atomic_p. Qed.
Print Assumptions transfer_atomic_registry.

(* File side, at FULL strength relative to the datastore invariant: the only premise besides no_orphan is the clause of DI for the
   transferred slot -- "if the slot has an artifact it has a datastore record" -- which holds in every state reached by committed
   operations (datastore_invariant_reachable) and, unlike the guard of the first version, also after an unstore. *)
Theorem transfer_atomic_files : forall d s s' h,
  no_orphan s -> (fget d (fs s) <> None -> mem d (recs (cur s)) = true) ->
  exec shipped (POp (Transfer d)) s = (s', Raised h) -> cfault s' = false ->
  feq (fs s') (fs s) /\ feq (ext s') (ext s) /\ ptr s' = ptr s /\ no_orphan s'.
Proof. exact transfer_files_atomic_p. Qed.
Print Assumptions transfer_atomic_files.

(* the first version (guard: a registered slot has a record) is a corollary; name kept *)
Theorem transfer_atomic_files_partial : forall d s s' h,
  no_orphan s -> (mem d (ds (cur s)) = true -> mem d (recs (cur s)) = true) ->
  exec shipped (POp (Transfer d)) s = (s', Raised h) -> cfault s' = false ->
  feq (fs s') (fs s) /\ feq (ext s') (ext s) /\ ptr s' = ptr s /\ no_orphan s'.
Proof. exact transfer_files_atomic_old_p. Qed.
Print Assumptions transfer_atomic_files_partial.

(* the invariant clause is necessary on the model: slot registered by an earlier transfer, artifact present, record missing (the
   state K-C07-delete-error-swallowed leaves behind after an unstore) -- a failing re-transfer overwrites the artifact
   and its rollback deletes it.  Needs two faults on the implementation; not replayed, not a known finding. *)
Theorem transfer_atomic_files_guard_necessary :
  exists j, let '(s', r) := exec shipped (POp (Transfer 0)) (set_fuse (Some j) s_norec) in
            r = Raised false /\ cfault s' = false /\ no_orphan s_norec /\ fget 0 (fs s_norec) = Some 7 /\ fget 0 (fs s') = None.
Proof. exact transfer_unrecorded_artifact_lost_p. Qed.
Print Assumptions transfer_atomic_files_guard_necessary.

(* --- import_ (Butler.import_(directory, filename, transfer="copy") of an export holding one dataset).  Registry side: *)
Theorem import_atomic_registry : forall d s s' h,
  exec_op shipped (ImportDs d) s = (s', Raised h) -> (cfault s' = false \/ sql s = []) -> cur s' = cur s.
Proof. exact import_registry_atomic_p. Qed.
Print Assumptions import_atomic_registry.

(* File side, FULL strength since /repo 2da36a1 (FileDatastore refuses the ingest of a dataset it already holds BEFORE any file is
   transferred; two SELECTs = one new boundary inside the datastore transaction, before the undo registration): the guard "the
   imported slot has no artifact yet" is gone; what is left is the same clause of the datastore invariant as for transfer. *)
Theorem import_atomic_files : forall d s s' h,
  no_orphan s -> (fget d (fs s) <> None -> mem d (recs (cur s)) = true) ->
  exec shipped (POp (ImportDs d)) s = (s', Raised h) -> cfault s' = false ->
  feq (fs s') (fs s) /\ feq (ext s') (ext s) /\ ptr s' = ptr s /\ no_orphan s'.
Proof. exact import_files_atomic_p. Qed.
Print Assumptions import_atomic_files.

(* the guarded first version is a corollary; name kept *)
Theorem import_atomic_files_partial : forall d s s' h,
  no_orphan s -> fget d (fs s) = None ->
  exec shipped (POp (ImportDs d)) s = (s', Raised h) -> cfault s' = false ->
  feq (fs s') (fs s) /\ feq (ext s') (ext s) /\ ptr s' = ptr s /\ no_orphan s'.
Proof. exact import_files_atomic_old_p. Qed.
Print Assumptions import_atomic_files_partial.

(* the repaired behaviour on the shipped model: re-importing a stored dataset is refused and NOTHING changes -- tables, artifacts
   and staging area literally equal, no fault involved; also when the program catches the refusal and goes on *)
Theorem reimport_refused_changes_nothing :
  let '(s', r) := exec shipped (POp (ImportDs 0)) s_imp in
  fuse s_imp = None /\ r = Raised false /\ cfault s' = false /\ cur s' = cur s_imp /\ fs s' = fs s_imp /\ ext s' = ext s_imp /\
  fget 0 (fs s') = Some 200.
Proof. exact reimport_refused_p. Qed.
Print Assumptions reimport_refused_changes_nothing.

Theorem reimport_caught_changes_nothing :
  let '(s', r) := exec shipped (PBlock [PTry (POp (ImportDs 0)); POp (Assoc 0)]) s_imp in
  r = Normal /\ mem 0 (loc (cur s')) = true /\ tags (cur s') = [0] /\ fs s' = fs s_imp /\ fget 0 (fs s') = Some 200.
Proof. exact reimport_caught_refused_p. Qed.
Print Assumptions reimport_caught_changes_nothing.

(* reverting 2da36a1 breaks import_atomic_files: on the model variant without the pre-check the re-import passes the registry
   (no-op), FileDatastore.ingest overwrites the artifact and registers the undo, INSERT dataset_location fails, and the rollback
   DELETES the artifact of the committed dataset -- without any injected fault (fixed finding F-C07-reimport-deletes-artifact) *)
Theorem import_atomic_refuted_without_reingest_fix :
  let '(s', r) := exec nofix_ri (POp (ImportDs 0)) s_imp in
  fuse s_imp = None /\ r = Raised false /\ cfault s' = false /\ cur s' = cur s_imp /\
  mem 0 (loc (cur s_imp)) = true /\ fget 0 (fs s_imp) = Some 200 /\ fget 0 (fs s') = None.
Proof. exact reimport_deletes_artifact_nofix_p. Qed.
Print Assumptions import_atomic_refuted_without_reingest_fix.

Theorem inner_escape_refuted_without_reingest_fix :
  let '(s', r) := exec nofix_ri (PBlock [PTry (POp (ImportDs 0)); POp (Assoc 0)]) s_imp in
  r = Normal /\ mem 0 (ds (cur s')) = true /\ mem 0 (loc (cur s')) = true /\ tags (cur s') = [0] /\ fget 0 (fs s') = None.
Proof. exact reimport_caught_nofix_p. Qed.
Print Assumptions inner_escape_refuted_without_reingest_fix.

(* --- the undo-log invariant behind them: an additive program that ends normally inside a datastore transaction has
   pushed onto the current log exactly entries whose replay restores the files *)
Theorem additive_log_restores : forall p s s' l rest,
  additive p = true -> no_orphan s -> ptr s = l :: rest -> exec shipped p s = (s', Normal) -> cfault s' = false ->
  no_orphan s' /\ exists l', ptr s' = (l' ++ l) :: rest /\ restores l' s' s.
Proof. exact prog_log_restores_p. Qed.
Print Assumptions additive_log_restores.

(* --- the invariant is kept by every additive program whatever its outcome, and holds after every committed additive
   history from the empty repository *)
Theorem no_orphan_preserved : forall p s s' r,
  additive p = true -> no_orphan s -> exec shipped p s = (s', r) -> cfault s' = false -> no_orphan s'.
Proof. exact prog_no_orphan_p. Qed.
Print Assumptions no_orphan_preserved.

Theorem no_orphan_reachable : forall e pre, additive_list pre = true -> no_orphan (run_pre shipped pre (init e)).
Proof. exact no_orphan_reachable_p. Qed.
Print Assumptions no_orphan_reachable.

(* --- exactly the runs of the correspondence: committed additive pre-history, then an additive program with the fault
   armed at ANY boundary j, ordinary or BaseException; if it raises, the observed file vectors are those of before and
   no transaction is left open *)
Theorem reachable_additive_atomic_observed : forall e pre p j h s' h',
  additive_list pre = true -> additive p = true ->
  exec shipped p (armed (run_pre shipped pre (init e)) j h) = (s', Raised h') -> cfault s' = false ->
  fvec (fs s') = fvec (fs (run_pre shipped pre (init e))) /\ fvec (ext s') = fvec (ext (run_pre shipped pre (init e))) /\
  ptr s' = [] /\ sql s' = [].
Proof. exact reachable_atomic_p. Qed.
Print Assumptions reachable_additive_atomic_observed.

(* --- the guard is necessary at EVERY depth: a fault at the RELEASE SAVEPOINT of an inner block makes the block raise
   with its rows and its artifact in place (replays on the implementation: design.d/C07.md, finding 5) *)
Theorem block_atomic_refuted_release_fault :
  exists j, let '(s', r) := exec shipped (PBlock [POp (Put 0 1)]) (with_fuse j s_in) in
            r = Raised false /\ ds (cur s') = [0] /\ ds (cur s_in) = [] /\ fget 0 (fs s') = Some 1 /\ fs s_in = [] /\
            cfault s' = true.
Proof. exact release_fault_inner_p. Qed.
Print Assumptions block_atomic_refuted_release_fault.

Theorem inner_escape_refuted_release_fault :
  exists j, let '(s', r) := exec shipped prog_rel (with_fuse j (init e0)) in
            r = Normal /\ fuse s' = None /\ cfault s' = true /\ ds (cur s') = [0] /\ tags (cur s') = [0] /\ fget 0 (fs s') = Some 1.
Proof. exact release_fault_program_p. Qed.
Print Assumptions inner_escape_refuted_release_fault.

(* --- every action of the model keeps the frame discipline (the lemma the others rest on), for every operation *)
Theorem op_frames : forall o s s' r, exec_op shipped o s = (s', r) ->
  sql s' = sql s /\ hard s' = hard s /\ tl (ptr s') = tl (ptr s) /\ length (ptr s') = length (ptr s).
Proof. exact WB_exec_op. Qed.
Print Assumptions op_frames.

(* --- reverting a repair breaks a theorem: witnesses on the model variants without the fix, next to the shipped result
   (the fourth repair, e615ec5, has its pair further down: purge_trash_table_drains / trash_row_stuck_refuted_...) *)
Theorem block_atomic_refuted_without_pointer_fix :
  let '(s', r) := exec nofix_ptr prog_ptr (init e0) in
  r = Raised false /\ fget 0 (fs s') = Some 1 /\ ds (cur s') = [] /\ ptr s' <> [].
Proof. exact ptr_witness_nofix. Qed.
Print Assumptions block_atomic_refuted_without_pointer_fix.

Theorem pointer_fix_witness_shipped :
  let '(s', r) := exec shipped prog_ptr (init e0) in r = Raised false /\ fs s' = [] /\ ds (cur s') = [] /\ ptr s' = [].
Proof. exact ptr_witness_shipped. Qed.
Print Assumptions pointer_fix_witness_shipped.

Theorem inner_escape_refuted_without_savepoint_fix :
  let '(s', r) := exec nofix_sp prog_sp (init e0) in
  r = Normal /\ mem 1 (ds (cur s')) = true /\ mem 1 (loc (cur s')) = true /\ fget 1 (fs s') = None.
Proof. exact sp_witness_nofix. Qed.
Print Assumptions inner_escape_refuted_without_savepoint_fix.

Theorem savepoint_fix_witness_shipped :
  let '(s', r) := exec shipped prog_sp (init e0) in
  r = Normal /\ ds (cur s') = [0] /\ loc (cur s') = [0] /\ fs s' = [(0, 1)].
Proof. exact sp_witness_shipped. Qed.
Print Assumptions savepoint_fix_witness_shipped.

Theorem dimension_cache_refuted_without_reset_fix :
  let '(s', r) := exec nofix_dc prog_dc (init e0) in r = Raised false /\ dims (cur s') = [] /\ dimvis s' = [0].
Proof. exact dc_witness_nofix. Qed.
Print Assumptions dimension_cache_refuted_without_reset_fix.

Theorem dimension_cache_witness_shipped :
  let '(s', r) := exec shipped prog_dc (init e0) in r = Raised false /\ dims (cur s') = [] /\ dimvis s' = [].
Proof. exact dc_witness_shipped. Qed.
Print Assumptions dimension_cache_witness_shipped.

(* --- the property at full strength is FALSE on the faithful model (each witness replays on the implementation:
   known_findings.d/C07.json).  s_one = one stored dataset in slot 1. *)
(* block_atomic / additive_op_atomic, file side: a DB error at the outermost COMMIT leaves the new artifact behind *)
Theorem additive_op_atomic_refuted_commit_fault :
  exists j, let '(s', r) := exec shipped (POp (Put 0 1)) (with_fuse j s_one) in
            r = Raised false /\ cur s' = cur s_one /\ fget 0 (fs s') = Some 1 /\ fget 0 (fs s_one) = None.
Proof. exact commit_fault_orphan_p. Qed.
Print Assumptions additive_op_atomic_refuted_commit_fault.

(* block_atomic, file side: a removal inside a block that then fails has already deleted the artifact *)
Theorem block_atomic_refuted_removal_inside :
  let '(s', r) := exec shipped (PBlock [POp (Purge 1); PFail]) s_one in
  r = Raised false /\ cur s' = cur s_one /\ fget 1 (fs s_one) = Some 2 /\ fget 1 (fs s') = None.
Proof. exact removal_in_failed_block_p. Qed.
Print Assumptions block_atomic_refuted_removal_inside.

(* the same finding costs the user's SOURCE file when the dataset was ingested with transfer="move" inside that block: the
   rollback's "move the artifact back" finds no artifact, DatastoreTransaction.rollback swallows the error (no injected
   fault; VERIF_SEED=4 generated it: corpus/C07/removals.json, 5th) *)
Theorem block_atomic_refuted_removal_inside_loses_staged_file :
  let '(s', r) := exec shipped (PBlock [POp (Ingest Move 2); POp (Purge 2); PFail]) (init e0) in
  r = Raised false /\ cur s' = cur (init e0) /\ fget 2 (ext (init e0)) = Some 102 /\ fget 2 (ext s') = None /\ fget 2 (fs s') = None.
Proof. exact staged_file_lost_p. Qed.
Print Assumptions block_atomic_refuted_removal_inside_loses_staged_file.

(* --- the undo log is replayed to the end (seed C07c): DatastoreTransaction.rollback swallows the error of EACH undo action
   separately, so an action whose artifact is gone (the move-back / os.remove of an ingest whose dataset a purge inside the same block
   has already deleted) is skipped and every OLDER event is still undone -- for every log and state *)
Theorem undo_continues_after_missing_artifact : forall d v b l s,
  fget d (fs s) = None -> undo_all (UBack d v :: l) s = undo_all l s /\ fget b (fs (undo_all (UBack d v :: URm b :: l) s)) = None.
Proof. exact undo_continues_both_p. Qed.
Print Assumptions undo_continues_after_missing_artifact.

(* the variant that stops at the first failing undo action (what seed C07c does) leaves the older artifact behind *)
Theorem undo_continues_refuted_when_replay_stops :
  fget 2 (fs s_undo) = None /\ fget 3 (fs (undo_stop [UBack 2 102; URm 3] s_undo)) = Some 1 /\
  fget 3 (fs (undo_all [UBack 2 102; URm 3] s_undo)) = None.
Proof. exact undo_stop_leaves_older_artifact_p. Qed.
Print Assumptions undo_continues_refuted_when_replay_stops.

(* the trigger programs on the shipped model (corpus/C07/undo_log.json): B's artifact is removed by the rollback *)
Theorem undo_continues_trigger_programs :
  (let '(s', r) := exec shipped (PBlock [POp (Put 3 1); POp (Ingest Move 2); POp (Purge 2); PFail]) (init e0) in
   r = Raised false /\ cur s' = cur (init e0) /\ fs s' = [] /\ ptr s' = []) /\
  (let '(s', r) := exec shipped (PBlock [POp (Put 3 1); PBlock [POp (Ingest Move 2); POp (Purge 2)]; PFail]) (init e0) in
   r = Raised false /\ cur s' = cur (init e0) /\ fs s' = [] /\ ptr s' = []).
Proof. exact undo_continues_program_p. Qed.
Print Assumptions undo_continues_trigger_programs.

(* leftovers_collected_by_empty_trash: two fault positions of a purge leave an artifact nothing refers to *)
Theorem leftovers_refuted_trash_insert_swallowed :
  exists j, let '(s', r) := exec shipped (POp (Purge 1)) (with_fuse j s_one) in
            r = Normal /\ ds (cur s') = [] /\ trash (cur s') = [] /\ fget 1 (fs (after_empty s')) = Some 2.
Proof. exact trash_insert_swallowed_p. Qed.
Print Assumptions leftovers_refuted_trash_insert_swallowed.

Theorem leftovers_refuted_delete_error_swallowed :
  exists j, let '(s', r) := exec shipped (POp (Purge 1)) (with_fuse j s_one) in
            r = Normal /\ ds (cur s') = [] /\ trash (cur s') = [] /\ recs (cur s') = [] /\ fget 1 (fs (after_empty s')) = Some 2.
Proof. exact delete_error_swallowed_p. Qed.
Print Assumptions leftovers_refuted_delete_error_swallowed.

(* --- removal_all_or_nothing, REGISTRY side, full strength: pruneDatasets(purge) started in ANY state (top level or
   inside open transactions), with a fault at ANY boundary, of either flavour, whatever its outcome: either the three
   registry tables it edits are exactly what they were, or the target is gone from all three -- and in both cases
   every other dataset's rows are untouched ("never harms a dataset it did not target") *)
Theorem removal_registry_all_or_nothing : forall d s s' r, exec_op shipped (Purge d) s = (s', r) ->
  (ds (cur s') = ds (cur s) /\ tags (cur s') = tags (cur s) /\ certs (cur s') = certs (cur s)) \/
  (mem d (ds (cur s')) = false /\ mem d (tags (cur s')) = false /\ mem d (certs (cur s')) = false /\
   forall x, x <> d -> mem x (ds (cur s')) = mem x (ds (cur s)) /\ mem x (tags (cur s')) = mem x (tags (cur s)) /\
                      mem x (certs (cur s')) = mem x (certs (cur s))).
Proof. exact purge_registry_all_or_nothing_p. Qed.
Print Assumptions removal_registry_all_or_nothing.

Theorem removal_never_harms_other_datasets_registry : forall d s s' r x, exec_op shipped (Purge d) s = (s', r) -> x <> d ->
  mem x (ds (cur s')) = mem x (ds (cur s)) /\ mem x (tags (cur s')) = mem x (tags (cur s)) /\ mem x (certs (cur s')) = mem x (certs (cur s)).
Proof. exact purge_bystanders_p. Qed.
Print Assumptions removal_never_harms_other_datasets_registry.

(* removal_all_or_nothing + leftovers_collected_by_empty_trash, PARTIAL: for the purge of the one stored dataset, at
   every other fault position (finite domain: the purge reaches fewer than 40 boundaries; bound in the statement) the
   registry removal is all-or-nothing and whatever is left behind is collected by the next emptyTrash *)
Theorem removal_all_or_nothing_partial : forall j, (j < 40)%nat -> j <> 4%nat -> j <> 8%nat -> purge_ok j = true.
Proof. exact purge_faults_p. Qed.
Print Assumptions removal_all_or_nothing_partial.

(* --- e615ec5 (emptyTrash deletes records and trash rows in one transaction): on the shipped model the trash table is
   empty after the follow-up emptyTrash at EVERY fault position of the purge (finite, bound in the statement); on the
   model variant with two separate commits a fault between them leaves a trash row that no emptyTrash ever deletes *)
Theorem purge_trash_table_drains : forall j, (j < 40)%nat -> trash_drained shipped j = true.
Proof. exact purge_trash_drains_p. Qed.
Print Assumptions purge_trash_table_drains.

Theorem trash_row_stuck_refuted_without_emptytrash_fix :
  exists j, let '(s', r) := exec nofix_et (POp (Purge 1)) (with_fuse j s_one) in
            r = Raised false /\ ds (cur s') = [] /\ fs s' = [] /\
            recs (cur (after_empty_c nofix_et s')) = [] /\ trash (cur (after_empty_c nofix_et s')) = [1] /\
            trash (cur (after_empty_c nofix_et (after_empty_c nofix_et s'))) = [1].
Proof. exact trash_row_stuck_without_fix_p. Qed.
Print Assumptions trash_row_stuck_refuted_without_emptytrash_fix.

(* ======================================================================================================== *)
(* Removals, DATASTORE side, for ANY number of stored datasets (Proofs/TxnProofsLo.v, Proofs/TxnProofsLo2.v).

   Part 1 -- every start state (top level or inside open transactions), every fault position and flavour, any outcome:
   a removal aimed at d leaves artifact, location row, datastore record and trash status of every OTHER dataset that
   was not already in the trash exactly as they were ("never harms a dataset it did not target", datastore side). *)
Theorem removal_never_harms_other_datasets_datastore : forall d s s' r x,
  exec_op shipped (Purge d) s = (s', r) -> x <> d -> mem x (trash (cur s)) = false ->
  fget x (fs s') = fget x (fs s) /\ mem x (loc (cur s')) = mem x (loc (cur s)) /\
  mem x (recs (cur s')) = mem x (recs (cur s)) /\ mem x (trash (cur s')) = false.
Proof. exact purge_bystanders_ds_p. Qed.
Print Assumptions removal_never_harms_other_datasets_datastore.

Theorem unstore_never_harms_other_datasets : forall d s s' r x,
  exec_op shipped (Unstore d) s = (s', r) -> x <> d -> mem x (trash (cur s)) = false ->
  fget x (fs s') = fget x (fs s) /\ mem x (loc (cur s')) = mem x (loc (cur s)) /\
  mem x (recs (cur s')) = mem x (recs (cur s)) /\ mem x (trash (cur s')) = false.
Proof. exact unstore_bystanders_ds_p. Qed.
Print Assumptions unstore_never_harms_other_datasets.

Theorem empty_trash_touches_only_trashed : forall s s' r x,
  exec_op shipped EmptyTrash s = (s', r) -> mem x (trash (cur s)) = false ->
  fget x (fs s') = fget x (fs s) /\ mem x (loc (cur s')) = mem x (loc (cur s)) /\
  mem x (recs (cur s')) = mem x (recs (cur s)) /\ mem x (trash (cur s')) = false.
Proof. exact empty_trash_bystanders_p. Qed.
Print Assumptions empty_trash_touches_only_trashed.

(* pruneDatasets(unstore) never changes datasets / tag rows / calibration rows, registers no undo entry, leaves the
   staging area alone -- whatever the fault *)
Theorem unstore_registry_untouched : forall d s s' r, exec_op shipped (Unstore d) s = (s', r) ->
  ds (cur s') = ds (cur s) /\ tags (cur s') = tags (cur s) /\ certs (cur s') = certs (cur s) /\
  ptr s' = ptr s /\ ext s' = ext s.
Proof. exact unstore_registry_untouched_p. Qed.
Print Assumptions unstore_registry_untouched.

Theorem removal_registers_no_undo : forall d s s' r, exec_op shipped (Purge d) s = (s', r) -> ptr s' = ptr s /\ ext s' = ext s.
Proof. exact removal_ptr_ext_p. Qed.
Print Assumptions removal_registers_no_undo.

(* Part 2 -- top level (no SQL transaction open), ANY tables and artifacts satisfying
     DI s := every artifact has a datastore record /\ every record is located or trashed /\ every located dataset is
             registered
   (any number of stored, trashed, tagged datasets), a fault at ANY boundary, either flavour.
   `honest s s' r` = NOT (r = Normal and the fault fired): the removal raised, or nothing fired.  The excluded case --
   a fault fired and pruneDatasets nevertheless reported success -- is exactly the two swallowed-error findings
   (leftovers_refuted_trash_insert_swallowed, leftovers_refuted_delete_error_swallowed; see
   leftovers_guard_excludes_the_swallowed_errors below). *)
Theorem removal_keeps_datastore_invariant : forall d s s' r,
  sql s = [] -> DI s -> exec_op shipped (Purge d) s = (s', r) -> honest s s' r ->
  DI s' /\ sql s' = [] /\ ((cur s' = cur s /\ fs s' = fs s) \/ mem d (ds (cur s')) = false).
Proof. exact purge_DI_p. Qed.
Print Assumptions removal_keeps_datastore_invariant.

Theorem unstore_keeps_datastore_invariant : forall d s s' r,
  sql s = [] -> DI s -> exec_op shipped (Unstore d) s = (s', r) -> honest s s' r -> DI s' /\ sql s' = [].
Proof. exact unstore_DI_p. Qed.
Print Assumptions unstore_keeps_datastore_invariant.

Theorem empty_trash_keeps_datastore_invariant : forall s s' r,
  sql s = [] -> DI s -> exec_op shipped EmptyTrash s = (s', r) -> honest s s' r -> DI s' /\ sql s' = [].
Proof. exact empty_trash_DI_p. Qed.
Print Assumptions empty_trash_keeps_datastore_invariant.

(* from any DI state the next fault-free emptyTrash leaves only artifacts of located, registered, recorded datasets *)
Theorem empty_trash_collects : forall s, sql s = [] -> DI s ->
  DI (after_empty s) /\
  forall x, fget x (fs (after_empty s)) <> None ->
    mem x (loc (cur (after_empty s))) = true /\ mem x (ds (cur (after_empty s))) = true /\ mem x (recs (cur (after_empty s))) = true.
Proof. exact after_empty_collects_p. Qed.
Print Assumptions empty_trash_collects.

(* --- leftovers_collected_by_empty_trash + removal_all_or_nothing (datastore side), FULL strength under the guard:
   a purge that fails at any boundary (or runs fault-free): after the next emptyTrash every artifact under the root
   belongs to a located, registered dataset; and either nothing changed at all, or the target is gone from the registry
   and its artifact is gone after that emptyTrash *)
Theorem leftovers_collected_by_empty_trash : forall d s s' r,
  sql s = [] -> DI s -> exec_op shipped (Purge d) s = (s', r) -> honest s s' r ->
  (forall x, fget x (fs (after_empty s')) <> None ->
     mem x (loc (cur (after_empty s'))) = true /\ mem x (ds (cur (after_empty s'))) = true /\ mem x (recs (cur (after_empty s'))) = true) /\
  ((cur s' = cur s /\ fs s' = fs s) \/ (mem d (ds (cur s')) = false /\ fget d (fs (after_empty s')) = None)).
Proof. exact purge_leftovers_p. Qed.
Print Assumptions leftovers_collected_by_empty_trash.

Theorem unstore_leftovers_collected_by_empty_trash : forall d s s' r,
  sql s = [] -> DI s -> exec_op shipped (Unstore d) s = (s', r) -> honest s s' r ->
  forall x, fget x (fs (after_empty s')) <> None ->
     mem x (loc (cur (after_empty s'))) = true /\ mem x (ds (cur (after_empty s'))) = true /\ mem x (recs (cur (after_empty s'))) = true.
Proof. exact unstore_leftovers_p. Qed.
Print Assumptions unstore_leftovers_collected_by_empty_trash.

(* the guard excludes exactly the runs of the two refutations above (j = 4, j = 8 on s_one) *)
Theorem leftovers_guard_excludes_the_swallowed_errors :
  (let '(s', r) := exec_op shipped (Purge 1) (with_fuse 4 s_one) in ~ honest (with_fuse 4 s_one) s' r) /\
  (let '(s', r) := exec_op shipped (Purge 1) (with_fuse 8 s_one) in ~ honest (with_fuse 8 s_one) s' r).
Proof. exact swallowed_not_honest_p. Qed.
Print Assumptions leftovers_guard_excludes_the_swallowed_errors.

(* Part 3 -- DI is not only a premise: it holds after EVERY committed history of top-level operations (puts, ingests,
   registry operations, removals; each run fault-free, failures ignored) from the empty repository -- the pre-histories
   of the correspondence (Proofs/TxnProofsLo3.v).  Top s = DI s, no SQL block, no datastore transaction, fuse spent. *)
Theorem fault_free_operation_keeps_invariant : forall o s s' r, Top s -> exec_op shipped o s = (s', r) -> Top s'.
Proof. exact op_nofault_Top. Qed.
Print Assumptions fault_free_operation_keeps_invariant.

Theorem datastore_invariant_reachable : forall e ops, DI (run_ops ops (init e)) /\ sql (run_ops ops (init e)) = [].
Proof. exact DI_reachable_p. Qed.
Print Assumptions datastore_invariant_reachable.

(* once the (single) fault has fired, or when none is armed, no boundary of any operation fires *)
Theorem spent_fuse_stays_spent : forall o s s' r, exec_op shipped o s = (s', r) -> fuse s = None -> fuse s' = None.
Proof. exact FMo_exec_op. Qed.
Print Assumptions spent_fuse_stays_spent.

(* exactly the runs of the correspondence whose program is a top-level removal: committed history of operations, then
   the removal with the fault armed at ANY boundary j, ordinary or BaseException -- no invariant premise left *)
Theorem reachable_removal_leftovers_collected : forall e ops d j h s' r,
  exec_op shipped (Purge d) (armed (run_ops ops (init e)) j h) = (s', r) -> honest (armed (run_ops ops (init e)) j h) s' r ->
  (forall x, fget x (fs (after_empty s')) <> None ->
     mem x (loc (cur (after_empty s'))) = true /\ mem x (ds (cur (after_empty s'))) = true /\ mem x (recs (cur (after_empty s'))) = true) /\
  ((cur s' = cur (run_ops ops (init e)) /\ fs s' = fs (run_ops ops (init e))) \/
   (mem d (ds (cur s')) = false /\ fget d (fs (after_empty s')) = None)).
Proof. exact reachable_purge_leftovers_p. Qed.
Print Assumptions reachable_removal_leftovers_collected.

Theorem reachable_unstore_leftovers_collected : forall e ops d j h s' r,
  exec_op shipped (Unstore d) (armed (run_ops ops (init e)) j h) = (s', r) -> honest (armed (run_ops ops (init e)) j h) s' r ->
  forall x, fget x (fs (after_empty s')) <> None ->
     mem x (loc (cur (after_empty s'))) = true /\ mem x (ds (cur (after_empty s'))) = true /\ mem x (recs (cur (after_empty s'))) = true.
Proof. exact reachable_unstore_leftovers_p. Qed.
Print Assumptions reachable_unstore_leftovers_collected.

(* --- the dimension-record-cache load is a boundary (the SELECTs issued when the cache is empty; put / ingest / transfer /
   import / expandDataId load it): expandDataId never changes tables, artifacts, staging area or the undo-log stack, whatever the
   fault and wherever it is called; a fault AT the load raises, changes nothing and leaves the cache unloaded *)
Theorem expand_changes_nothing : forall g s s' r, exec_op shipped (Expand g) s = (s', r) ->
  cur s' = cur s /\ fs s' = fs s /\ ext s' = ext s /\ ptr s' = ptr s.
Proof. exact expand_untouched_p. Qed.
Print Assumptions expand_changes_nothing.

Theorem cache_load_fault_leaves_cache_unloaded : forall g s s' r,
  dcache s = None -> fuse s = Some 0%nat -> exec_op shipped (Expand g) s = (s', r) ->
  r = Raised (hard s) /\ dcache s' = None /\ cur s' = cur s /\ fs s' = fs s /\ fuse s' = None.
Proof. exact cache_load_fault_p. Qed.
Print Assumptions cache_load_fault_leaves_cache_unloaded.

(* non-vacuity: the hypotheses are satisfiable by reachable, non-trivial runs *)
Example block_raises_after_work :
  let '(s', r) := exec shipped (PBlock [POp (Put 0 1); POp (Ingest Move 2); POp (Assoc 0); PFail]) s_one in
  r = Raised false /\ cfault s' = false /\ cur s' = cur s_one /\ fs s' = fs s_one /\ ext s' = [(2, 102); (0, 100); (1, 101); (3, 103)].
Proof. vm_compute. repeat split. Qed.

Example nested_inner_caught :
  let s := fst (exec shipped (POp (Put 0 1)) s_one) in
  let '(s1, r) := exec shipped (PBlock [POp (Put 2 5); PTry (PBlock [POp (Put 3 6); POp (Cert 0); PFail]); POp (Assoc 2)]) s in
  r = Normal /\ ds (cur s1) = [2; 0; 1] /\ tags (cur s1) = [2] /\ certs (cur s1) = [] /\ fget 3 (fs s1) = None /\ fget 2 (fs s1) = Some 5.
Proof. vm_compute. repeat split. Qed.

(* the file-side hypotheses are satisfiable: s_one is reachable and satisfies the invariant; the block of
   block_raises_after_work is additive; literal equality of the staging list is NOT what holds *)
Example s_one_no_orphan : no_orphan s_one.
Proof. exact no_orphan_s_one. Qed.

Example additive_example : additive (PBlock [POp (Put 0 1); POp (Ingest Move 2); POp (Assoc 0); PTry (PBlock [POp (Put 3 4); PFail]); PFail]) = true.
Proof. reflexivity. Qed.

Example staging_list_order_changes :
  let '(s', r) := exec shipped (PBlock [POp (Ingest Move 2); PFail]) s_one in
  r = Raised false /\ cfault s' = false /\ ext s' <> ext s_one /\ fvec (ext s') = fvec (ext s_one).
Proof. exact ext_literal_differs_p. Qed.

(* the removal-side hypotheses are satisfiable: the empty repository and s_one satisfy DI at top level; a purge that
   FAILS after the registry removal committed (fault at the first boundary of its emptyTrash) is honest, and its
   leftover artifact is collected *)
Example DI_init_example : forall e, DI (init e).
Proof. exact DI_init. Qed.

Example DI_s_one_example : DI s_one /\ sql s_one = [].
Proof. exact DI_s_one. Qed.

Example failing_purge_is_honest_and_collected :
  let '(s', r) := exec_op shipped (Purge 1) (with_fuse 7 s_one) in
  r = Raised false /\ fuse s' = None /\ ds (cur s') = [] /\ fget 1 (fs s') = Some 2 /\ fget 1 (fs (after_empty s')) = None.
Proof. vm_compute. repeat split. Qed.

(* a reachable state with several stored / tagged / trashed datasets, and a purge failing in the middle of its emptyTrash
   (hard fault at the second artifact deletion): honest, invariant kept, both leftovers collected afterwards *)
Example reachable_many_datasets :
  let s := run_ops [Put 0 1; Put 1 2; Ingest Move 2; Put 3 4; Assoc 1; Cert 1; Unstore 3; Purge 2] (init e0) in
  ds (cur s) = [3; 1; 0] /\ loc (cur s) = [1; 0] /\ fvec (fs s) = [2; 3; 0; 0].
Proof. vm_compute. repeat split. Qed.

(* transfer_from: a block that transfers two datasets next to a stored one and then fails restores registry and files; a
   second transfer of a registered, recorded dataset is a no-op; a transfer onto a locally stored slot is a conflict *)
Example transfer_block_rolls_back :
  let '(s', r) := exec shipped (PBlock [POp (Transfer 0); POp (Transfer 2); POp (Transfer 0); PTry (POp (Transfer 1)); PFail]) s_one in
  r = Raised false /\ cfault s' = false /\ cur s' = cur s_one /\ fs s' = fs s_one.
Proof. vm_compute. repeat split. Qed.

Example transfer_commits :
  let '(s', r) := exec shipped (PBlock [POp (Transfer 0); POp (Transfer 0)]) s_one in
  r = Normal /\ ds (cur s') = [0; 1] /\ xf (cur s') = [0] /\ fvec (fs s') = [201; 3; 0; 0].
Proof. vm_compute. repeat split. Qed.

Example import_commits :
  let '(s', r) := exec shipped (PBlock [POp (ImportDs 0); POp (ImportDs 2)]) s_one in
  r = Normal /\ ds (cur s') = [2; 0; 1] /\ xf (cur s') = [2; 0] /\ fvec (fs s') = [201; 3; 203; 0].
Proof. vm_compute. repeat split. Qed.
