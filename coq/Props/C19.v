(* C19 -- Export/import and butler-to-butler transfer reproduce the selection exactly: statements only.
   Model: Model/Transfer.v (faithful to the code, quirks included).  `_refuted` theorems are witnesses, found by
   vm_compute on the model and replayed on the implementation, where the property as stated does NOT hold on the
   unchanged tree; the neighbouring theorems state what does hold, for every input. *)
From Coq Require Import NArith List Bool.
From V Require Import Model.Transfer Proofs.TransferProofs Proofs.TransferProofs2.
Import ListNotations.
Open Scope N_scope.

(* ---- export *)
(* every collection of an export file comes after all of its children that are in the file (all ids, selections, states) *)
Theorem export_order_ok : forall ids cs s b, export ids cs s = XOk b -> colls_ordered (b_colls b).
Proof. exact export_order. Qed.
Print Assumptions export_order_ok.

(* the file holds exactly the selected datasets of the source *)
Theorem export_selection_exact : forall ids cs s b, export ids cs s = XOk b ->
  forall d, In d (map fst (b_dsets b)) <-> In d (dsets s) /\ memN (d_id d) ids = true.
Proof. exact export_dsets. Qed.
Print Assumptions export_selection_exact.

Theorem export_error_leaves_target : forall m ids cs src t e,
  export ids cs src = XErr e -> exim m ids cs src t = (t, Err e).
Proof. exact exim_export_error_unchanged. Qed.
Print Assumptions export_error_leaves_target.

(* ---- import_ : accepted *)
(* an accepted import of ANY file into ANY target: the dataset rows are the old ones plus the file's, the datastore
   gains exactly one record per dataset of the file with the file's content, and none of them was stored before
   (nothing duplicated, nothing already there altered) *)
Theorem import_accepted_exact : forall m b t t', import_ m b t = (t', Ok) ->
  (forall d, In d (dsets t') <-> In d (dsets t) \/ In d (map fst (b_dsets b))) /\
  stored t' = stored t ++ map (fun p => (d_id (fst p), (Some (snd p), mode_flag m))) (b_dsets b) /\
  (forall n, In n (bundle_ids b) -> is_stored n t = false).
Proof. exact import_ok. Qed.
Print Assumptions import_accepted_exact.

(* export then import, when accepted: the target's datasets are the old ones plus exactly the selection (same id,
   dataset type, data id, run).  Partial with respect to DESIGN's import_export_exact: acceptance on an empty target for
   every well-formed source is checked by the correspondence and the Examples below, not proved. *)
Theorem import_export_exact_partial : forall m ids cs src t t', exim m ids cs src t = (t', Ok) ->
  forall d, In d (dsets t') <-> In d (dsets t) \/ (In d (dsets src) /\ memN (d_id d) ids = true).
Proof. exact exim_ok_datasets. Qed.
Print Assumptions import_export_exact_partial.

(* ---- import_ : refused *)
(* a refused import never touches dimension records, dataset rows, TAGGED memberships, validity ranges *)
Theorem import_refused_registry_unchanged : forall m b t t' e, import_ m b t = (t', Err e) ->
  dims t' = dims t /\ dsets t' = dsets t /\ tags t' = tags t /\ calibs t' = calibs t.
Proof. exact import_refused_registry. Qed.
Print Assumptions import_refused_registry_unchanged.

(* ... and the datastore is either untouched or has lost artifacts of datasets of the file (only in the copying modes) *)
Theorem import_refused_stored_only_lost : forall m b t t' e, import_ m b t = (t', Err e) ->
  stored t' = stored t \/ (m = Copy /\ stored t' = lose (bundle_ids b) (stored t)).
Proof. exact import_refused_stored. Qed.
Print Assumptions import_refused_stored_only_lost.

Theorem lost_only_file_datasets : forall ids st n i, In (n, i) (lose ids st) ->
  In (n, i) st \/ (memN n ids = true /\ i = (None, true) /\ exists v, In (n, (Some v, true)) st).
Proof. exact lose_spec. Qed.
Print Assumptions lost_only_file_datasets.

(* import_idempotent_or_refused, the half that holds: with transfer="direct" a refused (e.g. repeated) import leaves
   records, rows, associations and the datastore exactly as they were *)
Theorem import_idempotent_or_refused_partial : forall b t t' e, import_ Direct b t = (t', Err e) -> same_data t t'.
Proof. exact import_refused_direct. Qed.
Print Assumptions import_idempotent_or_refused_partial.

(* import_idempotent_or_refused is FALSE for the copying modes: importing the same export twice is refused the second time
   (IntegrityError) and destroys the artifact stored by the first import *)
Definition w_src : state :=
  St [(100, 1); (0, 1)] [(0, 0)] [(0, RUN)] [] [D 1 0 0 0] [(1, (Some 11, true))] [] [].
Theorem import_idempotent_or_refused_refuted :
  exists src ids n v,
    let '(t1, o1) := exim Copy ids [] src empty in
    let '(t2, o2) := exim Copy ids [] src t1 in
    o1 = Ok /\ content_of n t1 = Some v /\ o2 = Err SqlError /\ content_of n t2 = None /\ is_stored n t2 = true.
Proof. exists w_src, [1], 1, 11. vm_compute. repeat split. Qed.
Print Assumptions import_idempotent_or_refused_refuted.

(* a refused import may already have REPLACED a chain definition of the target (register() is not transactional) *)
Theorem refused_import_replaced_chain_refuted :
  exists src t ids cs,
    let '(t', o) := exim Copy ids cs src t in
    o = Err SqlError /\ lookup 4 (chains t) = Some [5] /\ lookup 4 (chains t') = Some [1].
Proof.
  exists (St [(100, 1); (0, 1)] [(0, 0)] [(0, RUN); (1, RUN); (4, CHAINED)] [(4, [1])] [D 1 0 0 0] [(1, (Some 11, true))] [] []),
         (St [(100, 1); (0, 1)] [(0, 0)] [(0, RUN); (5, RUN); (4, CHAINED)] [(4, [5])] [D 1 0 0 0] [(1, (Some 11, true))] [] []),
         [1], [1; 4].
  vm_compute. repeat split.
Qed.
Print Assumptions refused_import_replaced_chain_refuted.

(* ---- conflicting definitions *)
(* conflict_refused: a dataset of the file whose id the target already uses for a different (type, data id, run) makes
   the import fail -- for every file, target and mode *)
Theorem conflict_refused : forall m b t d v d',
  In (d, v) (b_dsets b) -> find_id (d_id d) (dsets t) = Some d' -> d <> d' -> snd (import_ m b t) <> Ok.
Proof. exact import_conflict_refused. Qed.
Print Assumptions conflict_refused.

(* id reuse: importing a ref that is already there with the same definition is a no-op, whatever the target *)
Theorem import_dataset_idempotent : forall d t t', import_one d t = ROk t' -> import_one d t' = ROk t'.
Proof. exact import_one_idempotent. Qed.
Print Assumptions import_dataset_idempotent.

(* "refused rather than merged" is FALSE for dimension records: a different record under the same key is silently kept *)
Theorem dimension_record_conflict_kept_refuted :
  exists src t ids,
    let '(t', o) := exim Copy ids [] src t in
    o = Ok /\ lookup 100 (dims src) = Some 1 /\ lookup 100 (dims t') = Some 7 /\ In (D 1 0 0 0) (dsets t').
Proof. exists w_src, (St [(100, 7)] [] [] [] [] [] [] []), [1]. vm_compute. repeat split. left. reflexivity. Qed.
Print Assumptions dimension_record_conflict_kept_refuted.

(* ... and for collection types: an exported CALIBRATION collection "imports" onto an existing TAGGED one *)
Theorem collection_type_conflict_accepted_refuted :
  exists src t cs,
    let '(t', o) := exim Copy [] cs src t in
    o = Ok /\ lookup 3 (colls src) = Some CALIB /\ lookup 3 (colls t') = Some TAGGED.
Proof.
  exists (St [] [] [(3, CALIB)] [] [] [] [] []), (St [] [] [(3, TAGGED)] [] [] [] [] []), [3]. vm_compute. repeat split.
Qed.
Print Assumptions collection_type_conflict_accepted_refuted.

(* ---- transfer_from *)
(* a refused transfer leaves everything but (possibly) newly registered dataset types: records, collections, chains,
   rows, datastore, associations *)
Theorem transfer_refused_unchanged : forall m ids rt xd src t t' e ph,
  transfer_from m ids rt xd src t = (t', Err e, ph) -> same_but_types t t'.
Proof. exact transfer_refused. Qed.
Print Assumptions transfer_refused_unchanged.

(* ---- non-vacuity / reachable instances (transfer_exact and transfer_idempotent are checked on instances and by the
   correspondence only; they are not proved for all inputs) *)
Definition x_src : state :=
  St [(100, 1); (101, 2); (0, 1); (1, 2); (2, 3)] [(0, 0); (1, 1)]
     [(0, RUN); (1, RUN); (2, TAGGED); (3, CALIB); (4, CHAINED); (5, CHAINED)] [(4, [0; 2]); (5, [4; 1])]
     [D 1 0 0 0; D 2 0 1 0; D 3 1 0 1; D 4 1 2 1] [(1, (Some 11, true)); (2, (Some 12, true)); (3, (Some 13, true)); (4, (Some 14, true))]
     [(2, 1); (2, 3)] [(3, 3, (0, 5)); (3, 4, (0, 5))].

Example export_order_nonvacuous :
  match export [1; 3] [5; 4; 3; 2] x_src with
  | XOk b => map (fun p => fst (fst p)) (b_colls b) = [0; 1; 2; 3; 4; 5]
  | XErr _ => False end.
Proof. vm_compute. reflexivity. Qed.

Example import_export_into_empty :
  let '(t', o) := exim Copy [1; 2; 3; 4] [2; 3; 4; 5] x_src empty in
  o = Ok /\ dsets t' = dsets x_src /\ tags t' = tags x_src /\ calibs t' = calibs x_src /\ chains t' = chains x_src
  /\ stored t' = stored x_src /\ dims t' = [(100, 1); (101, 2); (0, 1); (1, 2); (2, 3)].
Proof. vm_compute. repeat split. Qed.

Example transfer_exact_and_idempotent_instance :
  let '(t1, o1, _) := transfer_from Copy [1; 2; 3] true true x_src empty in
  let '(t2, o2, _) := transfer_from Copy [1; 2; 3] true true x_src t1 in
  o1 = Ok /\ o2 = Ok /\ t2 = t1 /\ dsets t1 = [D 1 0 0 0; D 2 0 1 0; D 3 1 0 1] /\
  stored t1 = [(1, (Some 11, true)); (2, (Some 12, true)); (3, (Some 13, true))].
Proof. vm_compute. repeat split. Qed.

Example conflict_refused_nonvacuous :
  snd (exim Copy [1] [] w_src (St [(100, 1); (0, 1); (1, 1)] [(0, 0)] [(0, RUN)] [] [D 1 0 1 0] [] [] [])) = Err Conflict.
Proof. vm_compute. reflexivity. Qed.

Example transfer_refused_nonvacuous :
  snd (fst (transfer_from Copy [1] true true w_src (St [] [(0, 2)] [] [] [] [] [] []))) = Err Conflict.
Proof. vm_compute. reflexivity. Qed.
