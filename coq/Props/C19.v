(* C19 -- Export/import and butler-to-butler transfer reproduce the selection exactly: statements only.
   Model: Model/Transfer.v (faithful to the code, quirks included).  `_refuted` theorems are witnesses, found by
   vm_compute on the model and replayed on the implementation, where the property as stated does NOT hold on the
   unchanged tree; the neighbouring theorems state what does hold, for every input. *)
From Coq Require Import NArith List Bool.
From Coq Require Import Lia.
From V Require Import Model.Transfer Proofs.TransferProofs Proofs.TransferProofs2.
From V Require Import Proofs.TransferProofsX1 Proofs.TransferProofsX2 Proofs.TransferProofsX3 Proofs.TransferProofsX4.
From V Require Import Proofs.TransferProofsX5.
From V Require Import Model.TransferDims Proofs.TransferProofsD.
From V Require Import Model.TransferAssoc Proofs.TransferProofsA.
Import ListNotations.
Open Scope N_scope.

(* ---- export *)
(* every collection of an export file comes after all of its children that are in the file (all ids, selections, states) *)
Theorem export_order_ok : forall ids cs s b, export ids cs s = XOk b -> colls_ordered (b_colls b).
Proof. exact export_order. Qed.
Print Assumptions export_order_ok.

(* the file holds exactly the selected datasets of the source *)
Theorem export_selection_exact : forall ids cs s b, export ids cs s = XOk b ->
  forall d, In d (map fst (b_dsets b)) <-> In d (dsets s) /\ memN (d_id d) ids = true.
Proof. exact export_dsets. Qed.
Print Assumptions export_selection_exact.

Theorem export_error_leaves_target : forall m ids cs src t e,
  export ids cs src = XErr e -> exim m ids cs src t = (t, Err e).
Proof. exact exim_export_error_unchanged. Qed.
Print Assumptions export_error_leaves_target.

(* ---- import_ : accepted *)
(* an accepted import of ANY file into ANY target: the dataset rows are the old ones plus the file's, the datastore
   gains exactly one record per dataset of the file with the file's content, and none of them was stored before
   (nothing duplicated, nothing already there altered) *)
Theorem import_accepted_exact : forall m b t t', import_ m b t = (t', Ok) ->
  (forall d, In d (dsets t') <-> In d (dsets t) \/ In d (map fst (b_dsets b))) /\
  stored t' = stored t ++ map (fun p => (d_id (fst p), (Some (snd p), mode_flag m))) (b_dsets b) /\
  (forall n, In n (bundle_ids b) -> is_stored n t = false).
Proof. exact import_ok. Qed.
Print Assumptions import_accepted_exact.

(* export then import, when accepted: the target's datasets are the old ones plus exactly the selection (same id,
   dataset type, data id, run).  Partial with respect to DESIGN's import_export_exact: acceptance on an empty target for
   every well-formed source is checked by the correspondence and the Examples below, not proved. *)
Theorem import_export_exact_partial : forall m ids cs src t t', exim m ids cs src t = (t', Ok) ->
  forall d, In d (dsets t') <-> In d (dsets t) \/ (In d (dsets src) /\ memN (d_id d) ids = true).
Proof. exact exim_ok_datasets. Qed.
Print Assumptions import_export_exact_partial.

(* ---- import_ : refused *)
(* a refused import never touches dimension records, dataset rows, TAGGED memberships, validity ranges *)
Theorem import_refused_registry_unchanged : forall m b t t' e, import_ m b t = (t', Err e) ->
  dims t' = dims t /\ dsets t' = dsets t /\ tags t' = tags t /\ calibs t' = calibs t.
Proof. exact import_refused_registry. Qed.
Print Assumptions import_refused_registry_unchanged.

(* (kept from before 2da36a1; import_refused_unchanged below is the full statement) the datastore is either untouched or has
   lost artifacts of datasets of the file *)
Theorem import_refused_stored_only_lost : forall m b t t' e, import_ m b t = (t', Err e) ->
  stored t' = stored t \/ (m = Copy /\ stored t' = lose (bundle_ids b) (stored t)).
Proof. exact import_refused_stored. Qed.
Print Assumptions import_refused_stored_only_lost.

Theorem lost_only_file_datasets : forall ids st n i, In (n, i) (lose ids st) ->
  In (n, i) st \/ (memN n ids = true /\ i = (None, true) /\ exists v, In (n, (Some v, true)) st).
Proof. exact lose_spec. Qed.
Print Assumptions lost_only_file_datasets.

(* import_idempotent_or_refused, the half that holds: with transfer="direct" a refused (e.g. repeated) import leaves
   records, rows, associations and the datastore exactly as they were *)
Theorem import_idempotent_or_refused_partial : forall b t t' e, import_ Direct b t = (t', Err e) -> same_data t t'.
Proof. exact import_refused_direct. Qed.
Print Assumptions import_idempotent_or_refused_partial.

(* refused import_, EVERY mode (after /repo 2da36a1: FileDatastore refuses the ingest of a dataset it already holds before any
   file is transferred): dimension records, dataset rows, datastore records -- hence every stored content --, TAGGED
   memberships and validity ranges are exactly as before.  No exception for the copying modes any more. *)
Theorem import_refused_unchanged : forall m b t t' e, import_ m b t = (t', Err e) -> same_data t t'.
Proof. exact import_refused_same. Qed.
Print Assumptions import_refused_unchanged.

Theorem export_import_refused_unchanged : forall m ids cs src t t' e, exim m ids cs src t = (t', Err e) -> same_data t t'.
Proof. exact exim_refused_same. Qed.
Print Assumptions export_import_refused_unchanged.

(* import_idempotent_or_refused at FULL strength: a file with at least one dataset that was accepted once (any mode) is
   refused when imported again (any mode), and the refusal neither duplicates nor alters anything already there *)
Theorem import_idempotent_or_refused : forall m m' b t t', import_ m b t = (t', Ok) -> b_dsets b <> [] ->
  exists t'' e, import_ m' b t' = (t'', Err e) /\ same_data t' t''.
Proof. exact import_idem_or_refused. Qed.
Print Assumptions import_idempotent_or_refused.

(* the behaviour BEFORE 2da36a1 (model variant fixed = false: the INSERT fails after every file was copied over the stored
   artifact and the rollback deletes it) violates it: importing the same export twice with copy destroys the content
   stored by the first import.  Reverting the commit makes the implementation follow this variant again. *)
Definition w_src : state :=
  St [(100, 1); (0, 1)] [(0, 0)] [(0, RUN)] [] [D 1 0 0 0] [(1, (Some 11, true))] [] [].
Theorem import_idempotent_or_refused_refuted_without_fix :
  exists src ids n v,
    let '(t1, o1) := exim_v false Copy ids [] src empty in
    let '(t2, o2) := exim_v false Copy ids [] src t1 in
    o1 = Ok /\ content_of n t1 = Some v /\ o2 = Err SqlError /\ content_of n t2 = None /\ is_stored n t2 = true.
Proof. exists w_src, [1], 1, 11. vm_compute. repeat split. Qed.
Print Assumptions import_idempotent_or_refused_refuted_without_fix.

(* ... and on the code as it is the same two imports leave the content readable *)
Example reimport_keeps_content :
  let '(t1, o1) := exim Copy [1] [] w_src empty in
  let '(t2, o2) := exim Copy [1] [] w_src t1 in
  o1 = Ok /\ o2 = Err Conflict /\ t2 = t1 /\ content_of 1 t2 = Some 11.
Proof. vm_compute. repeat split. Qed.

(* a refused import may already have REPLACED a chain definition of the target (register() is not transactional) *)
Theorem refused_import_replaced_chain_refuted :
  exists src t ids cs,
    let '(t', o) := exim Copy ids cs src t in
    o = Err Conflict /\ lookup 4 (chains t) = Some [5] /\ lookup 4 (chains t') = Some [1].
Proof.
  exists (St [(100, 1); (0, 1)] [(0, 0)] [(0, RUN); (1, RUN); (4, CHAINED)] [(4, [1])] [D 1 0 0 0] [(1, (Some 11, true))] [] []),
         (St [(100, 1); (0, 1)] [(0, 0)] [(0, RUN); (5, RUN); (4, CHAINED)] [(4, [5])] [D 1 0 0 0] [(1, (Some 11, true))] [] []),
         [1], [1; 4].
  vm_compute. repeat split.
Qed.
Print Assumptions refused_import_replaced_chain_refuted.

(* ---- conflicting definitions *)
(* conflict_refused: a dataset of the file whose id the target already uses for a different (type, data id, run) makes
   the import fail -- for every file, target and mode *)
Theorem conflict_refused : forall m b t d v d',
  In (d, v) (b_dsets b) -> find_id (d_id d) (dsets t) = Some d' -> d <> d' -> snd (import_ m b t) <> Ok.
Proof. exact import_conflict_refused. Qed.
Print Assumptions conflict_refused.

(* id reuse: importing a ref that is already there with the same definition is a no-op, whatever the target *)
Theorem import_dataset_idempotent : forall d t t', import_one d t = ROk t' -> import_one d t' = ROk t'.
Proof. exact import_one_idempotent. Qed.
Print Assumptions import_dataset_idempotent.

(* "refused rather than merged" is FALSE for dimension records: a different record under the same key is silently kept *)
Theorem dimension_record_conflict_kept_refuted :
  exists src t ids,
    let '(t', o) := exim Copy ids [] src t in
    o = Ok /\ lookup 100 (dims src) = Some 1 /\ lookup 100 (dims t') = Some 7 /\ In (D 1 0 0 0) (dsets t').
Proof. exists w_src, (St [(100, 7)] [] [] [] [] [] [] []), [1]. vm_compute. repeat split. left. reflexivity. Qed.
Print Assumptions dimension_record_conflict_kept_refuted.

(* ... and for collection types: an exported CALIBRATION collection "imports" onto an existing TAGGED one *)
Theorem collection_type_conflict_accepted_refuted :
  exists src t cs,
    let '(t', o) := exim Copy [] cs src t in
    o = Ok /\ lookup 3 (colls src) = Some CALIB /\ lookup 3 (colls t') = Some TAGGED.
Proof.
  exists (St [] [] [(3, CALIB)] [] [] [] [] []), (St [] [] [(3, TAGGED)] [] [] [] [] []), [3]. vm_compute. repeat split.
Qed.
Print Assumptions collection_type_conflict_accepted_refuted.

(* ---- transfer_from *)
(* a refused transfer leaves everything but (possibly) newly registered dataset types: records, collections, chains,
   rows, datastore, associations *)
Theorem transfer_refused_unchanged : forall m ids rt xd src t t' e ph,
  transfer_from m ids rt xd src t = (t', Err e, ph) -> same_but_types t t'.
Proof. exact transfer_refused. Qed.
Print Assumptions transfer_refused_unchanged.

(* ---- non-vacuity / reachable instances *)
Definition x_src : state :=
  St [(100, 1); (101, 2); (0, 1); (1, 2); (2, 3)] [(0, 0); (1, 1)]
     [(0, RUN); (1, RUN); (2, TAGGED); (3, CALIB); (4, CHAINED); (5, CHAINED)] [(4, [0; 2]); (5, [4; 1])]
     [D 1 0 0 0; D 2 0 1 0; D 3 1 0 1; D 4 1 2 1] [(1, (Some 11, true)); (2, (Some 12, true)); (3, (Some 13, true)); (4, (Some 14, true))]
     [(2, 1); (2, 3)] [(3, 3, (0, 5)); (3, 4, (0, 5))].

Example export_order_nonvacuous :
  match export [1; 3] [5; 4; 3; 2] x_src with
  | XOk b => map (fun p => fst (fst p)) (b_colls b) = [0; 1; 2; 3; 4; 5]
  | XErr _ => False end.
Proof. vm_compute. reflexivity. Qed.

Example import_export_into_empty :
  let '(t', o) := exim Copy [1; 2; 3; 4] [2; 3; 4; 5] x_src empty in
  o = Ok /\ dsets t' = dsets x_src /\ tags t' = tags x_src /\ calibs t' = calibs x_src /\ chains t' = chains x_src
  /\ stored t' = stored x_src /\ dims t' = [(100, 1); (101, 2); (0, 1); (1, 2); (2, 3)].
Proof. vm_compute. repeat split. Qed.

Example transfer_exact_and_idempotent_instance :
  let '(t1, o1, _) := transfer_from Copy [1; 2; 3] true true x_src empty in
  let '(t2, o2, _) := transfer_from Copy [1; 2; 3] true true x_src t1 in
  o1 = Ok /\ o2 = Ok /\ t2 = t1 /\ dsets t1 = [D 1 0 0 0; D 2 0 1 0; D 3 1 0 1] /\
  stored t1 = [(1, (Some 11, true)); (2, (Some 12, true)); (3, (Some 13, true))].
Proof. vm_compute. repeat split. Qed.

Example conflict_refused_nonvacuous :
  snd (exim Copy [1] [] w_src (St [(100, 1); (0, 1); (1, 1)] [(0, 0)] [(0, RUN)] [] [D 1 0 1 0] [] [] [])) = Err Conflict.
Proof. vm_compute. reflexivity. Qed.

Example transfer_refused_nonvacuous :
  snd (fst (transfer_from Copy [1] true true w_src (St [] [(0, 2)] [] [] [] [] [] []))) = Err Conflict.
Proof. vm_compute. reflexivity. Qed.

(* ==================================================================== wave 4: the main clauses at full strength *)
(* ---- transfer_from *)
(* transfer_exact: an accepted transfer_from, for EVERY source state, selection, flag combination and target.
   `selected ids src d` = d is a dataset of the source, its id was selected and it has an artifact there (datasets without
   artifact are skipped by the code: skip_missing).  Rows: the old ones plus exactly the selected ones (same id, type,
   data id, run); each of them is there under its id in a RUN collection with its dataset type, whose definition is the
   source's; datastore: the old records stay in place, the new ones belong to selected datasets only, and a selected
   dataset has the target's old record if it had one and otherwise the source's content; tags, validity ranges, chains
   are untouched; collections, dimension records and dataset types that existed keep their definition. *)
Theorem transfer_exact : forall ids rt xd src t t' ph, transfer_from Copy ids rt xd src t = (t', Ok, ph) ->
  (forall d, In d (dsets t') <-> In d (dsets t) \/ selected ids src d) /\
  (forall d, selected ids src d -> find_id (d_id d) (dsets t') = Some d /\ lookup (d_run d) (colls t') = Some RUN /\
             has_key (d_type d) (types t') = true /\
             (forall c, lookup (d_type d) (types src) = Some c -> lookup (d_type d) (types t') = Some c)) /\
  (exists new, stored t' = stored t ++ new /\
     forall n i, In (n, i) new -> is_stored n t = false /\ exists d, selected ids src d /\ d_id d = n) /\
  (forall d, selected ids src d ->
     lookup (d_id d) (stored t') = match lookup (d_id d) (stored t) with
                                   | Some i => Some i
                                   | None => match content_of (d_id d) src with Some v => Some (Some v, true) | None => None end
                                   end) /\
  tags t' = tags t /\ calibs t' = calibs t /\ chains t' = chains t /\
  (forall c k, lookup c (colls t) = Some k -> lookup c (colls t') = Some k) /\
  (forall k p, lookup k (dims t) = Some p -> lookup k (dims t') = Some p) /\
  (forall ty c, lookup ty (types t) = Some c -> lookup ty (types t') = Some c).
Proof. exact transfer_exact_l. Qed.
Print Assumptions transfer_exact.

(* transfer_idempotent: repeating an accepted transfer is accepted again and changes NOTHING (the whole state is equal) *)
Theorem transfer_idempotent : forall ids rt xd src t t' ph, transfer_from Copy ids rt xd src t = (t', Ok, ph) ->
  transfer_from Copy ids rt xd src t' = (t', Ok, false).
Proof. exact transfer_idempotent_l. Qed.
Print Assumptions transfer_idempotent.

(* ---- export + import_, accepted: every clause of "reproduces the selection exactly" *)
(* `exported ids src d` = d is a dataset of the source whose id was selected; `saved ids cs src c` = c was passed to
   saveCollection or is the run of an exported dataset.  For ALL modes, selections, sources and targets:
   1 rows: old ones plus exactly the exported ones;
   2 contents: old records stay, new records only for exported datasets; each exported dataset was not stored in the
     target before and now reads back the source's content;
   3 TAGGED memberships: old ones plus exactly the source's memberships of exported datasets in saved TAGGED collections;
   4 validity ranges: old ones, then exactly the source's rows of exported datasets in saved CALIBRATION collections;
   5 chains: every saved CHAINED collection is CHAINED with exactly the source's ordered children; chains that were not
     saved keep their definition; existing collections keep their type; every saved collection exists;
   6 dimension records: existing ones kept; the records of every exported data id exist and equal the source's unless the
     target already had a record under that key (that case is finding 2, dimension_record_conflict_kept_refuted); no other
     record appears. *)
Theorem import_export_exact : forall m ids cs src t t', exim m ids cs src t = (t', Ok) ->
  (forall d, In d (dsets t') <-> In d (dsets t) \/ exported ids src d) /\
  ((exists new, stored t' = stored t ++ new /\
      forall n i, In (n, i) new -> is_stored n t = false /\ exists d, exported ids src d /\ d_id d = n) /\
   (forall d, exported ids src d -> is_stored (d_id d) t = false /\ content_of (d_id d) src <> None /\
              content_of (d_id d) t' = content_of (d_id d) src)) /\
  ((forall c n, In (c, n) (tags t') <-> In (c, n) (tags t) \/
      (In (c, n) (tags src) /\ saved ids cs src c /\ lookup c (colls src) = Some TAGGED /\ exists d, exported ids src d /\ d_id d = n)) /\
   (exists new, tags t' = tags t ++ new /\ forall q, In q new -> ~ In q (tags t)) /\
   (exists new, calibs t' = calibs t ++ new /\ forall c n r, In (c, n, r) new <->
      (In (c, n, r) (calibs src) /\ saved ids cs src c /\ lookup c (colls src) = Some CALIB /\ exists d, exported ids src d /\ d_id d = n))) /\
  ((forall c, saved ids cs src c -> lookup c (colls src) = Some CHAINED ->
              lookup c (colls t') = Some CHAINED /\ lookup c (chains t') = Some (children_of c src)) /\
   (forall c, saved ids cs src c -> has_key c (colls t') = true) /\
   (forall c k, lookup c (colls t) = Some k -> lookup c (colls t') = Some k) /\
   (forall c, ~ (saved ids cs src c /\ lookup c (colls src) = Some CHAINED) -> lookup c (chains t') = lookup c (chains t))) /\
  ((forall k p, lookup k (dims t) = Some p -> lookup k (dims t') = Some p) /\
   (forall d, exported ids src d -> has_dims (d_data d) t' = true /\
      forall k, k = inst_key (d_data d) \/ k = d_data d -> lookup k (dims t) = None -> lookup k (dims t') = lookup k (dims src)) /\
   (forall k, lookup k (dims t) = None -> lookup k (dims t') <> None ->
      lookup k (dims t') = lookup k (dims src) /\ exists d, exported ids src d /\ (k = inst_key (d_data d) \/ k = d_data d))).
Proof.
  intros m ids cs src t t' H. split; [exact (exim_ok_datasets _ _ _ _ _ _ H)|].
  split; [exact (exim_ok_contents _ _ _ _ _ _ H)|]. split; [exact (exim_ok_assoc _ _ _ _ _ _ H)|].
  split; [exact (exim_ok_chains _ _ _ _ _ _ H) | exact (exim_ok_dims _ _ _ _ _ _ H)].
Qed.
Print Assumptions import_export_exact.

(* the same for an arbitrary export file (not necessarily produced by export): tags, validity ranges, dimension records *)
Theorem import_accepted_associations_exact : forall m b t t', import_ m b t = (t', Ok) ->
  (forall q, In q (tags t') <-> In q (tags t) \/ In q (b_tags b)) /\
  (exists new, tags t' = tags t ++ new /\ incl new (b_tags b) /\ forall q, In q new -> ~ In q (tags t)) /\
  calibs t' = calibs t ++ b_calibs b /\
  (forall k, lookup k (dims t') = match lookup k (dims t) with Some v => Some v | None => lookup k (b_dims b) end) /\
  (forall d, In d (map fst (b_dsets b)) -> has_dims (d_data d) t' = true).
Proof. exact import_ok_assoc. Qed.
Print Assumptions import_accepted_associations_exact.

(* ... and chain definitions, for a file whose chain entries have distinct names *)
Theorem import_accepted_chains_exact : forall m b t t', NoDup (map cname (filter is_chain_entry (b_colls b))) -> import_ m b t = (t', Ok) ->
  (forall c k, lookup c (colls t) = Some k -> lookup c (colls t') = Some k) /\
  (forall p, In p (b_colls b) -> has_key (cname p) (colls t') = true) /\
  (forall p, In p (b_colls b) -> is_chain_entry p = true ->
             lookup (cname p) (colls t') = Some CHAINED /\ lookup (cname p) (chains t') = Some (snd p)) /\
  (forall c, ~ In c (map cname (filter is_chain_entry (b_colls b))) -> lookup c (chains t') = lookup c (chains t)).
Proof. exact import_ok_chains. Qed.
Print Assumptions import_accepted_chains_exact.

(* import_idempotent_or_refused, the "never duplicates" half for EVERY mode: a file with at least one dataset that was
   accepted once is never accepted again (by any mode), so a repeated import cannot duplicate rows or records; what the
   refusal leaves is import_refused_registry_unchanged / import_refused_stored_only_lost (and, for the copying modes, the
   destroyed artifacts of import_idempotent_or_refused_refuted) *)
Theorem import_repeat_refused : forall m m' b t t', import_ m b t = (t', Ok) -> b_dsets b <> [] -> snd (import_ m' b t') <> Ok.
Proof. exact import_twice_refused. Qed.
Print Assumptions import_repeat_refused.

(* ---- acceptance *)
(* import_into_empty_accepted: the export of a well-formed request on a well-formed source is ACCEPTED by an empty target,
   in every mode.  `wf rank src` are the invariants of a repository built through the public API (C01-C04): dataset ids
   unique, (type, data id, run) unique, run / dataset type / dimension records of every dataset exist, tags only in TAGGED
   collections and unique per (collection, type, data id), validity ranges only in CALIBRATION collections, of calibration
   types, pairwise disjoint per (collection, type, data id), chains acyclic (rank decreases from parent to child chain).
   `well_formed_request`: selected ids exist and have artifacts, saved collections exist, and every child of a saved chain
   is itself saved or the run of an exported dataset.  Together with import_export_exact this is DESIGN's
   import_export_exact at full strength. *)
Theorem import_into_empty_accepted : forall rank m ids cs src, wf rank src -> well_formed_request ids cs src ->
  exists t', exim m ids cs src empty = (t', Ok).
Proof. exact import_into_empty_accepted_l. Qed.
Print Assumptions import_into_empty_accepted.

(* more generally: accepted by every target whose registry content is a part of the source's (same definitions) and
   that has no datastore records and no validity ranges yet *)
Theorem import_into_part_accepted : forall rank m ids cs src t, wf rank src -> well_formed_request ids cs src ->
  agrees src t -> stored t = [] -> calibs t = [] -> exists t', exim m ids cs src t = (t', Ok).
Proof. exact accept_l. Qed.
Print Assumptions import_into_part_accepted.

(* the export itself succeeds, with the collections in an importable order (export_order_ok) *)
Theorem export_accepted : forall rank ids cs src, wf rank src -> well_formed_request ids cs src -> exists b, export ids cs src = XOk b.
Proof. exact export_ok. Qed.
Print Assumptions export_accepted.

(* ---- non-vacuity of the hypotheses: x_src (nested chains 5 -> 4 -> {0, 2}, tags, validity ranges) is well-formed *)
Ltac split_in H := simpl in H; repeat match type of H with _ \/ _ => destruct H as [H|H] end; try contradiction.
Ltac chained_name c Hc :=
  simpl in Hc;
  repeat match type of Hc with
         | (if ?c0 =? ?k then _ else _) = _ => let E := fresh "E" in destruct (c0 =? k) eqn:E;
             [try discriminate; apply N.eqb_eq in E; subst c0 |]
         end; try discriminate.

Example x_src_wf : wf N.to_nat x_src.
Proof.
  constructor.
  - intros d1 d2 H1 H2 He. split_in H1; split_in H2; subst; simpl in He; try discriminate; reflexivity.
  - intros d1 d2 H1 H2 He. split_in H1; split_in H2; subst; vm_compute in He; try discriminate; reflexivity.
  - intros d H. split_in H; subst; vm_compute; auto.
  - intros c n H. split_in H; inversion H; subst; reflexivity.
  - intros c n1 n2 d1 d2 H1 H2 H3 H4 E1 E2 E3 E4. split_in H1; split_in H2; inversion H1; inversion H2; subst; try reflexivity;
      split_in H3; split_in H4; subst; simpl in *; try discriminate; try reflexivity.
  - intros c n r H. split_in H; inversion H; subst; (split; [reflexivity|]); intros d Hd He; split_in Hd; subst; simpl in He; try discriminate; reflexivity.
  - simpl. split; [|split; [|exact I]]; [|intros y []].
    intros y [<-|[]] d d' Hd Hd' E1 E2 _ E3 E4. split_in Hd; split_in Hd'; subst; simpl in *; discriminate.
  - intros c x Hc Hx Hk. chained_name c Hc.
    + split_in Hx; subst; vm_compute in Hk; discriminate.
    + split_in Hx; subst; vm_compute in Hk; try discriminate. vm_compute. lia.
Qed.

Example x_request_wf : well_formed_request [1; 2; 3; 4] [2; 3; 4; 5] x_src.
Proof.
  split; [|split; [|split]].
  - intros n H. split_in H; subst; [exists (D 1 0 0 0) | exists (D 2 0 1 0) | exists (D 3 1 0 1) | exists (D 4 1 2 1)];
      (split; [simpl; tauto | reflexivity]).
  - intros d [H _]. split_in H; subst; vm_compute; discriminate.
  - intros c H. split_in H; subst; reflexivity.
  - intros c x _ Hc Hx. chained_name c Hc.
    + split_in Hx; subst; [right; exists (D 1 0 0 0); repeat split; simpl; tauto | left; simpl; tauto].
    + split_in Hx; subst; [left; simpl; tauto | right; exists (D 3 1 0 1); repeat split; simpl; tauto].
Qed.

Example import_into_empty_accepted_nonvacuous : exists t', exim Copy [1; 2; 3; 4] [2; 3; 4; 5] x_src empty = (t', Ok).
Proof. exact (import_into_empty_accepted N.to_nat Copy _ _ _ x_src_wf x_request_wf). Qed.

(* the conclusions of transfer_exact / transfer_idempotent are reached: see transfer_exact_and_idempotent_instance above;
   a transfer into a partially populated target keeps the record the target already had *)
Example transfer_exact_keeps_existing :
  let t := St [(100, 1); (0, 1)] [(0, 0)] [(0, RUN)] [] [D 1 0 0 0] [(1, (Some 77, true))] [] [] in
  let '(t1, o1, _) := transfer_from Copy [1; 2] true true x_src t in
  o1 = Ok /\ dsets t1 = [D 1 0 0 0; D 2 0 1 0] /\ stored t1 = [(1, (Some 77, true)); (2, (Some 12, true))].
Proof. vm_compute. repeat split. Qed.

(* ==================================================================== wave 4b: "the same dimension records" as a closure *)
(* Model/TransferDims.v: rows of the 11 dimension-element tables copied by transfer_from(transfer_dimensions=True) /
   transfer_dimension_records_from for a selection of data IDs over {visit, detector}, {visit}, {exposure}, {detector}.
   `reach false s sel r`: r is reachable from a selected data ID through required and implied elements (the records of
   the expanded data ID) or through an element populated by `visit` (visit_definition, visit_system_membership) and the
   records those rows point at (exposure, group, visit_system); visit_detector_region only for (visit, detector) pairs
   named by a data ID.  `reach true` additionally allows every region row of a selected visit and its detector. *)
Theorem transfer_dimension_records_closed : forall s sel r, reach false s sel r -> In r (xfer_rows false s sel).
Proof. exact xfer_complete. Qed.
Print Assumptions transfer_dimension_records_closed.

Theorem transfer_dimension_records_nothing_else : forall s sel r, In r (xfer_rows false s sel) -> reach true s sel r.
Proof. exact xfer_sound. Qed.
Print Assumptions transfer_dimension_records_nothing_else.

(* the variant in which the "already a primary record" guard abandons the rest of the populated-by list (`break` instead
   of `continue`) violates the closure: a {visit, detector} dataset with a region row loses its visit_system_membership *)
Theorem populated_by_break_variant_refuted :
  exists s sel r, reach false s sel r /\ In r (xfer_rows false s sel) /\ ~ In r (xfer_rows true s sel).
Proof.
  exists (DS [] [(20, 0)] [(20, 1)]), [(0, 20, 1)], (11, 20, 0). split; [|split].
  - eapply (R_vsm false _ _ 0 20 1 0); [left; reflexivity | reflexivity | left; reflexivity | left; reflexivity].
  - vm_compute. tauto.
  - vm_compute. intuition discriminate.
Qed.
Print Assumptions populated_by_break_variant_refuted.

(* export writes only the records inside the expanded data IDs: populated-by rows are NOT exported (by design:
   saveDimensionData is the documented way) -- witness; the oracle therefore demands them only for the butler-to-butler
   operations *)
Theorem export_omits_populated_by_rows_witness :
  exists s sel r, reach false s sel r /\ In r (xfer_rows false s sel) /\ ~ In r (exim_rows s sel).
Proof.
  exists (DS [] [(20, 0)] []), [(1, 20, 0)], (11, 20, 0). split; [|split].
  - eapply (R_vsm false _ _ 1 20 0 0); [left; reflexivity | reflexivity | left; reflexivity | left; reflexivity].
  - vm_compute. tauto.
  - vm_compute. intuition discriminate.
Qed.
Print Assumptions export_omits_populated_by_rows_witness.

(* quirk of the unchanged code: the guard looks at the primary records of the WHOLE selection, so adding a {visit,
   detector} dataset to a selection removes the region rows that a {visit} dataset alone would bring (transfer of a union
   is not the union of the transfers) *)
Theorem mixed_selection_drops_regions_witness :
  exists s a b r, In r (xfer_rows false s b) /\ ~ In r (xfer_rows false s (a ++ b)).
Proof.
  exists (DS [] [] [(20, 1); (21, 1)]), [(0, 20, 1)], [(1, 21, 0)], (10, 21, 1). split.
  - vm_compute. tauto.
  - vm_compute. intuition discriminate.
Qed.
Print Assumptions mixed_selection_drops_regions_witness.

Example dimension_closure_nonvacuous :
  xfer_rows false (DS [(20, 10); (20, 12)] [(20, 0)] [(20, 1); (20, 2)]) [(0, 20, 1)] =
  [(1, 0, 0); (2, 1, 0); (5, 0, 0); (8, 20, 0); (3, 1, 0); (10, 20, 1);
   (1, 0, 0); (2, 1, 0); (5, 0, 0); (8, 20, 0); (1, 0, 0); (2, 1, 0); (4, 10, 0); (5, 0, 0); (7, 10, 0); (9, 20, 10);
   (1, 0, 0); (2, 1, 0); (5, 0, 0); (8, 20, 0); (1, 0, 0); (2, 1, 0); (4, 12, 0); (5, 0, 0); (7, 12, 0); (9, 20, 12);
   (1, 0, 0); (2, 1, 0); (5, 0, 0); (8, 20, 0); (6, 0, 0); (11, 20, 0)].
Proof. vm_compute. reflexivity. Qed.

(* ==================================================================== wave 4c: associations are computed per dataset type *)
(* Model/TransferAssoc.v is RepoExportContext._computeDatasetAssociations as the loop it is (dataset types in the order in
   which the context met them; collection kinds {TAGGED} plus CALIBRATION only for calibration types).  For EVERY source
   in which validity ranges exist only for calibration types, every selection and every type order that covers the
   exported datasets, the loop yields exactly the association lists of `export` -- so import_export_exact (clauses 3, 4)
   speaks about the code's loop, whatever the order of the saveDatasets calls. *)
Theorem export_associations_per_type_loop : forall ids cs s b tys, export ids cs s = XOk b ->
  (forall n, memN n (map d_id (exp_sel ids s)) = true -> exists ty, type_of n s = Some ty /\ In ty tys) ->
  (forall c n r ty, In (c, n, r) (calibs s) -> type_of n s = Some ty -> is_calib_type ty s = true) ->
  b_tags b = assoc_tags false s (exp_cnames ids cs s) (map d_id (exp_sel ids s)) tys /\
  b_calibs b = assoc_calibs false s (exp_cnames ids cs s) (map d_id (exp_sel ids s)) tys.
Proof. exact export_assoc_is_loop. Qed.
Print Assumptions export_associations_per_type_loop.

(* the variant that LEAVES the loop at the first dataset type without a resolved collection (seed C19c) loses every
   validity range when a non-calibration type is met first and only a CALIBRATION collection is exported; met in the
   other order, or with a TAGGED collection exported as well, nothing is lost *)
Definition a_src : state :=
  St [(100, 1); (0, 1)] [(0, 0); (1, 1)] [(0, RUN); (2, TAGGED); (3, CALIB)] [] [D 1 0 0 0; D 2 1 0 0]
     [(1, (Some 11, true)); (2, (Some 12, true))] [(2, 1)] [(3, 2, (0, 5))].
Theorem associations_break_variant_refuted :
  assoc_calibs false a_src [0; 3] [1; 2] [0; 1] = [(3, 2, (0, 5))] /\
  assoc_calibs true a_src [0; 3] [1; 2] [0; 1] = [] /\
  assoc_calibs true a_src [0; 3] [1; 2] [1; 0] = [(3, 2, (0, 5))] /\
  assoc_calibs true a_src [0; 2; 3] [1; 2] [0; 1] = [(3, 2, (0, 5))] /\
  type_order [1; 2] a_src = [0; 1] /\ type_order [2; 1] a_src = [1; 0].
Proof. vm_compute. repeat split. Qed.
Print Assumptions associations_break_variant_refuted.

Example export_associations_loop_nonvacuous :
  match export [1; 2] [3] a_src with
  | XOk b => b_calibs b = assoc_calibs false a_src (exp_cnames [1; 2] [3] a_src) [1; 2] (type_order [1; 2] a_src) /\ b_calibs b <> []
  | XErr _ => False end.
Proof. vm_compute. split; [reflexivity | discriminate]. Qed.
