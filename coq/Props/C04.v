From Coq Require Import ZArith List Bool.
From V Require Import Gen.TimespanGen Model.Timespan Model.Calib.
Theorem stub : True. Proof. exact I. Qed.
Print Assumptions stub.
