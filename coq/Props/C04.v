(* C04 -- Validity ranges never overlap; decertify removes exactly the requested range.
   Statements only; every proof is `exact <lemma>` from Proofs/CalibProofs.v (the one `_refuted` witness is
   computed).  The model (Model/Calib.v) calls the REGENERATED `py_overlaps` / `py_isEmpty` of
   Gen/TimespanGen.v, so these theorems are re-checked against the comparisons the code has now.

   step true  = the code as it is (with the batch check of /repo commit 8f28e85)
   step false = the code before that repair (used only by the refutation)
   wf t        : GEN_MIN <= begin < end <= GEN_MAX, or t is the canonical empty timespan (C11)
   mem x t     : begin <= x < end
   Inv s       : every stored timespan is wf, and at every instant at most one dataset is valid per
                 (collection, dataset type, data ID)
   valid_at s c ty d x : the datasets valid at instant x, in table order. *)
From Coq Require Import ZArith NArith List Bool Lia.
From V Require Import Base.Tri Gen.TimespanGen Gen.CalibDiffGen Model.Timespan Proofs.TimespanProofs Model.Calib Proofs.CalibProofs
  Model.CalibPath Proofs.CalibProofsX1 Proofs.CalibProofsX2 Proofs.CalibProofsX3.
Import ListNotations.
Open Scope N_scope.

(* ---- the invariant, for every history ---- *)
Theorem disjoint_inv : forall s h, Inv s -> Forall wf_op h ->
  forall c ty d x, (length (valid_at (run true s h) c ty d x) <= 1)%nat.
Proof. exact disjoint_inv_p. Qed.
Print Assumptions disjoint_inv.

Theorem disjoint_inv_from_empty : forall cs ts ds h, Forall wf_op h ->
  forall c ty d x, (length (valid_at (run true (mkState cs ts ds []) h) c ty d x) <= 1)%nat.
Proof. intros cs ts ds h. exact (disjoint_inv_p _ h (inv_empty cs ts ds)). Qed.
Print Assumptions disjoint_inv_from_empty.

Theorem inv_preserved : forall s h, Inv s -> Forall wf_op h -> Inv (run true s h).
Proof. intros s h. exact (run_inv h s). Qed.
Print Assumptions inv_preserved.

(* row form: two different rows of one key never share an instant *)
Theorem disjoint_rows : forall s, Inv s -> forall l1 r1 l2 r2 l3 x, calibs s = l1 ++ r1 :: l2 ++ r2 :: l3 ->
  r_coll r1 = r_coll r2 -> r_ty r1 = r_ty r2 -> r_did r1 = r_did r2 -> mem x (r_ts r1) -> mem x (r_ts r2) -> False.
Proof. exact inv_pairwise_p. Qed.
Print Assumptions disjoint_rows.

Theorem reachable_rows_wf : forall s h, Inv s -> Forall wf_op h -> Forall (fun r => wf (r_ts r)) (calibs (run true s h)).
Proof. exact reachable_rows_wf_p. Qed.
Print Assumptions reachable_rows_wf.

(* WITHOUT the batch-distinctness check the invariant fails: one certify of two datasets with the same
   dataset type + data ID (the defect repaired by 8f28e85; removing the check breaks `disjoint_inv`) *)
Definition refute_state : state := mkState [(0, KCalibration)] [(0, true)] [0; 1] [].
Definition refute_history : list op := [Certify 0 [mkRef 0 0 0; mkRef 1 0 0] (1000, 2000)%Z].
Theorem disjoint_refuted_without_batch_check :
  exists s h c ty d x, Inv s /\ Forall wf_op h /\ length (valid_at (run false s h) c ty d x) = 2%nat.
Proof.
  exists refute_state, refute_history, 0, 0, 0, 1500%Z.
  split; [exact (inv_empty _ _ _)|]. split; [|vm_compute; reflexivity].
  repeat (apply Forall_cons; [left; cbn; unfold GEN_MIN, GEN_MAX; lia|]). apply Forall_nil.
Qed.
Print Assumptions disjoint_refuted_without_batch_check.

(* the same request on the code as it is now: refused, nothing changes *)
Theorem batch_duplicates_refused_now : step true refute_state (hd (Remove 0) refute_history) = (refute_state, Err Conflict).
Proof. vm_compute. reflexivity. Qed.
Print Assumptions batch_duplicates_refused_now.

(* ---- certify ---- *)
Theorem refused_changes_nothing : forall chk s o s' e, step chk s o = (s', Err e) -> s' = s.
Proof. exact refused_changes_nothing_p. Qed.
Print Assumptions refused_changes_nothing.

(* conflict_sem s c ty rs t :=
     (two refs of the batch have the same data ID /\ t is not empty)
  \/ (some stored row of collection c, type ty and a batch data ID shares an instant with t) *)
Theorem certify_refused_iff : forall s c ty refs t,
  lookup c (colls s) = Some KCalibration -> lookup ty (dtypes s) = Some true ->
  refs <> [] -> Forall (fun f => f_ty f = ty) refs -> Forall (fun r => wf (r_ts r)) (calibs s) -> wf t ->
  (snd (certify true s c refs t) = Err Conflict <-> conflict_sem s c ty refs t).
Proof. exact certify_refused_iff_p. Qed.
Print Assumptions certify_refused_iff.

(* manager level (one dataset type of a mixed batch) *)
Theorem certify_group_refused_iff : forall s c k ty rs t,
  lookup ty (dtypes s) = Some true -> is_calib k = true -> Forall (fun r => wf (r_ts r)) (calibs s) -> wf t ->
  (certify_group true s c k ty rs t = inr Conflict <-> conflict_sem s c ty rs t).
Proof. exact certify_group_conflict_iff_p. Qed.
Print Assumptions certify_group_refused_iff.

Theorem certify_accepted_pointwise : forall s c ty refs t s' c' ty' d' x,
  Forall (fun f => f_ty f = ty) refs -> certify true s c refs t = (s', Ok) ->
  valid_at s' c' ty' d' x =
  valid_at s c' ty' d' x ++
  (if (c =? c') && (ty =? ty') && memb x t then map f_ds (filter (fun r => f_did r =? d') refs) else []).
Proof. exact certify_accepted_pointwise_p. Qed.
Print Assumptions certify_accepted_pointwise.

(* ---- decertify ---- *)
(* dec_cond c ty t sel c' ty' d' x := c' = c && ty' = ty && selected sel d' && x in t *)
Theorem decertify_pointwise : forall s c ty t sel s' c' ty' d' x,
  Inv s -> wf t -> decertify s c ty t sel = (s', Ok) ->
  valid_at s' c' ty' d' x = if dec_cond c ty t sel c' ty' d' x then [] else valid_at s c' ty' d' x.
Proof. exact decertify_pointwise_p. Qed.
Print Assumptions decertify_pointwise.

(* without the invariant (any well-formed table) the same holds up to the order of the list *)
Theorem decertify_pointwise_any_table : forall c ty t sel l c' ty' d' x,
  Forall (fun r => wf (r_ts r)) l -> wf t ->
  Permutation.Permutation (va (decertify_rows c ty t sel l) c' ty' d' x)
                          (if dec_cond c ty t sel c' ty' d' x then [] else va l c' ty' d' x).
Proof. exact dec_pointwise_perm. Qed.
Print Assumptions decertify_pointwise_any_table.

Theorem decertify_frame : forall s c ty t sel s' c' ty' d' x,
  Inv s -> wf t -> decertify s c ty t sel = (s', Ok) ->
  (c' <> c \/ ty' <> ty \/ selected sel d' = false \/ ~ mem x t) ->
  valid_at s' c' ty' d' x = valid_at s c' ty' d' x.
Proof. exact decertify_frame_p. Qed.
Print Assumptions decertify_frame.

Theorem decertify_clears : forall s c ty t sel s' d' x,
  Inv s -> wf t -> decertify s c ty t sel = (s', Ok) -> selected sel d' = true -> mem x t ->
  valid_at s' c ty d' x = [].
Proof. exact decertify_clears_p. Qed.
Print Assumptions decertify_clears.

Theorem decertify_ok_iff : forall s c ty t sel,
  snd (decertify s c ty t sel) = Ok <-> (lookup c (colls s) = Some KCalibration /\ lookup ty (dtypes s) = Some true).
Proof. exact decertify_ok_iff_p. Qed.
Print Assumptions decertify_ok_iff.

(* the REGENERATED Timespan.difference (Gen/CalibDiffGen.v, from the current source) that `decertify` re-inserts: pieces
   well formed, pairwise disjoint, covering exactly a \ b (C11's difference_spec transported to the generated code) *)
Theorem generated_difference_spec : forall a b, wf a -> wf b ->
  Forall wf (py_difference a b) /\
  (forall x p q, In p (py_difference a b) -> In q (py_difference a b) -> mem x p -> mem x q -> p = q) /\
  (forall x, (exists p, In p (py_difference a b) /\ mem x p) <-> (mem x a /\ ~ mem x b)).
Proof. intros a b Ha Hb. rewrite py_difference_diff. destruct (diff_spec_p a b Ha Hb) as (H1 & _ & H3 & H4). split; [exact H1|]. split; [exact H3|exact H4]. Qed.
Print Assumptions generated_difference_spec.

(* ---- remove ---- *)
Theorem remove_pointwise : forall s ds c ty d x,
  valid_at (fst (remove s ds)) c ty d x = filter (fun n => negb (n =? ds)) (valid_at s c ty d x).
Proof. exact remove_pointwise_p. Qed.
Print Assumptions remove_pointwise.

(* ---- lookups: the unique overlapping dataset, or ambiguity, never an arbitrary one ---- *)
Theorem lookup_span_spec : forall s c ty d q,
  (forall ds, lookup_span s c ty d q = Unique ds <-> exists r, overlapping s c ty d q = [r] /\ r_ds r = ds) /\
  (lookup_span s c ty d q = Ambiguous <-> (length (overlapping s c ty d q) >= 2)%nat) /\
  (lookup_span s c ty d q = NotFound <-> overlapping s c ty d q = []).
Proof. exact lookup_span_spec_p. Qed.
Print Assumptions lookup_span_spec.

Theorem overlapping_is_set_overlap : forall s c ty d q r, Forall (fun r => wf (r_ts r)) (calibs s) -> wf q ->
  (In r (overlapping s c ty d q) <->
   In r (calibs s) /\ r_coll r = c /\ r_ty r = ty /\ r_did r = d /\ exists x, mem x (r_ts r) /\ mem x q).
Proof. exact overlapping_sem. Qed.
Print Assumptions overlapping_is_set_overlap.

(* at an instant (1-ns span) a lookup on a reachable state is never ambiguous and returns the valid dataset *)
Theorem lookup_instant : forall s c ty d x, Inv s ->
  lookup_span s c ty d (x, x + 1)%Z <> Ambiguous /\
  (forall ds, lookup_span s c ty d (x, x + 1)%Z = Unique ds <-> valid_at s c ty d x = [ds]) /\
  (lookup_span s c ty d (x, x + 1)%Z = NotFound <-> valid_at s c ty d x = []).
Proof. exact lookup_instant_p. Qed.
Print Assumptions lookup_instant.

(* the ordered-path lookup (one pass with best rank + tie flag, as coded) over a single collection is the plain lookup *)
Theorem lookup_path_single : forall s c ty d q, lookup_path s [c] ty d q = lookup_span s c ty d q.
Proof. exact lookup_path_single_p. Qed.
Print Assumptions lookup_path_single.

(* ---- ordered search paths of ANY length (Model/CalibPath.v, Proofs/CalibProofsX1.v) ----
   lookup_path  : SqlRegistry.findDataset as coded -- one SELECT over all searched collections, then ONE pass over the
                  rows (in whatever order the database returns them) keeping the best-ranked row and a tie flag
   lookup_first : the specification -- walk the path; the first collection whose own lookup is not NotFound decides
                  (its dataset, or its ambiguity); later collections are not consulted *)
Theorem lookup_path_first_wins : forall s path ty d q, lookup_path s path ty d q = lookup_first s path ty d q.
Proof. exact lookup_path_first_wins_p. Qed.
Print Assumptions lookup_path_first_wins.

(* the same for any row list (calibration rows, RUN / TAGGED rows ...) *)
Theorem lookup_rows_first_wins : forall rows path ty d q, lookup_rows rows path ty d q = first_rows rows path ty d q.
Proof. exact lookup_rows_first_wins_p. Qed.
Print Assumptions lookup_rows_first_wins.

Theorem lookup_path_decided_by_first : forall s pre c post ty d q,
  (forall c', In c' pre -> lookup_span s c' ty d q = NotFound) -> lookup_span s c ty d q <> NotFound ->
  lookup_path s (pre ++ c :: post) ty d q = lookup_span s c ty d q.
Proof. exact lookup_path_decided_p. Qed.
Print Assumptions lookup_path_decided_by_first.

Theorem lookup_path_notfound_iff : forall s path ty d q,
  lookup_path s path ty d q = NotFound <-> (forall c, In c path -> lookup_span s c ty d q = NotFound).
Proof. exact lookup_path_notfound_iff_p. Qed.
Print Assumptions lookup_path_notfound_iff.

(* never an arbitrary one: a returned dataset is THE one overlapping row of the first collection that has any *)
Theorem lookup_path_unique_sound : forall s path ty d q ds, lookup_path s path ty d q = Unique ds ->
  exists pre c post r, path = pre ++ c :: post /\ (forall c', In c' pre -> overlapping s c' ty d q = []) /\
                       overlapping s c ty d q = [r] /\ r_ds r = ds.
Proof. exact lookup_path_unique_sound_p. Qed.
Print Assumptions lookup_path_unique_sound.

(* ambiguity inside the first collection that has a row is reported, whatever comes later in the path *)
Theorem lookup_path_ambiguous_iff : forall s path ty d q, lookup_path s path ty d q = Ambiguous <->
  exists pre c post, path = pre ++ c :: post /\ (forall c', In c' pre -> overlapping s c' ty d q = []) /\
                     (length (overlapping s c ty d q) >= 2)%nat.
Proof. exact lookup_path_ambiguous_iff_p. Qed.
Print Assumptions lookup_path_ambiguous_iff.

(* the answer does not depend on the order in which the database returns the rows *)
Theorem lookup_rows_order_irrelevant : forall rows rows' path ty d q, Permutation.Permutation rows rows' ->
  lookup_rows rows path ty d q = lookup_rows rows' path ty d q.
Proof. exact lookup_rows_perm_p. Qed.
Print Assumptions lookup_rows_order_irrelevant.

(* at an instant, on a reachable state: never ambiguous; the dataset valid in the first collection where one is valid *)
Theorem lookup_path_instant : forall s path ty d x, Inv s ->
  lookup_path s path ty d (x, x + 1)%Z <> Ambiguous /\
  (forall ds, lookup_path s path ty d (x, x + 1)%Z = Unique ds <->
     exists pre c post, path = pre ++ c :: post /\ (forall c', In c' pre -> valid_at s c' ty d x = []) /\ valid_at s c ty d x = [ds]).
Proof. exact lookup_path_instant_p. Qed.
Print Assumptions lookup_path_instant.

(* the loop of seed C04b (leave the scan as soon as a rank-0 row displaces a worse one) is NOT first-wins: the second
   row of the preferred collection is never seen and one of the two datasets is returned instead of the ambiguity *)
Definition early_rows : list crow :=
  [ mkRow 1 0 0 2 (GEN_MIN, GEN_MAX); mkRow 0 0 0 0 (1000, 2000)%Z; mkRow 0 0 0 1 (2000, 3000)%Z ].
Theorem early_exit_refuted :
  scan_break r_ds (path_rows_of early_rows [0; 1] 0 0 0 (1999, 2001)%Z) = Unique 0 /\
  lookup_rows early_rows [0; 1] 0 0 (1999, 2001)%Z = Ambiguous /\
  first_rows early_rows [0; 1] 0 0 (1999, 2001)%Z = Ambiguous.
Proof. vm_compute. repeat split; reflexivity. Qed.
Print Assumptions early_exit_refuted.

(* ---- CHAINED and RUN collections in the search path (xlookup: flatten depth-first, drop repeated collections,
        tags rows UNION calibs rows, the same scan) ---- *)
Theorem xlookup_first_wins : forall fuel e s path p ty d q, flatten fuel (e_chains e) path = Some p ->
  xlookup fuel e s path ty d q = Some (first_rows (all_rows e s) p ty d q).
Proof. exact xlookup_first_wins_p. Qed.
Print Assumptions xlookup_first_wins.

(* a chain whose flattened members are calibration collections is the plain ordered lookup over them *)
Theorem xlookup_calibration_chain : forall fuel e s path p ty d q,
  flatten fuel (e_chains e) path = Some p -> Forall (not_a_run e) p ->
  xlookup fuel e s path ty d q = Some (lookup_first s p ty d q).
Proof. exact xlookup_calibration_chain_p. Qed.
Print Assumptions xlookup_calibration_chain.

(* a chain inside a path is searched exactly as if its flattened children stood in its place *)
Theorem xlookup_chain_inline : forall f e s pre c kids post p1 k p2 ty d q,
  lookup c (e_chains e) = Some kids -> flatten f (e_chains e) kids = Some k ->
  flatten (S f) (e_chains e) pre = Some p1 -> flatten (S f) (e_chains e) post = Some p2 ->
  xlookup (S f) e s (pre ++ c :: post) ty d q = Some (first_rows (all_rows e s) (p1 ++ k ++ p2) ty d q).
Proof. exact xlookup_chain_inline_p. Qed.
Print Assumptions xlookup_chain_inline.

Theorem flatten_no_chain : forall f ch path, (forall c, In c path -> lookup c ch = None) -> flatten (S f) ch path = Some path.
Proof. exact flatten_plain. Qed.
Print Assumptions flatten_no_chain.

(* fuel: more fuel never changes a flattening, and a chain table that admits a rank function decreasing from a chain to
   its children (no cycles -- the registry refuses to create one) always has enough *)
Theorem flatten_fuel_monotone : forall ch f path r, flatten f ch path = Some r -> flatten (S f) ch path = Some r.
Proof. exact flatten_mono. Qed.
Print Assumptions flatten_fuel_monotone.

Theorem flatten_fuel_adequate : forall rk ch, acyclic_by rk ch ->
  forall f path, (forall c, In c path -> (rk c <= f)%nat) -> exists r, flatten (S f) ch path = Some r.
Proof. exact flatten_enough. Qed.
Print Assumptions flatten_fuel_adequate.

(* what one collection contributes: the RUN members (live, right type + data ID, any probe with an instant) and the
   overlapping calibration rows *)
Theorem collection_rows : forall e s c ty d q,
  coll_rows (all_rows e s) c ty d q = coll_rows (run_rows e s) c ty d q ++ overlapping s c ty d q.
Proof. exact coll_rows_all. Qed.
Print Assumptions collection_rows.

Theorem run_member_seen : forall e s c ty d q r, In r (coll_rows (run_rows e s) c ty d q) <->
  exists f, In (c, f) (e_runs e) /\ memN (f_ds f) (dsets s) = true /\ f_ty f = ty /\ f_did f = d /\
            py_overlaps (GEN_MIN, GEN_MAX) q = true /\ r = mkRow c ty d (f_ds f) (GEN_MIN, GEN_MAX).
Proof. exact run_member_rows. Qed.
Print Assumptions run_member_seen.

Theorem run_member_overlaps_iff : forall q, wf q -> (py_overlaps (GEN_MIN, GEN_MAX) q = true <-> exists x, mem x q).
Proof. exact run_row_overlaps. Qed.
Print Assumptions run_member_overlaps_iff.

(* SQL UNION (SELECT DISTINCT) of the two subqueries removes nothing on a reachable state *)
Theorem overlapping_rows_distinct : forall s c ty d q, Inv s -> wf q -> NoDup (overlapping s c ty d q).
Proof. exact overlapping_nodup_p. Qed.
Print Assumptions overlapping_rows_distinct.

(* ---- queryDatasetAssociations reports the rows of the same interval map ---- *)
Theorem valid_at_from_associations : forall s c ty d x,
  valid_at s c ty d x = map r_ds (filter (fun r => (r_did r =? d) && memb x (r_ts r)) (associations s [c] ty)).
Proof. exact valid_at_assoc_p. Qed.
Print Assumptions valid_at_from_associations.

Theorem overlapping_from_associations : forall s c ty d q,
  overlapping s c ty d q = filter (fun r => (r_did r =? d) && py_overlaps (r_ts r) q) (associations s [c] ty).
Proof. exact overlapping_assoc_p. Qed.
Print Assumptions overlapping_from_associations.

Theorem associations_are_the_rows : forall s cs ty r,
  In r (associations s cs ty) <-> In r (calibs s) /\ In (r_coll r) cs /\ r_ty r = ty.
Proof. exact assoc_in. Qed.
Print Assumptions associations_are_the_rows.

(* ---- non-vacuity: a reachable state with a refused certify, a split range and an ambiguous span lookup ---- *)
Definition ex_state : state := mkState [(0, KCalibration); (2, KRun)] [(0, true); (2, false)] [0; 1; 2] [].
Definition ex_history : list op :=
  [ Certify 0 [mkRef 0 0 0; mkRef 2 0 1] (1000, 3000)%Z;
    Certify 0 [mkRef 1 0 0] (2999, 3001)%Z;                     (* refused: 1 ns overlap *)
    Certify 0 [mkRef 1 0 0] (3000, GEN_MAX)%Z;                  (* adjacent, unbounded end: accepted *)
    Decertify 0 0 (1500, 2000)%Z (Some [0]);                    (* splits the first range of data ID 0 only *)
    Certify 2 [mkRef 0 0 0] (0, 1)%Z ].                         (* refused: not a CALIBRATION collection *)
Example ex_wf : Inv ex_state /\ Forall wf_op ex_history.
Proof.
  split; [exact (inv_empty _ _ _)|].
  repeat (apply Forall_cons; [left; cbn; unfold GEN_MIN, GEN_MAX; lia|]). apply Forall_nil.
Qed.
Example ex_outcomes :
  snd (step true ex_state (nth 0 ex_history (Remove 0))) = Ok /\
  snd (step true (run true ex_state (firstn 1 ex_history)) (nth 1 ex_history (Remove 0))) = Err Conflict /\
  snd (step true (run true ex_state (firstn 4 ex_history)) (nth 4 ex_history (Remove 0))) = Err CollectionTypeErr /\
  calibs (run true ex_state ex_history) =
    [ mkRow 0 0 1 2 (1000, 3000)%Z; mkRow 0 0 0 1 (3000, GEN_MAX)%Z; mkRow 0 0 0 0 (1000, 1500)%Z; mkRow 0 0 0 0 (2000, 3000)%Z ] /\
  valid_at (run true ex_state ex_history) 0 0 0 1499 = [0] /\ valid_at (run true ex_state ex_history) 0 0 0 1500 = [] /\
  valid_at (run true ex_state ex_history) 0 0 1 1500 = [2] /\ valid_at (run true ex_state ex_history) 0 0 0 3000 = [1] /\
  lookup_span (run true ex_state ex_history) 0 0 0 (1400, 2100)%Z = Ambiguous /\
  lookup_span (run true ex_state ex_history) 0 0 0 (1500, 2000)%Z = NotFound /\
  lookup_span (run true ex_state ex_history) 0 0 0 (1999, 2001)%Z = Unique 0.
Proof. vm_compute. repeat split; reflexivity. Qed.

(* paths: preferred collection 0 (two adjacent ranges), fallback collection 1 (unbounded), chain 5 = [0; 1], RUN 2 *)
Definition px_state : state := mkState [(0, KCalibration); (1, KCalibration); (2, KRun)] [(0, true)] [0; 1; 2; 3] [].
Definition px_history : list op :=
  [ Certify 1 [mkRef 2 0 0] (GEN_MIN, GEN_MAX); Certify 0 [mkRef 0 0 0] (1000, 2000)%Z; Certify 0 [mkRef 1 0 0] (2000, 3000)%Z ].
Definition px_env : penv := mkEnv [(5, [0; 1]); (6, [5; 2])] [(2, mkRef 3 0 0)].
Example px_outcomes :
  let s := run true px_state px_history in
  lookup_path s [0; 1] 0 0 (1500, 1600)%Z = Unique 0 /\ lookup_path s [0; 1] 0 0 (1999, 2001)%Z = Ambiguous /\
  lookup_path s [0; 1] 0 0 (5000, 6000)%Z = Unique 2 /\ lookup_path s [1; 0] 0 0 (1999, 2001)%Z = Unique 2 /\
  xlookup 4 px_env s [5] 0 0 (1999, 2001)%Z = Some Ambiguous /\ xlookup 4 px_env s [2; 5] 0 0 (1999, 2001)%Z = Some (Unique 3) /\
  xlookup 4 px_env s [6] 0 0 (5000, 6000)%Z = Some (Unique 2) /\ xlookup 4 px_env s [6] 0 0 (GEN_MAX, GEN_MIN) = Some NotFound /\
  flatten 4 (e_chains px_env) [6; 0] = Some [0; 1; 2; 0].
Proof. vm_compute. repeat split; reflexivity. Qed.
