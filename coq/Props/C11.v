(* C11 -- Timespans are half-open sets of nanoseconds, identically in Python and in SQL.
   Statements only; every proof is `exact <lemma>` from Proofs/TimespanProofs.v.  The py_* / sql_*
   definitions are REGENERATED from /repo's working tree (Gen/TimespanGen.v) on every run, so these
   theorems are re-checked against what the code says now. *)
From Coq Require Import ZArith List Bool.
From V Require Import Base.Tri Gen.TimespanGen Model.Timespan Proofs.TimespanProofs Proofs.TimespanProofsAlg.
Import ListNotations.
Open Scope Z_scope.

(* wf a  :=  GEN_MIN <= begin < end <= GEN_MAX  \/  a is the canonical empty (GEN_MAX, GEN_MIN)
   mem x a := begin <= x < end *)

Theorem mk_canonical : forall b e, GEN_MIN <= b -> e <= GEN_MAX -> wf (py_mk b e).
Proof. exact mk_canonical_p. Qed.
Print Assumptions mk_canonical.

Theorem mk_mem : forall b e x, mem x (py_mk b e) <-> b <= x < e.
Proof. exact mk_mem_p. Qed.
Print Assumptions mk_mem.

Theorem isEmpty_spec : forall a, wf a -> (py_isEmpty a = true <-> forall x, ~ mem x a).
Proof. exact isEmpty_spec_p. Qed.
Print Assumptions isEmpty_spec.

Theorem empty_is_canonical : forall a, wf a -> (py_isEmpty a = true <-> a = (GEN_MAX, GEN_MIN)).
Proof. exact isEmpty_canonical_p. Qed.
Print Assumptions empty_is_canonical.

Theorem overlaps_spec : forall a b, wf a -> wf b -> (py_overlaps a b = true <-> exists x, mem x a /\ mem x b).
Proof. exact overlaps_spec_p. Qed.
Print Assumptions overlaps_spec.

Theorem contains_spec : forall a b, wf a -> wf b -> (py_contains a b = true <-> forall x, mem x b -> mem x a).
Proof. exact contains_spec_p. Qed.
Print Assumptions contains_spec.

Theorem contains_instant_spec : forall a x, wf a -> (py_contains_t a x = true <-> mem x a).
Proof. exact contains_t_spec_p. Qed.
Print Assumptions contains_instant_spec.

Theorem overlaps_instant_spec : forall a x, wf a -> (py_overlaps_t a x = true <-> mem x a).
Proof. exact overlaps_t_spec_p. Qed.
Print Assumptions overlaps_instant_spec.

Theorem lt_spec : forall a b, wf a -> wf b ->
  (py_lt a b = true <-> nonempty a /\ nonempty b /\ forall x y, mem x a -> mem y b -> x < y).
Proof. exact lt_spec_p. Qed.
Print Assumptions lt_spec.

Theorem gt_spec : forall a b, wf a -> wf b ->
  (py_gt a b = true <-> nonempty a /\ nonempty b /\ forall x y, mem x a -> mem y b -> x > y).
Proof. exact gt_spec_p. Qed.
Print Assumptions gt_spec.

(* instants are clamped into [GEN_MIN, GEN_MAX] by astropy_to_nsec: that is the in_range guard *)
Theorem lt_instant_spec : forall a x, wf a -> in_range x ->
  (py_lt_t a x = true <-> nonempty a /\ forall y, mem y a -> y < x).
Proof. exact lt_t_spec_p. Qed.
Print Assumptions lt_instant_spec.

Theorem gt_instant_spec : forall a x, wf a -> in_range x ->
  (py_gt_t a x = true <-> nonempty a /\ forall y, mem y a -> y > x).
Proof. exact gt_t_spec_p. Qed.
Print Assumptions gt_instant_spec.

Theorem intersection_spec : forall a bs, wf a -> Forall wf bs ->
  wf (inter GEN_MAX a bs) /\ forall x, mem x (inter GEN_MAX a bs) <-> (mem x a /\ Forall (mem x) bs).
Proof. exact inter_spec_p. Qed.
Print Assumptions intersection_spec.

Theorem difference_spec : forall a b, wf a -> wf b ->
  Forall wf (diff GEN_MAX a b)
  /\ (nonempty a -> Forall nonempty (diff GEN_MAX a b))
  /\ (forall x p q, In p (diff GEN_MAX a b) -> In q (diff GEN_MAX a b) -> mem x p -> mem x q -> p = q)
  /\ (forall x, (exists p, In p (diff GEN_MAX a b) /\ mem x p) <-> (mem x a /\ ~ mem x b)).
Proof. exact diff_spec_p. Qed.
Print Assumptions difference_spec.

(* equality (and therefore hash, which is computed from the same pair) is set equality: this is
   where the single canonical empty value is needed *)
Theorem eq_is_set_equality : forall a b, wf a -> wf b -> (a = b <-> forall x, mem x a <-> mem x b).
Proof. exact eq_ext_p. Qed.
Print Assumptions eq_is_set_equality.

Theorem eq_method_spec : forall a b, py_eq a b = true <-> a = b.
Proof. exact py_eq_spec_p. Qed.
Print Assumptions eq_method_spec.

(* Algebraic laws of the relations (derived from the set-level characterisations above, so they
   re-prove after any rewrite of the code that keeps those): what a caller reasoning about
   validity ranges relies on without ever looking at endpoints. *)
Theorem overlaps_symmetric : forall a b, wf a -> wf b -> py_overlaps a b = py_overlaps b a.
Proof. exact overlaps_sym_p. Qed.
Print Assumptions overlaps_symmetric.

Theorem lt_gt_dual : forall a b, wf a -> wf b -> py_lt a b = py_gt b a.
Proof. exact lt_gt_dual_p. Qed.
Print Assumptions lt_gt_dual.

Theorem lt_strict_order : forall a b c, wf a -> wf b -> wf c ->
  py_lt a a = false
  /\ (py_lt a b = true -> py_lt b a = false)
  /\ (py_lt a b = true -> py_lt b c = true -> py_lt a c = true).
Proof.
  intros a b c Ha Hb Hc; split; [ exact (lt_irrefl_p a Ha) | split ];
    [ exact (lt_asym_p a b Ha Hb) | exact (lt_trans_p a b c Ha Hb Hc) ].
Qed.
Print Assumptions lt_strict_order.

Theorem contains_partial_order : forall a b c, wf a -> wf b -> wf c ->
  py_contains a a = true
  /\ (py_contains a b = true -> py_contains b a = true -> a = b)
  /\ (py_contains a b = true -> py_contains b c = true -> py_contains a c = true).
Proof.
  intros a b c Ha Hb Hc; split; [ exact (contains_refl_p a Ha) | split ];
    [ exact (contains_antisym_p a b Ha Hb) | exact (contains_trans_p a b c Ha Hb Hc) ].
Qed.
Print Assumptions contains_partial_order.

Theorem contains_nonempty_overlaps : forall a b, wf a -> wf b -> nonempty b ->
  py_contains a b = true -> py_overlaps a b = true.
Proof. exact contains_nonempty_overlaps_p. Qed.
Print Assumptions contains_nonempty_overlaps.

(* the empty span overlaps nothing, is before / after nothing, and is contained in everything *)
Theorem empty_relations : forall a b, wf a -> wf b -> py_isEmpty a = true ->
  py_overlaps a b = false /\ py_overlaps b a = false
  /\ py_lt a b = false /\ py_gt a b = false /\ py_contains b a = true.
Proof. exact empty_overlaps_nothing_p. Qed.
Print Assumptions empty_relations.

(* two non-empty spans are in EXACTLY one of: before, after, overlapping *)
Theorem relation_trichotomy : forall a b, wf a -> wf b -> nonempty a -> nonempty b ->
  (py_lt a b = true /\ py_gt a b = false /\ py_overlaps a b = false)
  \/ (py_lt a b = false /\ py_gt a b = true /\ py_overlaps a b = false)
  \/ (py_lt a b = false /\ py_gt a b = false /\ py_overlaps a b = true).
Proof. exact trichotomy_p. Qed.
Print Assumptions relation_trichotomy.

Theorem overlaps_iff_intersection_nonempty : forall a b, wf a -> wf b ->
  (py_overlaps a b = true <-> nonempty (inter GEN_MAX a [b])).
Proof. exact overlaps_iff_inter_nonempty_p. Qed.
Print Assumptions overlaps_iff_intersection_nonempty.

(* pairwise intersection is a meet: commutative, associative, idempotent, and `contains` is the
   order it induces -- as equalities of VALUES (canonical empty span) *)
Theorem intersection_meet_laws : forall a b c, wf a -> wf b -> wf c ->
  inter GEN_MAX a [b] = inter GEN_MAX b [a]
  /\ inter GEN_MAX (inter GEN_MAX a [b]) [c] = inter GEN_MAX a [inter GEN_MAX b [c]]
  /\ inter GEN_MAX a [a] = a.
Proof.
  intros a b c Ha Hb Hc; split; [ exact (inter_comm_p a b Ha Hb) | split ];
    [ exact (inter_assoc_p a b c Ha Hb Hc) | exact (inter_idem_p a Ha) ].
Qed.
Print Assumptions intersection_meet_laws.

Theorem contains_iff_intersection : forall a b, wf a -> wf b ->
  (py_contains a b = true <-> inter GEN_MAX a [b] = b).
Proof. exact contains_iff_inter_p. Qed.
Print Assumptions contains_iff_intersection.

(* non-vacuity of the algebraic laws: concrete well-formed non-empty spans in each relation *)
Example relation_examples :
  wf (0, 10) /\ wf (10, 20) /\ wf (5, 15) /\ nonempty (0, 10) /\ nonempty (10, 20)
  /\ py_lt (0, 10) (10, 20) = true /\ py_gt (10, 20) (0, 10) = true
  /\ py_overlaps (0, 10) (5, 15) = true /\ py_contains (0, 10) (5, 15) = false.
Proof.
  repeat split; try (left; cbv; repeat split; congruence); try (exists 5; cbv; split; congruence);
    try (exists 15; cbv; split; congruence); reflexivity.
Qed.

(* SQL form = Python form on non-NULL operands *)
Theorem sql_agrees_isEmpty : forall a, sql_isEmpty (lit a) = tri_of_bool (py_isEmpty a).
Proof. exact sql_agrees_isEmpty_p. Qed.
Print Assumptions sql_agrees_isEmpty.
Theorem sql_agrees_contains : forall a b, sql_contains (lit a) (lit b) = tri_of_bool (py_contains a b).
Proof. exact sql_agrees_contains_p. Qed.
Print Assumptions sql_agrees_contains.
Theorem sql_agrees_contains_instant : forall a x, sql_contains_t (lit a) (Some x) = tri_of_bool (py_contains_t a x).
Proof. exact sql_agrees_contains_t_p. Qed.
Print Assumptions sql_agrees_contains_instant.
Theorem sql_agrees_lt : forall a b, sql_lt (lit a) (lit b) = tri_of_bool (py_lt a b).
Proof. exact sql_agrees_lt_p. Qed.
Print Assumptions sql_agrees_lt.
Theorem sql_agrees_lt_instant : forall a x, sql_lt_t (lit a) (Some x) = tri_of_bool (py_lt_t a x).
Proof. exact sql_agrees_lt_t_p. Qed.
Print Assumptions sql_agrees_lt_instant.
Theorem sql_agrees_gt : forall a b, sql_gt (lit a) (lit b) = tri_of_bool (py_gt a b).
Proof. exact sql_agrees_gt_p. Qed.
Print Assumptions sql_agrees_gt.
Theorem sql_agrees_gt_instant : forall a x, sql_gt_t (lit a) (Some x) = tri_of_bool (py_gt_t a x).
Proof. exact sql_agrees_gt_t_p. Qed.
Print Assumptions sql_agrees_gt_instant.
Theorem sql_agrees_overlaps : forall a b, sql_overlaps (lit a) (lit b) = tri_of_bool (py_overlaps a b).
Proof. exact sql_agrees_overlaps_p. Qed.
Print Assumptions sql_agrees_overlaps.
Theorem sql_agrees_overlaps_instant : forall a x, sql_overlaps_t (lit a) (Some x) = tri_of_bool (py_overlaps_t a x).
Proof. exact sql_agrees_overlaps_t_p. Qed.
Print Assumptions sql_agrees_overlaps_instant.

(* a NULL operand never makes a relationship TRUE (the row is not selected) *)
Theorem sql_null_never_true : forall (b : sts) (x : sv),
  sql_isEmpty null_ts <> TT /\
  sql_contains null_ts b <> TT /\ sql_contains b null_ts <> TT /\
  sql_lt null_ts b <> TT /\ sql_lt b null_ts <> TT /\
  sql_gt null_ts b <> TT /\ sql_gt b null_ts <> TT /\
  sql_overlaps null_ts b <> TT /\ sql_overlaps b null_ts <> TT /\
  sql_contains_t null_ts x <> TT /\ sql_contains_t b None <> TT /\
  sql_lt_t null_ts x <> TT /\ sql_lt_t b None <> TT /\
  sql_gt_t null_ts x <> TT /\ sql_gt_t b None <> TT /\
  sql_overlaps_t null_ts x <> TT /\ sql_overlaps_t b None <> TT.
Proof. exact sql_null_p. Qed.
Print Assumptions sql_null_never_true.

(* conversion, exact-arithmetic core (PARTIAL: the bound 2|e| < q on the floating-point error of the
   two-part Julian-date arithmetic is a hypothesis here; it is sampled by the correspondence check) *)
Theorem conv_round_absorbs_partial : forall r e q, 0 < q -> 2 * Z.abs e < q -> round_div (r * q + e) q = r.
Proof. exact round_absorbs_p. Qed.
Print Assumptions conv_round_absorbs_partial.

Theorem conv_roundtrip_exact_partial : forall n d r e q,
  0 < q -> n = d * NPD + r -> 2 * Z.abs e < q -> to_nsec_exact d (r * q + e) q = n.
Proof. exact conv_roundtrip_exact_p. Qed.
Print Assumptions conv_roundtrip_exact_partial.

Theorem conv_monotone_partial : forall n1 n2 d1 r1 e1 d2 r2 e2 q,
  0 < q -> n1 = d1 * NPD + r1 -> n2 = d2 * NPD + r2 -> 2 * Z.abs e1 < q -> 2 * Z.abs e2 < q ->
  n1 < n2 -> to_nsec_exact d1 (r1 * q + e1) q < to_nsec_exact d2 (r2 * q + e2) q.
Proof. exact conv_monotone_p. Qed.
Print Assumptions conv_monotone_partial.

(* non-vacuity: the hypotheses are met by ordinary, unbounded and empty timespans *)
Example wf_examples : wf (5, 10) /\ wf (GEN_MIN, GEN_MAX) /\ wf (GEN_MAX - 1, GEN_MAX) /\ wf (py_mk 7 7)
  /\ nonempty (5, 10) /\ in_range 0 /\ in_range GEN_MAX.
Proof.
  unfold wf, nonempty, in_range, mem, py_mk, GEN_MIN, GEN_MAX; cbn [fst snd].
  repeat split; try Lia.lia; try (right; reflexivity); exists 5; cbn; Lia.lia.
Qed.

(* ------------------------------------------------------------------------------------------------
   Conversion clause, floating point (C11 extender).  The binary64 operation sequence of
   TimeConverter.nsec_to_astropy / astropy_to_nsec (incl. astropy's Time.__sub__, TimeDelta, day_frac,
   two_sum, two_product, split and numpy's round) is the term Model/TimeConv.v, written once over an
   abstract record of operations.  Here it is instantiated (Model/TimeConvR.v) with
     RN x = round radix2 (FLT_exp (-1074) 53) ZnearestE x      (Flocq: IEEE 754 binary64, nearest-even)
   applied to the exact result of every +, -, *, / ; the SAME term instantiated with Coq's primitive
   floats is compared bit for bit with Python on every run (Model/TimeConvPrim.v, harness/props/c11.py).
   These theorems depend on the standard library's axioms for the real numbers (named by Print
   Assumptions below); the 29 theorems above do not. *)
From Coq Require Import Reals.
From Flocq Require Import Core.
From V Require Import Model.TimeConv Model.TimeConvR Proofs.TimeConvProofs Proofs.TimeConvProofs2 Proofs.TimeConvProofs3.
Open Scope Z_scope.

(* the constants of the conversion model are the regenerated bounds of the Timespan model *)
Theorem conv_range_is_timespan_range : TC_MAX_NSEC = GEN_MAX /\ 0 = GEN_MIN /\ TC_MAX_NSEC = 47482 * TC_NPD.
Proof. repeat split. Qed.
Print Assumptions conv_range_is_timespan_range.

(* MAIN: nsec -> astropy (jd1, jd2) -> nsec is the identity for EVERY integer of the supported range *)
Theorem conv_roundtrip_float : forall n : Z, 0 <= n <= TC_MAX_NSEC -> conv_roundtrip n = n.
Proof. exact conv_roundtrip_float_p. Qed.
Print Assumptions conv_roundtrip_float.

(* hence order-preserving through the round trip ... *)
Theorem conv_monotone_float : forall n1 n2 : Z,
  0 <= n1 -> n1 < n2 -> n2 <= TC_MAX_NSEC -> conv_roundtrip n1 < conv_roundtrip n2.
Proof. intros n1 n2 H0 H1 H2. rewrite !conv_roundtrip_float_p by Lia.lia. exact H1. Qed.
Print Assumptions conv_monotone_float.

(* ... and the astropy times themselves are strictly increasing for astropy's Time.__lt__
   ((jd1 - jd1') + (jd2 - jd2') < 0.0 in binary64) *)
Theorem conv_order_float : forall n1 n2 : Z,
  0 <= n1 -> n1 < n2 -> n2 <= TC_MAX_NSEC ->
  tc_time_lt R r_ops (tc_nsec_to_jd R r_ops n1) (tc_nsec_to_jd R r_ops n2) = true.
Proof. exact order_R. Qed.
Print Assumptions conv_order_float.

(* nsec_to_astropy: jd1 is exactly the day number, jd2 is a binary64 number in [-1/2, 1/2] within
   2^-52 day (0.02 ns) of the exact day fraction minus 1/2; the `while jd2 > 0.5` loop is never entered *)
Theorem conv_nsec_to_jd_float : forall n : Z, 0 <= n <= TC_MAX_NSEC ->
  exists j2 : R,
    tc_nsec_to_jd R r_ops n = (IZR (TC_EPOCH_JD1 + n / TC_NPD), j2)
    /\ generic_format radix2 b64_exp j2 /\ (Rabs j2 <= / 2)%R
    /\ (Rabs (j2 - (IZR (n mod TC_NPD) / IZR TC_NPD - / 2)) <= bpow radix2 (-52))%R.
Proof. exact fwd_R. Qed.
Print Assumptions conv_nsec_to_jd_float.

(* astropy_to_nsec decodes to the nearest nanosecond: for ANY TAI time with integral jd1 in range and a
   binary64 jd2 in [-1/2, 1/2] within 2^-48 day (0.3 ns) of k nanoseconds past midnight it returns
   exactly D * NPD + k; neither clamp is taken (except max_time onto itself) *)
Theorem conv_to_nsec_nearest_float : forall (D k : Z) (j2 : R),
  0 <= D -> 0 <= k < TC_NPD -> D * TC_NPD + k <= TC_MAX_NSEC ->
  generic_format radix2 b64_exp j2 -> (Rabs j2 <= / 2)%R ->
  (Rabs (j2 - (IZR k / IZR TC_NPD - / 2)) <= bpow radix2 (-48))%R ->
  tc_jd_to_nsec R r_ops (IZR (TC_EPOCH_JD1 + D), j2) = D * TC_NPD + k.
Proof. exact to_nsec_R. Qed.
Print Assumptions conv_to_nsec_nearest_float.

(* astropy's two_sum is an error-free transformation in binary64 (Flocq's TwoSum_correct) *)
Theorem conv_two_sum_exact : forall a b : R,
  generic_format radix2 b64_exp a -> generic_format radix2 b64_exp b ->
  tc_two_sum R r_ops a b = (RN (a + b), (a + b - RN (a + b))%R).
Proof. exact two_sum_R. Qed.
Print Assumptions conv_two_sum_exact.

(* astropy's day_frac (with and without divisor=1.0): an integral day and a binary64 fraction whose sum
   is v1 + v2 up to 2^-54, for all binary64 v1, v2 with |v1 + v2| <= 2^23 *)
Theorem conv_day_frac_float : forall v1 v2 : R,
  generic_format radix2 b64_exp v1 -> generic_format radix2 b64_exp v2 ->
  (Rabs (v1 + v2) <= bpow radix2 23)%R ->
  exists (dz : Z) (fr : R),
    tc_day_frac R r_ops v1 v2 = (IZR dz, fr) /\ tc_day_frac_div R r_ops v1 v2 1%R = (IZR dz, fr)
    /\ generic_format radix2 b64_exp fr /\ (Rabs fr <= 1)%R
    /\ (Rabs (IZR dz + fr - (v1 + v2)) <= bpow radix2 (-54))%R /\ Z.abs dz <= 8388610.
Proof. exact day_frac_R. Qed.
Print Assumptions conv_day_frac_float.

(* non-vacuity: the hypotheses of the conversion theorems are met *)
Example conv_examples :
  conv_roundtrip 0 = 0 /\ conv_roundtrip TC_MAX_NSEC = TC_MAX_NSEC
  /\ conv_roundtrip 1234567890123456789 = 1234567890123456789.
Proof.
  split; [|split].
  - apply conv_roundtrip_float_p. unfold TC_MAX_NSEC. Lia.lia.
  - apply conv_roundtrip_float_p. unfold TC_MAX_NSEC. Lia.lia.
  - apply conv_roundtrip_float_p. unfold TC_MAX_NSEC. Lia.lia.
Qed.

Example conv_to_nsec_example : tc_jd_to_nsec R r_ops (IZR (TC_EPOCH_JD1 + 0), (- / 2)%R) = 0 * TC_NPD + 0.
Proof.
  apply (to_nsec_R 0 0 (- / 2)%R).
  - Lia.lia.
  - unfold TC_NPD. Lia.lia.
  - unfold TC_NPD, TC_MAX_NSEC. Lia.lia.
  - apply generic_format_opp, fmt_half.
  - rewrite Rabs_Ropp, Rabs_pos_eq; Lra.lra.
  - unfold TC_NPD. replace (- / 2 - (0 / 86400000000000 - / 2))%R with 0%R by Lra.lra. rewrite Rabs_R0. apply bpow_ge_0.
Qed.
