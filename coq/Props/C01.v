(* C01 -- A stored dataset always reads back as exactly what was stored under it.
   Statements only; every proof is `exact <lemma>` from Proofs/DatastoreProofs*.v / Proofs/TemplateProofs.v.

   Model/Datastore.v: repository state = registry identities, tag membership, file-datastore records,
   artifacts under the root, in-memory datastore; operations Put / Ingest(copy|move) / Transfer(source
   repository state) / Associate / Disassociate / Remove(purge?, ids); three datastore kinds.
   `orig s id` is the specification field "object stored under id when it was stored".
   The theorems of the first section hold for ANY codec with dec (enc o) = Some o, ANY size function, ANY
   path function and formatter extension; the template statements are over the definitions REGENERATED
   from /repo on every run (Gen/TemplateGen.v). *)
From Coq Require Import String Ascii List Bool ZArith NArith.
From V Require Import Model.Template Model.Datastore Gen.TemplateGen Model.DatastoreCheck
                      Proofs.TemplateProofs Proofs.DatastoreProofs Proofs.DatastoreProofs2
                      Proofs.DatastoreProofsX1 Proofs.TemplateProofsX1.
Import ListNotations.
Open Scope string_scope.

Section C01.
  Variable obj bytes : Type.
  Variable enc : N -> obj -> bytes.
  Variable dec : N -> bytes -> option obj.
  Variable size : bytes -> Z.
  Variable path_of : ident -> fresult.
  Variable ext_of : N -> string.
  Hypothesis codec_roundtrip : forall f o, dec f (enc f o) = Some o.

  Notation step := (step obj bytes enc dec size path_of ext_of).
  Notation run := (run obj bytes enc dec size path_of ext_of).
  Notation get := (get obj bytes dec size).
  Notation guard := (no_path_collision obj bytes enc dec size path_of ext_of).
  Notation E := (empty obj bytes).

  (* MAIN.  For every datastore kind, every history from the empty repository that satisfies the guard
     (no operation writes an artifact path that another dataset's record points at -- nothing else: the clause
     "no ingest of a dataset the datastore already holds" is gone since commit 2da36a1), every dataset that is
     still held reads back as exactly the object stored under it. *)
  Theorem get_returns_stored : forall c h id o,
    guard c E h = true ->
    aget N.eqb (orig (run c E h)) id = Some o ->
    held obj bytes c (run c E h) id = true ->
    get c (run c E h) id = Got o.
  Proof. exact (get_returns_stored_p obj bytes enc dec size path_of ext_of codec_roundtrip). Qed.

  (* the same continuing from any repository state that satisfies the invariant *)
  Theorem get_returns_stored_from : forall c s h id o,
    inv obj bytes dec size c s -> guard c s h = true ->
    aget N.eqb (orig (run c s h)) id = Some o -> held obj bytes c (run c s h) id = true ->
    get c (run c s h) id = Got o.
  Proof. exact (get_returns_stored_from_p obj bytes enc dec size path_of ext_of codec_roundtrip). Qed.

  (* what `orig` means: a successful put records exactly the object put ... *)
  Theorem put_stores_object : forall c s id i o s',
    step c s (Put obj bytes id i o) = (s', Done) -> aget N.eqb (orig s') id = Some o.
  Proof. exact (put_stores_object_p obj bytes enc dec size path_of ext_of). Qed.

  (* ... and no operation aimed at other datasets changes it, what get returns, or whether it is held *)
  Theorem frame_put_delete : forall c s x id,
    collision_free obj bytes path_of ext_of c s x = true -> touches obj bytes x id = false ->
    get c (fst (step c s x)) id = get c s id
    /\ held obj bytes c (fst (step c s x)) id = held obj bytes c s id
    /\ aget N.eqb (orig (fst (step c s x))) id = aget N.eqb (orig s) id.
  Proof. exact (frame_put_delete_p obj bytes enc dec size path_of ext_of). Qed.

  (* deleting other datasets (and their artifacts) needs no guard at all *)
  Theorem frame_remove : forall c s purge ids id,
    memN id ids = false -> get c (fst (step c s (Remove obj bytes purge ids))) id = get c s id.
  Proof. exact (frame_remove_p obj bytes enc dec size path_of ext_of). Qed.

  (* dataset type, data ID and run of a registered dataset never change, whatever happens, until it is purged *)
  Theorem identity_stable : forall c h s id i,
    aget N.eqb (reg s) id = Some i -> purged_in obj bytes h id = false ->
    aget N.eqb (reg (run c s h)) id = Some i.
  Proof. exact (identity_stable_p obj bytes enc dec size path_of ext_of). Qed.

  (* a refused operation changes NOTHING -- at full strength, for every operation and every datastore kind (since
     commit 2da36a1 the ingest of a dataset already held is refused before any file is transferred) *)
  Theorem refused_noop : forall c s x s' e, step c s x = (s', Refused e) -> s' = s.
  Proof. exact (refused_noop_p obj bytes enc dec size path_of ext_of). Qed.

  (* the earlier, weaker statement (kept: other records refer to it) *)
  Theorem refused_noop_partial : forall c s x s' e,
    step c s x = (s', Refused e) -> reingest obj bytes s x = false -> s' = s.
  Proof. exact (refused_noop_partial_p obj bytes enc dec size path_of ext_of). Qed.

  (* a refused operation never changes what ANY dataset reads back as, whether it is held, or what was stored under it
     -- no guard *)
  Theorem refused_frame : forall c s x s' e id,
    step c s x = (s', Refused e) ->
    get c s' id = get c s id /\ held obj bytes c s' id = held obj bytes c s id
    /\ aget N.eqb (orig s') id = aget N.eqb (orig s) id.
  Proof. exact (refused_frame_p obj bytes enc dec size path_of ext_of). Qed.

  (* histories: EVERY refused operation can be erased from any history, from any state *)
  Theorem erase_refused_same : forall c h s,
    run c s (erase_refused obj bytes enc dec size path_of ext_of c s h) = run c s h.
  Proof. exact (erase_refused_same_p obj bytes enc dec size path_of ext_of). Qed.

  (* the model variant WITHOUT the fix (step_unfixed), exactly: it differs from `step` only for the ingest of a dataset
     a file / chained datastore already holds, where `step` returns the identical state and the variant loses the
     artifact at the path the ingest was going to write (registry, tags, records, in-memory store untouched) *)
  Theorem unfixed_exact : forall c s x,
    step_unfixed obj bytes enc dec size path_of ext_of c s x = step c s x
    \/ exists mv id i b p,
         x = Ingest obj bytes mv id i b /\ has_rec obj bytes s id = true /\ c_kind c <> KMem
         /\ file_path path_of ext_of i (c_fmt c) = FOk p /\ step c s x = (s, Refused Conflict)
         /\ step_unfixed obj bytes enc dec size path_of ext_of c s x = (drop_artifact obj bytes s p, Refused Conflict).
  Proof. exact (unfixed_exact_p obj bytes enc dec size path_of ext_of). Qed.
End C01.

Print Assumptions get_returns_stored.
Print Assumptions get_returns_stored_from.
Print Assumptions put_stores_object.
Print Assumptions frame_put_delete.
Print Assumptions frame_remove.
Print Assumptions identity_stable.
Print Assumptions refused_noop.
Print Assumptions refused_noop_partial.
Print Assumptions refused_frame.
Print Assumptions erase_refused_same.
Print Assumptions unfixed_exact.

(* ---- refuted without the guard (witnesses replayed on the implementation: corpus/C01/01..03) ---------- *)

(* two puts with instrument "Cam A" / "Cam_A": both succeed, the first is still held, get fails *)
Theorem get_refuted_without_guard :
  exists c h id o,
    aget N.eqb (orig (crun wit_sizes c (empty cobj cbytes) h)) id = Some o
    /\ held cobj cbytes c (crun wit_sizes c (empty cobj cbytes) h) id = true
    /\ cget c (crun wit_sizes c (empty cobj cbytes) h) id = Fail Integrity
    /\ no_path_collision cobj cbytes (c_enc wit_sizes) c_dec c_size c_path_of c_ext c (empty cobj cbytes) h = false.
Proof. exact get_refuted_without_guard_p. Qed.
Print Assumptions get_refuted_without_guard.

(* equal serialised sizes: get silently returns the other dataset's object *)
Theorem get_wrong_content_refuted :
  exists tbl c h id,
    aget N.eqb (orig (crun tbl c (empty cobj cbytes) h)) id = Some 1%N
    /\ cget c (crun tbl c (empty cobj cbytes) h) id = Got 2%N.
Proof. exact get_wrong_content_refuted_p. Qed.
Print Assumptions get_wrong_content_refuted.

(* tie T: the model compared with the implementation (`cstep`) is the repaired `step` only while the flag REGENERATED
   from FileDatastore._finishIngest says that held datasets are refused before any file is transferred; reverting
   commit 2da36a1 regenerates the flag as false, `cstep` becomes the variant below and this proof fails *)
Theorem refused_noop_impl : forall tbl c s x s' e, cstep tbl c s x = (s', Refused e) -> s' = s.
Proof. exact refused_noop_impl_p. Qed.
Print Assumptions refused_noop_impl.

(* WITHOUT the fix (variant step_unfixed) the refused ingest of a held dataset removes its artifact: the old defect
   F-C01-reingest, kept as a witness on the variant only *)
Theorem refused_noop_refuted_without_fix :
  exists c s x s' e id o,
    cstep_unfixed wit_sizes c s x = (s', Refused e) /\ s' <> s /\ cget c s id = Got o /\ cget c s' id = Fail NotFound
    /\ held cobj cbytes c s' id = true.
Proof. exact refused_noop_refuted_without_fix_p. Qed.
Print Assumptions refused_noop_refuted_without_fix.

(* ---- the file template (regenerated default template and sanitising tables) --------------------------- *)

(* sanitising is not injective: distinct data IDs, one path *)
Theorem template_collision_refuted :
  exists f1 f2 p, f1 <> f2 /\ gen_format GEN_DEFAULT f1 = FOk p /\ gen_format GEN_DEFAULT f2 = FOk p.
Proof. exact template_collision_refuted_p. Qed.
Print Assumptions template_collision_refuted.

Theorem template_collision_family : forall inst, In inst ["Cam A"; "Cam_A"; "Cam/A"; "Cam.A"] ->
  gen_format GEN_DEFAULT (fields_I "dt1" "r1" inst) = FOk "r1/dt1/dt1_Cam_A_r1".
Proof. exact template_collision_family_p. Qed.
Print Assumptions template_collision_family.

(* the "_" separator alone collides as well: ("A_B", "C") and ("A", "B_C"), no sanitising involved *)
Theorem separator_collision_refuted :
  exists f1 f2 p, f1 <> f2 /\ gen_format GEN_DEFAULT f1 = FOk p /\ gen_format GEN_DEFAULT f2 = FOk p.
Proof. exact separator_collision_refuted_p. Qed.
Print Assumptions separator_collision_refuted.

(* where the guard can be discharged: for values free of the characters the code rewrites, sanitising is the
   identity, and a template value can be recovered from the formatted text (one varying field, everything
   else fixed): partial -- says nothing about two fields varying together (separator_collision_refuted) *)
Theorem sanitize_sane_id : forall keep v, sane v -> sanitize GEN_SAN_VALUE GEN_SAN_SLASH keep v = v.
Proof. exact sanitize_sane_id_p. Qed.
Print Assumptions sanitize_sane_id.

Theorem template_injective_partial : forall (pre post : string) (keep : bool) (v v' : string),
  sane v -> sane v' ->
  pre ++ sanitize GEN_SAN_VALUE GEN_SAN_SLASH keep v ++ post = pre ++ sanitize GEN_SAN_VALUE GEN_SAN_SLASH keep v' ++ post ->
  v = v'.
Proof. exact template_injective_partial_p. Qed.
Print Assumptions template_injective_partial.

(* SEVERAL fields varying together, through the WHOLE of `format` (sanitising, optional fields, tail rewriting,
   normpath, containment check) over the regenerated default template and tables: if two field assignments define
   the same template fields (same_shape), every value the template uses is non-empty and free of the separator
   characters (first characters of the template's literals, here "/", "_", ".") and of every rewritten character,
   and the written literals contain nothing the tail table rewrites (no component), then equal paths imply equal
   values for EVERY template field.  (separator_collision_refuted shows the separator guard is necessary.) *)
Theorem template_injective : forall fs1 fs2 p,
  same_shape (fst GEN_DEFAULT) fs1 fs2 = true ->
  gen_guarded GEN_DEFAULT fs1 = true -> gen_guarded GEN_DEFAULT fs2 = true ->
  gen_format GEN_DEFAULT fs1 = FOk p -> gen_format GEN_DEFAULT fs2 = FOk p ->
  vals (fst GEN_DEFAULT) fs1 = vals (fst GEN_DEFAULT) fs2.
Proof. exact template_injective_p. Qed.
Print Assumptions template_injective.

(* the same for the second shipped template (physical_filter+detector+exposure) *)
Theorem template_injective_raw : forall fs1 fs2 p,
  same_shape (fst GEN_RAW) fs1 fs2 = true ->
  gen_guarded GEN_RAW fs1 = true -> gen_guarded GEN_RAW fs2 = true ->
  gen_format GEN_RAW fs1 = FOk p -> gen_format GEN_RAW fs2 = FOk p ->
  vals (fst GEN_RAW) fs1 = vals (fst GEN_RAW) fs2.
Proof. exact template_injective_raw_p. Qed.
Print Assumptions template_injective_raw.

(* under the guard the template never refuses (no FOutside): the result is the non-empty "/"-components of the
   raw text joined by "/" *)
Theorem template_guarded_total : forall fs o,
  gen_guarded GEN_DEFAULT fs = true -> format_raw GEN_SAN_VALUE GEN_SAN_SLASH (fst GEN_DEFAULT) fs "" = Some o ->
  gen_format GEN_DEFAULT fs = FOk (pth (nz (split_slash o))).
Proof. exact template_guarded_total_p. Qed.
Print Assumptions template_guarded_total.

(* transfers between datastore kinds (Model/DatastoreCheck.v, compared on every run): an incompatible pair never
   changes the target, whatever the two states are *)
Theorem xfer_refused_noop : forall tbl cd cs dst src id,
  xfer_compat (c_kind cd) (c_kind cs) = false -> fst (xfer tbl cd cs dst src id) = dst.
Proof. intros tbl cd cs dst src id H. unfold xfer. rewrite H. reflexivity. Qed.
Print Assumptions xfer_refused_noop.

(* ---- non-vacuity ---------------------------------------------------------------------------------- *)
Example template_guard_satisfiable :
  same_shape (fst GEN_DEFAULT) ex_f1 ex_f2 = true /\ gen_guarded GEN_DEFAULT ex_f1 = true /\ gen_guarded GEN_DEFAULT ex_f2 = true
  /\ gen_format GEN_DEFAULT ex_f1 = FOk "r1/dtD/dtD_HSC_S0_r1" /\ gen_format GEN_DEFAULT ex_f2 = FOk "r1/dtD/dtD_LATISS_R22-S11_r1"
  /\ gen_guarded GEN_DEFAULT (fields_D "dtD" "r1" "A_B" "1" "C") = false
  /\ gen_guarded GEN_DEFAULT (fields_I "dt1" "r1" "Cam A") = false
  /\ gen_guarded GEN_DEFAULT (fields_I "dt1" "u/r2" "CamB") = false.
Proof. exact guard_examples. Qed.

Example codec_hypothesis_satisfiable : forall tbl f o, c_dec f (c_enc tbl f o) = Some o.
Proof. exact c_codec. Qed.

Example guard_satisfiable :
  no_path_collision cobj cbytes (c_enc wit_sizes) c_dec c_size c_path_of c_ext wit_cfg (empty cobj cbytes) wit_clean = true
  /\ cget wit_cfg (crun wit_sizes wit_cfg (empty cobj cbytes) wit_clean) 2%N = Got 2%N
  /\ held cobj cbytes wit_cfg (crun wit_sizes wit_cfg (empty cobj cbytes) wit_clean) 2%N = true.
Proof. exact guard_satisfiable_p. Qed.

(* the same re-ingest on the repaired model: refused, identical state, the stored dataset still reads back *)
Example reingest_refused_intact :
  let s := crun wit_sizes wit_cfg (empty cobj cbytes) [cPut 1%N id_CamA 1%N] in
  cstep wit_sizes wit_cfg s (cIngest false 1%N id_CamA (0%N, 2%N, 13%Z)) = (s, Refused Conflict)
  /\ cget wit_cfg s 1%N = Got 1%N.
Proof. exact reingest_refused_intact_p. Qed.

Example sane_example : sane "HSC-R1_a".
Proof. unfold sane. vm_compute. repeat split; reflexivity. Qed.
