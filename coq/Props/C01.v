(* C01 -- A stored dataset always reads back as exactly what was stored under it.
   Statements only; every proof is `exact <lemma>` from Proofs/DatastoreProofs*.v / Proofs/TemplateProofs.v.

   Model/Datastore.v: repository state = registry identities, tag membership, file-datastore records,
   artifacts under the root, in-memory datastore; operations Put / Ingest(copy|move) / Transfer(source
   repository state) / Associate / Disassociate / Remove(purge?, ids); three datastore kinds.
   `orig s id` is the specification field "object stored under id when it was stored".
   The theorems of the first section hold for ANY codec with dec (enc o) = Some o, ANY size function, ANY
   path function and formatter extension; the template statements are over the definitions REGENERATED
   from /repo on every run (Gen/TemplateGen.v). *)
From Coq Require Import String Ascii List Bool ZArith NArith.
From V Require Import Model.Template Model.Datastore Gen.TemplateGen Model.DatastoreCheck
                      Proofs.TemplateProofs Proofs.DatastoreProofs Proofs.DatastoreProofs2.
Import ListNotations.
Open Scope string_scope.

Section C01.
  Variable obj bytes : Type.
  Variable enc : N -> obj -> bytes.
  Variable dec : N -> bytes -> option obj.
  Variable size : bytes -> Z.
  Variable path_of : ident -> fresult.
  Variable ext_of : N -> string.
  Hypothesis codec_roundtrip : forall f o, dec f (enc f o) = Some o.

  Notation step := (step obj bytes enc dec size path_of ext_of).
  Notation run := (run obj bytes enc dec size path_of ext_of).
  Notation get := (get obj bytes dec size).
  Notation guard := (no_path_collision obj bytes enc dec size path_of ext_of).
  Notation E := (empty obj bytes).

  (* MAIN.  For every datastore kind, every history from the empty repository that satisfies the guard
     (no operation writes an artifact path that another dataset's record points at; no ingest of a dataset
     the datastore already holds), every dataset that is still held reads back as exactly the object
     stored under it. *)
  Theorem get_returns_stored : forall c h id o,
    guard c E h = true ->
    aget N.eqb (orig (run c E h)) id = Some o ->
    held obj bytes c (run c E h) id = true ->
    get c (run c E h) id = Got o.
  Proof. exact (get_returns_stored_p obj bytes enc dec size path_of ext_of codec_roundtrip). Qed.

  (* the same continuing from any repository state that satisfies the invariant *)
  Theorem get_returns_stored_from : forall c s h id o,
    inv obj bytes dec size c s -> guard c s h = true ->
    aget N.eqb (orig (run c s h)) id = Some o -> held obj bytes c (run c s h) id = true ->
    get c (run c s h) id = Got o.
  Proof. exact (get_returns_stored_from_p obj bytes enc dec size path_of ext_of codec_roundtrip). Qed.

  (* what `orig` means: a successful put records exactly the object put ... *)
  Theorem put_stores_object : forall c s id i o s',
    step c s (Put obj bytes id i o) = (s', Done) -> aget N.eqb (orig s') id = Some o.
  Proof. exact (put_stores_object_p obj bytes enc dec size path_of ext_of). Qed.

  (* ... and no operation aimed at other datasets changes it, what get returns, or whether it is held *)
  Theorem frame_put_delete : forall c s x id,
    collision_free obj bytes path_of ext_of c s x = true -> touches obj bytes x id = false ->
    get c (fst (step c s x)) id = get c s id
    /\ held obj bytes c (fst (step c s x)) id = held obj bytes c s id
    /\ aget N.eqb (orig (fst (step c s x))) id = aget N.eqb (orig s) id.
  Proof. exact (frame_put_delete_p obj bytes enc dec size path_of ext_of). Qed.

  (* deleting other datasets (and their artifacts) needs no guard at all *)
  Theorem frame_remove : forall c s purge ids id,
    memN id ids = false -> get c (fst (step c s (Remove obj bytes purge ids))) id = get c s id.
  Proof. exact (frame_remove_p obj bytes enc dec size path_of ext_of). Qed.

  (* dataset type, data ID and run of a registered dataset never change, whatever happens, until it is purged *)
  Theorem identity_stable : forall c h s id i,
    aget N.eqb (reg s) id = Some i -> purged_in obj bytes h id = false ->
    aget N.eqb (reg (run c s h)) id = Some i.
  Proof. exact (identity_stable_p obj bytes enc dec size path_of ext_of). Qed.

  (* a refused operation changes nothing -- partial: not for the ingest of a dataset already held *)
  Theorem refused_noop_partial : forall c s x s' e,
    step c s x = (s', Refused e) -> reingest obj bytes s x = false -> s' = s.
  Proof. exact (refused_noop_partial_p obj bytes enc dec size path_of ext_of). Qed.
End C01.

Print Assumptions get_returns_stored.
Print Assumptions get_returns_stored_from.
Print Assumptions put_stores_object.
Print Assumptions frame_put_delete.
Print Assumptions frame_remove.
Print Assumptions identity_stable.
Print Assumptions refused_noop_partial.

(* ---- refuted without the guard (witnesses replayed on the implementation: corpus/C01/01..03) ---------- *)

(* two puts with instrument "Cam A" / "Cam_A": both succeed, the first is still held, get fails *)
Theorem get_refuted_without_guard :
  exists c h id o,
    aget N.eqb (orig (crun wit_sizes c (empty cobj cbytes) h)) id = Some o
    /\ held cobj cbytes c (crun wit_sizes c (empty cobj cbytes) h) id = true
    /\ cget c (crun wit_sizes c (empty cobj cbytes) h) id = Fail Integrity
    /\ no_path_collision cobj cbytes (c_enc wit_sizes) c_dec c_size c_path_of c_ext c (empty cobj cbytes) h = false.
Proof. exact get_refuted_without_guard_p. Qed.
Print Assumptions get_refuted_without_guard.

(* equal serialised sizes: get silently returns the other dataset's object *)
Theorem get_wrong_content_refuted :
  exists tbl c h id,
    aget N.eqb (orig (crun tbl c (empty cobj cbytes) h)) id = Some 1%N
    /\ cget c (crun tbl c (empty cobj cbytes) h) id = Got 2%N.
Proof. exact get_wrong_content_refuted_p. Qed.
Print Assumptions get_wrong_content_refuted.

(* the refused ingest of a held dataset removes its artifact *)
Theorem refused_reingest_refuted :
  exists c s x s' e id o,
    cstep wit_sizes c s x = (s', Refused e) /\ cget c s id = Got o /\ cget c s' id = Fail NotFound
    /\ held cobj cbytes c s' id = true.
Proof. exact refused_reingest_refuted_p. Qed.
Print Assumptions refused_reingest_refuted.

(* ---- the file template (regenerated default template and sanitising tables) --------------------------- *)

(* sanitising is not injective: distinct data IDs, one path *)
Theorem template_collision_refuted :
  exists f1 f2 p, f1 <> f2 /\ gen_format GEN_DEFAULT f1 = FOk p /\ gen_format GEN_DEFAULT f2 = FOk p.
Proof. exact template_collision_refuted_p. Qed.
Print Assumptions template_collision_refuted.

Theorem template_collision_family : forall inst, In inst ["Cam A"; "Cam_A"; "Cam/A"; "Cam.A"] ->
  gen_format GEN_DEFAULT (fields_I "dt1" "r1" inst) = FOk "r1/dt1/dt1_Cam_A_r1".
Proof. exact template_collision_family_p. Qed.
Print Assumptions template_collision_family.

(* the "_" separator alone collides as well: ("A_B", "C") and ("A", "B_C"), no sanitising involved *)
Theorem separator_collision_refuted :
  exists f1 f2 p, f1 <> f2 /\ gen_format GEN_DEFAULT f1 = FOk p /\ gen_format GEN_DEFAULT f2 = FOk p.
Proof. exact separator_collision_refuted_p. Qed.
Print Assumptions separator_collision_refuted.

(* where the guard can be discharged: for values free of the characters the code rewrites, sanitising is the
   identity, and a template value can be recovered from the formatted text (one varying field, everything
   else fixed): partial -- says nothing about two fields varying together (separator_collision_refuted) *)
Theorem sanitize_sane_id : forall keep v, sane v -> sanitize GEN_SAN_VALUE GEN_SAN_SLASH keep v = v.
Proof. exact sanitize_sane_id_p. Qed.
Print Assumptions sanitize_sane_id.

Theorem template_injective_partial : forall (pre post : string) (keep : bool) (v v' : string),
  sane v -> sane v' ->
  pre ++ sanitize GEN_SAN_VALUE GEN_SAN_SLASH keep v ++ post = pre ++ sanitize GEN_SAN_VALUE GEN_SAN_SLASH keep v' ++ post ->
  v = v'.
Proof. exact template_injective_partial_p. Qed.
Print Assumptions template_injective_partial.

(* ---- non-vacuity ---------------------------------------------------------------------------------- *)
Example codec_hypothesis_satisfiable : forall tbl f o, c_dec f (c_enc tbl f o) = Some o.
Proof. exact c_codec. Qed.

Example guard_satisfiable :
  no_path_collision cobj cbytes (c_enc wit_sizes) c_dec c_size c_path_of c_ext wit_cfg (empty cobj cbytes) wit_clean = true
  /\ cget wit_cfg (crun wit_sizes wit_cfg (empty cobj cbytes) wit_clean) 2%N = Got 2%N
  /\ held cobj cbytes wit_cfg (crun wit_sizes wit_cfg (empty cobj cbytes) wit_clean) 2%N = true.
Proof. exact guard_satisfiable_p. Qed.

Example sane_example : sane "HSC-R1_a".
Proof. unfold sane. vm_compute. repeat split; reflexivity. Qed.
