(* C01 -- placeholder, replaced below *)
From Coq Require Import String Ascii List Bool.
From V Require Import Model.Template Gen.TemplateGen Proofs.TemplateProofs.
Import ListNotations.
Open Scope string_scope.

Theorem template_collision_refuted :
  exists f1 f2 p, f1 <> f2 /\ gen_format GEN_DEFAULT f1 = FOk p /\ gen_format GEN_DEFAULT f2 = FOk p.
Proof. exact template_collision_refuted_p. Qed.
Print Assumptions template_collision_refuted.
