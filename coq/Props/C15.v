(* C15 -- Boolean rewriting of predicates preserves their truth table.
   Statements only; every proof is `exact <lemma>` from Proofs/PredProofs.v / Proofs/NormalFormProofs.v.

   PART 1 (new query system): the py_* definitions are REGENERATED from the current bodies of
   Predicate._impl_and/_impl_or/from_bool/logical_and/logical_or/logical_not (Gen/PredGen.v), so these theorems
   are re-checked against what the code says now.  v : atom -> tri is an arbitrary KLEENE assignment (TT/FF/UU);
   Boolean assignments are the special case (see `two_valued`).
     eval3 v p   = all(any(leaf) for leaf in group) for group in p.operands), in Kleene logic
     flags_ok    = an identity flag (`a is b` inside _impl_and) is only ever true for equal operands
   PART 2 (legacy query system): hand model of normalForm.py (Model/NormalForm.v), tied to the code by the
   correspondence run.  form : bool, true = CONJUNCTIVE. *)
From Coq Require Import NArith List Bool.
From V Require Import Base.Tri Model.Pred Model.NormalForm Gen.PredGen Proofs.PredProofs Proofs.NormalFormProofs.
Import ListNotations.

(* ================================= PART 1: Predicate ============================================== *)

(* the constants: () is true, ((),) is false, and from_bool produces exactly them *)
Theorem const_true : forall v, eval3 v [] = TT.
Proof. exact eval3_true_p. Qed.
Print Assumptions const_true.

Theorem const_false : forall v, eval3 v [[]] = FF.
Proof. exact eval3_false_p. Qed.
Print Assumptions const_false.

Theorem from_bool_sound : forall v b, eval3 v (py_from_bool b) = tri_of_bool b.
Proof. exact from_bool_sound_p. Qed.
Print Assumptions from_bool_sound.

Theorem from_bool_true_shape : py_from_bool true = [].
Proof. exact from_bool_true_p. Qed.
Print Assumptions from_bool_true_shape.

Theorem from_bool_false_shape : py_from_bool false = [[]].
Proof. exact from_bool_false_p. Qed.
Print Assumptions from_bool_false_shape.

Theorem invert_sound : forall v l, lit_eval v (py_invert l) = tri_not (lit_eval v l).
Proof. exact invert_sound_p. Qed.
Print Assumptions invert_sound.

(* the two primitive combinators *)
Theorem impl_and_sound : forall v same a b, (same = true -> b = a) ->
  eval3 v (py_impl_and same a b) = tri_and (eval3 v a) (eval3 v b).
Proof. exact impl_and_sound_p. Qed.
Print Assumptions impl_and_sound.

Theorem impl_or_sound : forall v a b, eval3 v (py_impl_or a b) = tri_or (eval3 v a) (eval3 v b).
Proof. exact impl_or_sound_p. Qed.
Print Assumptions impl_or_sound.

(* p.logical_and(q, r, ...): n-ary, any consistent identity flags, including the collapse to ((),) *)
Theorem and_sound : forall v self args, flags_ok py_impl_and self args ->
  eval3 v (py_logical_and self args) = and_all3 (eval3 v self) (map (fun a => eval3 v (snd a)) args).
Proof. exact logical_and_sound_p. Qed.
Print Assumptions and_sound.

Theorem and_collapse : forall self args,
  py_all (py_logical_and self args) = true \/ py_logical_and self args = [[]].
Proof. exact logical_and_collapsed_p. Qed.
Print Assumptions and_collapse.

Theorem or_sound : forall v args self,
  eval3 v (py_logical_or self args) = or_all3 (eval3 v self) (map (eval3 v) args).
Proof. exact logical_or_sound_p. Qed.
Print Assumptions or_sound.

Theorem not_sound : forall v self, eval3 v (py_logical_not self) = tri_not (eval3 v self).
Proof. exact logical_not_sound_p. Qed.
Print Assumptions not_sound.

(* any formula built from atoms and constants by logical_and / logical_or / logical_not *)
Theorem build_sound : forall v f, py_form_ok f -> eval3 v (py_build f) = feval3 v f.
Proof. exact build_sound_p. Qed.
Print Assumptions build_sound.

Theorem build_sound_distinct_objects : forall v f, no_flags f = true -> eval3 v (py_build f) = feval3 v f.
Proof. exact build_sound_noflags_p. Qed.
Print Assumptions build_sound_distinct_objects.

(* two-valued logic is the special case: Boolean atoms give a Boolean value *)
Theorem two_valued : forall v (p : cnf), (forall a, v a <> UU) -> eval3 v p <> UU.
Proof. exact eval3_two_valued_p. Qed.
Print Assumptions two_valued.

(* the hand model used by the correspondence check computes exactly the regenerated definitions *)
Theorem hand_model_is_generated : forall f, py_build f = build f.
Proof. exact build_shape_p. Qed.
Print Assumptions hand_model_is_generated.

(* ================================= PART 2: legacy normal forms ===================================== *)

Theorem wrap_not_sound : forall v w, weval3 v (not_ w) = tri_not (weval3 v w).
Proof. exact not_sound_p. Qed.
Print Assumptions wrap_not_sound.

Theorem wrap_of_sound : forall v t, weval3 v (wrap_of t) = leval3 v t.
Proof. exact wrap_of_sound_p. Qed.
Print Assumptions wrap_of_sound.

(* whenever normalize returns, for CNF and for DNF: same Kleene truth value ... *)
Theorem normalize_sound : forall v fuel form w w',
  normalize fuel form w = Some w' -> weval3 v w' = weval3 v w.
Proof. exact normalize_sound_p. Qed.
Print Assumptions normalize_sound.

(* ... and the result satisfies the requested form *)
Theorem normalize_normal : forall fuel form w w',
  normalize fuel form w = Some w' -> satisfies form w' = true.
Proof. exact normalize_normal_p. Qed.
Print Assumptions normalize_normal.

(* termination, unbounded: for every expression there is enough fuel; hence neither out-of-fuel nor the
   AssertionError branch of _normalizeDispatchBinary is reachable *)
Theorem normalize_fuel : forall form w, exists n w', normalize n form w = Some w'.
Proof. exact normalize_total_p. Qed.
Print Assumptions normalize_fuel.

Theorem normalize_fuel_monotone : forall n m form w w',
  n <= m -> normalize n form w = Some w' -> normalize m form w = Some w'.
Proof. exact normalize_mono. Qed.
Print Assumptions normalize_fuel_monotone.

Theorem normalize_fixpoint : forall n form w, satisfies form w = true -> normalize (S n) form w = Some w.
Proof. exact normalize_fixpoint_p. Qed.
Print Assumptions normalize_fixpoint.

Theorem flatten_sound : forall v op w, fold3 v op (flatten op w) = weval3 v w.
Proof. exact flatten_sound_p. Qed.
Print Assumptions flatten_sound.

(* NormalFormExpression.fromTree: the nested node list means what the tree means, has the documented shape
   (non-empty groups of atoms / negated atoms), and always exists *)
Theorem fromTree_sound : forall v fuel form t nodes,
  from_tree fuel form t = Some nodes -> nodes_eval3 v form nodes = leval3 v t.
Proof. exact from_tree_sound_p. Qed.
Print Assumptions fromTree_sound.

Theorem fromTree_normal : forall fuel form t nodes,
  from_tree fuel form t = Some nodes -> nodes_normal nodes = true.
Proof. exact from_tree_normal_p. Qed.
Print Assumptions fromTree_normal.

(* toTree rebuilds a tree with the meaning of the node list; together: *)
Theorem toTree_sound : forall v form nodes t, to_tree form nodes = Some t -> leval3 v t = nodes_eval3 v form nodes.
Proof. exact to_tree_sound_p. Qed.
Print Assumptions toTree_sound.

Theorem fromTree_toTree_sound : forall v fuel form t nodes t',
  from_tree fuel form t = Some nodes -> to_tree form nodes = Some t' -> leval3 v t' = leval3 v t.
Proof. exact from_to_tree_sound_p. Qed.
Print Assumptions fromTree_toTree_sound.

Theorem fromTree_toTree_total : forall form t, exists n nodes t',
  from_tree n form t = Some nodes /\ to_tree form nodes = Some t'.
Proof. exact from_to_tree_total_p. Qed.
Print Assumptions fromTree_toTree_total.

Theorem legacy_two_valued : forall v t, (forall a, v a <> UU) -> leval3 v t <> UU.
Proof. exact leval3_two_valued_p. Qed.
Print Assumptions legacy_two_valued.

(* ================================= non-vacuity ====================================================== *)
(* flags_ok is satisfiable with a TRUE identity flag (p.logical_and(p)), and then _impl_and really takes
   the `a is b` branch *)
Example flags_ok_with_identity : flags_ok py_impl_and [[Pos 0%N]] [(true, [[Pos 0%N]]); (false, [[Neg 1%N]])]
  /\ py_logical_and [[Pos 0%N]] [(true, [[Pos 0%N]]); (false, [[Neg 1%N]])] = [[Pos 0%N]; [Neg 1%N]].
Proof. cbn. repeat split; auto. discriminate. Qed.

Example collapse_happens : py_logical_and [[Pos 0%N]] [(false, [[]])] = [[]].
Proof. reflexivity. Qed.

Example form_ok_example :
  py_form_ok (FNot (FAnd false (FAtom 0%N) (FOr (FAtom 1%N) (FNot (FAtom 2%N)))))
  /\ py_build (FNot (FAnd false (FAtom 0%N) (FOr (FAtom 1%N) (FNot (FAtom 2%N)))))
     = [[Neg 0%N; Neg 1%N]; [Neg 0%N; Pos 2%N]].
Proof. cbn. repeat split; auto; discriminate. Qed.

(* normalize does return, on an expression that needs the four-way rule:  (a AND b) OR (c AND d)  to CNF *)
Example normalize_returns :
  normalize 10 true (WBin (WBin (Opaque 0%N) true (Opaque 1%N)) false (WBin (Opaque 2%N) true (Opaque 3%N)))
  = Some (WBin (WBin (WBin (Opaque 0%N) false (Opaque 2%N)) true (WBin (Opaque 0%N) false (Opaque 3%N))) true
               (WBin (WBin (Opaque 1%N) false (Opaque 2%N)) true (WBin (Opaque 1%N) false (Opaque 3%N)))).
Proof. vm_compute. reflexivity. Qed.

Example fromTree_toTree_example :
  from_tree 10 false (LNot (LBin (LAtom 0%N) true (LParens (LBin (LNot (LAtom 1%N)) false (LAtom 2%N)))))
  = Some [[LNot (LAtom 0%N)]; [LAtom 1%N; LNot (LAtom 2%N)]]
  /\ to_tree false [[LNot (LAtom 0%N)]; [LAtom 1%N; LNot (LAtom 2%N)]]
     = Some (LBin (LNot (LAtom 0%N)) false (LParens (LBin (LAtom 1%N) true (LNot (LAtom 2%N))))).
Proof. vm_compute. split; reflexivity. Qed.
