(* C15 -- Boolean rewriting of predicates preserves their truth table.
   Statements only; every proof is `exact <lemma>` from Proofs/PredProofs.v / Proofs/NormalFormProofs.v.

   PART 1 (new query system): the py_* definitions are REGENERATED from the current bodies of
   Predicate._impl_and/_impl_or/from_bool/logical_and/logical_or/logical_not (Gen/PredGen.v), so these theorems
   are re-checked against what the code says now.  v : atom -> tri is an arbitrary KLEENE assignment (TT/FF/UU);
   Boolean assignments are the special case (see `two_valued`).
     eval3 v p   = all(any(leaf) for leaf in group) for group in p.operands), in Kleene logic
     flags_ok    = an identity flag (`a is b` inside _impl_and) is only ever true for equal operands
   PART 2 (legacy query system): hand model of normalForm.py (Model/NormalForm.v), tied to the code by the
   correspondence run.  form : bool, true = CONJUNCTIVE.
   PART 3 (legacy query system, REGENERATED): the same statements over Gen/NormalFormGen.v, which
   harness/translators/normalform.py rebuilds on every run from the current method bodies of normalForm.py
   (class dispatch = match on the receiver, `x.normalize(form)` = `rec x`, fuel ties the knot).
   PART 4: SHAPE of the results (both systems): literal sets, group counts, exact sizes.
   PART 5: SimplePredicateVisitor.apply_logical_* (Gen/PredVisitGen.v, regenerated from queries/visitors.py). *)
From Coq Require Import NArith List Bool.
From V Require Import Base.Tri Model.Pred Model.NormalForm Gen.PredGen Proofs.PredProofs Proofs.NormalFormProofs.
From V Require Import Gen.NormalFormGen Gen.PredVisitGen Proofs.NormalFormProofsG Proofs.NormalFormProofsX Proofs.NormalFormProofsS Proofs.PredProofsX Proofs.PredProofsV Model.PredCheck Model.PredVisitCheck Proofs.PredProofsW.
Import ListNotations.

(* ================================= PART 1: Predicate ============================================== *)

(* the constants: () is true, ((),) is false, and from_bool produces exactly them *)
Theorem const_true : forall v, eval3 v [] = TT.
Proof. exact eval3_true_p. Qed.
Print Assumptions const_true.

Theorem const_false : forall v, eval3 v [[]] = FF.
Proof. exact eval3_false_p. Qed.
Print Assumptions const_false.

Theorem from_bool_sound : forall v b, eval3 v (py_from_bool b) = tri_of_bool b.
Proof. exact from_bool_sound_p. Qed.
Print Assumptions from_bool_sound.

Theorem from_bool_true_shape : py_from_bool true = [].
Proof. exact from_bool_true_p. Qed.
Print Assumptions from_bool_true_shape.

Theorem from_bool_false_shape : py_from_bool false = [[]].
Proof. exact from_bool_false_p. Qed.
Print Assumptions from_bool_false_shape.

Theorem invert_sound : forall v l, lit_eval v (py_invert l) = tri_not (lit_eval v l).
Proof. exact invert_sound_p. Qed.
Print Assumptions invert_sound.

(* the two primitive combinators *)
Theorem impl_and_sound : forall v same a b, (same = true -> b = a) ->
  eval3 v (py_impl_and same a b) = tri_and (eval3 v a) (eval3 v b).
Proof. exact impl_and_sound_p. Qed.
Print Assumptions impl_and_sound.

Theorem impl_or_sound : forall v a b, eval3 v (py_impl_or a b) = tri_or (eval3 v a) (eval3 v b).
Proof. exact impl_or_sound_p. Qed.
Print Assumptions impl_or_sound.

(* p.logical_and(q, r, ...): n-ary, any consistent identity flags, including the collapse to ((),) *)
Theorem and_sound : forall v self args, flags_ok py_impl_and self args ->
  eval3 v (py_logical_and self args) = and_all3 (eval3 v self) (map (fun a => eval3 v (snd a)) args).
Proof. exact logical_and_sound_p. Qed.
Print Assumptions and_sound.

Theorem and_collapse : forall self args,
  py_all (py_logical_and self args) = true \/ py_logical_and self args = [[]].
Proof. exact logical_and_collapsed_p. Qed.
Print Assumptions and_collapse.

Theorem or_sound : forall v args self,
  eval3 v (py_logical_or self args) = or_all3 (eval3 v self) (map (eval3 v) args).
Proof. exact logical_or_sound_p. Qed.
Print Assumptions or_sound.

Theorem not_sound : forall v self, eval3 v (py_logical_not self) = tri_not (eval3 v self).
Proof. exact logical_not_sound_p. Qed.
Print Assumptions not_sound.

(* any formula built from atoms and constants by logical_and / logical_or / logical_not *)
Theorem build_sound : forall v f, py_form_ok f -> eval3 v (py_build f) = feval3 v f.
Proof. exact build_sound_p. Qed.
Print Assumptions build_sound.

Theorem build_sound_distinct_objects : forall v f, no_flags f = true -> eval3 v (py_build f) = feval3 v f.
Proof. exact build_sound_noflags_p. Qed.
Print Assumptions build_sound_distinct_objects.

(* two-valued logic is the special case: Boolean atoms give a Boolean value *)
Theorem two_valued : forall v (p : cnf), (forall a, v a <> UU) -> eval3 v p <> UU.
Proof. exact eval3_two_valued_p. Qed.
Print Assumptions two_valued.

(* the hand model used by the correspondence check computes exactly the regenerated definitions *)
Theorem hand_model_is_generated : forall f, py_build f = build f.
Proof. exact build_shape_p. Qed.
Print Assumptions hand_model_is_generated.

(* ================================= PART 2: legacy normal forms ===================================== *)

Theorem wrap_not_sound : forall v w, weval3 v (not_ w) = tri_not (weval3 v w).
Proof. exact not_sound_p. Qed.
Print Assumptions wrap_not_sound.

Theorem wrap_of_sound : forall v t, weval3 v (wrap_of t) = leval3 v t.
Proof. exact wrap_of_sound_p. Qed.
Print Assumptions wrap_of_sound.

(* whenever normalize returns, for CNF and for DNF: same Kleene truth value ... *)
Theorem normalize_sound : forall v fuel form w w',
  normalize fuel form w = Some w' -> weval3 v w' = weval3 v w.
Proof. exact normalize_sound_p. Qed.
Print Assumptions normalize_sound.

(* ... and the result satisfies the requested form *)
Theorem normalize_normal : forall fuel form w w',
  normalize fuel form w = Some w' -> satisfies form w' = true.
Proof. exact normalize_normal_p. Qed.
Print Assumptions normalize_normal.

(* termination, unbounded: for every expression there is enough fuel; hence neither out-of-fuel nor the
   AssertionError branch of _normalizeDispatchBinary is reachable *)
Theorem normalize_fuel : forall form w, exists n w', normalize n form w = Some w'.
Proof. exact normalize_total_p. Qed.
Print Assumptions normalize_fuel.

Theorem normalize_fuel_monotone : forall n m form w w',
  n <= m -> normalize n form w = Some w' -> normalize m form w = Some w'.
Proof. exact normalize_mono. Qed.
Print Assumptions normalize_fuel_monotone.

Theorem normalize_fixpoint : forall n form w, satisfies form w = true -> normalize (S n) form w = Some w.
Proof. exact normalize_fixpoint_p. Qed.
Print Assumptions normalize_fixpoint.

Theorem flatten_sound : forall v op w, fold3 v op (flatten op w) = weval3 v w.
Proof. exact flatten_sound_p. Qed.
Print Assumptions flatten_sound.

(* NormalFormExpression.fromTree: the nested node list means what the tree means, has the documented shape
   (non-empty groups of atoms / negated atoms), and always exists *)
Theorem fromTree_sound : forall v fuel form t nodes,
  from_tree fuel form t = Some nodes -> nodes_eval3 v form nodes = leval3 v t.
Proof. exact from_tree_sound_p. Qed.
Print Assumptions fromTree_sound.

Theorem fromTree_normal : forall fuel form t nodes,
  from_tree fuel form t = Some nodes -> nodes_normal nodes = true.
Proof. exact from_tree_normal_p. Qed.
Print Assumptions fromTree_normal.

(* toTree rebuilds a tree with the meaning of the node list; together: *)
Theorem toTree_sound : forall v form nodes t, to_tree form nodes = Some t -> leval3 v t = nodes_eval3 v form nodes.
Proof. exact to_tree_sound_p. Qed.
Print Assumptions toTree_sound.

Theorem fromTree_toTree_sound : forall v fuel form t nodes t',
  from_tree fuel form t = Some nodes -> to_tree form nodes = Some t' -> leval3 v t' = leval3 v t.
Proof. exact from_to_tree_sound_p. Qed.
Print Assumptions fromTree_toTree_sound.

Theorem fromTree_toTree_total : forall form t, exists n nodes t',
  from_tree n form t = Some nodes /\ to_tree form nodes = Some t'.
Proof. exact from_to_tree_total_p. Qed.
Print Assumptions fromTree_toTree_total.

Theorem legacy_two_valued : forall v t, (forall a, v a <> UU) -> leval3 v t <> UU.
Proof. exact leval3_two_valued_p. Qed.
Print Assumptions legacy_two_valued.

(* ================================= PART 3: legacy normal forms, regenerated ========================= *)

(* the hand model of PART 2 (used by the correspondence run) computes exactly what the regenerated rules compute *)
Theorem legacy_hand_model_is_generated :
  (forall f i o, py_allows f i o = allows f i o) /\ (forall w, py_not_ w = not_ w)
  /\ (forall form w, py_satisfies form w = satisfies form w)
  /\ (forall rec form L o R, py_normalizeDispatch rec form L o R = dispatch rec form L o R)
  /\ (forall fuel form w, py_normalize fuel form w = normalize fuel form w)
  /\ (forall op w, py_flatten op w = flatten op w)
  /\ (forall fuel form t, py_from_tree fuel form t = from_tree fuel form t).
Proof.
  exact (conj py_allows_eq (conj py_not_eq (conj py_satisfies_eq (conj py_dispatch_eq
        (conj py_normalize_eq (conj py_flatten_eq py_from_tree_eq)))))).
Qed.
Print Assumptions legacy_hand_model_is_generated.

(* proved directly on the generated rules (Kleene truth tables), without the hand model *)
Theorem gen_wrap_not_sound : forall v w, weval3 v (py_not_ w) = tri_not (weval3 v w).
Proof. exact py_not_sound_direct. Qed.
Print Assumptions gen_wrap_not_sound.

Theorem gen_dispatch_sound : forall v rec form L o R w,
  (forall x y, rec x = Some y -> weval3 v y = weval3 v x) ->
  py_normalizeDispatch rec form L o R = Some w -> weval3 v w = bop3 o (weval3 v L) (weval3 v R).
Proof. exact py_dispatch_sound_direct. Qed.
Print Assumptions gen_dispatch_sound.

Theorem gen_normalize_sound : forall v fuel form w w',
  py_normalize fuel form w = Some w' -> weval3 v w' = weval3 v w.
Proof. exact py_normalize_sound_direct. Qed.
Print Assumptions gen_normalize_sound.

Theorem gen_wrap_of_sound : forall v t, weval3 v (py_wrap_of t) = leval3 v t.
Proof. exact g_wrap_of_sound. Qed.
Print Assumptions gen_wrap_of_sound.

Theorem gen_normalize_normal : forall fuel form w w',
  py_normalize fuel form w = Some w' -> py_satisfies form w' = true.
Proof. exact g_normalize_normal. Qed.
Print Assumptions gen_normalize_normal.

Theorem gen_normalize_fuel : forall form w, exists n w', py_normalize n form w = Some w'.
Proof. exact g_normalize_total. Qed.
Print Assumptions gen_normalize_fuel.

(* the `assert` of LogicalBinaryOperation._normalizeDispatchBinary cannot fail: if the recursive normalisations
   return, every dispatch rule returns *)
Theorem gen_dispatch_never_asserts : forall rec form L o R,
  (forall x, exists y, rec x = Some y) -> exists w, py_normalizeDispatch rec form L o R = Some w.
Proof. exact g_dispatch_no_assert. Qed.
Print Assumptions gen_dispatch_never_asserts.

Theorem gen_normalize_fuel_monotone : forall n m form w w',
  n <= m -> py_normalize n form w = Some w' -> py_normalize m form w = Some w'.
Proof. exact g_normalize_mono. Qed.
Print Assumptions gen_normalize_fuel_monotone.

Theorem gen_normalize_fixpoint : forall n form w, py_satisfies form w = true -> py_normalize (S n) form w = Some w.
Proof. exact g_normalize_fixpoint. Qed.
Print Assumptions gen_normalize_fixpoint.

Theorem gen_flatten_sound : forall v op w, fold3 v op (py_flatten op w) = weval3 v w.
Proof. exact g_flatten_sound. Qed.
Print Assumptions gen_flatten_sound.

Theorem gen_fromTree_sound : forall v fuel form t nodes,
  py_from_tree fuel form t = Some nodes -> nodes_eval3 v form nodes = leval3 v t.
Proof. exact g_from_tree_sound. Qed.
Print Assumptions gen_fromTree_sound.

Theorem gen_fromTree_normal : forall fuel form t nodes,
  py_from_tree fuel form t = Some nodes -> nodes_normal nodes = true.
Proof. exact g_from_tree_normal. Qed.
Print Assumptions gen_fromTree_normal.

Theorem gen_fromTree_toTree_sound : forall v fuel form t nodes t',
  py_from_tree fuel form t = Some nodes -> to_tree form nodes = Some t' -> leval3 v t' = leval3 v t.
Proof. exact g_from_to_tree_sound. Qed.
Print Assumptions gen_fromTree_toTree_sound.

Theorem gen_fromTree_toTree_total : forall form t, exists n nodes t',
  py_from_tree n form t = Some nodes /\ to_tree form nodes = Some t'.
Proof. exact g_from_to_tree_total. Qed.
Print Assumptions gen_fromTree_toTree_total.

(* ================================= PART 4: shape of the results ===================================== *)
(* --- legacy: the SET of literals (atom, polarity) is preserved exactly: none invented, dropped or flipped *)
Theorem gen_wrap_not_flips_literals : forall w, wlits (py_not_ w) = map flip (wlits w).
Proof. exact g_not_lits. Qed.
Print Assumptions gen_wrap_not_flips_literals.

Theorem normalize_keeps_literals : forall fuel form w w',
  normalize fuel form w = Some w' -> forall l, In l (wlits w') <-> In l (wlits w).
Proof. exact normalize_lits_p. Qed.
Print Assumptions normalize_keeps_literals.

Theorem gen_normalize_keeps_literals : forall fuel form w w',
  py_normalize fuel form w = Some w' -> forall l, In l (wlits w') <-> In l (wlits w).
Proof. exact g_normalize_lits. Qed.
Print Assumptions gen_normalize_keeps_literals.

(* the branches of `_nodes` are exactly the literals of the input tree (polarity = parity of the NOTs above) *)
Theorem gen_fromTree_literals : forall fuel form t nodes, py_from_tree fuel form t = Some nodes ->
  forall l, In l (nodes_lits nodes) <-> In l (tlits true t).
Proof. exact g_from_tree_lits. Qed.
Print Assumptions gen_fromTree_literals.

(* distribution only duplicates: the number of literal occurrences never shrinks *)
Theorem normalize_never_shrinks : forall fuel form w w',
  normalize fuel form w = Some w' -> length (wlits w) <= length (wlits w').
Proof. exact normalize_size_p. Qed.
Print Assumptions normalize_never_shrinks.

(* SIZE BOUND.  ideal_groups / ideal_width: size of the textbook normal form (sum / max over the outer operator,
   product / sum over the inner one).  The normaliser never exceeds it, and it is at most 2^(n-1) groups of at most n
   branches for a tree with n atom occurrences. *)
Theorem normalize_within_ideal_size : forall fuel form w w', normalize fuel form w = Some w' ->
  ideal_groups form w' <= ideal_groups form w.
Proof. exact normalize_groups_p. Qed.
Print Assumptions normalize_within_ideal_size.

Theorem normal_groups_are_ideal : forall form w, satisfies form w = true ->
  length (flatten form w) = ideal_groups form w.
Proof. exact sat_groups. Qed.
Print Assumptions normal_groups_are_ideal.

Theorem gen_normalize_within_ideal_size : forall fuel form w w', py_normalize fuel form w = Some w' ->
  ideal_groups form w' <= ideal_groups form w /\ ideal_width form w' <= ideal_width form w.
Proof. exact g_normalize_groups. Qed.
Print Assumptions gen_normalize_within_ideal_size.

Theorem gen_fromTree_within_ideal_size : forall fuel form t nodes, py_from_tree fuel form t = Some nodes ->
  length nodes <= ideal_groups form (py_wrap_of t) /\ forall g, In g nodes -> length g <= ideal_width form (py_wrap_of t).
Proof. exact g_from_tree_ideal. Qed.
Print Assumptions gen_fromTree_within_ideal_size.

Theorem fromTree_size_bound : forall fuel form t nodes, from_tree fuel form t = Some nodes ->
  length nodes <= Nat.pow 2 (tleaves t - 1) /\ forall g, In g nodes -> length g <= tleaves t.
Proof. exact from_tree_size_p. Qed.
Print Assumptions fromTree_size_bound.

Theorem gen_fromTree_size_bound : forall fuel form t nodes, py_from_tree fuel form t = Some nodes ->
  length nodes <= Nat.pow 2 (tleaves t - 1) /\ forall g, In g nodes -> length g <= tleaves t.
Proof. exact g_from_tree_size. Qed.
Print Assumptions gen_fromTree_size_bound.

(* --- new system: a Predicate is an AND of OR-groups of literals by construction; WHICH groups: *)
Theorem or_groups_count : forall a b, length (py_impl_or a b) = length a * length b.
Proof. exact impl_or_groups_p. Qed.
Print Assumptions or_groups_count.

Theorem or_group_shape : forall a b g, In g (py_impl_or a b) <-> exists x y, In x a /\ In y b /\ g = x ++ y.
Proof. exact impl_or_group_p. Qed.
Print Assumptions or_group_shape.

Theorem logical_or_groups_count : forall args self,
  length (py_logical_or self args) = fold_left (fun n a => n * length a) args (length self).
Proof. exact logical_or_groups_p. Qed.
Print Assumptions logical_or_groups_count.

Theorem and_groups_count : forall a b, length (py_impl_and false a b) = length a + length b.
Proof. exact impl_and_groups_p. Qed.
Print Assumptions and_groups_count.

(* NOT p: one OR-group per way of picking one literal out of every group of p; each has |p| literals *)
Theorem not_groups_count : forall p, length (py_logical_not p) = widths p.
Proof. exact logical_not_groups_p. Qed.
Print Assumptions not_groups_count.

Theorem not_group_width : forall p g, In g (py_logical_not p) -> length g = length p.
Proof. exact logical_not_width_p. Qed.
Print Assumptions not_group_width.

Theorem not_size : forall p, size (py_logical_not p) = widths p * length p.
Proof. exact logical_not_size_p. Qed.
Print Assumptions not_size.

Theorem not_invents_nothing : forall p l,
  In l (lits (py_logical_not p)) -> exists l', In l' (lits p) /\ l = py_invert l'.
Proof. exact logical_not_lits_p. Qed.
Print Assumptions not_invents_nothing.

Theorem or_invents_nothing : forall self args l, In l (lits (py_logical_or self args)) ->
  In l (lits self) \/ exists a, In a args /\ In l (lits a).
Proof. exact logical_or_lits_p. Qed.
Print Assumptions or_invents_nothing.

Theorem and_invents_nothing : forall self args l, In l (lits (py_logical_and self args)) ->
  In l (lits self) \/ exists a, In a args /\ In l (lits (snd a)).
Proof. exact logical_and_lits_p. Qed.
Print Assumptions and_invents_nothing.

Theorem build_atoms : forall f l, In l (lits (py_build f)) -> In (lit_atom l) (form_atoms f).
Proof. exact build_atoms_p. Qed.
Print Assumptions build_atoms.

(* ================================= PART 5: SimplePredicateVisitor.apply_logical_* =================== *)
(* results: None = the leaf / group is unchanged, Some p = replaced by p.  Specification: the rebuilt predicate
   has the value of the original with every replacement substituted (res_val / res_val_group). *)
Theorem apply_or_none : forall originals results,
  py_apply_logical_or originals results = None <-> forall x, In x results -> x = None.
Proof. exact apply_or_none_p. Qed.
Print Assumptions apply_or_none.

Theorem apply_or_sound : forall v originals results r,
  py_apply_logical_or originals results = Some r ->
  eval3 v r = or_all3 FF (map (fun ox => res_val v (fst ox) (snd ox)) (combine originals results)).
Proof. exact apply_or_sound_p. Qed.
Print Assumptions apply_or_sound.

Theorem apply_and_none : forall originals results,
  py_apply_logical_and originals results = None <-> forall x, In x results -> x = None.
Proof. exact apply_and_none_p. Qed.
Print Assumptions apply_and_none.

Theorem apply_and_sound : forall v originals results r,
  flags_ok py_impl_and [] (and_args originals results) ->
  py_apply_logical_and originals results = Some r ->
  eval3 v r = and_all3 TT (map (fun ox => res_val_group v (fst ox) (snd ox)) (combine originals results)).
Proof. exact apply_and_sound_p. Qed.
Print Assumptions apply_and_sound.

Theorem apply_not_none : forall a, py_apply_logical_not a None = None.
Proof. exact apply_not_none_p. Qed.
Print Assumptions apply_not_none.

(* apply_logical_not negates the REPLACEMENT (repaired by /repo 33efa74), at full strength *)
Theorem apply_not_sound : forall v a r r',
  py_apply_logical_not a (Some r) = Some r' -> eval3 v r' = tri_not (eval3 v r).
Proof. exact apply_not_sound_p. Qed.
Print Assumptions apply_not_sound.

(* the body before 33efa74 (NOT of the ORIGINAL leaf, `apply_logical_not_unfixed`) did not: the witness of the repaired
   defect F-C15-visitor-not-drops-replacement, kept on the model variant; the regenerated body differs from it there *)
Theorem apply_not_refuted_without_fix : exists v a r r',
  apply_logical_not_unfixed a (Some r) = Some r' /\ eval3 v r' <> tri_not (eval3 v r).
Proof. exact apply_not_refuted_without_fix_p. Qed.
Print Assumptions apply_not_refuted_without_fix.

Theorem apply_not_fix_differs : exists a r,
  py_apply_logical_not a (Some r) <> apply_logical_not_unfixed a (Some r).
Proof. exact apply_not_fix_differs_p. Qed.
Print Assumptions apply_not_fix_differs.

(* the whole visit (the regenerated helpers composed as PredicateVisitor._visit_logical_and/_or/_not composes them,
   Model/PredVisitCheck.v): for EVERY substitution -- replaced atoms under a NOT included -- the rebuilt predicate (the
   original when the helpers return None) has exactly the value of the original under the substituted assignment *)
Theorem visit_sound : forall v s p,
  eval3 v (match visit_pred s p with Some r => r | None => p end) = eval3 (subst_val v s) p.
Proof. exact visit_pred_sound_p. Qed.
Print Assumptions visit_sound.

(* ================================= non-vacuity ====================================================== *)
(* flags_ok is satisfiable with a TRUE identity flag (p.logical_and(p)), and then _impl_and really takes
   the `a is b` branch *)
Example flags_ok_with_identity : flags_ok py_impl_and [[Pos 0%N]] [(true, [[Pos 0%N]]); (false, [[Neg 1%N]])]
  /\ py_logical_and [[Pos 0%N]] [(true, [[Pos 0%N]]); (false, [[Neg 1%N]])] = [[Pos 0%N]; [Neg 1%N]].
Proof. cbn. repeat split; auto. discriminate. Qed.

Example collapse_happens : py_logical_and [[Pos 0%N]] [(false, [[]])] = [[]].
Proof. reflexivity. Qed.

Example form_ok_example :
  py_form_ok (FNot (FAnd false (FAtom 0%N) (FOr (FAtom 1%N) (FNot (FAtom 2%N)))))
  /\ py_build (FNot (FAnd false (FAtom 0%N) (FOr (FAtom 1%N) (FNot (FAtom 2%N)))))
     = [[Neg 0%N; Neg 1%N]; [Neg 0%N; Pos 2%N]].
Proof. cbn. repeat split; auto; discriminate. Qed.

(* normalize does return, on an expression that needs the four-way rule:  (a AND b) OR (c AND d)  to CNF *)
Example normalize_returns :
  normalize 10 true (WBin (WBin (Opaque 0%N) true (Opaque 1%N)) false (WBin (Opaque 2%N) true (Opaque 3%N)))
  = Some (WBin (WBin (WBin (Opaque 0%N) false (Opaque 2%N)) true (WBin (Opaque 0%N) false (Opaque 3%N))) true
               (WBin (WBin (Opaque 1%N) false (Opaque 2%N)) true (WBin (Opaque 1%N) false (Opaque 3%N)))).
Proof. vm_compute. reflexivity. Qed.

Example fromTree_toTree_example :
  from_tree 10 false (LNot (LBin (LAtom 0%N) true (LParens (LBin (LNot (LAtom 1%N)) false (LAtom 2%N)))))
  = Some [[LNot (LAtom 0%N)]; [LAtom 1%N; LNot (LAtom 2%N)]]
  /\ to_tree false [[LNot (LAtom 0%N)]; [LAtom 1%N; LNot (LAtom 2%N)]]
     = Some (LBin (LNot (LAtom 0%N)) false (LParens (LBin (LAtom 1%N) true (LNot (LAtom 2%N))))).
Proof. vm_compute. split; reflexivity. Qed.

(* the regenerated normaliser returns on the four-way example too, with the same answer *)
Example gen_normalize_returns :
  py_normalize 10 true (WBin (WBin (Opaque 0%N) true (Opaque 1%N)) false (WBin (Opaque 2%N) true (Opaque 3%N)))
  = Some (WBin (WBin (WBin (Opaque 0%N) false (Opaque 2%N)) true (WBin (Opaque 0%N) false (Opaque 3%N))) true
               (WBin (WBin (Opaque 1%N) false (Opaque 2%N)) true (WBin (Opaque 1%N) false (Opaque 3%N)))).
Proof. vm_compute. reflexivity. Qed.

(* apply_logical_and: the flags hypothesis is satisfiable with a replaced group, and the helper then substitutes it:
   (x0) AND (x1 OR x2) with the second group replaced by (x3)  ->  (x0) AND (x3) *)
Example apply_and_example :
  flags_ok py_impl_and [] (and_args [[Pos 0%N]; [Pos 1%N; Pos 2%N]] [None; Some (false, [[Pos 3%N]])])
  /\ py_apply_logical_and [[Pos 0%N]; [Pos 1%N; Pos 2%N]] [None; Some (false, [[Pos 3%N]])] = Some [[Pos 0%N]; [Pos 3%N]].
Proof. cbn. repeat split; discriminate. Qed.

(* apply_logical_or substitutes:  x0 OR NOT x1  with x0 replaced by (x2 AND x3)  ->  (x2 OR NOT x1) AND (x3 OR NOT x1) *)
Example apply_or_example :
  py_apply_logical_or [Pos 0%N; Neg 1%N] [Some [[Pos 2%N]; [Pos 3%N]]; None]
  = Some [[Pos 2%N; Neg 1%N]; [Pos 3%N; Neg 1%N]].
Proof. vm_compute. reflexivity. Qed.

(* the size bound is attained:  (a AND b) OR (c AND d)  to CNF has 2^(4-1)/2 = 4 = ideal_groups groups of 2 branches *)
Example size_bound_attained :
  let t := LBin (LBin (LAtom 0%N) true (LAtom 1%N)) false (LBin (LAtom 2%N) true (LAtom 3%N)) in
  ideal_groups true (wrap_of t) = 4 /\ option_map (@length _) (py_from_tree 10 true t) = Some 4.
Proof. vm_compute. split; reflexivity. Qed.

(* a replacement under a NOT is substituted:  (NOT x0 OR x1)  with x0 := x2 AND x3  ->  NOT x2 OR NOT x3 OR x1 *)
Example visit_example :
  visit_pred [(0%N, [[Pos 2%N]; [Pos 3%N]])] [[Neg 0%N; Pos 1%N]] = Some [[Neg 2%N; Neg 3%N; Pos 1%N]].
Proof. vm_compute. reflexivity. Qed.
