From Coq Require Import NArith List Bool.
From V Require Import Base.Tri Model.Pred Gen.PredGen Proofs.PredProofs.
Import ListNotations.

Theorem const_true : forall v, eval3 v (py_from_bool true) = TT.
Proof. exact const_true_p. Qed.
Print Assumptions const_true.
