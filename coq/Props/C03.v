From Coq Require Import ZArith NArith List Bool.
From V Require Import Model.Chain.
Theorem placeholder : init = init.
Proof. reflexivity. Qed.
Print Assumptions placeholder.
