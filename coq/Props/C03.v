(* C03 -- Ordered collection search returns the first match of the flattened search path.
   Statements only; every proof is `exact <lemma>` from Proofs/ChainProofs{A,B,C,D,E,G}.v.  The model is
   coq/Model/Chain.v (hand-written, faithful to registry/collections/_base.py, sql_registry.findDataset,
   direct_query_driver/_driver.py and the legacy find-first); it is tied to /repo by the correspondence run
   of harness/props/c03.py (same histories on the real Butler and on this model, every step compared).

     run init ops      the state after ANY sequence of operations (register / remove collection, put /
                       associate, redefine / prepend / extend / remove-from chain, valid or refused)
     wf s              acyclic (rows s) /\ every row links a CHAINED parent to an existing child /\ positions
                       unique per parent (the primary key) /\ one dataset per (collection, type, data ID) /\
                       summaries are supersets of the contents (dataset type and, per governor dimension of the
                       type, the value) /\ collection names unique /\ summary rows belong to existing collections
                       and a CALIBRATION collection lists calibration dataset types only
     reachs rs a b     a = b or b is reachable from a through chain rows
*)
From Coq Require Import ZArith NArith List Bool.
From V Require Import Model.Chain Gen.ChainPosGen Model.ChainGenEdit Proofs.ChainProofsA Proofs.ChainProofsB
  Proofs.ChainProofsC Proofs.ChainProofsD Proofs.ChainProofsE Proofs.ChainProofsG.
Import ListNotations.

(* ---- chain definitions can never become cyclic: every history, unbounded ---- *)
Theorem acyclic_inv : forall ops, acyclic (rows (run init ops)).
Proof. exact acyclic_inv_p. Qed.
Print Assumptions acyclic_inv.

Theorem wf_inv : forall ops, wf (run init ops).
Proof. exact wf_inv_p. Qed.
Print Assumptions wf_inv.

(* the position arithmetic (min - n on prepend, max + 1 on extend) never collides with a surviving row:
   the INSERT can not violate PRIMARY KEY (parent, position) *)
Theorem positions_unique_inv : forall ops p, NoDup (map rpos (prows (rows (run init ops)) p)).
Proof. exact pk_inv_p. Qed.
Print Assumptions positions_unique_inv.

(* the cycle check refuses exactly the edits that would close a cycle (sound and complete) *)
Theorem cycle_check_exact : forall s k p cs, wf s -> k <> KRemove -> forallb (exists_c s) cs = true ->
  is_chained s p = true ->
  (snd (edit s k p cs) = Refused ECycle <-> exists c, In c cs /\ reachs (rows s) c p).
Proof. exact edit_cycle_iff_p. Qed.
Print Assumptions cycle_check_exact.

(* all refusal cases of a chain edit, in the order the code raises them: unknown child, cycle (self
   reference included: order .. p contains p), unknown parent, parent not CHAINED *)
Theorem edit_outcome : forall s k p cs, wf s ->
  snd (edit s k p cs) =
    if negb (forallb (exists_c s) cs) then Refused EMissing
    else if match k with KRemove => false | _ => is_chained s p end
            && existsb (fun c => memN p (match order (fuel_of s) s c with Some l => l | None => [] end)) cs
         then Refused ECycle
    else match ctype_of (colls s) p with
         | None => Refused EMissing
         | Some CChained => Done
         | Some _ => Refused ECollType
         end.
Proof. exact edit_outcome_p. Qed.
Print Assumptions edit_outcome.

(* ---- fuel adequacy: under the invariant the depth-first expansion never runs out of fuel, and more
        fuel changes nothing ---- *)
Theorem flatten_fuel_ok : forall s ns, wf s ->
  order_list (fuel_of s) s ns <> None /\
  forall f', (fuel_of s <= f')%nat -> order_list f' s ns = order_list (fuel_of s) s ns.
Proof. exact flatten_fuel_ok_p. Qed.
Print Assumptions flatten_fuel_ok.

Theorem flatten_total : forall s ns, wf s -> forallb (exists_c s) ns = true ->
  exists path, flatten s ns = Ok path /\ NoDup path.
Proof. exact flatten_total_p. Qed.
Print Assumptions flatten_total.

(* the premise is needed: on a cyclic definition the expansion does not end (the implementation hangs) *)
Theorem cyclic_definition_never_ends : ~ acyclic (rows cyc_state) /\ expand cyc_state [1%N] = Err EFuel.
Proof. exact cyclic_runs_out_p. Qed.
Print Assumptions cyclic_definition_never_ends.

(* ---- every chain edit yields exactly the documented child order (through the integer positions,
        negative ones included); nothing else changes ---- *)
Theorem edit_orders : forall s k p cs s', edit s k p cs = (s', Done) ->
  children s' p =
    match k with
    | KRedefine => dedup cs
    | KPrepend => dedup cs ++ without cs (children s p)
    | KExtend => without cs (children s p) ++ dedup cs
    | KRemove => without cs (children s p)
    end /\
  (forall q, q <> p -> children s' q = children s q) /\
  colls s' = colls s /\ cont s' = cont s.
Proof. exact edit_orders_p. Qed.
Print Assumptions edit_orders.

(* ---- the same over the position arithmetic REGENERATED from the source (tie T: Gen/ChainPosGen.v is produced
        from _find_prepend_position / _find_extend_position / _find_position_in_collection_chain on every run;
        edit_gen = edit with gen_prepend_position / gen_extend_position computing the first new position) ---- *)
Theorem edit_orders_gen : forall s k p cs s', edit_gen s k p cs = (s', Done) ->
  children s' p =
    match k with
    | KRedefine => dedup cs
    | KPrepend => dedup cs ++ without cs (children s p)
    | KExtend => without cs (children s p) ++ dedup cs
    | KRemove => without cs (children s p)
    end /\
  (forall q, q <> p -> children s' q = children s q) /\
  colls s' = colls s /\ cont s' = cont s.
Proof. exact edit_orders_gen_p. Qed.
Print Assumptions edit_orders_gen.

(* the regenerated start positions never collide with a surviving row: PRIMARY KEY (parent, position) holds *)
Theorem positions_unique_gen : forall rs k p cs, pos_unique rs -> pos_unique (apply_edit_gen rs k p cs).
Proof. exact positions_unique_gen_p. Qed.
Print Assumptions positions_unique_gen.

(* the hand-written model used by the correspondence run computes the same edit as the regenerated arithmetic *)
Theorem generated_edit_is_model_edit : forall s k p cs, edit_gen s k p cs = edit s k p cs.
Proof. exact edit_gen_eq. Qed.
Print Assumptions generated_edit_is_model_edit.

(* a refused operation (of any kind) changes nothing *)
Theorem refused_changes_nothing : forall s o s' e, step s o = (s', Refused e) -> s' = s.
Proof. exact step_refused_same. Qed.
Print Assumptions refused_changes_nothing.

(* setCollectionChain(flatten=True): the chain becomes the flattened (chain-free, duplicate-free) child list *)
Theorem edit_flat_order : forall s p cs s', edit_flat s p cs = (s', Done) ->
  exists path, flatten s cs = Ok path /\ children s' p = path /\
    (forall q, q <> p -> children s' q = children s q) /\ colls s' = colls s /\ cont s' = cont s.
Proof. exact edit_flat_order_p. Qed.
Print Assumptions edit_flat_order.

(* ---- find-first: the formulations return the first match of the flattened path ----
     cons              the governor constraint of a query: governor dimension -> value (data ID and WHERE clause)
     consistent s cons ty d   data ID d (of dataset type ty) satisfies it on the governor dimensions of ty
     is_calty s ty     ty is a calibration dataset type;  is_calib s c   c is a CALIBRATION collection *)
(* SqlRegistry.findDataset / Butler.find_dataset without timespan: minimum rank over the fetched rows, in whatever
   order the database returns them, after pruning by summaries; CALIBRATION collections are not searched *)
Theorem find_rank_skips_calibration : forall s ty d ns path, wf s -> flatten s ns = Ok path ->
  find_rank s ty d ns = Ok (first_match (cont s) ty d (skip_calib s path)).
Proof. exact find_rank_skips. Qed.
Print Assumptions find_rank_skips_calibration.

(* ... which for a dataset type that is not a calibration type is the first match of the whole path (no such
   dataset can be a member of a CALIBRATION collection: invariant calib_ok of wf) *)
Theorem find_rank_is_first_match : forall s ty d ns path, wf s -> is_calty s ty = false -> flatten s ns = Ok path ->
  find_rank s ty d ns = Ok (first_match (cont s) ty d path).
Proof. exact find_rank_first. Qed.
Print Assumptions find_rank_is_first_match.

(* Butler.get: every dataset type, CALIBRATION collections searched (unbounded timespan) *)
Theorem find_get_is_first_match : forall s ty d ns path, wf s -> flatten s ns = Ok path ->
  find_get s ty d ns = Ok (first_match (cont s) ty d path).
Proof. exact find_get_first. Qed.
Print Assumptions find_get_is_first_match.

(* legacy Registry.queryDatasets(findFirst=True): ROW_NUMBER window, shortcut for <= 1 collection *)
Theorem find_legacy_is_first_match : forall s cons ty d ns path, wf s -> is_calty s ty = false ->
  consistent s cons ty d = true -> flatten s ns = Ok path ->
  find_legacy s cons ty d ns = Ok (opt_list (first_match (cont s) ty d path)).
Proof. exact find_legacy_first. Qed.
Print Assumptions find_legacy_is_first_match.

(* ... in general: NotImplementedError exactly when a CALIBRATION collection named in the search path survives the
   pruning; no rows for a data ID that contradicts the constraint *)
Theorem find_legacy_any_type : forall s cons ty d ns path, wf s -> flatten s ns = Ok path ->
  find_legacy s cons ty d ns =
    if existsb (fun c => is_calib s c && memN c ns) (prune s cons ty path) then Err ENotImpl
    else Ok (if consistent s cons ty d then opt_list (first_match (cont s) ty d path) else []).
Proof. exact find_legacy_general. Qed.
Print Assumptions find_legacy_any_type.

(* the two flattening algorithms of the code base -- resolve_wildcard (expand, drop chains, keep first
   occurrences) and DirectQueryDriver._filter_collections (`done` set that also stops re-expansion) --
   return the same path *)
Theorem two_flattenings_agree : forall s ns, wf s -> flattenB s ns = flatten s ns.
Proof. exact flattenB_flatten_p. Qed.
Print Assumptions two_flattenings_agree.

(* new query system, Butler.query_datasets(find_first=True): the window over the path of _filter_collections;
   every dataset type, CALIBRATION collections included *)
Theorem find_window_is_first_match : forall s cons ty d ns path, wf s -> consistent s cons ty d = true ->
  flatten s ns = Ok path ->
  find_window s cons ty d ns = Ok (opt_list (first_match (cont s) ty d path)).
Proof. exact find_window_first_full. Qed.
Print Assumptions find_window_is_first_match.

Theorem find_window_any_constraint : forall s cons ty d ns path, wf s -> flatten s ns = Ok path ->
  find_window s cons ty d ns = Ok (if consistent s cons ty d then opt_list (first_match (cont s) ty d path) else []).
Proof. exact find_window_general_full. Qed.
Print Assumptions find_window_any_constraint.

Theorem three_agree : forall s cons ty d ns path, wf s -> is_calty s ty = false -> consistent s cons ty d = true ->
  flatten s ns = Ok path ->
  find_rank s ty d ns = Ok (first_match (cont s) ty d path) /\
  find_get s ty d ns = Ok (first_match (cont s) ty d path) /\
  find_window s cons ty d ns = Ok (opt_list (first_match (cont s) ty d path)) /\
  find_legacy s cons ty d ns = Ok (opt_list (first_match (cont s) ty d path)).
Proof. exact three_agree_p. Qed.
Print Assumptions three_agree.

(* ... and therefore on the state after ANY history, for any search path over existing collections (CALIBRATION
   collections included), any constraint the data ID satisfies *)
Theorem three_agree_every_history : forall ops cons ty d ns, is_calty (run init ops) ty = false ->
  consistent (run init ops) cons ty d = true -> forallb (exists_c (run init ops)) ns = true ->
  exists path, flatten (run init ops) ns = Ok path /\
    find_rank (run init ops) ty d ns = Ok (first_match (cont (run init ops)) ty d path) /\
    find_get (run init ops) ty d ns = Ok (first_match (cont (run init ops)) ty d path) /\
    find_window (run init ops) cons ty d ns = Ok (opt_list (first_match (cont (run init ops)) ty d path)) /\
    find_legacy (run init ops) cons ty d ns = Ok (opt_list (first_match (cont (run init ops)) ty d path)).
Proof. exact three_agree_hist_p. Qed.
Print Assumptions three_agree_every_history.

(* calibration dataset types after any history: findDataset without timespan answers for the path without its
   CALIBRATION collections; Butler.get and the new query system for the whole path; the legacy query refuses a
   CALIBRATION collection that is named in the path and survives the pruning, and otherwise (reached through a
   chain) searches it too *)
Theorem calibration_search_every_history : forall ops cons ty d ns, consistent (run init ops) cons ty d = true ->
  forallb (exists_c (run init ops)) ns = true ->
  exists path, flatten (run init ops) ns = Ok path /\
    find_rank (run init ops) ty d ns = Ok (first_match (cont (run init ops)) ty d (skip_calib (run init ops) path)) /\
    find_get (run init ops) ty d ns = Ok (first_match (cont (run init ops)) ty d path) /\
    find_window (run init ops) cons ty d ns = Ok (opt_list (first_match (cont (run init ops)) ty d path)) /\
    find_legacy (run init ops) cons ty d ns =
      if existsb (fun c => is_calib (run init ops) c && memN c ns) (prune (run init ops) cons ty path) then Err ENotImpl
      else Ok (opt_list (first_match (cont (run init ops)) ty d path)).
Proof. exact calibration_search_p. Qed.
Print Assumptions calibration_search_every_history.

(* pruning the path by collection summaries -- dataset type listed, and for every CONSTRAINED governor dimension of
   the DATASET TYPE that the collection's summary knows, the constrained value listed -- never changes the answer
   for a data ID that satisfies the constraint *)
Theorem summary_pruning_irrelevant : forall s cons ty d path, summ_ok s -> consistent s cons ty d = true ->
  first_match (cont s) ty d (prune s cons ty path) = first_match (cont s) ty d path.
Proof. exact prune_first. Qed.
Print Assumptions summary_pruning_irrelevant.

(* the governor test looks only at the governor dimensions of the dataset type: two constraints that agree on them
   prune the same collections, so a dataset type without a governor is never pruned by a constraint on it (the
   governor summary of a collection covers ALL dataset types in it) *)
Theorem pruning_only_by_own_governors : forall s cons cons' ty path,
  (forall g, In g (tgov s ty) -> lookupNN g cons = lookupNN g cons') -> prune s cons ty path = prune s cons' ty path.
Proof. exact prune_own_governors. Qed.
Print Assumptions pruning_only_by_own_governors.

Theorem foreign_constraint_irrelevant : forall s g v cons ty d ns, ~ In g (tgov s ty) ->
  find_window s ((g, v) :: cons) ty d ns = find_window s cons ty d ns /\
  find_legacy s ((g, v) :: cons) ty d ns = find_legacy s cons ty d ns.
Proof. exact foreign_constraint_p. Qed.
Print Assumptions foreign_constraint_irrelevant.

(* the single-dataset lookups derive their constraint from the data ID: always satisfied *)
Theorem data_id_constraint_consistent : forall s ty d, consistent s (cons_of s ty d) ty d = true.
Proof. exact consistent_cons_of. Qed.
Print Assumptions data_id_constraint_consistent.

(* ---- a CHAINED collection is equivalent to its child list, anywhere in a search path (equal flattened
        paths, hence equal answers of every formulation) ---- *)
Theorem chain_is_flattening : forall s pre c post, wf s -> is_chained s c = true ->
  flatten s (pre ++ [c] ++ post) = flatten s (pre ++ children s c ++ post).
Proof. exact chain_is_flattening_p. Qed.
Print Assumptions chain_is_flattening.

(* ---- adding a collection (plain or chained, anywhere in the path) none of whose flattened members has
        a match never changes the answer ---- *)
Theorem no_match_irrelevant : forall s ty d pre x post P Px,
  flatten s (pre ++ post) = Ok P -> flatten s [x] = Ok Px ->
  (forall c, In c Px -> lookup_ent (cont s) c ty d = None) ->
  exists P', flatten s (pre ++ [x] ++ post) = Ok P' /\ first_match (cont s) ty d P' = first_match (cont s) ty d P.
Proof. exact no_match_irrelevant_p. Qed.
Print Assumptions no_match_irrelevant.

(* repeats in a search path are irrelevant *)
Theorem repeats_irrelevant : forall cn ty d l, first_match cn ty d (dedup l) = first_match cn ty d l.
Proof. exact first_match_dedup. Qed.
Print Assumptions repeats_irrelevant.

(* ---- non-vacuity: a history with chains nested to depth 3, prepend into negative positions, a cycle
        attempt through three levels, shadowing decided below the head of the path ---- *)
Definition demo_ops : list op :=
  [ OType 0 [0%N] false;                       (* dataset type 0 over {instrument, detector} *)
    OReg 0 CRun; OReg 1 CRun; OReg 2 CTagged; OReg 4 CChained; OReg 5 CChained; OReg 6 CChained;
    OSet 0 0 1 10; OSet 1 0 1 11; OSet 2 0 1 11;
    OEdit KRedefine 4 [0; 1; 0]%N;              (* 4 -> (0, 1) *)
    OEdit KRedefine 5 [4; 2]%N;                 (* 5 -> (4, 2) *)
    OEdit KExtend 6 [5]%N;                      (* 6 -> (5): depth 3 *)
    OEdit KPrepend 4 [2; 1]%N;                  (* 4 -> (2, 1, 0): positions -2, -1, 0 *)
    OEdit KRedefine 4 [6]%N ].                  (* cycle 4 -> 6 -> 5 -> 4: refused *)
Definition demo : st := run init demo_ops.

Example demo_depth3 : flatten demo [6%N] = Ok [2; 1; 0]%N /\ children demo 4 = [2; 1; 0]%N /\
  map rpos (prows (rows demo) 4) = [0; -2; -1]%Z.
Proof. vm_compute. repeat split. Qed.
Example demo_cycle_refused :
  snd (step (run init (firstn 14 demo_ops)) (OEdit KRedefine 4 [6]%N)) = Refused ECycle.
Proof. vm_compute. reflexivity. Qed.
Example demo_self_refused : snd (edit demo KExtend 5 [0; 5]%N) = Refused ECycle.
Proof. vm_compute. reflexivity. Qed.
Example demo_unknown_child : snd (edit demo KPrepend 5 [0; 9]%N) = Refused EMissing.
Proof. vm_compute. reflexivity. Qed.
Example demo_parent_not_chained : snd (edit demo KExtend 0 [1]%N) = Refused ECollType.
Proof. vm_compute. reflexivity. Qed.
Example demo_three_agree :
  find_rank demo 0 1 [6; 0]%N = Ok (Some 11%N) /\ find_window demo [(0, 0)]%N 0 1 [6; 0]%N = Ok [11%N] /\
  find_legacy demo [] 0 1 [6; 0]%N = Ok [11%N] /\ first_match (cont demo) 0 1 [2; 1; 0]%N = Some 11%N /\
  find_rank demo 0 1 [0; 6]%N = Ok (Some 10%N).
Proof. vm_compute. repeat split. Qed.
Example demo_wf_hyp : exists path, flattenB demo [6; 0]%N = Ok path /\ NoDup path /\ flatten demo [6; 0]%N = Ok path.
Proof.
  exists [2; 1; 0]%N. split; [vm_compute; reflexivity|]. split; [|vm_compute; reflexivity].
  repeat constructor; simpl; intuition discriminate.
Qed.

(* governors, constraints and CALIBRATION collections: type 0 over {instrument}, type 2 over {skymap}, type 3 a
   calibration type over {instrument}.  Run 1 holds a type-0 dataset of instrument 1 and a type-2 dataset of skymap
   value 2, so its governor summary knows skymap = {2}; a search for type 0 constrained to skymap 1 (a governor type 0
   does not have) must still find the dataset in run 1 (seed C03b pruned run 1 here).  The calibration collection 10
   holds dataset 21 (certified), run 0 dataset 20 of the same data ID. *)
Definition demo2_ops : list op :=
  [ OType 0 [0%N] false; OType 2 [1%N] false; OType 3 [0%N] true;
    OReg 0 CRun; OReg 1 CRun; OReg 10 CCalib; OReg 4 CChained;
    OSet 1 0 17 30; OSet 1 2 128 31; OSet 0 0 17 32;
    OSet 0 3 1 20; OSet 1 3 1 21; OCert 10 3 1 21;
    OEdit KRedefine 4 [10; 0]%N ].
Definition demo2 : st := run init demo2_ops.
Example demo2_foreign_governor :
  prune demo2 [(0, 1); (1, 1)]%N 0 [1; 0]%N = [1; 0]%N /\
  find_window demo2 [(0, 1); (1, 1)]%N 0 17 [1; 0]%N = Ok [30%N] /\
  find_legacy demo2 [(1, 1)]%N 0 17 [1; 0]%N = Ok [30%N] /\
  consistent demo2 [(0, 1); (1, 1)]%N 0 17 = true /\ tgov demo2 0 = [0%N] /\
  (* a constraint on the type's own governor does prune, and selects *)
  prune demo2 [(0, 2)]%N 0 [1; 0]%N = [] /\ find_window demo2 [(0, 2)]%N 0 17 [1; 0]%N = Ok [].
Proof. vm_compute. repeat split. Qed.
Example demo2_calibration :
  flatten demo2 [4%N] = Ok [10; 0]%N /\ is_calib demo2 10 = true /\ is_calty demo2 3 = true /\
  find_rank demo2 3 1 [4%N] = Ok (Some 20%N) /\           (* findDataset, no timespan: collection 10 skipped *)
  find_get demo2 3 1 [4%N] = Ok (Some 21%N) /\            (* Butler.get: unbounded timespan, collection 10 first *)
  find_window demo2 [] 3 1 [4%N] = Ok [21%N] /\
  find_legacy demo2 [] 3 1 [4%N] = Ok [21%N] /\           (* reached through a chain: searched *)
  find_legacy demo2 [] 3 1 [10; 0]%N = Err ENotImpl /\    (* named explicitly: refused *)
  find_legacy demo2 [] 0 17 [10; 0]%N = Ok [32%N] /\      (* ... unless pruned: it holds no type-0 dataset *)
  snd (step demo2 (OCert 10 0 17 30)) = Refused ETypeErr /\ snd (step demo2 (OCert 0 3 1 20)) = Refused ECollType /\
  snd (step demo2 (OSet 10 3 1 20)) = Refused ECollType.
Proof. vm_compute. repeat split. Qed.
Example demo2_flatten_edit :
  (* setCollectionChain(4, [4], flatten=True): accepted, the chain becomes its own leaves *)
  let '(s', o) := step demo2 (OEditFlat 4 [4; 1]%N) in o = Done /\ children s' 4 = [10; 0; 1]%N.
Proof. vm_compute. split; reflexivity. Qed.

(* ---- a limit of the position arithmetic that the model exposes (not reproducible on SQLite): positions
        are never re-packed, so 32770 accepted prepends that merely swap the two children of a chain push
        the positions below the range of the SMALLINT column (PostgreSQL would refuse the next edit) ---- *)
Theorem position_width_exceeded :
  snd (drift 16385) = true /\ children (fst (drift 16385)) 4 = [0%N; 1%N] /\
  map rpos (rows (fst (drift 16385))) = [(-32769)%Z; (-32770)%Z].
Proof. exact position_drift_p. Qed.
Print Assumptions position_width_exceeded.
