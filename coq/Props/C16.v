(* C16 -- Ordering, limits, paging and counts describe the same result set.
   Statements only; every proof is `exact <lemma>` from Proofs/PagingProofs.v / Proofs/PagingProofsOrder.v.
   Model: Model/Paging.v (DirectQueryDriver.execute/_Cursor/count/any, Postprocessing.apply, Butler.query_* limit
   handling, convert_where_args), tied to /repo by the correspondence run of harness/props/c16.py.

   rows   : what the SQL statement yields without LIMIT, in SQL order       keep : the Python-side post-filter
   pp     : Postprocessing is truthy (limit implemented in Python)           c    : raw page size and filter factor
   visible pp keep rows = if pp then filter keep rows else rows             lim_ok = None or Some k with 0 <= k

   The g* definitions (Model/PagingPP.v: gapply, grun_pages, gexecute, giterate, gcount, gany) run the counter logic of
   `Postprocessing.apply` REGENERATED from /repo on every run (Gen/PostprocGen.v, harness/translators/postproc.py) inside
   the generator / raw-page-loop skeleton; the section "the coded raw-page loop" states the paging clauses over them. *)
From Coq Require Import ZArith List Bool Permutation Sorting.Sorted.
From V Require Import Model.Paging Proofs.PagingProofs Proofs.PagingProofsOrder.
From V Require Import Model.PagingPPBase Gen.PostprocGen Model.PagingPP Proofs.PagingProofsX.
Import ListNotations.
Open Scope Z_scope.

(* ---- paging ---------------------------------------------------------------------------------------------- *)
Theorem pages_partition : forall (A : Type) (n : nat) (rows : list A), (1 <= n)%nat ->
  concat (pages n rows) = rows.
Proof. exact (@pages_concat). Qed.
Print Assumptions pages_partition.

Theorem paging_exact : forall (A : Type) (keep : A -> bool) (n : nat) (lim : option Z) (rows : list A),
  (1 <= n)%nat -> lim_ok lim ->
  concat (run_pages true keep lim (pages n rows)) = firstn_opt lim (filter keep rows).
Proof. exact (@paging_exact_p). Qed.
Print Assumptions paging_exact.

Theorem execute_exact : forall (A : Type) (c : cfg) (pp : bool) (keep : A -> bool) (lim : option Z) (rows : list A),
  0 <= raw_page c -> 0 <= factor c -> lim_ok lim ->
  iterate c pp keep lim rows = firstn_opt lim (visible pp keep rows).
Proof. exact (@execute_exact_p). Qed.
Print Assumptions execute_exact.

Theorem each_row_once : forall (A : Type) (c : cfg) (pp : bool) (keep : A -> bool) (rows : list A),
  0 <= raw_page c -> 0 <= factor c ->
  iterate c pp keep None rows = visible pp keep rows
  /\ (NoDup rows -> NoDup (iterate c pp keep None rows))
  /\ (forall r, In r (iterate c pp keep None rows) <-> In r rows /\ (pp = true -> keep r = true)).
Proof. exact (@each_row_once_p). Qed.
Print Assumptions each_row_once.

Theorem page_size_irrelevant : forall (A : Type) (c1 c2 : cfg) (pp : bool) (keep : A -> bool) (lim : option Z) (rows : list A),
  0 <= raw_page c1 -> 0 <= factor c1 -> 0 <= raw_page c2 -> 0 <= factor c2 -> lim_ok lim ->
  iterate c1 pp keep lim rows = iterate c2 pp keep lim rows.
Proof. exact (@page_size_irrelevant_p). Qed.
Print Assumptions page_size_irrelevant.

Theorem limit_prefix : forall (A : Type) (c : cfg) (pp : bool) (keep : A -> bool) (k : Z) (rows : list A),
  0 <= raw_page c -> 0 <= factor c -> 0 <= k ->
  iterate c pp keep (Some k) rows = firstn (Z.to_nat k) (iterate c pp keep None rows)
  /\ zlen (iterate c pp keep (Some k) rows) = Z.min k (zlen (iterate c pp keep None rows)).
Proof. exact (@limit_prefix_p). Qed.
Print Assumptions limit_prefix.

(* ---- count / any ----------------------------------------------------------------------------------------- *)
Theorem count_agrees : forall (A : Type) (c : cfg) (pp : bool) (keep : A -> bool) (lim : option Z) (rows : list A),
  0 <= raw_page c -> 0 <= factor c -> lim_ok lim ->
  count pp keep lim rows true true = Ok (zlen (iterate c pp keep lim rows)).
Proof. exact (@count_agrees_p). Qed.
Print Assumptions count_agrees.

Theorem count_without_discard : forall (A : Type) (c : cfg) (pp : bool) (keep : A -> bool) (lim : option Z) (rows : list A),
  0 <= raw_page c -> 0 <= factor c -> lim_ok lim ->
  count pp keep lim rows true false = if pp then ErrInvalidQuery else Ok (zlen (iterate c pp keep lim rows)).
Proof. exact (@count_nodiscard_p). Qed.
Print Assumptions count_without_discard.

Theorem count_inexact_upper_bound : forall (A : Type) (c : cfg) (pp : bool) (keep : A -> bool) (lim : option Z) (rows : list A) (d : bool),
  0 <= raw_page c -> 0 <= factor c -> lim_ok lim ->
  exists n, count pp keep lim rows false d = Ok n /\ zlen (iterate c pp keep lim rows) <= n.
Proof. exact (@count_inexact_upper_p). Qed.
Print Assumptions count_inexact_upper_bound.

(* any agrees with iteration for EVERY accepted limit, 0 included (repair 84ff715) *)
Theorem any_agrees : forall (A : Type) (c : cfg) (pp : bool) (keep : A -> bool) (lim : option Z) (rows : list A),
  0 <= raw_page c -> 0 <= factor c -> lim_ok lim ->
  any pp keep lim rows true true = Ok (negb (is_nil (iterate c pp keep lim rows))).
Proof. exact (@any_agrees_p). Qed.
Print Assumptions any_agrees.

Theorem results_any_agrees : forall (A : Type) (c : cfg) (pp : bool) (keep : A -> bool) (lim : option Z) (rows : list A),
  0 <= raw_page c -> 0 <= factor c -> lim_ok lim ->
  results_any pp keep lim rows true true = Ok (negb (is_nil (iterate c pp keep lim rows)))
  /\ results_iterate c pp keep lim rows = Ok (iterate c pp keep lim rows).
Proof. exact (@results_any_agrees_p). Qed.
Print Assumptions results_any_agrees.

Theorem any_false_is_sound : forall (A : Type) (c : cfg) (pp : bool) (keep : A -> bool) (lim : option Z) (rows : list A) (e x : bool),
  0 <= raw_page c -> 0 <= factor c -> lim_ok lim ->
  any pp keep lim rows e x = Ok false -> iterate c pp keep lim rows = [].
Proof. exact (@any_false_sound_p). Qed.
Print Assumptions any_false_is_sound.

(* a negative limit on a results object is refused (repair dc45863): nothing is iterated, counted or tested *)
Theorem negative_limit_refused : forall (A : Type) (c : cfg) (pp : bool) (keep : A -> bool) (k : Z) (rows : list A) (e x : bool),
  k < 0 ->
  results_iterate c pp keep (Some k) rows = ErrInvalidQuery
  /\ results_count pp keep (Some k) rows e x = ErrInvalidQuery
  /\ results_any pp keep (Some k) rows e x = ErrInvalidQuery.
Proof. exact (@negative_limit_refused_p). Qed.
Print Assumptions negative_limit_refused.

Theorem accepted_limit_passes : forall (A : Type) (c : cfg) (pp : bool) (keep : A -> bool) (lim : option Z) (rows : list A) (e x : bool),
  lim_ok lim ->
  results_iterate c pp keep lim rows = Ok (iterate c pp keep lim rows)
  /\ results_count pp keep lim rows e x = count pp keep lim rows e x
  /\ results_any pp keep lim rows e x = any pp keep lim rows e x.
Proof. exact (@accepted_limit_passes_p). Qed.
Print Assumptions accepted_limit_passes.

(* ---- the PRE-FIX variants violate the property: reverting either repair is known to break it ------------- *)
(* any_driver = what result objects answered before 84ff715 (still the answer of Query.any on the un-sliced query) *)
Theorem any_prefix_limit0_refuted : exists (pp : bool) (rows : list Z),
  iterate c4 pp (fun _ => true) (Some 0) rows = [] /\ count pp (fun _ => true) (Some 0) rows true true = Ok 0
  /\ any_driver pp (fun _ => true) rows true true = Ok true.
Proof. exact any_prefix_limit0_refuted_p. Qed.
Print Assumptions any_prefix_limit0_refuted.

(* the driver reached with a raw negative limit, as before dc45863 *)
Theorem negative_limit_prefix_refuted :
  (exists rows : list Z, iterate c4 true (fun _ => true) (Some (-1)) rows = []
                         /\ count true (fun _ => true) (Some (-1)) rows true true = Ok 3)
  /\ (exists rows : list Z, iterate c4 false (fun _ => true) (Some (-1)) rows = rows /\ rows <> []
                            /\ count false (fun _ => true) (Some (-1)) rows true true = Ok (-1)).
Proof. exact negative_limit_prefix_refuted_p. Qed.
Print Assumptions negative_limit_prefix_refuted.

(* ---- Butler.query_data_ids / query_datasets / query_dimension_records ------------------------------------- *)
Theorem butler_limit : forall (A : Type) (c : cfg) (pp : bool) (keep : A -> bool) (limit : option Z) (explain : bool) (rows : list A),
  0 <= raw_page c -> 0 <= factor c -> lim_ok limit ->
  butler_query c pp keep limit explain rows = (explained explain limit (firstn_opt limit (visible pp keep rows)), false).
Proof. exact (@butler_nonneg_p). Qed.
Print Assumptions butler_limit.

Theorem butler_negative_limit : forall (A : Type) (c : cfg) (pp : bool) (keep : A -> bool) (l : Z) (explain : bool) (rows : list A),
  0 <= raw_page c -> 0 <= factor c -> l < 0 ->
  butler_query c pp keep (Some l) explain rows =
    (explained explain (Some l) (firstn (Z.to_nat (- l)) (visible pp keep rows)), - l <? zlen (visible pp keep rows)).
Proof. exact (@butler_negative_p). Qed.
Print Assumptions butler_negative_limit.

(* ---- ORDER BY --------------------------------------------------------------------------------------------- *)
Theorem ordered_perm_sorted : forall (ks : list key) (rows : list row),
  Permutation (order_by ks rows) rows
  /\ StronglySorted (fun r s => le_keys ks r s = true) (order_by ks rows)
  /\ (forall z, filter (eq_keys ks z) (order_by ks rows) = filter (eq_keys ks z) rows).
Proof. intros ks rows. exact (conj (order_by_perm ks rows) (conj (order_by_strongly_sorted ks rows) (order_by_stable ks rows))). Qed.
Print Assumptions ordered_perm_sorted.

Theorem order_is_total_preorder : forall (ks : list key),
  (forall r s, le_keys ks r s = false -> le_keys ks s r = true)
  /\ (forall r s t, le_keys ks r s = true -> le_keys ks s t = true -> le_keys ks r t = true)
  /\ (forall r s, cmp_keys ks s r = CompOpp (cmp_keys ks r s)).
Proof. intro ks. exact (conj (le_keys_total ks) (conj (le_keys_trans ks) (cmp_keys_antisym ks))). Qed.
Print Assumptions order_is_total_preorder.

Theorem nulls_first_ascending : forall x : Z, cmp_oz None (Some x) = Lt /\ cmp_key (0%nat, true) [None] [Some x] = Gt.
Proof. intro x. split; reflexivity. Qed.
Print Assumptions nulls_first_ascending.

Theorem limit_of_ordered_is_sorted_prefix : forall (c : cfg) (pp : bool) (keep : row -> bool) (k : Z) (ks : list key) (rows : list row),
  0 <= raw_page c -> 0 <= factor c -> 0 <= k ->
  iterate c pp keep (Some k) (order_by ks rows) = firstn (Z.to_nat k) (visible pp keep (order_by ks rows)).
Proof. intros c pp keep k ks rows H1 H2 H3. exact (execute_exact_p c pp keep (Some k) (order_by ks rows) H1 H2 H3). Qed.
Print Assumptions limit_of_ordered_is_sorted_prefix.

(* ---- constraint spellings --------------------------------------------------------------------------------- *)
Theorem constraint_spellings : forall (d kw : dataid) (rows : list row), NoDup (keys_of d) -> NoDup (keys_of kw) ->
  let m := merge d kw in
  filter (constraint_pred d kw) rows = filter (dataid_pred m) rows
  /\ filter (kw_pred m) rows = filter (dataid_pred m) rows
  /\ filter (where_pred m) rows = filter (dataid_pred m) rows.
Proof. exact constraint_spellings_p. Qed.
Print Assumptions constraint_spellings.

Theorem kwargs_override_data_id : forall (d kw : dataid) (r : row), NoDup (keys_of d) -> NoDup (keys_of kw) ->
  dataid_pred (merge d kw) r = true <->
  (forall k v, In (k, v) kw -> eq_col r k v = true) /\ (forall k v, In (k, v) d -> ~ In k (keys_of kw) -> eq_col r k v = true).
Proof. exact merge_override_p. Qed.
Print Assumptions kwargs_override_data_id.

Theorem selected_rows_carry_the_values : forall (d : dataid) (r : row) (k : nat) (v : Z),
  dataid_pred d r = true -> In (k, v) d -> col r k = Some v.
Proof. exact dataid_pred_sound. Qed.
Print Assumptions selected_rows_carry_the_values.

(* ---- the coded raw-page loop: Postprocessing.apply as regenerated from the source -------------------------- *)
(* the regenerated generator computes exactly what the hand-written model (the one the correspondence run compares with
   the implementation) computes: every limit (negative ones too), every row sequence, every filter, every page list *)
Theorem postproc_refines_model : forall (A : Type) (t c : bool) (keep : A -> bool) (lim : option Z) (rows : list A)
    (pgs : list (list A)) (cf : cfg) (pp e x : bool),
  gapply t c keep lim rows = apply (t || c) keep lim rows
  /\ grun_pages t c keep lim pgs = run_pages (t || c) keep lim pgs
  /\ gexecute cf pp keep lim rows = execute cf pp keep lim rows
  /\ gcount pp keep lim rows e x = count pp keep lim rows e x
  /\ gany pp keep lim rows e x = any pp keep lim rows e x.
Proof. exact (@refines_p). Qed.
Print Assumptions postproc_refines_model.

(* iterating over the result pages yields every passing row exactly once, in order -- every raw page size >= 0 (0 is
   SQLAlchemy's one-row partitions), every filter factor, with and without post-filtering *)
Theorem pages_exactly_once : forall (A : Type) (c : cfg) (pp : bool) (keep : A -> bool) (rows : list A),
  0 <= raw_page c -> 0 <= factor c ->
  giterate c pp keep None rows = visible pp keep rows
  /\ (NoDup rows -> NoDup (giterate c pp keep None rows))
  /\ (forall r, In r (giterate c pp keep None rows) <-> In r rows /\ (pp = true -> keep r = true)).
Proof. exact (@pages_exactly_once_p). Qed.
Print Assumptions pages_exactly_once.

(* the same for equal-sized chunks of ANY size n >= 1 and any limit, check_validity_match_count on or off *)
Theorem pages_exactly_once_every_page_size : forall (A : Type) (keep : A -> bool) (n : nat) (lim : option Z) (rows : list A) (cv : bool),
  (1 <= n)%nat -> lim_ok lim ->
  concat (grun_pages true cv keep lim (pages n rows)) = firstn_opt lim (filter keep rows).
Proof. exact (@pages_exactly_once_n_p). Qed.
Print Assumptions pages_exactly_once_every_page_size.

(* ... and for ANY split of the rows into raw pages (ragged, empty pages included); the counter left in the object is
   the limit minus the number of rows handed out so far, and never negative *)
Theorem pages_exactly_once_any_partition : forall (A : Type) (t c : bool) (keep : A -> bool) (pgs : list (list A)) (lim : option Z),
  t || c = true -> lim_ok lim ->
  concat (grun_pages t c keep lim pgs) = firstn_opt lim (filter keep (concat pgs))
  /\ gfinal_limit t c keep lim pgs = lim_after lim (zlen (concat (grun_pages t c keep lim pgs)))
  /\ lim_ok (gfinal_limit t c keep lim pgs).
Proof. exact (@gpages_exact_p). Qed.
Print Assumptions pages_exactly_once_any_partition.

(* with a limit: exactly the first `k` passing rows, whatever the raw page size *)
Theorem limit_prefix_pages : forall (A : Type) (c : cfg) (pp : bool) (keep : A -> bool) (k : Z) (rows : list A),
  0 <= raw_page c -> 0 <= factor c -> 0 <= k ->
  giterate c pp keep (Some k) rows = firstn (Z.to_nat k) (visible pp keep rows)
  /\ giterate c pp keep (Some k) rows = firstn (Z.to_nat k) (giterate c pp keep None rows)
  /\ zlen (giterate c pp keep (Some k) rows) = Z.min k (zlen (visible pp keep rows)).
Proof. exact (@limit_prefix_pages_p). Qed.
Print Assumptions limit_prefix_pages.

Theorem page_size_irrelevant_pages : forall (A : Type) (c1 c2 : cfg) (pp : bool) (keep : A -> bool) (lim : option Z) (rows : list A),
  0 <= raw_page c1 -> 0 <= factor c1 -> 0 <= raw_page c2 -> 0 <= factor c2 -> lim_ok lim ->
  giterate c1 pp keep lim rows = giterate c2 pp keep lim rows.
Proof. exact (@page_size_irrelevant_pages_p). Qed.
Print Assumptions page_size_irrelevant_pages.

(* once the limit is reached, every later raw page comes out empty (they are still read: wasteful, not wrong) *)
Theorem after_limit_pages_are_empty : forall (A : Type) (t c : bool) (keep : A -> bool) (pgs1 pgs2 : list (list A)) (k : Z),
  t || c = true -> 0 <= k ->
  zlen (concat (grun_pages t c keep (Some k) pgs1)) = k ->
  grun_pages t c keep (Some k) (pgs1 ++ pgs2) = grun_pages t c keep (Some k) pgs1 ++ map (fun _ => []) pgs2.
Proof. exact (@after_limit_empty_p). Qed.
Print Assumptions after_limit_pages_are_empty.

(* no row moves to another page: each output page is a prefix of the passing rows of its own raw page *)
Theorem page_outputs_stay_in_their_page : forall (A : Type) (t c : bool) (keep : A -> bool) (pgs : list (list A)) (lim : option Z),
  t || c = true -> lim_ok lim ->
  Forall2 (fun p o => exists n : nat, o = firstn n (filter keep p)) pgs (grun_pages t c keep lim pgs).
Proof. exact (@page_outputs_local_p). Qed.
Print Assumptions page_outputs_stay_in_their_page.

(* count / any (as coded: one apply over the whole result) agree with the paged iteration *)
Theorem count_any_agree_pages : forall (A : Type) (c : cfg) (pp : bool) (keep : A -> bool) (lim : option Z) (rows : list A),
  0 <= raw_page c -> 0 <= factor c -> lim_ok lim ->
  gcount pp keep lim rows true true = Ok (zlen (giterate c pp keep lim rows))
  /\ gany pp keep lim rows true true = Ok (negb (is_nil (giterate c pp keep lim rows)))
  /\ (exists n, gcount pp keep lim rows false true = Ok n /\ zlen (giterate c pp keep lim rows) <= n)
  /\ (forall e x, gany pp keep lim rows e x = Ok false -> giterate c pp keep lim rows = []).
Proof. exact (@count_any_agree_pages_p). Qed.
Print Assumptions count_any_agree_pages.

(* the three spellings of one constraint give the same pages, the same limited prefix and the same counts *)
Theorem constraint_spellings_paged : forall (c : cfg) (pp : bool) (keep : row -> bool) (lim : option Z) (d kw : dataid) (rows : list row),
  NoDup (keys_of d) -> NoDup (keys_of kw) ->
  let m := merge d kw in
  giterate c pp keep lim (filter (constraint_pred d kw) rows) = giterate c pp keep lim (filter (dataid_pred m) rows)
  /\ giterate c pp keep lim (filter (kw_pred m) rows) = giterate c pp keep lim (filter (dataid_pred m) rows)
  /\ giterate c pp keep lim (filter (where_pred m) rows) = giterate c pp keep lim (filter (dataid_pred m) rows)
  /\ (forall e x, gcount pp keep lim (filter (constraint_pred d kw) rows) e x = gcount pp keep lim (filter (where_pred m) rows) e x
                  /\ gcount pp keep lim (filter (kw_pred m) rows) e x = gcount pp keep lim (filter (where_pred m) rows) e x).
Proof. exact spellings_paged_p. Qed.
Print Assumptions constraint_spellings_paged.

(* what the in-place update of self._limit is needed for.  Same skeleton, counter kept in a local variable:
   (b) written back only after the loop (seed C16b): the `return` at the limit skips it;
   (a) written back only when it reaches 0 (seed C16a): a page that ends before the limit forgets its rows *)
Theorem writeback_after_loop_only_refuted : exists (lim : Z) (pgs : list (list Z)),
  0 <= lim /\ concat (vb_pages (fun _ => true) (Some lim) pgs) <> firstn (Z.to_nat lim) (concat pgs)
  /\ zlen (concat (vb_pages (fun _ => true) (Some lim) pgs)) > lim.
Proof. exact writeback_after_loop_only_refuted_p. Qed.
Print Assumptions writeback_after_loop_only_refuted.

Theorem writeback_at_zero_only_refuted : exists (lim : Z) (pgs : list (list Z)),
  0 <= lim /\ concat (va_pages (fun _ => true) (Some lim) pgs) <> firstn (Z.to_nat lim) (concat pgs)
  /\ zlen (concat (va_pages (fun _ => true) (Some lim) pgs)) > lim.
Proof. exact writeback_at_zero_only_refuted_p. Qed.
Print Assumptions writeback_at_zero_only_refuted.

(* ---- non-vacuity ------------------------------------------------------------------------------------------ *)
Example ex_paging : iterate {| raw_page := 2; factor := 1 |} true (fun x => negb (x =? 3)) (Some 3) [1; 2; 3; 4; 5; 6] = [1; 2; 4]
  /\ execute {| raw_page := 2; factor := 1 |} true (fun x => negb (x =? 3)) (Some 3) [1; 2; 3; 4; 5; 6] = [[1; 2]; [4]; []].
Proof. vm_compute. auto. Qed.

Example ex_limit0_page_size : execute {| raw_page := 2; factor := 10 |} true (fun _ : Z => true) (Some 0) [1; 2; 3] = [[]; []; []].
Proof. vm_compute. reflexivity. Qed.

Example ex_order : order_by [(1%nat, true); (0%nat, false)] [[Some 1; None]; [Some 2; Some 5]; [Some 3; Some 5]; [Some 4; Some 9]]
  = [[Some 4; Some 9]; [Some 2; Some 5]; [Some 3; Some 5]; [Some 1; None]].
Proof. vm_compute. reflexivity. Qed.

Example ex_spelling : let rows := [[Some 0; Some 5]; [Some 0; Some 7]; [None; Some 7]] in
  filter (constraint_pred [(0%nat, 0); (1%nat, 5)] [(1%nat, 7)]) rows = [[Some 0; Some 7]]
  /\ NoDup (keys_of [(0%nat, 0); (1%nat, 5)]) /\ NoDup (keys_of [(1%nat, 7)]).
Proof. vm_compute. repeat split; repeat constructor; simpl; intuition congruence. Qed.

Example ex_any_limit0 : any false (fun _ : Z => true) (Some 0) [1; 2; 3] true true = Ok false
  /\ any false (fun _ : Z => true) (Some 2) [1; 2; 3] true true = Ok true
  /\ results_iterate c4 false (fun _ : Z => true) (Some (-1)) [1; 2; 3] = ErrInvalidQuery.
Proof. vm_compute. auto. Qed.

Example ex_butler_negative : butler_query {| raw_page := 2; factor := 10 |} false (fun _ : Z => true) (Some (-2)) true [1; 2; 3]
  = (Ok [1; 2], true).
Proof. vm_compute. reflexivity. Qed.

Example ex_coded_pages : gexecute {| raw_page := 2; factor := 1 |} true (fun x => negb (x =? 3)) (Some 3) [1; 2; 3; 4; 5; 6] = [[1; 2]; [4]; []]
  /\ gfinal_limit true false (fun x => negb (x =? 3)) (Some 3) [[1; 2]; [3; 4]; [5; 6]] = Some 0
  /\ gfinal_limit true false (fun x => negb (x =? 3)) (Some 9) [[1; 2]; [3; 4]; [5; 6]] = Some 4
  /\ gcount true (fun x => negb (x =? 3)) (Some 3) [1; 2; 3; 4; 5; 6] true true = Ok 3.
Proof. vm_compute. auto. Qed.

Example ex_seeded_variants : concat (vb_pages (fun _ : Z => true) (Some 1) [[1; 2]; [3; 4]; [5; 6]]) = [1; 3; 5]
  /\ concat (va_pages (fun _ : Z => true) (Some 3) [[1; 2]; [3; 4]; [5; 6]]) = [1; 2; 3; 4; 5; 6]
  /\ concat (grun_pages true false (fun _ : Z => true) (Some 3) [[1; 2]; [3; 4]; [5; 6]]) = [1; 2; 3].
Proof. vm_compute. auto. Qed.
