From Coq Require Import ZArith List Bool.
From V Require Import Model.Paging.
Theorem stub : True. Proof. exact I. Qed.
Print Assumptions stub.
