(* C06 -- Queries relate dimensions exactly as the stored records relate them.
   Statements only; every proof is `exact <lemma>` from Proofs/JoinProofs{,B,C,D,X,X2,...,X7}.v.  Model: Model/Join.v over the C12
   universe model; `jc_current` = the current universe and its spatial families REGENERATED from dimensions.yaml
   (Gen/Universes.v) + the view-of map (band <- physical_filter, checked against the implementation on every run).

   Vocabulary
     spec c ov d ns        brute force: the assignments over the group's dimensions ns (values from the active domain) for
                           which every dimension / relationship-defining element of the group has an agreeing row in d and,
                           when two spatial families meet, the regions of their finest members overlap (ov)
     run_plan / query      natural join of the planned tables + overlap-table prefilter + exact region test
     fk_closed c d         every foreign key of the schema holds in d          (database-enforced: proved for every history)
     view_closed c d       every band value used by another table is the band of some physical_filter
                           (NOT enforced by the schema: hypothesis; refuted without it, see dangling_band_refuted)
     ovl_sound c env s     every pixel of the envelope of every stored region has its row in the overlap table
     ovl_nonnull c s       no overlap row belongs to a record whose region is NULL
     pk_unique c d         at most one record per primary key                  (proved for every history)
     ovl_exact c env s     every overlap row is a pixel of the envelope of the region stored under its key
     keys_nodup d          the association list of tables has one entry per element (proved for every history)
     qrecords c ov s e     Butler.query_dimension_records(e): the query over e's minimal group with e's table joined too
     temporal_fams / tjoin_needed / explicit_tjoin    temporal families of a group, automatic / explicit temporal join
     operand / query_op / spec_op    a join operand (materialization, uploaded data IDs, dataset search) = one more relation over
                           a closed sub-group; op_embeds = the operand's group contains both most fine-grained spatial members of
                           the QUERY's dimensions (only then is the automatic spatial join skipped)
     ov, env, env_sound    abstract geometry: exact overlap, common-skypix envelope, "overlapping regions share a pixel" *)
From Coq Require Import String List Bool ZArith NArith Permutation.
From V Require Import Model.Universe Model.Group Gen.Universes Model.Join Model.JoinCheck
  Proofs.GroupProofs Proofs.JoinProofs Proofs.JoinProofsB Proofs.JoinProofsC Proofs.JoinProofsD
  Proofs.JoinProofsX Proofs.JoinProofsX2 Proofs.JoinProofsX3 Proofs.JoinProofsX4 Proofs.JoinProofsX5
  Proofs.JoinProofsX6 Proofs.JoinProofsX7.
Import ListNotations.
Open Scope string_scope.
Open Scope list_scope.

(* ---- the plan is correct: ANY universe passing uni_okb, ANY group, ANY population, ANY plan that contains the
        mandatory tables, joins only elements of the group and covers its dimensions (so the hash-order dependent
        tie-break of the greedy loop is irrelevant) ---- *)
Theorem plan_correct : forall (ov : N -> N -> bool) (env : N -> list N),
  (forall x y, ov x y = true -> exists p, In p (env x) /\ In p (env y)) ->
  forall c s plan ns,
  wf_universe (ju c) = true -> uni_okb c = true ->
  fk_closed c (recs s) -> view_closed c (recs s) -> ovl_sound c env s -> ovl_nonnull c s ->
  (forall t, In t plan -> In t (ju c)) -> plan_sub c ns plan -> incl (mandatory c ns) plan ->
  covers c plan ns = true -> spatial_pair c ns <> SpMany ->
  run_plan c ov s plan ns = QOk (spec c ov (recs s) ns).
Proof. exact plan_correct_p. Qed.
Print Assumptions plan_correct.

(* the driver's own plan (mandatory tables + greedy completion), for any configuration where plan_okb holds *)
Theorem query_correct : forall (ov : N -> N -> bool) (env : N -> list N),
  (forall x y, ov x y = true -> exists p, In p (env x) /\ In p (env y)) ->
  forall c s ns,
  wf_universe (ju c) = true -> uni_okb c = true -> plan_okb c ns = true ->
  fk_closed c (recs s) -> view_closed c (recs s) -> ovl_sound c env s -> ovl_nonnull c s ->
  query c ov s ns = QOk (spec c ov (recs s) ns).
Proof. exact query_correct_p. Qed.
Print Assumptions query_correct.

(* the conservative prefilter never changes what the exact region test keeps *)
Theorem prefilter_exact : forall (ov : N -> N -> bool) (env : N -> list N),
  (forall x y, ov x y = true -> exists p, In p (env x) /\ In p (env y)) ->
  forall c s ns ea eb rows, uni_okb c = true -> ovl_sound c env s -> spatial_pair c ns = SpPair ea eb ->
  filter (sp_overlap ov (recs s) ea eb) (filter (pre (ovl s) ea eb) rows) = filter (sp_overlap ov (recs s) ea eb) rows.
Proof. exact prefilter_exact_p. Qed.
Print Assumptions prefilter_exact.

(* ---- the shipped universe: finite checks by computation (bound: the 2^13 subsets of its non-skypix dimensions) ---- *)
Theorem uni_ok_current : wf_universe (ju jc_current) = true /\ uni_okb jc_current = true.
Proof. exact (conj current_wf_j uni_ok_current_p). Qed.
Print Assumptions uni_ok_current.

Theorem plan_total_current : forallb closed_plan_okb (all_subsets (nonskypix_dimension_names u_current)) = true.
Proof. exact plan_total_current_p. Qed.
Print Assumptions plan_total_current.

Theorem query_correct_current : forall (ov : N -> N -> bool) (env : N -> list N),
  (forall x y, ov x y = true -> exists p, In p (env x) /\ In p (env y)) ->
  forall l ns s, In l (all_subsets (nonskypix_dimension_names u_current)) -> closure u_current l = GOk ns ->
  fk_closed jc_current (recs s) -> view_closed jc_current (recs s) -> ovl_sound jc_current env s -> ovl_nonnull jc_current s ->
  query jc_current ov s ns = QOk (spec jc_current ov (recs s) ns).
Proof. exact query_correct_current_p. Qed.
Print Assumptions query_correct_current.

(* ---- histories: every sequence of insert / insert(replace) / insert(skip_existing) / sync / sync(update) ---- *)
(* foreign keys hold after EVERY history (refused operations leave the state alone) *)
Theorem insert_preserves_fk : forall c env h, wf_universe (ju c) = true -> fk_closed c (recs (run_hist c env h st0)).
Proof. exact fk_closed_hist_p. Qed.
Print Assumptions insert_preserves_fk.

(* overlap tables, conservative half, EVERY history: the envelope of every stored region is materialised *)
Theorem overlap_tables_inv_sound : forall c env h, wf_universe (ju c) = true -> ovl_sound c env (run_hist c env h st0).
Proof. exact ovl_sound_hist_p. Qed.
Print Assumptions overlap_tables_inv_sound.

(* overlap tables, exact half, histories without skip_existing: every overlap row belongs to a stored record that
   has a region (so no NULL region reaches the exact test), and only spatial elements have overlap rows *)
Theorem overlap_tables_inv_partial : forall c env h, wf_universe (ju c) = true -> skip_free h = true ->
  ovl_nonnull c (run_hist c env h st0) /\ ovl_keyed c (run_hist c env h st0) /\ ovl_spatial_only c (run_hist c env h st0).
Proof. exact ovl_inv_hist_p. Qed.
Print Assumptions overlap_tables_inv_partial.

(* ... and it is false with skip_existing: the rows of a region the record does not have stay behind *)
Theorem overlap_exact_refuted_skip :
  let s := run_hist jc_current env_w (h_base ++ [op_skip]) st0 in
  exists k p, In (k, p) (oget (ovl s) "visit") /\ forall r, In r (tget (recs s) "visit") -> rregion r = None.
Proof. exact overlap_exact_refuted_skip_p. Qed.
Print Assumptions overlap_exact_refuted_skip.

(* end to end, current universe, every closed group, every skip-free history: the query answers with the
   specification of the final records *)
Theorem history_query_correct_current : forall (ov : N -> N -> bool) (env : N -> list N),
  (forall x y, ov x y = true -> exists p, In p (env x) /\ In p (env y)) ->
  forall h l ns, In l (all_subsets (nonskypix_dimension_names u_current)) -> closure u_current l = GOk ns ->
  skip_free h = true -> view_closed jc_current (recs (run_hist jc_current env h st0)) ->
  query jc_current ov (run_hist jc_current env h st0) ns = QOk (spec jc_current ov (recs (run_hist jc_current env h st0)) ns).
Proof. exact history_query_correct_current_p. Qed.
Print Assumptions history_query_correct_current.

(* order independence.  PARTIAL: both answers are `filter valid` over the candidate assignments of the respective final
   records and `valid` is the same function when the final tables are equal as sets; not proved: that the two candidate
   enumerations (built from the tables' value columns in table order) are permutations of each other *)
Theorem order_independent_partial : forall (ov : N -> N -> bool) (env : N -> list N),
  (forall x y, ov x y = true -> exists p, In p (env x) /\ In p (env y)) ->
  forall c h h' ns,
  wf_universe (ju c) = true -> uni_okb c = true -> plan_okb c ns = true -> skip_free h = true -> skip_free h' = true ->
  let s := run_hist c env h st0 in let s' := run_hist c env h' st0 in
  view_closed c (recs s) -> view_closed c (recs s') -> same_tables (recs s) (recs s') ->
  query c ov s ns = QOk (filter (valid c ov (recs s) ns) (cands (recs s) ns))
  /\ query c ov s' ns = QOk (filter (valid c ov (recs s') ns) (cands (recs s') ns))
  /\ forall a, valid c ov (recs s) ns a = valid c ov (recs s') ns a.
Proof. exact order_independent_partial_p. Qed.
Print Assumptions order_independent_partial.

Theorem spec_sees_tables_as_sets : forall c ov d d' ns a, same_tables d d' -> valid c ov d ns a = valid c ov d' ns a.
Proof. exact valid_same_tables. Qed.
Print Assumptions spec_sees_tables_as_sets.

(* with skip_existing the answer DOES depend on the history: same final records, one query returns, the other raises.
   Replayed on the implementation: Butler.query_data_ids(["visit","tract"]) raises TypeError (known finding) *)
Theorem order_independent_refuted_skip :
  closure u_current ["visit"; "tract"] = GOk ns_visit_tract
  /\ recs (run_hist jc_current env_w (h_base ++ [op_skip]) st0) = recs (run_hist jc_current env_w h_base st0)
  /\ query jc_current ov_w (run_hist jc_current env_w h_base st0) ns_visit_tract = QOk []
  /\ query jc_current ov_w (run_hist jc_current env_w (h_base ++ [op_skip]) st0) ns_visit_tract = QCrash.
Proof. exact order_independent_refuted_skip_p. Qed.
Print Assumptions order_independent_refuted_skip.

(* without view_closed plan and specification differ: every operation is accepted, query(["subfilter"]) returns a band
   that query(["band"]) does not have.  Replayed on the implementation (known finding) *)
Theorem dangling_band_refuted :
  let s := run_hist jc_current env_w h_dangling st0 in
  run_outs jc_current env_w h_dangling st0 = [ROk; ROk; ROk]
  /\ query jc_current ov_w s ["band"; "subfilter"] = QOk [[("band", 3%Z); ("subfilter", 1%Z)]]
  /\ spec jc_current ov_w (recs s) ["band"; "subfilter"] = []
  /\ query jc_current ov_w s ["band"] = QOk [[("band", 1%Z)]].
Proof. exact dangling_band_refuted_p. Qed.
Print Assumptions dangling_band_refuted.

(* ==== extension (wave 5) ==== *)
(* order independence at FULL strength: two histories without skip_existing whose final tables are equal as sets (in
   whatever order the records were inserted, replaced or synchronised, refused operations included): both queries
   answer, the answers are permutations of each other, contain no duplicate, and are the specification of the final
   records.  Any universe / group with plan_okb *)
Theorem order_independent : forall (ov : N -> N -> bool) (env : N -> list N),
  (forall x y, ov x y = true -> exists p, In p (env x) /\ In p (env y)) ->
  forall c h h' ns,
  wf_universe (ju c) = true -> uni_okb c = true -> plan_okb c ns = true -> skip_free h = true -> skip_free h' = true ->
  let s := run_hist c env h st0 in let s' := run_hist c env h' st0 in
  view_closed c (recs s) -> view_closed c (recs s') -> same_tables (recs s) (recs s') ->
  exists l l', query c ov s ns = QOk l /\ query c ov s' ns = QOk l' /\ Permutation l l' /\ NoDup l /\ NoDup l'
               /\ l = spec c ov (recs s) ns /\ l' = spec c ov (recs s') ns.
Proof. exact order_independent_p. Qed.
Print Assumptions order_independent.

(* the same for any two STATES satisfying the data hypotheses (not only reachable ones) *)
Theorem order_independent_states : forall (ov : N -> N -> bool) (env : N -> list N),
  (forall x y, ov x y = true -> exists p, In p (env x) /\ In p (env y)) ->
  forall c s s' ns,
  wf_universe (ju c) = true -> uni_okb c = true -> plan_okb c ns = true ->
  keys_nodup (recs s) -> fk_closed c (recs s) -> view_closed c (recs s) -> ovl_sound c env s -> ovl_nonnull c s ->
  keys_nodup (recs s') -> fk_closed c (recs s') -> view_closed c (recs s') -> ovl_sound c env s' -> ovl_nonnull c s' ->
  same_tables (recs s) (recs s') ->
  exists l l', query c ov s ns = QOk l /\ query c ov s' ns = QOk l' /\ Permutation l l' /\ NoDup l /\ NoDup l'
               /\ l = spec c ov (recs s) ns /\ l' = spec c ov (recs s') ns.
Proof. exact order_independent_states_p. Qed.
Print Assumptions order_independent_states.

(* the piece that was missing from order_independent_partial: the candidate enumerations are duplicate-free
   permutations of each other *)
Theorem candidates_permutation : forall d d' ns, keys_nodup d -> keys_nodup d' -> same_tables d d' ->
  Permutation (cands d ns) (cands d' ns) /\ NoDup (cands d ns).
Proof. intros. split; [apply cands_perm; auto|apply cands_NoDup]. Qed.
Print Assumptions candidates_permutation.

Theorem order_independent_current : forall (ov : N -> N -> bool) (env : N -> list N),
  (forall x y, ov x y = true -> exists p, In p (env x) /\ In p (env y)) ->
  forall h h' l ns, In l (all_subsets (nonskypix_dimension_names u_current)) -> closure u_current l = GOk ns ->
  skip_free h = true -> skip_free h' = true ->
  let s := run_hist jc_current env h st0 in let s' := run_hist jc_current env h' st0 in
  view_closed jc_current (recs s) -> view_closed jc_current (recs s') -> same_tables (recs s) (recs s') ->
  exists r r', query jc_current ov s ns = QOk r /\ query jc_current ov s' ns = QOk r' /\ Permutation r r' /\ NoDup r /\ NoDup r'
               /\ r = spec jc_current ov (recs s) ns /\ r' = spec jc_current ov (recs s') ns.
Proof. exact order_independent_current_p. Qed.
Print Assumptions order_independent_current.

(* primary keys: at most one record per key after EVERY history (all five operation kinds) *)
Theorem primary_key_unique : forall c env h, wf_universe (ju c) = true -> pk_unique c (recs (run_hist c env h st0)).
Proof. exact pk_unique_hist_p. Qed.
Print Assumptions primary_key_unique.

(* overlap tables, EXACT by pixel, histories without skip_existing: every row (k, p) is a pixel p of the envelope of the
   region stored under key k (with overlap_tables_inv_sound: rows = exactly the envelopes) *)
Theorem overlap_tables_inv_exact : forall c env h, wf_universe (ju c) = true -> skip_free h = true ->
  pk_unique c (recs (run_hist c env h st0)) /\ ovl_exact c env (run_hist c env h st0) /\ ovl_spatial_only c (run_hist c env h st0).
Proof. exact ovl_exact_hist_p. Qed.
Print Assumptions overlap_tables_inv_exact.

(* ... as one equivalence per stored record and pixel *)
Theorem overlap_tables_inv : forall c env h e r p, wf_universe (ju c) = true -> skip_free h = true ->
  let s := run_hist c env h st0 in
  In e (ju c) -> is_spatial e = true -> In r (tget (recs s) (ename e)) ->
  ((exists k, In (k, p) (oget (ovl s) (ename e)) /\ agrees (ereq e) k (rvals r) = true)
   <-> exists x, rregion r = Some x /\ In p (env x)).
Proof. exact overlap_tables_inv_p. Qed.
Print Assumptions overlap_tables_inv.

(* joining additional tables only filters the answer (used for record queries; also: a plan with more tables than
   necessary never ADDS rows) *)
Theorem extra_join_filters : forall c ov s plan extra ns l, run_plan c ov s plan ns = QOk l ->
  run_plan c ov s (plan ++ extra) ns = QOk (filter (joined c (recs s) extra) l).
Proof. exact run_plan_extra. Qed.
Print Assumptions extra_join_filters.

(* Butler.query_dimension_records: exactly the stored records whose data ID is a row of the specification over the
   element's minimal group *)
Theorem records_query_correct : forall (ov : N -> N -> bool) (env : N -> list N),
  (forall x y, ov x y = true -> exists p, In p (env x) /\ In p (env y)) ->
  forall c s e ns,
  wf_universe (ju c) = true -> uni_okb c = true -> view_of c (ename e) = None ->
  closure (ju c) (deps e) = GOk ns -> plan_okb c ns = true ->
  fk_closed c (recs s) -> view_closed c (recs s) -> ovl_sound c env s -> ovl_nonnull c s ->
  qrecords c ov s e = ROkRecs (filter (fun r => existsb (agrees (deps e) (rvals r)) (spec c ov (recs s) ns))
                                      (tget (recs s) (ename e))).
Proof. exact records_query_correct_p. Qed.
Print Assumptions records_query_correct.

Theorem records_plan_ok_current : forallb rec_plan_okb (filter (has_table jc_current) u_current) = true.
Proof. exact records_plan_ok_current_p. Qed.
Print Assumptions records_plan_ok_current.

Theorem history_records_query_correct_current : forall (ov : N -> N -> bool) (env : N -> list N),
  (forall x y, ov x y = true -> exists p, In p (env x) /\ In p (env y)) ->
  forall h e, In e u_current -> has_table jc_current e = true -> skip_free h = true ->
  let s := run_hist jc_current env h st0 in
  view_closed jc_current (recs s) ->
  exists ns, closure u_current (deps e) = GOk ns /\
    qrecords jc_current ov s e
    = ROkRecs (filter (fun r => existsb (agrees (deps e) (rvals r)) (spec jc_current ov (recs s) ns)) (tget (recs s) (ename e))).
Proof. exact history_records_query_correct_current_p. Qed.
Print Assumptions history_records_query_correct_current.

(* whatever the state: a record query returns stored records only *)
Theorem records_query_subset_stored : forall c ov s e l, qrecords c ov s e = ROkRecs l -> incl l (tget (recs s) (ename e)).
Proof. exact records_query_subset. Qed.
Print Assumptions records_query_subset_stored.

(* temporal families: no closed group of the shipped universe has two, so no automatic temporal join between dimension
   records exists and `query` rightly ignores the records' timespans (bound: the 2^13 subsets); an explicit
   `a.timespan OVERLAPS b.timespan` between two temporal elements is always rejected *)
Theorem no_temporal_join_current : forallb closed_no_tjoinb (all_subsets (nonskypix_dimension_names u_current)) = true.
Proof. exact no_temporal_join_current_p. Qed.
Print Assumptions no_temporal_join_current.

Theorem explicit_temporal_join_invalid_current :
  temporal_elems u_current <> [] /\
  forallb (fun a => forallb (fun b => match explicit_tjoin jc_current (ename a) (ename b) with TJInvalid => true | _ => false end)
                            (temporal_elems u_current)) (temporal_elems u_current) = true.
Proof. exact explicit_tjoin_invalid_current_p. Qed.
Print Assumptions explicit_temporal_join_invalid_current.

(* skip_existing, sharp: `skips_benign` = along the history no skip_existing meets an existing record whose stored region
   differs from the given one (computed).  Every skip-free history is benign; under benignity the overlap tables stay
   exact, every query answers with the specification, and the answer is order independent.  The known finding's history
   is the other case (overlap_exact_refuted_skip / order_independent_refuted_skip). *)
Theorem skip_free_is_benign : forall c env h s, skip_free h = true -> skips_benign c env h s = true.
Proof. exact skip_free_benign. Qed.
Print Assumptions skip_free_is_benign.

Theorem overlap_tables_inv_exact_benign : forall c env h, wf_universe (ju c) = true -> skips_benign c env h st0 = true ->
  pk_unique c (recs (run_hist c env h st0)) /\ ovl_exact c env (run_hist c env h st0) /\ ovl_spatial_only c (run_hist c env h st0).
Proof. exact ovl_exact_benign_p. Qed.
Print Assumptions overlap_tables_inv_exact_benign.

Theorem history_query_correct_benign : forall (ov : N -> N -> bool) (env : N -> list N),
  (forall x y, ov x y = true -> exists p, In p (env x) /\ In p (env y)) ->
  forall c h ns,
  wf_universe (ju c) = true -> uni_okb c = true -> plan_okb c ns = true -> skips_benign c env h st0 = true ->
  view_closed c (recs (run_hist c env h st0)) ->
  query c ov (run_hist c env h st0) ns = QOk (spec c ov (recs (run_hist c env h st0)) ns).
Proof. exact history_query_correct_benign_p. Qed.
Print Assumptions history_query_correct_benign.

Theorem order_independent_benign : forall (ov : N -> N -> bool) (env : N -> list N),
  (forall x y, ov x y = true -> exists p, In p (env x) /\ In p (env y)) ->
  forall c h h' ns,
  wf_universe (ju c) = true -> uni_okb c = true -> plan_okb c ns = true ->
  skips_benign c env h st0 = true -> skips_benign c env h' st0 = true ->
  let s := run_hist c env h st0 in let s' := run_hist c env h' st0 in
  view_closed c (recs s) -> view_closed c (recs s') -> same_tables (recs s) (recs s') ->
  exists l l', query c ov s ns = QOk l /\ query c ov s' ns = QOk l' /\ Permutation l l' /\ NoDup l /\ NoDup l'
               /\ l = spec c ov (recs s) ns /\ l' = spec c ov (recs s') ns.
Proof. exact order_independent_benign_p. Qed.
Print Assumptions order_independent_benign.

(* ---- join operands: Query.materialize / join_data_coordinates / join_dataset_search, then data_ids(G) ----
   ds = closure (G ++ operand dims).  For ANY plan: when the operand does not carry the spatial join the hypotheses of
   plan_correct, when it does a plan of specification elements containing the relationship-defining tables: the rows are
   exactly spec_op = the brute-force rows over ds lying in the operand (with the overlap condition on the most
   fine-grained members of ds unless the operand's group contains both of them) *)
Theorem operand_plan_correct : forall (ov : N -> N -> bool) (env : N -> list N),
  (forall x y, ov x y = true -> exists p, In p (env x) /\ In p (env y)) ->
  forall c s plan ds o,
  wf_universe (ju c) = true -> uni_okb c = true ->
  fk_closed c (recs s) -> view_closed c (recs s) -> ovl_sound c env s -> ovl_nonnull c s ->
  (forall t, In t plan -> In t (ju c)) -> covers c plan ds = true -> spatial_pair c ds <> SpMany ->
  (op_embeds c ds o = false -> plan_sub c ds plan /\ incl (mandatory c ds) plan) ->
  (op_embeds c ds o = true -> (forall t, In t plan -> In t (spec_elems c ds)) /\ incl (filter defines_rel (gelems c ds)) plan) ->
  run_plan_op c ov s plan ds o = QOk (spec_op c ov (recs s) ds o).
Proof. exact operand_plan_correct_p. Qed.
Print Assumptions operand_plan_correct.

Theorem operand_query_correct : forall (ov : N -> N -> bool) (env : N -> list N),
  (forall x y, ov x y = true -> exists p, In p (env x) /\ In p (env y)) ->
  forall c s ds o,
  wf_universe (ju c) = true -> uni_okb c = true -> plan_okb_op c ds = true ->
  fk_closed c (recs s) -> view_closed c (recs s) -> ovl_sound c env s -> ovl_nonnull c s ->
  query_op c ov s ds o = QOk (spec_op c ov (recs s) ds o).
Proof. exact operand_query_correct_p. Qed.
Print Assumptions operand_query_correct.

(* an operand that does not carry the join only FILTERS the plain specification: no row outside spec can appear *)
Theorem operand_not_embedded_filters : forall c ov d ds o, op_embeds c ds o = false ->
  spec_op c ov d ds o = filter (in_operand o) (spec c ov d ds).
Proof. exact spec_op_not_embedded. Qed.
Print Assumptions operand_not_embedded_filters.

Theorem plan_ns_total_current : forallb closed_plan_ns_okb (all_subsets (nonskypix_dimension_names u_current)) = true.
Proof. exact plan_ns_total_current_p. Qed.
Print Assumptions plan_ns_total_current.

Theorem history_operand_query_correct_current : forall (ov : N -> N -> bool) (env : N -> list N),
  (forall x y, ov x y = true -> exists p, In p (env x) /\ In p (env y)) ->
  forall h l ds o, In l (all_subsets (nonskypix_dimension_names u_current)) -> closure u_current l = GOk ds ->
  skip_free h = true -> view_closed jc_current (recs (run_hist jc_current env h st0)) ->
  query_op jc_current ov (run_hist jc_current env h st0) ds o
  = QOk (spec_op jc_current ov (recs (run_hist jc_current env h st0)) ds o).
Proof. exact history_operand_query_correct_current_p. Qed.
Print Assumptions history_operand_query_correct_current.

(* the granularity rule on the shipped universe: a {visit, tract} operand under a {visit, detector, patch} query does not
   carry the join between visit_detector_region and patch *)
Theorem operand_granularity_current :
  op_embeds jc_current ds_fine (mkOpd ds_coarse []) = false
  /\ op_embeds jc_current ds_fine (mkOpd ds_fine []) = true
  /\ op_embeds jc_current ds_coarse (mkOpd ds_coarse []) = true
  /\ (match spatial_pair jc_current ds_fine with SpPair a b => (ename a, ename b) | _ => ("", "") end)
     = ("visit_detector_region", "patch").
Proof. exact operand_granularity_current_p. Qed.
Print Assumptions operand_granularity_current.

(* ---- non-vacuity: a reachable state satisfying every hypothesis, with a spatial query that returns a row ---- *)
Example geometry_witness : forall x y, ov_w x y = true -> exists p, In p (env_w x) /\ In p (env_w y).
Proof. exact env_w_sound. Qed.

Example example_history :
  skip_free h_example = true
  /\ run_outs jc_current env_w h_example st0 = [ROk; ROk; ROk; ROk; ROk; ROk; ROk; RUpdated]
  /\ query jc_current ov_w (run_hist jc_current env_w h_example st0) ns_visit_tract
     = QOk [[("band", 1%Z); ("instrument", 1%Z); ("skymap", 1%Z); ("day_obs", 5%Z); ("physical_filter", 1%Z); ("tract", 1%Z); ("visit", 1%Z)]].
Proof. exact example_history_p. Qed.

Example example_view_closed : view_closed jc_current (recs (run_hist jc_current env_w h_example st0)).
Proof. exact example_view_closed_p. Qed.

(* a skip-free history with timespans: a sync that differs only in the timespan is a conflict, the same with update
   succeeds; the record query returns the consistent visit_definition row and leaves out the one whose exposure has another
   physical filter than its visit (two rows are stored) *)
Example example_records :
  skip_free h_recs = true
  /\ run_outs jc_current env_w h_recs st0 = [ROk; ROk; ROk; ROk; ROk; ROk; ROk; ROk; ROk; ROk; RConflict; RUpdated]
  /\ qrecords jc_current ov_w (run_hist jc_current env_w h_recs st0) e_visit_definition
     = ROkRecs [R [("instrument", 1%Z); ("exposure", 1%Z); ("visit", 1%Z)] None]
  /\ length (tget (recs (run_hist jc_current env_w h_recs st0)) "visit_definition") = 2%nat.
Proof. exact example_records_p. Qed.

Example example_records_view_closed : view_closed jc_current (recs (run_hist jc_current env_w h_recs st0)).
Proof. exact example_records_view_closed_p. Qed.

Example example_benign :
  skip_free (h_base ++ [op_skip_same]) = false
  /\ skips_benign jc_current env_w (h_base ++ [op_skip_same]) st0 = true
  /\ skips_benign jc_current env_w (h_base ++ [op_skip]) st0 = false.
Proof. exact example_benign_p. Qed.
