(* C06 -- placeholder while the harness is brought up; replaced below *)
From Coq Require Import String List Bool ZArith NArith.
From V Require Import Model.Universe Model.Group Gen.Universes Model.Join Model.JoinCheck.
Import ListNotations.
Theorem c06_placeholder : covers jc_current (full_plan jc_current ["instrument"%string]) ["instrument"%string] = true.
Proof. vm_compute. reflexivity. Qed.
Print Assumptions c06_placeholder.
