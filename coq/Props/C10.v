(* C10 -- Removal is complete and precise, and existence reports tell the truth.
   Statements only; proofs in Proofs/RemovalProofs.v, Proofs/RemovalProofs2.v; model in Model/Removal.v. *)
From Coq Require Import NArith List Bool.
From V Require Import Model.Removal Proofs.RemovalProofs Proofs.RemovalProofs2.
Import ListNotations.
Open Scope N_scope.

(* A refused operation returns the state it was given (every operation, every argument, every state). *)
Theorem refused_unchanged : forall s o s' e, step s o = (s', Err e) -> s' = s.
Proof. exact refused_unchanged_l. Qed.
Print Assumptions refused_unchanged.

(* The three existence flags are exactly the three facts: RECORDED <-> a dataset row, DATASTORE <-> a records row,
   _ARTIFACT <-> the file the records name is present; stored() is the third flag; getDatasetLocations <-> a location row. *)
Theorem exists_flags_spec : forall s d,
  (fst (fst (exists_flags s d)) = true <-> exists a, In (d, a) (ds s)) /\
  (snd (fst (exists_flags s d)) = true <-> exists p, In (d, p) (recs s)) /\
  (snd (exists_flags s d) = true <-> exists p, rec_path s d = Some p /\ In p (files s)) /\
  (stored s d = snd (exists_flags s d)) /\
  (located s d = true <-> In d (loc s)).
Proof. exact exists_flags_spec_l. Qed.
Print Assumptions exists_flags_spec.

Theorem artifact_flag_implies_datastore_flag : forall s d, artifact_present s d = true -> has_rec s d = true.
Proof. exact artifact_implies_known. Qed.
Print Assumptions artifact_flag_implies_datastore_flag.

(* The registry refuses to forget a dataset that a datastore still holds, and changes nothing. *)
Theorem registry_refuses_orphan : forall s l d, In d l -> In d (loc s) -> step s (RegRemove l) = (s, Err Orphaned).
Proof. exact registry_refuses_orphan_l. Qed.
Print Assumptions registry_refuses_orphan.

Theorem registry_remove_accepts_iff_unheld : forall s l,
  (exists s', step s (RegRemove l) = (s', Ok)) <-> (forall d, In d l -> ~ In d (loc s)).
Proof. exact registry_remove_ok_iff. Qed.
Print Assumptions registry_remove_accepts_iff_unheld.

(* The datastore-bridge invariant (location rows have records, records belong to a location or trash row, the two tables
   are disjoint) is preserved by every operation except a removeRuns(unstore=False) that forgets a dataset whose location
   row is pending in the trash table (`safe`), hence holds after every history whose steps are safe. *)
Theorem wf_preserved : forall s o, wf s -> safe s o = true -> wf (exec s o).
Proof. exact wf_step. Qed.
Print Assumptions wf_preserved.

Theorem wf_all_histories : forall h, hist_safe init h = true -> wf (run_hist h).
Proof. exact wf_reachable. Qed.
Print Assumptions wf_all_histories.

(* pruneDatasets(purge=True) is never refused (the location rows are in the trash table before the registry deletes). *)
Theorem purge_never_refused : forall s l tg, snd (step s (Prune l true true true tg)) = Ok.
Proof. intros. rewrite purge_ok. reflexivity. Qed.
Print Assumptions purge_never_refused.

(* PURGE IS EXACT: every target is gone from the dataset table, every TAGGED / CALIBRATION collection, the location table,
   the records table and its artifact is not reported; for every other dataset that is not pending in the trash table
   everything the interfaces report (three flags, location, run/key row, tag rows, calibration rows) is unchanged. *)
Theorem purge_exact : forall s l tg s', wf s -> step s (Prune l true true true tg) = (s', Ok) ->
  (forall d, In d l -> gone s' d) /\
  (forall d, ~ In d l -> ~ In d (trash s) -> obs s' d = obs s d).
Proof.
  intros s l tg s' W H. rewrite purge_ok in H. inversion H. subst s'. split.
  - intros d Hd. apply purge_targets_gone; assumption.
  - intros d H1 H2. apply purge_frame; assumption.
Qed.
Print Assumptions purge_exact.

Theorem purge_exact_all_histories : forall h l tg s', hist_safe init h = true ->
  step (run_hist h) (Prune l true true true tg) = (s', Ok) ->
  (forall d, In d l -> gone s' d) /\
  (forall d, ~ In d l -> ~ In d (trash (run_hist h)) -> obs s' d = obs (run_hist h) d).
Proof. intros h l tg s' S H. eapply purge_exact; [apply wf_reachable; exact S | exact H]. Qed.
Print Assumptions purge_exact_all_histories.

(* UNSTORE ONLY: the registry tables are untouched, every target is unstored, every other non-pending dataset unchanged. *)
Theorem unstore_only : forall s l tg s', wf s -> step s (Prune l false true false tg) = (s', Ok) ->
  (colls s' = colls s /\ chains s' = chains s /\ ds s' = ds s /\ tags s' = tags s /\ calibs s' = calibs s) /\
  (forall d, In d l -> located s' d = false /\ has_rec s' d = false /\ artifact_present s' d = false) /\
  (forall d, ~ In d l -> ~ In d (trash s) -> obs s' d = obs s d).
Proof.
  intros s l tg s' W H. rewrite unstore_ok in H. inversion H. subst s'. split; [apply unstore_registry_same | split].
  - intros d Hd. apply unstore_targets; assumption.
  - intros d H1 H2. apply unstore_frame; assumption.
Qed.
Print Assumptions unstore_only.

(* DISASSOCIATE ONLY: exactly the (tag, target) rows disappear; nothing else in registry or datastore changes. *)
Theorem disassociate_only : forall s l tg s', step s (Prune l true false false tg) = (s', Ok) ->
  colls s' = colls s /\ chains s' = chains s /\ ds s' = ds s /\ calibs s' = calibs s /\ loc s' = loc s /\ trash s' = trash s /\
  recs s' = recs s /\ files s' = files s /\
  (forall c d, In (c, d) (tags s') <-> In (c, d) (tags s) /\ ~ (In c tg /\ In d l)).
Proof. exact disassociate_only_l. Qed.
Print Assumptions disassociate_only.

(* REMOVE RUNS (partial: completeness and registry precision; the per-dataset frame of the datastore half is the same
   emptyTrash argument as for purge and is covered by the correspondence and the oracle, not proved here): the runs no
   longer exist, the surviving dataset rows are exactly old rows of other runs, no dataset of a removed run is located. *)
Theorem removeRuns_exact_partial : forall s rs u s', step s (RemoveRuns rs u) = (s', Ok) ->
  (forall r, In r rs -> ctype s' r = None) /\
  (forall d a, In (d, a) (ds s') -> In (d, a) (ds s) /\ ~ In (fst a) rs) /\
  (forall d a, In (d, a) (ds s) -> In (fst a) rs -> located s' d = false).
Proof. exact removeRuns_targets_l. Qed.
Print Assumptions removeRuns_exact_partial.

(* emptyTrash deletes an artifact only if a trashed record names it and no located dataset's record does. *)
Theorem empty_trash_deletes_only_unreferenced : forall s p, In p (files s) -> ~ In p (files (empty_trash s)) ->
  (exists d, In d (trash s) /\ In (d, p) (recs s)) /\ (forall d, In (d, p) (recs s) -> ~ In d (loc s)).
Proof. exact empty_trash_files. Qed.
Print Assumptions empty_trash_deletes_only_unreferenced.

(* REFUTED without the invariant: after a history with an unsafe forget (a stale row is left in dataset_location_trash and the
   same dataset id is stored again) an UNRELATED unstore deletes the records of a bystander: it stays RECORDED and located but
   the datastore no longer knows it while its artifact is still on disk.  Replayed on the implementation: known finding. *)
Theorem frame_refuted_by_stale_trash_row : exists h l d,
  hist_safe init h = false /\ ~ In d l /\
  exists_flags (run_hist h) d = (true, true, true) /\
  exists_flags (exec (run_hist h) (Prune l false true false [])) d = (true, false, false) /\
  located (exec (run_hist h) (Prune l false true false [])) d = true.
Proof.
  exists stale_trash_history, [1], 0. destruct stale_trash_row_witness as [A [B [C [_ D]]]].
  split; [exact D | split; [| split; [exact A | split; [exact B | exact C]]]]. intros [E | []]. discriminate.
Qed.
Print Assumptions frame_refuted_by_stale_trash_row.

(* REFUTED: Butler.exists on a ref carrying datastore records reports DATASTORE for a dataset that exists nowhere. *)
Theorem exists_carried_truthful_refuted : exists h d,
  snd (fst (exists_flags_carried (run_hist h) d)) = true /\ exists_flags (run_hist h) d = (false, false, false).
Proof.
  exists [RegColl 0 Run; Put 0 0 0; Prune [0] true true true []], 0. destruct carried_records_witness as [A B].
  split; [rewrite A; reflexivity | exact B].
Qed.
Print Assumptions exists_carried_truthful_refuted.

(* ---------- non-vacuity ---------- *)
Definition demo : list op :=
  [RegColl 0 Run; RegColl 1 Run; RegColl 2 Tagged; RegColl 4 Calib; Put 0 0 0; Put 1 0 1; Put 2 1 0; Tag 2 [0; 1];
   Certify 4 2 0 5; ExtDelete 0 1; Trash [2]].
Example demo_safe : hist_safe init demo = true. Proof. vm_compute. reflexivity. Qed.
Example demo_purge : let s := run_hist demo in let s' := exec s (Prune [0] true true true []) in
  exists_flags s 0 = (true, true, true) /\ exists_flags s' 0 = (false, false, false) /\
  exists_flags s' 1 = (true, true, false) /\ obs s' 1 = obs s 1 /\ In 2 (trash s) /\ trash s' = [].
Proof. vm_compute. repeat split; try reflexivity. left. reflexivity. Qed.
Example demo_orphan : snd (step (run_hist demo) (RegRemove [1])) = Err Orphaned. Proof. vm_compute. reflexivity. Qed.
Example demo_disassociate : tags (exec (run_hist demo) (Prune [0] true false false [2])) = [(2, 1)]. Proof. vm_compute. reflexivity. Qed.
Example demo_removeRuns : let s' := exec (run_hist demo) (RemoveRuns [0] true) in
  ds s' = [(2, (1, 0))] /\ ctype s' 0 = None /\ tags s' = [].
Proof. vm_compute. repeat split; reflexivity. Qed.
