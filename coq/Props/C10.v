(* C10 -- Removal is complete and precise, and existence reports tell the truth.  Statements only. *)
From Coq Require Import NArith List Bool.
From V Require Import Model.Removal Proofs.RemovalProofs.
Import ListNotations.
Open Scope N_scope.

(* A refused operation returns the state it was given (every operation, every argument, every state). *)
Theorem refused_unchanged : forall s o s' e, step s o = (s', Err e) -> s' = s.
Proof. exact refused_unchanged_l. Qed.
Print Assumptions refused_unchanged.
