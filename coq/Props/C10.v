(* C10 -- Removal is complete and precise, and existence reports tell the truth.
   Statements only; proofs in Proofs/RemovalProofs.v, RemovalProofs2.v, RemovalProofs3.v, RemovalProofsX.v; model in Model/Removal.v. *)
From Coq Require Import NArith List Bool.
From V Require Import Model.Removal Proofs.RemovalProofs Proofs.RemovalProofs2 Proofs.RemovalProofs3 Proofs.RemovalProofsX.
Import ListNotations.
Open Scope N_scope.

(* A refused operation returns the state it was given: every operation, every argument, every state that satisfies the
   datastore-bridge invariant `wf` (below), hence every state reached by a history whose steps are safe.  No exception: since
   /repo 2da36a1 this includes the ingest of a dataset the datastore already holds (before: refuted_without_fix below). *)
Theorem refused_unchanged : forall s o s' e, wf s -> step s o = (s', Err e) -> s' = s.
Proof. exact refused_unchanged_l. Qed.
Print Assumptions refused_unchanged.

Theorem refused_unchanged_all_histories : forall h o s' e, hist_safe init h = true -> step (run_hist h) o = (s', Err e) -> s' = run_hist h.
Proof. intros h o s' e S H. apply (refused_unchanged_l _ o s' e); [apply wf_reachable; exact S | exact H]. Qed.
Print Assumptions refused_unchanged_all_histories.

(* Without the invariant exactly one refusal changes something: a put of a dataset that has a location row but no records. *)
Theorem refused_unchanged_unless_recordless_put : forall s o s' e, put_on_recordless s o = false -> step s o = (s', Err e) -> s' = s.
Proof. exact refused_unchanged_raw. Qed.
Print Assumptions refused_unchanged_unless_recordless_put.

(* REFUTED without the invariant: on the victim of the stale-trash-row defect (location row, records deleted, artifact still on
   disk) a put of the same dataset is refused (the location row collides) AFTER the artifact was rewritten, and the rollback
   deletes the artifact: a refused operation changed the datastore root.  Replayed on the implementation: part of the known
   finding K-C10-stale-trash-row. *)
Theorem refused_put_deletes_artifact_refuted : exists h d r k s',
  step (run_hist h) (Put d r k) = (s', Err Conflict) /\ In (r, k) (files (run_hist h)) /\ ~ In (r, k) (files s') /\ hist_safe init h = false.
Proof.
  exists (stale_trash_history ++ [Prune [1] false true false []]), 0, 0, 0.
  eexists. split; [vm_compute; reflexivity | split; [vm_compute; left; reflexivity | split; [vm_compute; intros [] | vm_compute; reflexivity]]].
Qed.
Print Assumptions refused_put_deletes_artifact_refuted.

(* The three existence flags are exactly the three facts: RECORDED <-> a dataset row, DATASTORE <-> a records row,
   _ARTIFACT <-> the file the records name is present; stored() is the third flag; getDatasetLocations <-> a location row. *)
Theorem exists_flags_spec : forall s d,
  (fst (fst (exists_flags s d)) = true <-> exists a, In (d, a) (ds s)) /\
  (snd (fst (exists_flags s d)) = true <-> exists p, In (d, p) (recs s)) /\
  (snd (exists_flags s d) = true <-> exists p, rec_path s d = Some p /\ In p (files s)) /\
  (stored s d = snd (exists_flags s d)) /\
  (located s d = true <-> In d (loc s)).
Proof. exact exists_flags_spec_l. Qed.
Print Assumptions exists_flags_spec.

Theorem artifact_flag_implies_datastore_flag : forall s d, artifact_present s d = true -> has_rec s d = true.
Proof. exact artifact_implies_known. Qed.
Print Assumptions artifact_flag_implies_datastore_flag.

(* The registry refuses to forget a dataset that a datastore still holds, and changes nothing. *)
Theorem registry_refuses_orphan : forall s l d, In d l -> In d (loc s) -> step s (RegRemove l) = (s, Err Orphaned).
Proof. exact registry_refuses_orphan_l. Qed.
Print Assumptions registry_refuses_orphan.

Theorem registry_remove_accepts_iff_unheld : forall s l,
  (exists s', step s (RegRemove l) = (s', Ok)) <-> (forall d, In d l -> ~ In d (loc s)).
Proof. exact registry_remove_ok_iff. Qed.
Print Assumptions registry_remove_accepts_iff_unheld.

(* The datastore-bridge invariant (location rows have records, records belong to a location or trash row, the two tables
   are disjoint) is preserved by every operation except a removeRuns(unstore=False) that forgets a dataset whose location
   row is pending in the trash table (`safe`), hence holds after every history whose steps are safe. *)
Theorem wf_preserved : forall s o, wf s -> safe s o = true -> wf (exec s o).
Proof. exact wf_step. Qed.
Print Assumptions wf_preserved.

Theorem wf_all_histories : forall h, hist_safe init h = true -> wf (run_hist h).
Proof. exact wf_reachable. Qed.
Print Assumptions wf_all_histories.

(* pruneDatasets(purge=True) is never refused (the location rows are in the trash table before the registry deletes). *)
Theorem purge_never_refused : forall s l tg, snd (step s (Prune l true true true tg)) = Ok.
Proof. intros. rewrite purge_ok. reflexivity. Qed.
Print Assumptions purge_never_refused.

(* PURGE IS EXACT: every target is gone from the dataset table, every TAGGED / CALIBRATION collection, the location table,
   the records table and its artifact is not reported; for every other dataset that is not pending in the trash table
   everything the interfaces report (three flags, location, run/key row, tag rows, calibration rows) is unchanged. *)
Theorem purge_exact : forall s l tg s', wf s -> step s (Prune l true true true tg) = (s', Ok) ->
  (forall d, In d l -> gone s' d) /\
  (forall d, ~ In d l -> ~ In d (trash s) -> obs s' d = obs s d).
Proof.
  intros s l tg s' W H. rewrite purge_ok in H. inversion H. subst s'. split.
  - intros d Hd. apply purge_targets_gone; assumption.
  - intros d H1 H2. apply purge_frame; assumption.
Qed.
Print Assumptions purge_exact.

Theorem purge_exact_all_histories : forall h l tg s', hist_safe init h = true ->
  step (run_hist h) (Prune l true true true tg) = (s', Ok) ->
  (forall d, In d l -> gone s' d) /\
  (forall d, ~ In d l -> ~ In d (trash (run_hist h)) -> obs s' d = obs (run_hist h) d).
Proof. intros h l tg s' S H. eapply purge_exact; [apply wf_reachable; exact S | exact H]. Qed.
Print Assumptions purge_exact_all_histories.

(* UNSTORE ONLY: the registry tables are untouched, every target is unstored, every other non-pending dataset unchanged. *)
Theorem unstore_only : forall s l tg s', wf s -> step s (Prune l false true false tg) = (s', Ok) ->
  (colls s' = colls s /\ chains s' = chains s /\ ds s' = ds s /\ tags s' = tags s /\ calibs s' = calibs s) /\
  (forall d, In d l -> located s' d = false /\ has_rec s' d = false /\ artifact_present s' d = false) /\
  (forall d, ~ In d l -> ~ In d (trash s) -> obs s' d = obs s d).
Proof.
  intros s l tg s' W H. rewrite unstore_ok in H. inversion H. subst s'. split; [apply unstore_registry_same | split].
  - intros d Hd. apply unstore_targets; assumption.
  - intros d H1 H2. apply unstore_frame; assumption.
Qed.
Print Assumptions unstore_only.

(* DISASSOCIATE ONLY: exactly the (tag, target) rows disappear; nothing else in registry or datastore changes. *)
Theorem disassociate_only : forall s l tg s', step s (Prune l true false false tg) = (s', Ok) ->
  colls s' = colls s /\ chains s' = chains s /\ ds s' = ds s /\ calibs s' = calibs s /\ loc s' = loc s /\ trash s' = trash s /\
  recs s' = recs s /\ files s' = files s /\
  (forall c d, In (c, d) (tags s') <-> In (c, d) (tags s) /\ ~ (In c tg /\ In d l)).
Proof. exact disassociate_only_l. Qed.
Print Assumptions disassociate_only.

(* REMOVE RUNS IS EXACT (any number of runs in one call): the runs no longer exist, every other collection keeps its type, chain
   definitions are untouched; every dataset of a removed run is gone from the dataset table, every TAGGED / CALIBRATION collection,
   the location table, the records table and is not reported stored; for every other dataset everything the interfaces report is
   unchanged.  With unstore=True the bridge invariant is needed and datasets pending in the trash are excluded from the frame (as for
   purge); with unstore=False (forget) neither. *)
Theorem removeRuns_exact : forall s rs u s', (u = true -> wf s) -> step s (RemoveRuns rs u) = (s', Ok) ->
  (forall r, In r rs -> ctype s' r = None) /\
  (forall c, ~ In c rs -> ctype s' c = ctype s c) /\ chains s' = chains s /\
  (forall d, In d (run_members s rs) -> gone s' d) /\
  (forall d, ~ In d (run_members s rs) -> (u = true -> ~ In d (trash s)) -> obs s' d = obs s d).
Proof. exact removeRuns_exact_l. Qed.
Print Assumptions removeRuns_exact.

Theorem removeRuns_exact_all_histories : forall h rs u s', hist_safe init h = true -> step (run_hist h) (RemoveRuns rs u) = (s', Ok) ->
  (forall r, In r rs -> ctype s' r = None) /\
  (forall d, In d (run_members (run_hist h) rs) -> gone s' d) /\
  (forall d, ~ In d (run_members (run_hist h) rs) -> ~ In d (trash (run_hist h)) -> obs s' d = obs (run_hist h) d).
Proof.
  intros h rs u s' S H. destruct (removeRuns_exact_l (run_hist h) rs u s' (fun _ => wf_reachable h S) H) as [A [_ [_ [B C]]]].
  split; [exact A | split; [exact B |]]. intros d H1 H2. apply C; [exact H1 | intros _; exact H2].
Qed.
Print Assumptions removeRuns_exact_all_histories.

(* The registry half of removeRuns needs no invariant at all: surviving dataset rows are old rows of other runs. *)
Theorem removeRuns_registry_unconditional : forall s rs u s', step s (RemoveRuns rs u) = (s', Ok) ->
  (forall r, In r rs -> ctype s' r = None) /\
  (forall d a, In (d, a) (ds s') -> In (d, a) (ds s) /\ ~ In (fst a) rs) /\
  (forall d a, In (d, a) (ds s) -> In (fst a) rs -> located s' d = false).
Proof. exact removeRuns_targets_l. Qed.
Print Assumptions removeRuns_registry_unconditional.

(* The records table never holds two rows for one dataset id, after any history at all (no safety premise). *)
Theorem one_record_per_dataset_all_histories : forall h, NoDup (map fst (recs (run_hist h))).
Proof. exact urecs_reachable. Qed.
Print Assumptions one_record_per_dataset_all_histories.

(* BULK EXISTENCE REPORTS TELL THE TRUTH (code as repaired in /repo 245923d): Butler.stored_many and Butler._exists_many asked about
   any list of ids in one call report, for every requested id, exactly what Butler.stored / Butler.exists report for it alone --
   in every state reached by any history, shared artifacts included. *)
Theorem bulk_existence_agrees : forall h l d, In d l ->
  stored_many (run_hist h) l d = stored (run_hist h) d /\ exists_many_flags (run_hist h) l d = exists_flags (run_hist h) d.
Proof.
  intros h l d H. split; [| apply exists_many_agrees; [apply urecs_reachable | exact H]].
  rewrite stored_many_agrees by apply urecs_reachable. apply memN_In in H. rewrite H. reflexivity.
Qed.
Print Assumptions bulk_existence_agrees.

Theorem bulk_existence_unrequested : forall h l d, ~ In d l -> stored_many (run_hist h) l d = false.
Proof. intros h l d H. rewrite stored_many_agrees by apply urecs_reachable. apply memN_false in H. rewrite H. reflexivity. Qed.
Print Assumptions bulk_existence_unrequested.

(* REFUTED WITHOUT THE FIX: with location_map a dict artifact -> ONE dataset id (the code before 245923d) a stored dataset is
   reported absent by the bulk call as soon as another requested id's record names the same artifact, although the single-ref
   interface and the repaired bulk interface report it stored, and although it is reported stored when asked about alone. *)
Theorem bulk_existence_refuted_without_fix : exists h l d, In d l /\
  stored (run_hist h) d = true /\ stored_many (run_hist h) l d = true /\
  stored_many_single_map (run_hist h) l d = false /\ stored_many_single_map (run_hist h) [d] d = true.
Proof.
  exists shared_artifact_history, [0; 1], 0. destruct single_map_witness as [A [_ [B [_ [_ [C D]]]]]].
  split; [left; reflexivity | split; [exact A | split; [exact B | split; [exact C | exact D]]]].
Qed.
Print Assumptions bulk_existence_refuted_without_fix.

(* CHAINED VIEWS FOLLOW: what a CHAINED collection (nested to any depth `f`) shows about a dataset is a function of what its
   children show; so a dataset that is gone is in no chain, and a dataset whose observation is unchanged is in the same chains. *)
Theorem chain_views_follow : forall s s' d, chains s' = chains s -> obs s' d = obs s d ->
  forall f c, chain_member f s' c d = chain_member f s c d.
Proof. intros s s' d H1 H2. apply chain_member_frame; [exact H1 | apply member_of_frame; exact H2]. Qed.
Print Assumptions chain_views_follow.

Theorem gone_from_every_chain : forall s d, gone s d -> forall f c, member_of s c d = false /\ chain_member f s c d = false.
Proof. intros s d G f c. split; [apply member_of_gone; exact G | apply chain_member_gone; apply member_of_gone; exact G]. Qed.
Print Assumptions gone_from_every_chain.

Theorem purge_chain_views : forall s l tg s', wf s -> step s (Prune l true true true tg) = (s', Ok) ->
  (forall d, In d l -> forall f c, chain_member f s' c d = false) /\
  (forall d, ~ In d l -> ~ In d (trash s) -> forall f c, chain_member f s' c d = chain_member f s c d).
Proof.
  intros s l tg s' W H. rewrite purge_ok in H. inversion H. subst s'. split.
  - intros d Hd f c. apply chain_member_gone. apply member_of_gone. apply purge_targets_gone; assumption.
  - intros d H1 H2. apply chain_member_frame; [reflexivity | apply member_of_frame; apply purge_frame; assumption].
Qed.
Print Assumptions purge_chain_views.

Theorem removeRuns_chain_views : forall s rs u s', (u = true -> wf s) -> step s (RemoveRuns rs u) = (s', Ok) ->
  (forall d, In d (run_members s rs) -> forall f c, chain_member f s' c d = false) /\
  (forall d, ~ In d (run_members s rs) -> (u = true -> ~ In d (trash s)) -> forall f c, chain_member f s' c d = chain_member f s c d).
Proof.
  intros s rs u s' W H. destruct (removeRuns_exact_l s rs u s' W H) as [_ [_ [C [G F]]]]. split.
  - intros d Hd f c. apply chain_member_gone. apply member_of_gone. apply G. exact Hd.
  - intros d H1 H2. apply chain_member_frame; [exact C | apply member_of_frame; apply F; assumption].
Qed.
Print Assumptions removeRuns_chain_views.

(* emptyTrash deletes an artifact only if a trashed record names it and no located dataset's record does. *)
Theorem empty_trash_deletes_only_unreferenced : forall s p, In p (files s) -> ~ In p (files (empty_trash s)) ->
  (exists d, In d (trash s) /\ In (d, p) (recs s)) /\ (forall d, In (d, p) (recs s) -> ~ In d (loc s)).
Proof. exact empty_trash_files. Qed.
Print Assumptions empty_trash_deletes_only_unreferenced.

(* REFUTED without the invariant: after a history with an unsafe forget (a stale row is left in dataset_location_trash and the
   same dataset id is stored again) an UNRELATED unstore deletes the records of a bystander: it stays RECORDED and located but
   the datastore no longer knows it while its artifact is still on disk.  Replayed on the implementation: known finding. *)
Theorem frame_refuted_by_stale_trash_row : exists h l d,
  hist_safe init h = false /\ ~ In d l /\
  exists_flags (run_hist h) d = (true, true, true) /\
  exists_flags (exec (run_hist h) (Prune l false true false [])) d = (true, false, false) /\
  located (exec (run_hist h) (Prune l false true false [])) d = true.
Proof.
  exists stale_trash_history, [1], 0. destruct stale_trash_row_witness as [A [B [C [_ D]]]].
  split; [exact D | split; [| split; [exact A | split; [exact B | exact C]]]]. intros [E | []]. discriminate.
Qed.
Print Assumptions frame_refuted_by_stale_trash_row.

(* REFUTED: Butler.exists on a ref carrying datastore records reports DATASTORE for a dataset that exists nowhere. *)
Theorem exists_carried_truthful_refuted : exists h d,
  snd (fst (exists_flags_carried (run_hist h) d)) = true /\ exists_flags (run_hist h) d = (false, false, false).
Proof.
  exists [RegColl 0 Run; Put 0 0 0; Prune [0] true true true []], 0. destruct carried_records_witness as [A B].
  split; [rewrite A; reflexivity | exact B].
Qed.
Print Assumptions exists_carried_truthful_refuted.

(* The ingest of a dataset the datastore already holds -- a location row OR a records row for either id, in ANY state, no invariant
   needed -- is refused and changes nothing: registry, bridge tables, records, datastore root (code as repaired in /repo 2da36a1:
   FileDatastore._refuse_datasets_already_stored looks both tables up before any file is transferred). *)
Theorem ingest_of_held_dataset_refused_unchanged : forall s d1 d2 r k,
  has_rec s d1 || memN d1 (loc s) || (has_rec s d2 || memN d2 (loc s)) = true -> exists e, step s (Ingest d1 d2 r k) = (s, Err e).
Proof. exact ingest_of_held_refused_l. Qed.
Print Assumptions ingest_of_held_dataset_refused_unchanged.

(* REFUTED WITHOUT THE FIX: with the datastore half as coded before 2da36a1 (file copied over the target first, insert fails, the
   rollback removes the file) the refused ingest of a stored dataset deletes its artifact, after a SAFE history: the dataset stays
   RECORDED | DATASTORE with a location row, _ARTIFACT is gone -- while the repaired step returns the state unchanged.
   (Former known finding K-C10-refused-reingest = F-C01-reingest; regression case corpus 10.) *)
Theorem refused_reingest_refuted_without_fix : exists h d1 d2 r k s',
  hist_safe init h = true /\ ingest_before_fix (run_hist h) d1 d2 r k = (s', Err Conflict) /\
  exists_flags (run_hist h) d1 = (true, true, true) /\ exists_flags s' d1 = (true, true, false) /\ located s' d1 = true /\ s' <> run_hist h /\
  step (run_hist h) (Ingest d1 d2 r k) = (run_hist h, Err Conflict).
Proof.
  exists [RegColl 0 Run; Put 0 0 0], 0, 1, 0, 0. eexists.
  split; [vm_compute; reflexivity | split; [vm_compute; reflexivity | split; [vm_compute; reflexivity | split; [vm_compute; reflexivity | split; [vm_compute; reflexivity | split; [vm_compute; discriminate | vm_compute; reflexivity]]]]]].
Qed.
Print Assumptions refused_reingest_refuted_without_fix.

(* REFUTED without the invariant (the stale row of K-C10-stale-trash-row seen by the removal clause itself): after a trash and a
   removeRuns(unstore=False) the trash row has no records; a purge naming the id returns Ok, the dataset is `gone` as far as every
   interface reports, but dataset_location_trash keeps the row -- and so after every later emptyTrash.  Replayed: corpus 12. *)
Theorem orphan_trash_row_survives_purge_refuted : exists h d,
  hist_safe init h = false /\ step (run_hist h) (Prune [d] true true true []) = (run_hist h, Ok) /\
  In d (trash (run_hist h)) /\ has_rec (run_hist h) d = false /\ ~ In d (loc (run_hist h)) /\ exec (run_hist h) EmptyTrash = run_hist h.
Proof.
  exists [RegColl 5 Run; Put 5 5 4; Trash1 5; RemoveRuns [5] false], 5.
  split; [vm_compute; reflexivity | split; [vm_compute; reflexivity | split; [vm_compute; left; reflexivity | split; [vm_compute; reflexivity | split; [vm_compute; intros [] | vm_compute; reflexivity]]]]].
Qed.
Print Assumptions orphan_trash_row_survives_purge_refuted.

(* FUEL ADEQUACY.  `connected ch a x`: x is a or below a in the chain definitions (a walk of any length).  With more fuel than there
   are chain definitions -- the model's cycle check uses 1 + their number, the correspondence check 2 + their number -- the two
   fuelled searches compute exactly connectivity; no assumption on the definitions (cyclic ones included). *)
Theorem reaches_fuel_adequate : forall f ch a b, (length ch < f)%nat -> (reaches f ch a b = true <-> connected ch a b).
Proof. exact reaches_adequate. Qed.
Print Assumptions reaches_fuel_adequate.

Theorem chain_member_fuel_adequate : forall f s c d, (length (chains s) < f)%nat ->
  (chain_member f s c d = true <-> exists x, connected (chains s) c x /\ member_of s x d = true).
Proof. exact chain_member_adequate. Qed.
Print Assumptions chain_member_fuel_adequate.

Theorem fuel_irrelevant : forall f g s c d a b, (length (chains s) < f)%nat -> (length (chains s) < g)%nat ->
  chain_member f s c d = chain_member g s c d /\ reaches f (chains s) a b = reaches g (chains s) a b.
Proof.
  intros f g s c d a b L1 L2. split; [apply chain_member_fuel_irrelevant; assumption |].
  rewrite (reaches_fuel_irrelevant f) by exact L1. rewrite (reaches_fuel_irrelevant g) by exact L2. reflexivity.
Qed.
Print Assumptions fuel_irrelevant.

(* setCollectionChain on a CHAINED parent with known children is refused with a cycle error EXACTLY when a child is the parent or
   has the parent below it, and accepted exactly otherwise; the chain definitions are acyclic after EVERY history. *)
Theorem setChain_cycle_check_exact : forall s c ch, ctype s c = Some Chain -> (forall x, In x ch -> ctype s x <> None) ->
  (snd (step s (SetChain c ch)) = Err Cycle <-> exists x, In x ch /\ connected (chains s) x c) /\
  (snd (step s (SetChain c ch)) = Ok <-> ~ exists x, In x ch /\ connected (chains s) x c).
Proof. exact setchain_outcome. Qed.
Print Assumptions setChain_cycle_check_exact.

Theorem chains_acyclic_all_histories : forall h a l, walk (chains (run_hist h)) a l a -> l = [].
Proof. exact acyclic_reachable. Qed.
Print Assumptions chains_acyclic_all_histories.

(* Butler.exists on a ref CARRYING datastore records: RECORDED and _ARTIFACT are always the plain flags; the whole report equals the
   plain one -- i.e. exists_flags_spec holds for it -- EXACTLY when the records table still has a row for the dataset; in a
   state reached by a safe history that is the case while the dataset is located or pending in the trash.  (Outside the guard:
   exists_carried_truthful_refuted, known finding K-C10-exists-carried-records.) *)
Theorem exists_carried_spec_guard : forall s d,
  (exists_flags_carried s d = exists_flags s d <-> exists p, In (d, p) (recs s)) /\
  fst (fst (exists_flags_carried s d)) = fst (fst (exists_flags s d)) /\ snd (exists_flags_carried s d) = snd (exists_flags s d).
Proof.
  intros s d. split; [| apply carried_other_flags]. rewrite carried_guard. apply has_rec_In.
Qed.
Print Assumptions exists_carried_spec_guard.

Theorem exists_carried_truthful_while_held : forall h d, hist_safe init h = true ->
  (exists_flags_carried (run_hist h) d = exists_flags (run_hist h) d <-> In d (loc (run_hist h)) \/ In d (trash (run_hist h))).
Proof.
  intros h d S. pose proof (wf_reachable h S) as W. rewrite carried_guard. split.
  - apply (w_rec_somewhere _ W).
  - intros [H | H]; [apply (w_loc_rec _ W) | apply (w_trash_rec _ W)]; exact H.
Qed.
Print Assumptions exists_carried_truthful_while_held.

(* Datastore.trash called on its own.  Under the invariant the list form moves exactly the located targets; the SINGLE-REF form does
   so only when the records exist and the artifact is present (else nothing happens); neither touches another dataset.  Without the
   invariant: when a target has a stale trash row the whole move is rolled back. *)
Theorem trash_single_ref_spec : forall s d, wf s ->
  step s (Trash1 d) = (if artifact_present s d then trash_refs [d] s else s, Ok) /\
  step s (Trash [d]) = (trash_refs [d] s, Ok) /\
  (forall d', d' <> d -> obs (exec s (Trash1 d)) d' = obs s d').
Proof.
  intros s d W. split; [apply trash1_spec; exact W | split; [apply trash_list_spec; exact W |]].
  intros d' Hn. unfold exec. rewrite trash1_spec by exact W. destruct (artifact_present s d); simpl; [| reflexivity].
  apply trash_refs_obs_other. intros [E | []]. congruence.
Qed.
Print Assumptions trash_single_ref_spec.

Theorem standalone_trash_rolled_back : forall s l d, In d l -> In d (loc s) -> In d (trash s) -> step s (Trash l) = (s, Ok).
Proof. exact standalone_trash_rolled_back_l. Qed.
Print Assumptions standalone_trash_rolled_back.

(* TWO-REF INGEST: when accepted, both ids were unknown to the datastore, both are now RECORDED | DATASTORE | _ARTIFACT and located,
   and their records name ONE artifact (so every removal theorem above is exercised with shared artifacts: demo_ingest). *)
Theorem ingest_two_refs_share_artifact : forall s d1 d2 r k s', step s (Ingest d1 d2 r k) = (s', Ok) ->
  d1 <> d2 /\ ctype s r = Some Run /\
  has_rec s d1 = false /\ has_rec s d2 = false /\ ~ In d1 (loc s) /\ ~ In d2 (loc s) /\
  rec_path s' d1 = Some (r, k) /\ rec_path s' d2 = Some (r, k) /\
  exists_flags s' d1 = (true, true, true) /\ exists_flags s' d2 = (true, true, true) /\ located s' d1 = true /\ located s' d2 = true /\
  colls s' = colls s /\ chains s' = chains s /\ tags s' = tags s /\ calibs s' = calibs s /\ trash s' = trash s.
Proof. exact ingest_ok_l. Qed.
Print Assumptions ingest_two_refs_share_artifact.

(* A dataset stored by Butler.transfer_from (records written in REPLACE mode, location row by bridge.ensure) is held exactly like one
   stored by put: RECORDED | DATASTORE | _ARTIFACT, a location row, its run exists -- and the registry refuses to forget it.  (Seed C10c
   dropped the location row of REPLACE-mode inserts.)  Every removal theorem above is about states, so it covers transferred datasets. *)
Theorem transferred_dataset_is_held : forall s d r k s', step s (Xfer d r k) = (s', Ok) -> has_rec s d = false ->
  exists_flags s' d = (true, true, true) /\ located s' d = true /\ rec_path s' d = Some (r, k) /\ ctype s' r = Some Run /\
  (forall l, In d l -> step s' (RegRemove l) = (s', Err Orphaned)).
Proof. exact xfer_held_l. Qed.
Print Assumptions transferred_dataset_is_held.

(* ---------- non-vacuity ---------- *)
Definition demo : list op :=
  [RegColl 0 Run; RegColl 1 Run; RegColl 2 Tagged; RegColl 4 Calib; Put 0 0 0; Put 1 0 1; Put 2 1 0; Tag 2 [0; 1];
   Certify 4 2 0 5; ExtDelete 0 1; Trash [2]].
Example demo_safe : hist_safe init demo = true. Proof. vm_compute. reflexivity. Qed.
Example demo_purge : let s := run_hist demo in let s' := exec s (Prune [0] true true true []) in
  exists_flags s 0 = (true, true, true) /\ exists_flags s' 0 = (false, false, false) /\
  exists_flags s' 1 = (true, true, false) /\ obs s' 1 = obs s 1 /\ In 2 (trash s) /\ trash s' = [].
Proof. vm_compute. repeat split; try reflexivity. left. reflexivity. Qed.
Example demo_orphan : snd (step (run_hist demo) (RegRemove [1])) = Err Orphaned. Proof. vm_compute. reflexivity. Qed.
Example demo_disassociate : tags (exec (run_hist demo) (Prune [0] true false false [2])) = [(2, 1)]. Proof. vm_compute. reflexivity. Qed.
Example demo_removeRuns : let s' := exec (run_hist demo) (RemoveRuns [0] true) in
  ds s' = [(2, (1, 0))] /\ ctype s' 0 = None /\ tags s' = [].
Proof. vm_compute. repeat split; reflexivity. Qed.
(* two runs in one call, a bystander in a third run tagged, certified and seen through a nested chain *)
Definition demo2 : list op :=
  [RegColl 0 Run; RegColl 1 Run; RegColl 6 Run; RegColl 2 Tagged; RegColl 4 Calib; RegColl 5 Chain; RegColl 7 Chain;
   Put 0 0 0; Put 1 1 1; Put 2 6 2; Tag 2 [0; 2]; Certify 4 2 0 5; SetChain 7 [2; 4]; SetChain 5 [7]].
Example demo2_safe : hist_safe init demo2 = true. Proof. vm_compute. reflexivity. Qed.
Example demo2_removeRuns : let s := run_hist demo2 in let s' := exec s (RemoveRuns [0; 1] true) in
  snd (step s (RemoveRuns [0; 1] true)) = Ok /\ run_members s [0; 1] = [1; 0] /\
  chain_member 3 s 5 0 = true /\ chain_member 3 s' 5 0 = false /\ chain_member 3 s' 5 2 = true /\
  exists_flags s' 0 = (false, false, false) /\ exists_flags s' 2 = (true, true, true) /\ obs s' 2 = obs s 2 /\
  snd (step s (SetChain 7 [5])) = Err Cycle /\ snd (step s (RemoveRuns [6; 6] true)) = Err MissingColl.
Proof. vm_compute. repeat split; reflexivity. Qed.
Example demo_bulk : let s := run_hist shared_artifact_history in
  exists_many_flags s [0; 1] 0 = (false, true, true) /\ exists_many_flags s [0; 1] 1 = (true, true, true) /\ In 0 (trash s).
Proof. vm_compute. repeat split; try reflexivity. left. reflexivity. Qed.
(* shared artifact: purge of one sharer keeps the artifact for the other; purge of the second deletes it; single-ref trash *)
Definition demo3 : list op := [RegColl 0 Run; RegColl 5 Chain; RegColl 6 Chain; Put 5 0 2; Ingest 0 1 0 0; SetChain 6 [0]; SetChain 5 [6]].
Example demo_ingest : let s := run_hist demo3 in let s1 := exec s (Prune [0] true true true []) in let s2 := exec s1 (Prune [1] true true true []) in
  hist_safe init demo3 = true /\ rec_path s 0 = Some (0, 0) /\ rec_path s 1 = Some (0, 0) /\ ds_get s 1 = Some (0, 1) /\
  exists_flags s1 0 = (false, false, false) /\ exists_flags s1 1 = (true, true, true) /\ obs s1 1 = obs s 1 /\ In (0, 0) (files s1) /\
  exists_flags s2 1 = (false, false, false) /\ files s2 = [(0, 2)] /\
  snd (step s (SetChain 6 [5])) = Err Cycle /\ connected (chains s) 5 0 /\ chain_member 3 s 5 1 = true /\ chain_member 3 s1 5 0 = false.
Proof. vm_compute. repeat split; try reflexivity; try (left; reflexivity). exists [5; 6]. repeat econstructor. Qed.
Example demo_trash1 : let s := run_hist (demo3 ++ [ExtDelete 0 2]) in
  exec s (Trash1 5) = s /\ exec s (Trash1 7) = s /\ trash (exec s (Trash1 0)) = [0] /\ exec (exec s (Trash1 0)) (Trash1 0) = exec s (Trash1 0).
Proof. vm_compute. repeat split; reflexivity. Qed.
Example demo_stale_standalone_trash : let s := run_hist stale_trash_history in
  In 0 (loc s) /\ In 0 (trash s) /\ exec s (Trash [0; 1]) = s /\ exec s (Trash1 0) = s.
Proof. vm_compute. repeat split; try reflexivity; left; reflexivity. Qed.

Example demo_xfer : let s := run_hist [Xfer 0 0 0; RegColl 2 Tagged; Tag 2 [0]] in
  hist_safe init [Xfer 0 0 0; RegColl 2 Tagged; Tag 2 [0]] = true /\ ctype s 0 = Some Run /\ exists_flags s 0 = (true, true, true) /\
  snd (step s (RegRemove [0])) = Err Orphaned /\ exec s (Xfer 0 0 0) = s /\ snd (step s (Xfer 0 2 0)) = Err CollType /\
  exists_flags (exec s (Prune [0] true true true [])) 0 = (false, false, false) /\ files (exec s (RemoveRuns [0] true)) = [].
Proof. vm_compute. repeat split; reflexivity. Qed.
