(* C12 -- Dimension groups are dependency-closed sets obeying lattice laws.
   Statements only; every proof is `exact <lemma>` from Proofs/GroupProofs.v (generic: ANY universe u with
   wf_universe u = true, ANY name lists, unbounded) or Proofs/GroupProofsShipped.v (the shipped universes of
   Gen/Universes.v, REGENERATED from /repo's dimensions.yaml + old_dimensions/*.yaml on every run) or
   Proofs/GroupProofsX*.v (about Gen/GroupGen.v: the bodies of DimensionGroup.__new__ / lookup_order / union /
   intersection / __eq__ / __le__ / isdisjoint / __hash__ and DimensionUniverse.sorted, REGENERATED from /repo's
   dimensions/_group.py and _universe.py on every run; primitives in Model/GroupX.v).

   Vocabulary (Proofs/GroupProofs.v):
     known u d   := In d (names_of u)
     closed u T  := forall d e, In d T -> find_elem u d = Some e -> incl (deps e) T     (deps = required ++ implied)
     same a b    := forall x, In x a <-> In x b                                         (equal as sets) *)
From Coq Require Import String List Bool Arith.
From V Require Import Model.Universe Model.Group Model.GroupX Gen.Universes Gen.GroupGen.
From V Require Import Proofs.GroupProofs Proofs.GroupProofsShipped Proofs.GroupProofsX Proofs.GroupProofsX2 Proofs.GroupProofsX3 Proofs.GroupProofsXShipped Proofs.GroupProofsXS Proofs.GroupProofsXS0 Proofs.GroupProofsXS1.
Import ListNotations.
Open Scope string_scope.
Open Scope list_scope.

(* ---- closure: the least closed superset; total on known names (the fuel never runs out) ---- *)
Theorem closure_least : forall u l, wf_universe u = true -> incl l (names_of u) ->
  exists C, closure u l = GOk C /\ incl l C /\ closed u C /\ (forall T, closed u T -> incl l T -> incl C T).
Proof. exact closure_least_p. Qed.
Print Assumptions closure_least.

Theorem closure_rejects_unknown : forall u l C, closure u l = GOk C -> incl l (names_of u).
Proof. exact closure_known. Qed.
Print Assumptions closure_rejects_unknown.

Theorem closure_idem : forall u l C, wf_universe u = true -> closure u l = GOk C -> closure u C = GOk C.
Proof. exact closure_idem. Qed.
Print Assumptions closure_idem.

Theorem closure_mono : forall u l1 l2 C1 C2,
  closure u l1 = GOk C1 -> closure u l2 = GOk C2 -> incl l1 l2 -> incl C1 C2.
Proof. exact closure_mono. Qed.
Print Assumptions closure_mono.

(* ---- the group: defined for all known names, is that closure, and is the same object however spelled ---- *)
Theorem mkgroup_total : forall u l, wf_universe u = true -> incl l (names_of u) -> exists G, mkgroup u l = GOk G.
Proof. exact mkgroup_total. Qed.
Print Assumptions mkgroup_total.

Theorem group_is_least_closed_superset : forall u l G, mkgroup u l = GOk G ->
  incl l (gnames G) /\ closed u (gnames G) /\ (forall T, closed u T -> incl l T -> incl (gnames G) T)
  /\ G = group_of_names u (gnames G).
Proof. exact group_is_closure_p. Qed.
Print Assumptions group_is_least_closed_superset.

(* order, duplicates, redundant members of the input do not matter: the SAME group (all seven fields) *)
Theorem group_canonical : forall u l1 l2 G, wf_universe u = true -> same l1 l2 ->
  mkgroup u l1 = GOk G -> mkgroup u l2 = GOk G.
Proof. exact group_canonical_p. Qed.
Print Assumptions group_canonical.

Theorem group_names_in_universe_order : forall u l G, mkgroup u l = GOk G -> sort_names u (gnames G) = gnames G.
Proof. exact group_sorted. Qed.
Print Assumptions group_names_in_universe_order.

Theorem group_names_reproduce_group : forall u l G, wf_universe u = true -> mkgroup u l = GOk G ->
  closure u (gnames G) = GOk (gnames G).
Proof. exact group_names_closure. Qed.
Print Assumptions group_names_reproduce_group.

(* ---- required / implied ---- *)
Theorem req_impl_partition : forall u l G d, mkgroup u l = GOk G ->
  (In d (gnames G) <-> In d (grequired G) \/ In d (gimplied G)) /\ ~ (In d (grequired G) /\ In d (gimplied G)).
Proof. exact partition_p. Qed.
Print Assumptions req_impl_partition.

Theorem required_char : forall u l G d, mkgroup u l = GOk G ->
  (In d (grequired G) <->
   In d (gnames G) /\ forall d2 e2, In d2 (gnames G) -> find_elem u d2 = Some e2 -> ~ In d (eimp e2)).
Proof. exact required_char_p. Qed.
Print Assumptions required_char.

Theorem required_generates : forall u l G, wf_universe u = true -> mkgroup u l = GOk G ->
  closure u (grequired G) = GOk (gnames G).
Proof. exact required_generates. Qed.
Print Assumptions required_generates.

(* ---- elements: exactly the universe's elements whose required dimensions are all in the group; every
        dimension of the group is one of them ---- *)
Theorem elements_char : forall u l G x, mkgroup u l = GOk G ->
  (In x (gelements G) <-> exists e, In e u /\ ename e = x /\ incl (ereq e) (gnames G)).
Proof. exact elements_char_p. Qed.
Print Assumptions elements_char.

Theorem names_in_elements : forall u l G d, mkgroup u l = GOk G -> In d (gnames G) -> In d (gelements G).
Proof. exact names_in_elements_p. Qed.
Print Assumptions names_in_elements.

(* ---- names respect the dependency order: whatever d depends on stands before d ---- *)
Theorem names_topological : forall u l G l1 d l2 e x, wf_universe u = true -> mkgroup u l = GOk G ->
  gnames G = l1 ++ d :: l2 -> find_elem u d = Some e -> In x (deps e) -> x <> d -> In x l1.
Proof. exact names_topological. Qed.
Print Assumptions names_topological.

(* ---- lattice: closed sets are closed under union and intersection, so | and & are the set operations,
        hence least upper / greatest lower bounds among groups ---- *)
Theorem union_lub : forall u la lb a b, wf_universe u = true -> mkgroup u la = GOk a -> mkgroup u lb = GOk b ->
  exists c, gunion u a b = GOk c
    /\ (forall x, In x (gnames c) <-> In x (gnames a) \/ In x (gnames b))
    /\ incl (gnames a) (gnames c) /\ incl (gnames b) (gnames c)
    /\ (forall lh h, mkgroup u lh = GOk h -> incl (gnames a) (gnames h) -> incl (gnames b) (gnames h) -> incl (gnames c) (gnames h)).
Proof. exact union_lub_p. Qed.
Print Assumptions union_lub.

Theorem inter_glb : forall u la lb a b, wf_universe u = true -> mkgroup u la = GOk a -> mkgroup u lb = GOk b ->
  exists c, ginter u a b = GOk c
    /\ (forall x, In x (gnames c) <-> In x (gnames a) /\ In x (gnames b))
    /\ incl (gnames c) (gnames a) /\ incl (gnames c) (gnames b)
    /\ (forall lh h, mkgroup u lh = GOk h -> incl (gnames h) (gnames a) -> incl (gnames h) (gnames b) -> incl (gnames h) (gnames c)).
Proof. exact inter_glb_p. Qed.
Print Assumptions inter_glb.

(* ---- ==, hash, <=, isdisjoint agree with the name sets ---- *)
Theorem eq_agree : forall u la lb a b, mkgroup u la = GOk a -> mkgroup u lb = GOk b ->
  (geqb a b = true <-> same (gnames a) (gnames b)) /\ (same (gnames a) (gnames b) <-> a = b).
Proof. exact eq_agree_p. Qed.
Print Assumptions eq_agree.

(* the hashed tuple (required) is equal exactly when the groups are: consistent with == and collision-free *)
Theorem hash_agree : forall u la lb a b, wf_universe u = true -> mkgroup u la = GOk a -> mkgroup u lb = GOk b ->
  (ghash a = ghash b <-> gnames a = gnames b).
Proof. exact hash_spec. Qed.
Print Assumptions hash_agree.

Theorem subset_agree : forall a b, gsubset a b = true <-> incl (gnames a) (gnames b).
Proof. exact gsubset_spec. Qed.
Print Assumptions subset_agree.

Theorem disjoint_agree : forall a b, gdisjoint a b = true <-> forall x, In x (gnames a) -> ~ In x (gnames b).
Proof. exact gdisjoint_spec. Qed.
Print Assumptions disjoint_agree.

(* ---- the shipped universes (regenerated): finite domains decided by computation ---- *)
(* every shipped YAML builds (model of DimensionConstructionBuilder) into a well-formed universe whose
   dependencies are all dimensions *)
Theorem shipped_wf : forallb builds_wf shipped_raw = true.
Proof. exact shipped_wf_p. Qed.
Print Assumptions shipped_wf.

Theorem shipped_universes_wf : forallb wf_universe shipped_universes = true.
Proof. exact shipped_universes_wf_p. Qed.
Print Assumptions shipped_universes_wf.

Theorem current_universe_is_built_and_wf : build raw_current = Some u_current /\ wf_universe u_current = true.
Proof. exact (conj current_is_built_p current_wf_p). Qed.
Print Assumptions current_universe_is_built_and_wf.

(* lookup_order, for EVERY subset of the non-skypix dimensions of the current universe (bound: at most 2^16
   subsets; 2^13 today): returns (no endless loop), is a permutation of the group's elements, lists every
   element after its required dimensions and every implied dimension after some member that implies it *)
Theorem lookup_order_bound : Nat.leb (length (nonskypix_dimension_names u_current)) 16 = true.
Proof. exact lookup_bound_p. Qed.
Print Assumptions lookup_order_bound.

Theorem lookup_order_ok_current :
  forallb (group_okb u_current lookup_okb) (all_subsets (nonskypix_dimension_names u_current)) = true.
Proof. exact lookup_ok_current_p. Qed.
Print Assumptions lookup_order_ok_current.

Theorem lookup_order_ok_current_forall : forall l,
  In l (all_subsets (nonskypix_dimension_names u_current)) ->
  exists g, mkgroup u_current l = GOk g /\ lookup_okb u_current g = true.
Proof. exact lookup_ok_current_forall_p. Qed.
Print Assumptions lookup_order_ok_current_forall.

Theorem all_subsets_complete : forall (l s : list string),
  (exists f : string -> bool, s = filter f l) -> In s (all_subsets l).
Proof. exact all_subsets_complete. Qed.
Print Assumptions all_subsets_complete.

(* the docstring's stronger reading ("when A implies B, A appears first", for EVERY implying member) is false:
   {exposure, visit} lists physical_filter (implied by both) before visit *)
Theorem lookup_order_strict_refuted :
  exists l, incl l (nonskypix_dimension_names u_current) /\ group_okb u_current lookup_strictb l = false.
Proof. exact lookup_strict_refuted_p. Qed.
Print Assumptions lookup_order_strict_refuted.

(* why the previous theorems are stated for the shipped universe and decided by enumeration: in an arbitrary
   well-formed universe lookup_order need not terminate.  Witness: a 5-dimension acyclic universe (q; s; p requires
   q; r requires s implies p; t requires p implies s), group {r, t}.  Reproduced on the real DimensionGroup by the
   correspondence run (the implementation does not return either). *)
Theorem lookup_order_generic_refuted :
  build raw_deadlock = Some u_deadlock /\ wf_universe u_deadlock = true /\ deps_are_dimensions u_deadlock = true
  /\ exists g, mkgroup u_deadlock ["r"; "t"] = GOk g /\ glookup g = GOutOfFuel.
Proof. exact lookup_generic_refuted_p. Qed.
Print Assumptions lookup_order_generic_refuted.

(* ==== the algorithms AS CODED (Gen/GroupGen.v, regenerated from the Python source) ==== *)
(* DimensionGroup(universe, names): the generated constructor returns exactly what the hand model returns -- the same
   group record (all seven fields, lookup_order included), the same KeyError -- for ANY well-formed universe and ANY
   list of names.  Every generic theorem above therefore speaks about the code as written; an edit of __new__ /
   lookup_order / sorted that changes a result in some well-formed universe breaks this proof. *)
Theorem gen_new_agrees : forall u l, wf_universe u = true -> gen_group u l true = mkgroup u l.
Proof. exact gen_group_agrees. Qed.
Print Assumptions gen_new_agrees.

(* `_conform=False` (what __getnewargs__ / pickling passes): on the names of a group it rebuilds that group *)
Theorem gen_new_noconform_agrees : forall u l G, wf_universe u = true -> mkgroup u l = GOk G ->
  gen_group u (gnames G) false = GOk G.
Proof. exact gen_group_noconform_agrees. Qed.
Print Assumptions gen_new_noconform_agrees.

(* `_conform=False` on ANY closed set of known names builds the group of that set: skipping the expansion where the
   argument is already closed (as a union / intersection of groups is) changes nothing *)
Theorem gen_new_noconform_closed : forall u T, wf_universe u = true -> closed u T -> incl T (names_of u) ->
  gen_group u T false = mkgroup u T.
Proof. exact gen_group_noconform_closed. Qed.
Print Assumptions gen_new_noconform_closed.

Theorem gen_lookup_order_agrees : forall u req elems, wf_universe u = true -> incl req (names_of u) ->
  gen_lookup_order u req elems = lookup_order u req elems.
Proof. exact gen_lookup_agrees. Qed.
Print Assumptions gen_lookup_order_agrees.

(* the keys of _data_coordinate_indices (a dict: a duplicate key would be dropped) are required ++ implied *)
Theorem gen_data_coordinate_keys_agrees : forall u l G, wf_universe u = true -> mkgroup u l = GOk G ->
  gen_data_coordinate_keys u l = GOk (data_coordinate_keys G).
Proof. exact gen_dck_agrees. Qed.
Print Assumptions gen_data_coordinate_keys_agrees.

(* the constructor as coded never loops: a group for known names, KeyError as soon as one name is unknown *)
Theorem gen_new_outcome : forall u l, wf_universe u = true ->
  (incl l (names_of u) /\ exists G, gen_group u l true = GOk G)
  \/ ((exists y, In y l /\ ~ In y (names_of u)) /\ gen_group u l true = GKeyError).
Proof. exact gen_group_outcome. Qed.
Print Assumptions gen_new_outcome.

(* the main clause of C12 over the code as written: smallest closed superset, in universe order *)
Theorem gen_new_least_closed_superset : forall u l G, wf_universe u = true -> gen_group u l true = GOk G ->
  incl l (gnames G) /\ closed u (gnames G) /\ (forall T, closed u T -> incl l T -> incl (gnames G) T)
  /\ sort_names u (gnames G) = gnames G.
Proof. exact gen_group_least. Qed.
Print Assumptions gen_new_least_closed_superset.

(* "the same object however it was spelled" (Python set iteration order, duplicates, redundant members): equal name
   sets give equal results, failures included *)
Theorem gen_new_canonical : forall u l1 l2, wf_universe u = true -> same l1 l2 ->
  gen_group u l1 true = gen_group u l2 true.
Proof. exact gen_group_canonical. Qed.
Print Assumptions gen_new_canonical.

(* required / implied partition the group, required = members no member implies, required regenerates the group *)
Theorem gen_new_required_implied : forall u l G d, wf_universe u = true -> gen_group u l true = GOk G ->
  ((In d (gnames G) <-> In d (grequired G) \/ In d (gimplied G)) /\ ~ (In d (grequired G) /\ In d (gimplied G)))
  /\ (In d (grequired G) <->
      In d (gnames G) /\ forall d2 e2, In d2 (gnames G) -> find_elem u d2 = Some e2 -> ~ In d (eimp e2))
  /\ gen_group u (grequired G) true = GOk G.
Proof. exact gen_group_parts. Qed.
Print Assumptions gen_new_required_implied.

(* n-ary union / intersection AS CODED (`a.union(b, c, ...)`): defined, exactly the set union / intersection of all
   operands, an upper / lower bound of every operand and below / above every other bound *)
Theorem nary_union_lub : forall u a others, wf_universe u = true -> is_group u a -> Forall (is_group u) others ->
  exists c, gen_union u a others = GOk c /\ is_group u c
    /\ (forall x, In x (gnames c) <-> In x (gnames a) \/ exists b, In b others /\ In x (gnames b))
    /\ incl (gnames a) (gnames c) /\ (forall b, In b others -> incl (gnames b) (gnames c))
    /\ (forall h, is_group u h -> incl (gnames a) (gnames h) -> (forall b, In b others -> incl (gnames b) (gnames h)) ->
        incl (gnames c) (gnames h)).
Proof. exact gen_union_lub. Qed.
Print Assumptions nary_union_lub.

Theorem nary_intersection_glb : forall u a others, wf_universe u = true -> is_group u a -> Forall (is_group u) others ->
  exists c, gen_intersection u a others = GOk c /\ is_group u c
    /\ (forall x, In x (gnames c) <-> In x (gnames a) /\ forall b, In b others -> In x (gnames b))
    /\ incl (gnames c) (gnames a) /\ (forall b, In b others -> incl (gnames c) (gnames b))
    /\ (forall h, is_group u h -> incl (gnames h) (gnames a) -> (forall b, In b others -> incl (gnames h) (gnames b)) ->
        incl (gnames h) (gnames c)).
Proof. exact gen_intersection_glb. Qed.
Print Assumptions nary_intersection_glb.

(* `a | b` = a.union(b), `a & b` = a.intersection(b) (shape checked by the translator) are the hand model's operators *)
Theorem binary_operators_agree : forall u a b, wf_universe u = true -> is_group u a -> is_group u b ->
  gen_union u a [b] = gunion u a b /\ gen_intersection u a [b] = ginter u a b.
Proof. intros u a b H Ha Hb. exact (conj (gen_union_binary u a b H Ha Hb) (gen_intersection_binary u a b H Ha Hb)). Qed.
Print Assumptions binary_operators_agree.

(* ==, <=, issubset, isdisjoint, hash as coded *)
Theorem comparisons_agree : forall u a b, is_group u a -> is_group u b ->
  gen_eq a b = geqb a b /\ gen_le a b = gsubset a b /\ gen_issubset a b = gsubset a b
  /\ gen_isdisjoint a b = gdisjoint a b /\ gen_hash a = ghash a.
Proof.
  intros u a b Ha Hb. split; [exact (gen_eq_agrees u a b Ha Hb)|]. split; [reflexivity|]. split; [reflexivity|].
  split; reflexivity.
Qed.
Print Assumptions comparisons_agree.

(* ---- skypix dimensions: no dependencies, nothing depends on them (all shipped universes, by computation); adding
        such a dimension to ANY group adds exactly that name, as a required dimension, and changes nothing else ---- *)
Theorem skypix_isolated_shipped : forallb skypix_isolatedb shipped_universes = true.
Proof. exact skypix_isolated_shipped_p. Qed.
Print Assumptions skypix_isolated_shipped.

Theorem isolated_dimension_extends : forall u s l G, wf_universe u = true -> isolatedb u s = true -> mkgroup u l = GOk G ->
  exists G', mkgroup u (s :: l) = GOk G'
    /\ (forall x, In x (gnames G') <-> x = s \/ In x (gnames G))
    /\ In s (grequired G')
    /\ (forall d, d <> s -> (In d (grequired G') <-> In d (grequired G)))
    /\ (forall d, In d (gimplied G') <-> In d (gimplied G)).
Proof. exact isolated_extends. Qed.
Print Assumptions isolated_dimension_extends.

(* lookup_order with ONE skypix dimension next to non-skypix dimensions (finite, by computation): for each skypix
   dimension at either end of a pixelization system of the current universe (`sky_sample_current`: lowest / highest
   level -- healpix1, healpix17, htm1, htm24 today) and each CLOSED set C of non-skypix dimensions (`cl_current`, 460
   today), the group of s :: C has a lookup_order that returns, is a permutation of the elements and respects the
   required / implied order.  `closures_tabulated` (every subset's closure is one of those closed sets) and
   `group_cons_closure` (generic: s :: S and s :: closure S give the same group) carry this to every subset S. *)
Theorem lookup_order_ok_current_skypix_ends : skypix_lookup_okb u_current sky_sample_current cl_current = true.
Proof. exact skypix_lookup_sample. Qed.
Print Assumptions lookup_order_ok_current_skypix_ends.

Theorem closures_tabulated : forall S, In S (all_subsets (nonskypix_dimension_names u_current)) ->
  closure_in u_current cl_current S = true.
Proof. exact closures_tabulated_p. Qed.
Print Assumptions closures_tabulated.

Theorem group_cons_closure : forall u s l C, wf_universe u = true -> In s (names_of u) -> closure u l = GOk C ->
  mkgroup u (s :: l) = mkgroup u (s :: C).
Proof. exact mkgroup_cons_closure. Qed.
Print Assumptions group_cons_closure.

(* ---- non-vacuity: the hypotheses are satisfiable by the real universe and a real group ---- *)
Example wf_current : wf_universe u_current = true.
Proof. exact current_wf_p. Qed.

Example group_visit_detector_tract :
  exists g, mkgroup u_current ["visit"; "detector"; "tract"] = GOk g
    /\ grequired g = ["instrument"; "skymap"; "detector"; "tract"; "visit"]
    /\ gimplied g = ["band"; "day_obs"; "physical_filter"].
Proof. exact example_group_p. Qed.

Example gen_group_visit_htm7 :
  exists g, gen_group u_current ["visit"; "htm7"] true = GOk g
    /\ grequired g = ["htm7"; "instrument"; "visit"] /\ gskypix g = ["htm7"]
    /\ gen_union u_current g [g; g] = GOk g.
Proof. exact example_gen_group_p. Qed.
