(* C12 stub: replaced below *)
From Coq Require Import String List Bool.
From V Require Import Model.Universe Model.Group Gen.Universes.
Import ListNotations.

Theorem shipped_wf : forallb builds_wf shipped_raw = true.
Proof. vm_compute. reflexivity. Qed.
Print Assumptions shipped_wf.
