From Coq Require Import ZArith List Bool String.
From V Require Import Model.Serial Model.ConfigKey.
Theorem placeholder_c18 : True.
Proof. exact I. Qed.
Print Assumptions placeholder_c18.
