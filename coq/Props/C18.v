(* C18 -- Core value objects survive every serialisation unchanged; every reported Config key retrieves its value.
   Statements only; proofs are `exact <lemma>` from Proofs/SerialProofs.v and Proofs/ConfigKeyProofs.v.
   Models: Model/Serial.v (to_simple/from_simple/to_json wire form, __reduce__ forms), Model/ConfigKey.v (Config keys). *)
From Coq Require Import ZArith NArith List Bool String.
From V Require Import Model.Serial Model.ConfigKey Proofs.SerialProofs Proofs.SerialProofsB Proofs.ConfigKeyProofs Proofs.ConfigKeyProofsB.
From V Require Import Model.SerialX Proofs.SerialProofsX Proofs.ConfigKeyProofsX Gen.SerialReduceGen Proofs.SerialProofsG.
From V Require Import Model.SerialCtx Proofs.SerialProofsCtx.
Import ListNotations.

(* ===== Timespan: JSON, YAML and pickle forms, including the canonical empty and the unbounded ends ===== *)
Theorem ts_json_roundtrip : forall mx t, (0 < mx)%Z -> ts_wf mx t -> dec_ts mx (enc_ts t) = Some t.
Proof. exact ts_json_roundtrip_p. Qed.
Print Assumptions ts_json_roundtrip.

Theorem ts_yaml_roundtrip : forall mx t, (0 < mx)%Z -> ts_wf mx t -> dec_ts_yaml mx (enc_ts_yaml mx t) = t.
Proof. exact ts_yaml_roundtrip_p. Qed.
Print Assumptions ts_yaml_roundtrip.

Theorem ts_pickle_roundtrip : forall mx t, (0 < mx)%Z -> ts_wf mx t -> rebuild_ts mx (reduce_ts t) = t.
Proof. exact ts_pickle_roundtrip_p. Qed.
Print Assumptions ts_pickle_roundtrip.

Theorem ts_mk_wf : forall mx b e, (0 <= b)%Z -> (e <= mx)%Z -> ts_wf mx (ts_mk mx b e).
Proof. exact ts_mk_wf_p. Qed.
Print Assumptions ts_mk_wf.

Example ts_wf_empty : ts_wf 100%Z (100%Z, 0%Z).          Proof. right; reflexivity. Qed.
Example ts_wf_unbounded : ts_wf 100%Z (0%Z, 100%Z).      Proof. left; simpl; unfold TMIN; repeat split; discriminate || reflexivity. Qed.

(* ===== DimensionGroup ===== *)
Theorem dec_enc_grp : forall u g, conform u (g_names g) = Some g -> dec_grp u (enc_grp g) = Some g.
Proof. exact dec_enc_grp_p. Qed.
Print Assumptions dec_enc_grp.

Theorem grp_pickle_roundtrip : forall u g, conform u (g_names g) = Some g -> rebuild_grp u (reduce_grp g) = Some g.
Proof. exact grp_pickle_p. Qed.
Print Assumptions grp_pickle_roundtrip.

(* ===== DatasetType: full form (only the REQUIRED dimensions travel; conform restores the group), minimal form, pickle ===== *)
Theorem dec_enc_dt_full : forall u t, wf_dt u t -> dec_dt u (enc_dt false t) = Some t.
Proof. exact dec_enc_dt_full_p. Qed.
Print Assumptions dec_enc_dt_full.

Theorem dec_enc_dt_minimal : forall u t, aget (t_name t) (u_types u) = Some t -> dec_dt u (enc_dt true t) = Some t.
Proof. exact dec_enc_dt_minimal_p. Qed.
Print Assumptions dec_enc_dt_minimal.

Theorem dt_pickle_roundtrip : forall u t, wf_dt u t -> rebuild_dt u (reduce_dt t) = Some t.
Proof. exact dt_pickle_p. Qed.
Print Assumptions dt_pickle_roundtrip.

Definition ex_g : grp := {| g_names := ["band"; "instrument"; "physical_filter"]; g_req := ["instrument"; "physical_filter"];
                            g_impl := ["band"]; g_elems := ["band"; "instrument"; "physical_filter"] |}%string.
Definition ex_u : uctx := {| u_max := 100%Z; u_conform := [(["instrument"; "physical_filter"], ex_g); (g_names ex_g, ex_g)]%string;
                             u_schema := [("x", [("id", (TInt, false))])]%string; u_governors := ["instrument"]%string;
                             u_types := []; u_refs := []; u_compsc := [] |}.
Example wf_dt_component : wf_dt ex_u {| t_name := "flat.wcs"; t_grp := ex_g; t_sc := "Wcs"; t_psc := Some "Exposure"%string; t_calib := true |}.
Proof. repeat split; try reflexivity; simpl; intros; discriminate. Qed.

(* ===== equal objects hash equally (so a round trip that returns an equal object returns an equally hashing one) ===== *)
Theorem hash_preserved_group : forall u a b, in_universe u a -> in_universe u b -> grp_eq a b = true -> grp_hash_key a = grp_hash_key b.
Proof. exact hash_preserved_grp_p. Qed.
Print Assumptions hash_preserved_group.

Theorem hash_preserved_coord : forall u a b, in_universe u (c_grp a) -> in_universe u (c_grp b) ->
  coord_eq a b = true -> coord_hash_key a = coord_hash_key b.
Proof. exact hash_preserved_coord_p. Qed.
Print Assumptions hash_preserved_coord.

Theorem hash_preserved_dt : forall u a b, in_universe u (t_grp a) -> in_universe u (t_grp b) ->
  dt_eq a b = true -> dt_hash_key a = dt_hash_key b.
Proof. exact hash_preserved_dt_p. Qed.
Print Assumptions hash_preserved_dt.

Theorem hash_preserved_ref : forall u a b,
  in_universe u (t_grp (f_type a)) -> in_universe u (t_grp (f_type b)) ->
  in_universe u (c_grp (f_coord a)) -> in_universe u (c_grp (f_coord b)) ->
  ref_eq a b = true -> ref_hash_key a = ref_hash_key b.
Proof. exact hash_preserved_ref_p. Qed.
Print Assumptions hash_preserved_ref.

(* ===== DimensionRecord ===== *)
(* wf_rec u r: r has exactly the fields of its element's schema (slot order, unique names), each value of the declared
   type, None only where nullable, timespans canonical *)
Theorem dec_enc_rec : forall u r, (0 < u_max u)%Z -> wf_rec u r -> dec_rec u (enc_rec r) = Some r.
Proof. exact dec_enc_rec_p. Qed.
Print Assumptions dec_enc_rec.

Theorem rec_pickle_roundtrip : forall r, rebuild_rec (reduce_rec r) = r.
Proof. exact rec_pickle_p. Qed.
Print Assumptions rec_pickle_roundtrip.

(* ===== DataCoordinate: required-only / full / expanded, None records included, both modes =====
   expected_coord minimal c = c without its records (the empty data ID stays expanded); expected_coord full c = c *)
Theorem dec_enc_coord : forall u minimal c, wf_coord u c -> dec_coord u (enc_coord minimal c) = Some (expected_coord minimal c).
Proof. exact dec_enc_coord_p. Qed.
Print Assumptions dec_enc_coord.

Theorem coord_full_form_identity : forall u c, wf_coord u c -> dec_coord u (enc_coord false c) = Some c.
Proof. exact coord_full_form_identity_p. Qed.
Print Assumptions coord_full_form_identity.

Theorem coord_pickle_roundtrip : forall c, rebuild_coord (reduce_coord c) = c.
Proof. exact coord_pickle_p. Qed.
Print Assumptions coord_pickle_roundtrip.

(* non-vacuity: a well-formed expanded data ID with a None record; it reads back with records["x"] still None *)
Example wf_coord_with_none_record : wf_coord w_u w_c /\ record_state w_c "x" = 1%N.
Proof.
  split; [|reflexivity]. unfold wf_coord; simpl. repeat split; try reflexivity.
  - repeat constructor; simpl; intuition discriminate.
  - repeat constructor; simpl; intuition discriminate.
  - intros k r [H|[H|[]]]; inversion H; subst. exists [("id", (TInt, false))]%string. repeat split; try reflexivity.
    + repeat constructor; simpl; intuition.
    + repeat constructor.
Qed.

(* the code before commit 0b78af8 (dec_coord_prefix: `if simple.records:`, no dict.fromkeys) violated it: reverting the
   fix loses the None record of this well-formed data ID (records["x"]: None -> KeyError) *)
Theorem coord_prefix_variant_refuted : exists c',
  dec_coord_prefix w_u (enc_coord false w_c) = Some c' /\ record_state w_c "x" = 1%N /\ record_state c' "x" = 2%N.
Proof. exact coord_prefix_variant_refuted_p. Qed.
Print Assumptions coord_prefix_variant_refuted.

(* ===== DatasetRef ===== *)
Theorem dec_enc_ref : forall u r, wf_ref u r -> dec_ref u (enc_ref false r) = Some r.
Proof. exact dec_enc_ref_p. Qed.
Print Assumptions dec_enc_ref.

Theorem dec_enc_ref_minimal : forall u r, aget (f_id r) (u_refs u) = Some r ->
  component_of (t_name (f_type r)) = None -> dec_ref u (enc_ref true r) = Some r.
Proof. exact dec_enc_ref_minimal_p. Qed.
Print Assumptions dec_enc_ref_minimal.

Theorem ref_pickle_roundtrip : forall r, g_names (c_grp (f_coord r)) = g_names (t_grp (f_type r)) ->
  rebuild_ref (reduce_ref r) = Some r.
Proof. exact ref_pickle_p. Qed.
Print Assumptions ref_pickle_roundtrip.

(* ===== Config keys ===== *)
Theorem split_join : forall d ks, ks <> [] -> Forall (fun k => memc d k = false) ks -> split d (join d ks) = ks.
Proof. exact split_join_p. Qed.
Print Assumptions split_join.

Theorem name_split : forall alnum d ks, alnum d = false -> d <> BS -> ks <> [] ->
  Forall (fun k => memc d k = false) ks -> nonlast_ok ks = true ->
  split_key alnum (mkname d (map KS ks)) = Ok (map KS ks).
Proof. exact name_split_p. Qed.
Print Assumptions name_split.

Theorem default_delimiter_fresh : forall alnum top d l t x k, names_default alnum top = Some (d, l) ->
  In (t, x) (tuples (CDict top)) -> In k t -> memc d (key_str k) = false /\ d <> BS.
Proof. exact default_delim_fresh. Qed.
Print Assumptions default_delimiter_fresh.

(* int(str(i)) = i: a list index survives being written into a name and read back *)
Theorem index_str_int : forall i, (0 <= i)%Z -> py_int (Z_str i) = Some i.
Proof. exact py_int_Z_str. Qed.
Print Assumptions index_str_int.

(* string-layer core: a path of string keys (no delimiter inside, no non-final key ending in a backslash) whose
   name is not shadowed by a top-level key retrieves what the path leads to, for EVERY character classification *)
Theorem names_retrieve_string_path : forall alnum top d l ks x,
  names_default alnum top = Some (d, l) -> alnum d = false ->
  In (map KS ks, x) (tuples (CDict top)) -> nonlast_ok ks = true ->
  walk (map KS ks) (CDict top) = Ok (Some x) ->
  In (mkname d (map KS ks), x) l /\
  lookup alnum top (mkname d (map KS ks)) = Ok x /\ contains alnum top (mkname d (map KS ks)) = Ok true.
Proof. exact names_retrieve_partial_p. Qed.
Print Assumptions names_retrieve_string_path.

(* EVERY key reported by names() retrieves its value and is `in` the Config, for whole trees of nested dicts and lists
   (list indices included), provided keys_ok: every dict key anywhere in the tree is a str that does not end in a
   backslash and no dict holds two equal keys.  PARTIAL with respect to the property: the two excluded key shapes are
   exactly the refuted cases below; `alnum d = false` is the documented fact that the chosen delimiter is not alphanumeric. *)
Theorem names_retrieve_partial : forall alnum top d l,
  keys_okb (CDict top) = true -> names_default alnum top = Some (d, l) -> alnum d = false ->
  forall n x, In (n, x) l -> lookup alnum top n = Ok x /\ contains alnum top n = Ok true.
Proof. exact names_retrieve_keys_ok_p. Qed.
Print Assumptions names_retrieve_partial.

(* {"a": {"b.c": [1, {"": "v"}]}, "→x": 0}: keys_ok, names() succeeds (the delimiter moves on to U+2193), 6 names *)
Example names_retrieve_nonvacuous :
  let top := [(KS [97], CDict [(KS [98; 46; 99], CList [CInt 1%Z; CDict [(KS [], CStr [118])]])]); (KS [8594; 120], CInt 0%Z)] in
  keys_okb (CDict top) = true
  /\ names_default ascii_alnum top = Some (8595%N, names_with 8595%N top)
  /\ List.length (names_with 8595%N top) = 6%nat.
Proof. vm_compute. repeat split; reflexivity. Qed.

(* the property itself fails on the faithful model: a key ending in a backslash; a non-string key; an explicit delimiter *)
Theorem names_retrieve_refuted : refutes w_backslash.
Proof. exact names_retrieve_refuted_backslash_p. Qed.
Print Assumptions names_retrieve_refuted.

Theorem names_retrieve_refuted_nonstring_key : refutes w_intkey.
Proof. exact names_retrieve_refuted_intkey_p. Qed.
Print Assumptions names_retrieve_refuted_nonstring_key.

Theorem names_explicit_delimiter_refuted :
  exists top l n x, names_explicit ascii_alnum 46%N top = Some l /\ In (n, x) l /\ lookup ascii_alnum top n = Err ValueErr.
Proof. exact names_explicit_refuted_p. Qed.
Print Assumptions names_explicit_delimiter_refuted.

(* ====================================================================================================
   Extension (wave 4)
   ==================================================================================================== *)

(* ===== minimal form {id, component} of a COMPONENT ref =====
   The registry holds the composite (makeCompositeRef of r, as DatasetRef.from_simple's own cache does); the parent
   storage class declares the component with r's storage class.  Then {id, component} resolves to exactly r. *)
Theorem dec_enc_ref_minimal_component : forall u r p comp,
  wf_dt u (f_type r) -> component_of (t_name (f_type r)) = Some comp ->
  composite_ref u r = Some p -> aget (f_id r) (u_refs u) = Some p ->
  (forall ps, t_psc (f_type r) = Some ps -> aget (ps ++ "." ++ comp)%string (u_compsc u) = Some (t_sc (f_type r))) ->
  dec_ref u (enc_ref true r) = Some r.
Proof. exact dec_enc_ref_minimal_component_p. Qed.
Print Assumptions dec_enc_ref_minimal_component.

(* both kinds of ref in one statement (non-component: the registry holds r itself) *)
Theorem dec_enc_ref_minimal_every_ref : forall u r,
  match component_of (t_name (f_type r)) with
  | None => aget (f_id r) (u_refs u) = Some r
  | Some comp => wf_dt u (f_type r) /\
                 (exists p, composite_ref u r = Some p /\ aget (f_id r) (u_refs u) = Some p) /\
                 (forall ps, t_psc (f_type r) = Some ps -> aget (ps ++ "." ++ comp)%string (u_compsc u) = Some (t_sc (f_type r)))
  end -> dec_ref u (enc_ref true r) = Some r.
Proof. exact dec_enc_ref_minimal_all_p. Qed.
Print Assumptions dec_enc_ref_minimal_every_ref.

(* a well-formed component type always has its composite (name = everything before the first ".") *)
Theorem composite_of_component_exists : forall u t c, wf_dt u t -> component_of (t_name t) = Some c ->
  mem (root_of (t_name t)) (u_governors u) = false ->
  exists p, t_psc t = Some p /\
    composite_dt u t = Some {| t_name := root_of (t_name t); t_grp := t_grp t; t_sc := p; t_psc := None; t_calib := t_calib t |}.
Proof. exact composite_dt_wf. Qed.
Print Assumptions composite_of_component_exists.

(* non-vacuity: the component ref flat.wcs of a registered composite `flat` *)
Definition ex_ct : dstype := {| t_name := "flat.wcs"; t_grp := ex_g; t_sc := "Wcs"; t_psc := Some "Exposure"%string; t_calib := true |}.
Definition ex_cc : coord := {| c_grp := ex_g; c_vals := [("instrument", DStr "Cam"); ("physical_filter", DStr "r")]%string; c_recs := None |}.
Definition ex_cr : dref := {| f_id := "id1"; f_run := "run"; f_type := ex_ct; f_coord := ex_cc |}.
Definition ex_cp : dref := {| f_id := "id1"; f_run := "run";
  f_type := {| t_name := "flat"; t_grp := ex_g; t_sc := "Exposure"; t_psc := None; t_calib := true |}; f_coord := ex_cc |}.
Definition ex_cu : uctx := {| u_max := 100%Z; u_conform := u_conform ex_u; u_schema := []; u_governors := ["instrument"]%string;
                              u_types := []; u_refs := [("id1", ex_cp)]%string; u_compsc := [("Exposure.wcs", "Wcs")]%string |}.
Example component_ref_minimal_nonvacuous :
  wf_dt ex_cu ex_ct /\ composite_ref ex_cu ex_cr = Some ex_cp /\ enc_ref true ex_cr = JObj [("id", JStr "id1"); ("component", JStr "wcs")]%string
  /\ dec_ref ex_cu (enc_ref true ex_cr) = Some ex_cr.
Proof.
  split; [|repeat split; vm_compute; reflexivity].
  repeat split; try reflexivity; simpl; intros; discriminate.
Qed.

(* ===== nested pickle forms: the group travels as its names, the values as a bare tuple, every record through
   DimensionRecord.__reduce__; the class constructors rebuild the object (grp_ok: names = required + implied) ===== *)
Theorem coord_pickle_deep_roundtrip : forall u c, wf_coord u c -> in_universe u (c_grp c) -> grp_ok (c_grp c) ->
  rebuild_coord_deep u (reduce_coord_deep c) = Some c.
Proof. exact coord_pickle_deep_p. Qed.
Print Assumptions coord_pickle_deep_roundtrip.

(* the unpickled data ID answers like the original for EVERY key of records (non-dimension elements such as
   visit_detector_region included), same hasFull / hasRecords *)
Theorem coord_pickle_keeps_every_record : forall u c, wf_coord u c -> in_universe u (c_grp c) -> grp_ok (c_grp c) ->
  exists c', rebuild_coord_deep u (reduce_coord_deep c) = Some c' /\ has_full c' = has_full c /\
             has_records c' = has_records c /\ forall k, record_state c' k = record_state c k.
Proof. exact coord_pickle_keeps_records_p. Qed.
Print Assumptions coord_pickle_keeps_every_record.

(* a __reduce__ that pickles only the records of the dimension NAMES breaks it (w_c: element "x" is not a dimension) *)
Theorem coord_pickle_trimmed_variant_refuted : exists c',
  rebuild_coord_deep w_u (reduce_coord_trimmed w_c) = Some c' /\ record_state w_c "x" = 1%N /\ record_state c' "x" = 2%N.
Proof. exact coord_pickle_trimmed_variant_refuted_p. Qed.
Print Assumptions coord_pickle_trimmed_variant_refuted.

Example pickle_deep_nonvacuous : wf_coord w_u w_c /\ in_universe w_u (c_grp w_c) /\ grp_ok (c_grp w_c)
  /\ reduce_coord_deep w_c = (ClsExpanded, ["a"], [DInt 1], Some [("a", Some ("a", [("id", FInt 1)])); ("x", None)])%string.
Proof. split; [exact (proj1 wf_coord_with_none_record)|]. repeat split. Qed.

(* the same over the __reduce__ table REGENERATED from dimensions/_coordinate.py (Gen/SerialReduceGen.v, tie T):
   what the source hands to pickle is what the model says, for every data ID, and the constructors rebuild it *)
Theorem reduce_source_is_model : forall c, reduce_coord_gen c = Some (reduce_coord_deep c).
Proof. exact reduce_coord_gen_is_model. Qed.
Print Assumptions reduce_source_is_model.

Theorem coord_pickle_source_roundtrip : forall u c, wf_coord u c -> in_universe u (c_grp c) -> grp_ok (c_grp c) ->
  exists a, reduce_coord_gen c = Some a /\ rebuild_coord_deep u a = Some c.
Proof. exact coord_pickle_gen_p. Qed.
Print Assumptions coord_pickle_source_roundtrip.

Theorem dt_pickle_deep_roundtrip : forall u t, wf_dt u t -> in_universe u (t_grp t) -> rebuild_dt_deep u (reduce_dt_deep t) = Some t.
Proof. exact dt_pickle_deep_p. Qed.
Print Assumptions dt_pickle_deep_roundtrip.

Theorem ref_pickle_deep_roundtrip : forall u r, wf_ref u r ->
  in_universe u (t_grp (f_type r)) -> in_universe u (c_grp (f_coord r)) -> grp_ok (c_grp (f_coord r)) ->
  rebuild_ref_deep u (reduce_ref_deep r) = Some r.
Proof. exact ref_pickle_deep_p. Qed.
Print Assumptions ref_pickle_deep_roundtrip.

(* ===== DimensionRecord / expanded data ID with OPAQUE region and hash payloads =====
   region, bytes are arbitrary types; the sphgeom and hex codecs are parameters with the two round-trip facts as
   explicit premises.  The record read back is the record itself (the region object, not its encoding). *)
Theorem dec_enc_rec_opaque : forall (region bytes : Type) (region_encode : region -> bytes) (region_decode : bytes -> option region)
    (hex : bytes -> string) (fromhex : string -> option bytes),
  (forall b, fromhex (hex b) = Some b) -> (forall r, region_decode (region_encode r) = Some r) ->
  forall u (r : prec region bytes), (0 < u_max u)%Z -> wf_rec u (wire_rec region bytes region_encode hex r) ->
  dec_prec region bytes region_decode fromhex u (enc_prec region bytes region_encode hex r) = Some r.
Proof. exact dec_enc_prec_p. Qed.
Print Assumptions dec_enc_rec_opaque.

Theorem dec_enc_coord_opaque : forall (region bytes : Type) (region_encode : region -> bytes) (region_decode : bytes -> option region)
    (hex : bytes -> string) (fromhex : string -> option bytes),
  (forall b, fromhex (hex b) = Some b) -> (forall r, region_decode (region_encode r) = Some r) ->
  forall u (c : pcoord region bytes), wf_coord u (wire_coord region bytes region_encode hex c) ->
  dec_pcoord region bytes region_decode fromhex u (enc_pcoord region bytes region_encode hex false c) = Some c.
Proof. exact dec_enc_pcoord_p. Qed.
Print Assumptions dec_enc_coord_opaque.

(* the premises are satisfiable: region := bool, bytes := string, codecs that really invert; a record with a region
   and a NULL timespan reads back as itself *)
Definition ex_ou : uctx := {| u_max := 100%Z; u_conform := [];
  u_schema := [("x", [("id", (TInt, false)); ("region", (TRegion, true)); ("timespan", (TTs, true))])]%string;
  u_governors := []; u_types := []; u_refs := []; u_compsc := [] |}.
Definition ex_or : prec bool string :=
  {| p_def := "x"; p_fields := [("id", PInt _ _ 1%Z); ("region", PRegion _ _ true); ("timespan", PNull _ _)] |}%string.
Example opaque_codec_nonvacuous :
  let renc := fun b : bool => if b then "1" else "0" in
  let rdec := fun s => if String.eqb s "1" then Some true else if String.eqb s "0" then Some false else None in
  (forall b : string, Some ((fun x : string => x) b) = Some b) /\ (forall r, rdec (renc r) = Some r) /\
  wf_rec ex_ou (wire_rec bool string renc (fun b => b) ex_or) /\
  enc_prec bool string renc (fun b => b) ex_or =
    JObj [("definition", JStr "x"); ("record", JObj [("id", JInt 1); ("region", JStr "1"); ("timespan", JNull)])]%string /\
  dec_prec bool string rdec Some ex_ou (enc_prec bool string renc (fun b => b) ex_or) = Some ex_or.
Proof.
  split; [reflexivity|]. split; [intros []; reflexivity|]. split; [|split; reflexivity].
  exists [("id", (TInt, false)); ("region", (TRegion, true)); ("timespan", (TTs, true))]%string. repeat split; try reflexivity.
  - repeat constructor; simpl; intuition discriminate.
  - repeat constructor.
Qed.

(* ===== names(delimiter=d): the positive theorem for an EXPLICIT delimiter =====
   Keys may contain the delimiter (they are escaped as "\d" and un-escaped through the "\r" placeholder). *)
Theorem name_split_explicit : forall d, d <> BS -> d <> CR -> forall alnum ks, alnum d = false -> ks <> [] ->
  Forall (key_fine d) ks -> nonlast_ok ks = true ->
  split_key alnum (mkname d (map KS ks)) = Ok (map KS ks).
Proof. exact name_split_explicit_p. Qed.
Print Assumptions name_split_explicit.

(* EVERY key reported by names(delimiter=d) retrieves its value and is `in` the Config, for whole trees of nested
   dicts and lists, every character classification and every single-character non-alphanumeric d other than "\" and
   "\r", provided
     keys_okb  : dict keys are strings not ending in a backslash, no duplicates           (as for names())
     xkeys_okb : no key contains a backslash directly before d, no key contains "\r"
     noshadowb : no reported name is itself a top-level key.
   Each excluded shape is a refuted one: names_retrieve_refuted, names_retrieve_refuted_nonstring_key,
   names_explicit_delimiter_refuted, names_explicit_cr_refuted, names_explicit_shadow_refuted. *)
Theorem names_retrieve_explicit : forall alnum d top l,
  keys_okb (CDict top) = true -> xkeys_okb d top = true -> noshadowb d top = true ->
  d <> BS -> d <> CR -> names_explicit alnum d top = Some l ->
  forall n x, In (n, x) l -> lookup alnum top n = Ok x /\ contains alnum top n = Ok true.
Proof. exact names_retrieve_explicit_p. Qed.
Print Assumptions names_retrieve_explicit.

(* {"a.b": {"c": [1, {"x.y": 2}]}, ".": 0} with delimiter ".": all premises hold, 6 names, keys are escaped *)
Example names_retrieve_explicit_nonvacuous :
  let top := [(KS [97; 46; 98], CDict [(KS [99], CList [CInt 1%Z; CDict [(KS [120; 46; 121], CInt 2%Z)]])]); (KS [46], CInt 0%Z)] in
  keys_okb (CDict top) = true /\ xkeys_okb 46%N top = true /\ noshadowb 46%N top = true
  /\ names_explicit ascii_alnum 46%N top = Some (names_with 46%N top) /\ List.length (names_with 46%N top) = 6%nat
  /\ In ([46; 97; 92; 46; 98; 46; 99; 46; 49; 46; 120; 92; 46; 121]%N, CInt 2%Z) (names_with 46%N top).
Proof. vm_compute. repeat split; try reflexivity. right; right; right; right; left; reflexivity. Qed.

Theorem names_explicit_cr_refuted :
  exists top l n x, keys_okb (CDict top) = true /\ noshadowb 46%N top = true /\
    names_explicit ascii_alnum 46%N top = Some l /\ In (n, x) l /\ lookup ascii_alnum top n = Err ValueErr.
Proof. exact names_explicit_cr_refuted_p. Qed.
Print Assumptions names_explicit_cr_refuted.

Theorem names_explicit_shadow_refuted :
  exists top l n x y, keys_okb (CDict top) = true /\ xkeys_okb 35%N top = true /\
    names_explicit ascii_alnum 35%N top = Some l /\ In (n, x) l /\ lookup ascii_alnum top n = Ok y /\ cv_eqb x y = false.
Proof. exact names_explicit_shadow_refuted_p. Qed.
Print Assumptions names_explicit_shadow_refuted.

(* ====================================================================================================
   Extension 2: the per-context memo tables of from_simple (PersistenceContextVars)
   ==================================================================================================== *)

(* ANY table (key, stored form `put`, hit view `get`, early-return `cacheable`) and ANY history decoded inside one
   context starting from empty tables: every answer is the answer from_simple gives outside a context, provided
   key_sound -- for any two serialized forms of the history that share a key, a hit of the later one on what the
   earlier one stored yields what the later one decodes to by itself.  This is exactly what the code relies on. *)
Theorem context_cache_transparent : forall (J K V : Type) (key : J -> K) (keqb : K -> K -> bool) (dec : J -> option V)
    (cacheable : J -> bool) (put : J -> V -> V) (get : J -> V -> option V) (hist : list J),
  key_sound J K V key keqb dec put get hist ->
  mrun J K V key keqb dec cacheable put get [] hist = map dec hist.
Proof. exact memo_transparent_p. Qed.
Print Assumptions context_cache_transparent.

(* loadedTypes, key (name, storageClass or ""), as coded *)
Theorem context_cache_transparent_dataset_type : forall u hist,
  (forall j0 j, In j0 hist -> In j hist -> pair_seqb (dt_key j) (dt_key j0) = true -> dec_dt u j0 <> None -> dec_dt u j = dec_dt u j0) ->
  dt_run u hist = map (dec_dt u) hist.
Proof. exact dt_context_transparent_p. Qed.
Print Assumptions context_cache_transparent_dataset_type.

(* in particular when (name, storageClass) determines the serialized document within the context *)
Theorem context_cache_transparent_dataset_type_docs : forall u hist,
  (forall j0 j, In j0 hist -> In j hist -> pair_seqb (dt_key j) (dt_key j0) = true -> j = j0) ->
  dt_run u hist = map (dec_dt u) hist.
Proof. exact dt_context_transparent_docs_p. Qed.
Print Assumptions context_cache_transparent_dataset_type_docs.

(* dataCoordinates, key (frozenset(dataId.items()), records is not None) *)
Theorem context_cache_transparent_data_id : forall u hist,
  (forall j0 j, In j0 hist -> In j hist -> jvb_eqb (coord_key j) (coord_key j0) = true -> dec_coord u j0 <> None -> dec_coord u j = dec_coord u j0) ->
  coord_run u hist = map (dec_coord u) hist.
Proof. exact coord_context_transparent_p. Qed.
Print Assumptions context_cache_transparent_data_id.

(* dimensionRecords, key (definition, frozenset(record.items())) *)
Theorem context_cache_transparent_record : forall u hist,
  (forall j0 j, In j0 hist -> In j hist -> jvjv_eqb (rec_key j) (rec_key j0) = true -> dec_rec u j0 <> None -> dec_rec u j = dec_rec u j0) ->
  rec_run u hist = map (dec_rec u) hist.
Proof. exact rec_context_transparent_p. Qed.
Print Assumptions context_cache_transparent_record.

(* datasetRefs, key id; the composite is stored, a hit re-derives component and storage class *)
Theorem context_cache_transparent_ref : forall u hist,
  key_sound jv string dref ref_key String.eqb (dec_ref u) (ref_put u) (ref_get u) hist ->
  ref_run u hist = map (dec_ref u) hist.
Proof. exact ref_context_transparent_p. Qed.
Print Assumptions context_cache_transparent_ref.

(* keyed on the PARENT storage class (seed C18c) the table is not transparent even when (name, storageClass) determines
   the type: "x"/S1 then "x"/S2 -> S1 twice; the key as coded answers correctly on the same history *)
Theorem context_cache_parent_key_refuted :
  let h := [enc_dt false (c_t "S1" c_g1); enc_dt false (c_t "S2" c_g1)] in
  map (dec_dt c_u) h = [Some (c_t "S1" c_g1); Some (c_t "S2" c_g1)] /\
  dt_run c_u h = [Some (c_t "S1" c_g1); Some (c_t "S2" c_g1)] /\
  dt_run_psc c_u h = [Some (c_t "S1" c_g1); Some (c_t "S1" c_g1)].
Proof. exact dt_context_psc_key_refuted_p. Qed.
Print Assumptions context_cache_parent_key_refuted.

(* the UNCHANGED code is not transparent for histories that violate the condition (findings 7-9):
   same (name, storageClass) with different dimensions; same data ID values with different records; same id, other run *)
Theorem context_cache_dataset_type_refuted :
  let h := [enc_dt false (c_t "S1" c_g1); enc_dt false (c_t "S1" c_g2)] in
  map (dec_dt c_u) h = [Some (c_t "S1" c_g1); Some (c_t "S1" c_g2)] /\
  dt_run c_u h = [Some (c_t "S1" c_g1); Some (c_t "S1" c_g1)].
Proof. exact dt_context_same_key_refuted_p. Qed.
Print Assumptions context_cache_dataset_type_refuted.

Theorem context_cache_data_id_refuted :
  let h := [enc_coord false (c_c 1); enc_coord false (c_c 2)] in
  map (dec_coord c_u) h = [Some (c_c 1); Some (c_c 2)] /\ coord_run c_u h = [Some (c_c 1); Some (c_c 1)].
Proof. exact coord_context_same_key_refuted_p. Qed.
Print Assumptions context_cache_data_id_refuted.

Theorem context_cache_ref_refuted :
  let h := [enc_ref false (c_r "run1"); enc_ref false (c_r "run2")] in
  map (dec_ref c_u) h = [Some (c_r "run1"); Some (c_r "run2")] /\ ref_run c_u h = [Some (c_r "run1"); Some (c_r "run1")].
Proof. exact ref_context_same_id_refuted_p. Qed.
Print Assumptions context_cache_ref_refuted.
