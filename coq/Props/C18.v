(* C18 -- Core value objects survive every serialisation unchanged; every reported Config key retrieves its value.
   Statements only; proofs are `exact <lemma>` from Proofs/SerialProofs.v and Proofs/ConfigKeyProofs.v.
   Models: Model/Serial.v (to_simple/from_simple/to_json wire form, __reduce__ forms), Model/ConfigKey.v (Config keys). *)
From Coq Require Import ZArith NArith List Bool String.
From V Require Import Model.Serial Model.ConfigKey Proofs.SerialProofs Proofs.ConfigKeyProofs.
Import ListNotations.

(* ===== Timespan: JSON, YAML and pickle forms, including the canonical empty and the unbounded ends ===== *)
Theorem ts_json_roundtrip : forall mx t, (0 < mx)%Z -> ts_wf mx t -> dec_ts mx (enc_ts t) = Some t.
Proof. exact ts_json_roundtrip_p. Qed.
Print Assumptions ts_json_roundtrip.

Theorem ts_yaml_roundtrip : forall mx t, (0 < mx)%Z -> ts_wf mx t -> dec_ts_yaml mx (enc_ts_yaml mx t) = t.
Proof. exact ts_yaml_roundtrip_p. Qed.
Print Assumptions ts_yaml_roundtrip.

Theorem ts_pickle_roundtrip : forall mx t, (0 < mx)%Z -> ts_wf mx t -> rebuild_ts mx (reduce_ts t) = t.
Proof. exact ts_pickle_roundtrip_p. Qed.
Print Assumptions ts_pickle_roundtrip.

Theorem ts_mk_wf : forall mx b e, (0 <= b)%Z -> (e <= mx)%Z -> ts_wf mx (ts_mk mx b e).
Proof. exact ts_mk_wf_p. Qed.
Print Assumptions ts_mk_wf.

Example ts_wf_empty : ts_wf 100%Z (100%Z, 0%Z).          Proof. right; reflexivity. Qed.
Example ts_wf_unbounded : ts_wf 100%Z (0%Z, 100%Z).      Proof. left; simpl; unfold TMIN; repeat split; discriminate || reflexivity. Qed.

(* ===== DimensionGroup ===== *)
Theorem dec_enc_grp : forall u g, conform u (g_names g) = Some g -> dec_grp u (enc_grp g) = Some g.
Proof. exact dec_enc_grp_p. Qed.
Print Assumptions dec_enc_grp.

Theorem grp_pickle_roundtrip : forall u g, conform u (g_names g) = Some g -> rebuild_grp u (reduce_grp g) = Some g.
Proof. exact grp_pickle_p. Qed.
Print Assumptions grp_pickle_roundtrip.

(* ===== DatasetType: full form (only the REQUIRED dimensions travel; conform restores the group), minimal form, pickle ===== *)
Theorem dec_enc_dt_full : forall u t, wf_dt u t -> dec_dt u (enc_dt false t) = Some t.
Proof. exact dec_enc_dt_full_p. Qed.
Print Assumptions dec_enc_dt_full.

Theorem dec_enc_dt_minimal : forall u t, aget (t_name t) (u_types u) = Some t -> dec_dt u (enc_dt true t) = Some t.
Proof. exact dec_enc_dt_minimal_p. Qed.
Print Assumptions dec_enc_dt_minimal.

Theorem dt_pickle_roundtrip : forall u t, wf_dt u t -> rebuild_dt u (reduce_dt t) = Some t.
Proof. exact dt_pickle_p. Qed.
Print Assumptions dt_pickle_roundtrip.

Definition ex_g : grp := {| g_names := ["band"; "instrument"; "physical_filter"]; g_req := ["instrument"; "physical_filter"];
                            g_impl := ["band"]; g_elems := ["band"; "instrument"; "physical_filter"] |}%string.
Definition ex_u : uctx := {| u_max := 100%Z; u_conform := [(["instrument"; "physical_filter"], ex_g); (g_names ex_g, ex_g)]%string;
                             u_schema := [("x", [("id", (TInt, false))])]%string; u_governors := ["instrument"]%string;
                             u_types := []; u_refs := []; u_compsc := [] |}.
Example wf_dt_component : wf_dt ex_u {| t_name := "flat.wcs"; t_grp := ex_g; t_sc := "Wcs"; t_psc := Some "Exposure"%string; t_calib := true |}.
Proof. repeat split; try reflexivity; simpl; intros; discriminate. Qed.

(* ===== equal objects hash equally (so a round trip that returns an equal object returns an equally hashing one) ===== *)
Theorem hash_preserved_group : forall u a b, in_universe u a -> in_universe u b -> grp_eq a b = true -> grp_hash_key a = grp_hash_key b.
Proof. exact hash_preserved_grp_p. Qed.
Print Assumptions hash_preserved_group.

Theorem hash_preserved_coord : forall u a b, in_universe u (c_grp a) -> in_universe u (c_grp b) ->
  coord_eq a b = true -> coord_hash_key a = coord_hash_key b.
Proof. exact hash_preserved_coord_p. Qed.
Print Assumptions hash_preserved_coord.

Theorem hash_preserved_dt : forall u a b, in_universe u (t_grp a) -> in_universe u (t_grp b) ->
  dt_eq a b = true -> dt_hash_key a = dt_hash_key b.
Proof. exact hash_preserved_dt_p. Qed.
Print Assumptions hash_preserved_dt.

Theorem hash_preserved_ref : forall u a b,
  in_universe u (t_grp (f_type a)) -> in_universe u (t_grp (f_type b)) ->
  in_universe u (c_grp (f_coord a)) -> in_universe u (c_grp (f_coord b)) ->
  ref_eq a b = true -> ref_hash_key a = ref_hash_key b.
Proof. exact hash_preserved_ref_p. Qed.
Print Assumptions hash_preserved_ref.

(* ===== DataCoordinate: the faithful model loses None records in the full form (finding) ===== *)
Theorem coord_null_record_refuted : exists u c c',
  dec_coord u (enc_coord false c) = Some c' /\ record_state c "x" = 1%N /\ record_state c' "x" = 2%N.
Proof. exact coord_null_record_refuted_p. Qed.
Print Assumptions coord_null_record_refuted.

(* ===== Config keys ===== *)
Theorem split_join : forall d ks, ks <> [] -> Forall (fun k => memc d k = false) ks -> split d (join d ks) = ks.
Proof. exact split_join_p. Qed.
Print Assumptions split_join.

Theorem name_split : forall alnum d ks, alnum d = false -> d <> BS -> ks <> [] ->
  Forall (fun k => memc d k = false) ks -> nonlast_ok ks = true ->
  split_key alnum (mkname d (map KS ks)) = Ok (map KS ks).
Proof. exact name_split_p. Qed.
Print Assumptions name_split.

Theorem default_delimiter_fresh : forall alnum top d l t x k, names_default alnum top = Some (d, l) ->
  In (t, x) (tuples (CDict top)) -> In k t -> memc d (key_str k) = false /\ d <> BS.
Proof. exact default_delim_fresh. Qed.
Print Assumptions default_delimiter_fresh.

(* every reported name of an all-string key path, none of whose non-final keys ends in a backslash, is reported,
   retrieves the value the path leads to, and is `in` the Config -- for EVERY character classification.
   PARTIAL: list indices / non-string keys are excluded (map KS), and that the path leads to x (walk) is a premise. *)
Theorem names_retrieve_partial : forall alnum top d l ks x,
  names_default alnum top = Some (d, l) -> alnum d = false ->
  In (map KS ks, x) (tuples (CDict top)) -> nonlast_ok ks = true ->
  walk (map KS ks) (CDict top) = Ok (Some x) ->
  In (mkname d (map KS ks), x) l /\
  lookup alnum top (mkname d (map KS ks)) = Ok x /\ contains alnum top (mkname d (map KS ks)) = Ok true.
Proof. exact names_retrieve_partial_p. Qed.
Print Assumptions names_retrieve_partial.

Example names_retrieve_nonvacuous :
  let top := [(KS [97], CDict [(KS [98; 46; 99], CInt 1%Z)])] in
  names_default ascii_alnum top = Some (8594%N, names_with 8594%N top)
  /\ In (map KS [[97]; [98; 46; 99]]%N, CInt 1%Z) (tuples (CDict top))
  /\ walk (map KS [[97]; [98; 46; 99]]%N) (CDict top) = Ok (Some (CInt 1%Z)).
Proof. vm_compute. repeat split; auto. Qed.

(* the property itself fails on the faithful model: a key ending in a backslash; a non-string key; an explicit delimiter *)
Theorem names_retrieve_refuted : refutes w_backslash.
Proof. exact names_retrieve_refuted_backslash_p. Qed.
Print Assumptions names_retrieve_refuted.

Theorem names_retrieve_refuted_nonstring_key : refutes w_intkey.
Proof. exact names_retrieve_refuted_intkey_p. Qed.
Print Assumptions names_retrieve_refuted_nonstring_key.

Theorem names_explicit_delimiter_refuted :
  exists top l n x, names_explicit ascii_alnum 46%N top = Some l /\ In (n, x) l /\ lookup ascii_alnum top n = Err ValueErr.
Proof. exact names_explicit_refuted_p. Qed.
Print Assumptions names_explicit_delimiter_refuted.
