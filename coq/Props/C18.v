(* C18 -- Core value objects survive every serialisation unchanged; every reported Config key retrieves its value.
   Statements only; proofs are `exact <lemma>` from Proofs/SerialProofs.v and Proofs/ConfigKeyProofs.v.
   Models: Model/Serial.v (to_simple/from_simple/to_json wire form, __reduce__ forms), Model/ConfigKey.v (Config keys). *)
From Coq Require Import ZArith NArith List Bool String.
From V Require Import Model.Serial Model.ConfigKey Proofs.SerialProofs Proofs.SerialProofsB Proofs.ConfigKeyProofs Proofs.ConfigKeyProofsB.
Import ListNotations.

(* ===== Timespan: JSON, YAML and pickle forms, including the canonical empty and the unbounded ends ===== *)
Theorem ts_json_roundtrip : forall mx t, (0 < mx)%Z -> ts_wf mx t -> dec_ts mx (enc_ts t) = Some t.
Proof. exact ts_json_roundtrip_p. Qed.
Print Assumptions ts_json_roundtrip.

Theorem ts_yaml_roundtrip : forall mx t, (0 < mx)%Z -> ts_wf mx t -> dec_ts_yaml mx (enc_ts_yaml mx t) = t.
Proof. exact ts_yaml_roundtrip_p. Qed.
Print Assumptions ts_yaml_roundtrip.

Theorem ts_pickle_roundtrip : forall mx t, (0 < mx)%Z -> ts_wf mx t -> rebuild_ts mx (reduce_ts t) = t.
Proof. exact ts_pickle_roundtrip_p. Qed.
Print Assumptions ts_pickle_roundtrip.

Theorem ts_mk_wf : forall mx b e, (0 <= b)%Z -> (e <= mx)%Z -> ts_wf mx (ts_mk mx b e).
Proof. exact ts_mk_wf_p. Qed.
Print Assumptions ts_mk_wf.

Example ts_wf_empty : ts_wf 100%Z (100%Z, 0%Z).          Proof. right; reflexivity. Qed.
Example ts_wf_unbounded : ts_wf 100%Z (0%Z, 100%Z).      Proof. left; simpl; unfold TMIN; repeat split; discriminate || reflexivity. Qed.

(* ===== DimensionGroup ===== *)
Theorem dec_enc_grp : forall u g, conform u (g_names g) = Some g -> dec_grp u (enc_grp g) = Some g.
Proof. exact dec_enc_grp_p. Qed.
Print Assumptions dec_enc_grp.

Theorem grp_pickle_roundtrip : forall u g, conform u (g_names g) = Some g -> rebuild_grp u (reduce_grp g) = Some g.
Proof. exact grp_pickle_p. Qed.
Print Assumptions grp_pickle_roundtrip.

(* ===== DatasetType: full form (only the REQUIRED dimensions travel; conform restores the group), minimal form, pickle ===== *)
Theorem dec_enc_dt_full : forall u t, wf_dt u t -> dec_dt u (enc_dt false t) = Some t.
Proof. exact dec_enc_dt_full_p. Qed.
Print Assumptions dec_enc_dt_full.

Theorem dec_enc_dt_minimal : forall u t, aget (t_name t) (u_types u) = Some t -> dec_dt u (enc_dt true t) = Some t.
Proof. exact dec_enc_dt_minimal_p. Qed.
Print Assumptions dec_enc_dt_minimal.

Theorem dt_pickle_roundtrip : forall u t, wf_dt u t -> rebuild_dt u (reduce_dt t) = Some t.
Proof. exact dt_pickle_p. Qed.
Print Assumptions dt_pickle_roundtrip.

Definition ex_g : grp := {| g_names := ["band"; "instrument"; "physical_filter"]; g_req := ["instrument"; "physical_filter"];
                            g_impl := ["band"]; g_elems := ["band"; "instrument"; "physical_filter"] |}%string.
Definition ex_u : uctx := {| u_max := 100%Z; u_conform := [(["instrument"; "physical_filter"], ex_g); (g_names ex_g, ex_g)]%string;
                             u_schema := [("x", [("id", (TInt, false))])]%string; u_governors := ["instrument"]%string;
                             u_types := []; u_refs := []; u_compsc := [] |}.
Example wf_dt_component : wf_dt ex_u {| t_name := "flat.wcs"; t_grp := ex_g; t_sc := "Wcs"; t_psc := Some "Exposure"%string; t_calib := true |}.
Proof. repeat split; try reflexivity; simpl; intros; discriminate. Qed.

(* ===== equal objects hash equally (so a round trip that returns an equal object returns an equally hashing one) ===== *)
Theorem hash_preserved_group : forall u a b, in_universe u a -> in_universe u b -> grp_eq a b = true -> grp_hash_key a = grp_hash_key b.
Proof. exact hash_preserved_grp_p. Qed.
Print Assumptions hash_preserved_group.

Theorem hash_preserved_coord : forall u a b, in_universe u (c_grp a) -> in_universe u (c_grp b) ->
  coord_eq a b = true -> coord_hash_key a = coord_hash_key b.
Proof. exact hash_preserved_coord_p. Qed.
Print Assumptions hash_preserved_coord.

Theorem hash_preserved_dt : forall u a b, in_universe u (t_grp a) -> in_universe u (t_grp b) ->
  dt_eq a b = true -> dt_hash_key a = dt_hash_key b.
Proof. exact hash_preserved_dt_p. Qed.
Print Assumptions hash_preserved_dt.

Theorem hash_preserved_ref : forall u a b,
  in_universe u (t_grp (f_type a)) -> in_universe u (t_grp (f_type b)) ->
  in_universe u (c_grp (f_coord a)) -> in_universe u (c_grp (f_coord b)) ->
  ref_eq a b = true -> ref_hash_key a = ref_hash_key b.
Proof. exact hash_preserved_ref_p. Qed.
Print Assumptions hash_preserved_ref.

(* ===== DimensionRecord ===== *)
(* wf_rec u r: r has exactly the fields of its element's schema (slot order, unique names), each value of the declared
   type, None only where nullable, timespans canonical *)
Theorem dec_enc_rec : forall u r, (0 < u_max u)%Z -> wf_rec u r -> dec_rec u (enc_rec r) = Some r.
Proof. exact dec_enc_rec_p. Qed.
Print Assumptions dec_enc_rec.

Theorem rec_pickle_roundtrip : forall r, rebuild_rec (reduce_rec r) = r.
Proof. exact rec_pickle_p. Qed.
Print Assumptions rec_pickle_roundtrip.

(* ===== DataCoordinate: required-only / full / expanded, None records included, both modes =====
   expected_coord minimal c = c without its records (the empty data ID stays expanded); expected_coord full c = c *)
Theorem dec_enc_coord : forall u minimal c, wf_coord u c -> dec_coord u (enc_coord minimal c) = Some (expected_coord minimal c).
Proof. exact dec_enc_coord_p. Qed.
Print Assumptions dec_enc_coord.

Theorem coord_full_form_identity : forall u c, wf_coord u c -> dec_coord u (enc_coord false c) = Some c.
Proof. exact coord_full_form_identity_p. Qed.
Print Assumptions coord_full_form_identity.

Theorem coord_pickle_roundtrip : forall c, rebuild_coord (reduce_coord c) = c.
Proof. exact coord_pickle_p. Qed.
Print Assumptions coord_pickle_roundtrip.

(* non-vacuity: a well-formed expanded data ID with a None record; it reads back with records["x"] still None *)
Example wf_coord_with_none_record : wf_coord w_u w_c /\ record_state w_c "x" = 1%N.
Proof.
  split; [|reflexivity]. unfold wf_coord; simpl. repeat split; try reflexivity.
  - repeat constructor; simpl; intuition discriminate.
  - repeat constructor; simpl; intuition discriminate.
  - intros k r [H|[H|[]]]; inversion H; subst. exists [("id", (TInt, false))]%string. repeat split; try reflexivity.
    + repeat constructor; simpl; intuition.
    + repeat constructor.
Qed.

(* the code before commit 0b78af8 (dec_coord_prefix: `if simple.records:`, no dict.fromkeys) violated it: reverting the
   fix loses the None record of this well-formed data ID (records["x"]: None -> KeyError) *)
Theorem coord_prefix_variant_refuted : exists c',
  dec_coord_prefix w_u (enc_coord false w_c) = Some c' /\ record_state w_c "x" = 1%N /\ record_state c' "x" = 2%N.
Proof. exact coord_prefix_variant_refuted_p. Qed.
Print Assumptions coord_prefix_variant_refuted.

(* ===== DatasetRef ===== *)
Theorem dec_enc_ref : forall u r, wf_ref u r -> dec_ref u (enc_ref false r) = Some r.
Proof. exact dec_enc_ref_p. Qed.
Print Assumptions dec_enc_ref.

Theorem dec_enc_ref_minimal : forall u r, aget (f_id r) (u_refs u) = Some r ->
  component_of (t_name (f_type r)) = None -> dec_ref u (enc_ref true r) = Some r.
Proof. exact dec_enc_ref_minimal_p. Qed.
Print Assumptions dec_enc_ref_minimal.

Theorem ref_pickle_roundtrip : forall r, g_names (c_grp (f_coord r)) = g_names (t_grp (f_type r)) ->
  rebuild_ref (reduce_ref r) = Some r.
Proof. exact ref_pickle_p. Qed.
Print Assumptions ref_pickle_roundtrip.

(* ===== Config keys ===== *)
Theorem split_join : forall d ks, ks <> [] -> Forall (fun k => memc d k = false) ks -> split d (join d ks) = ks.
Proof. exact split_join_p. Qed.
Print Assumptions split_join.

Theorem name_split : forall alnum d ks, alnum d = false -> d <> BS -> ks <> [] ->
  Forall (fun k => memc d k = false) ks -> nonlast_ok ks = true ->
  split_key alnum (mkname d (map KS ks)) = Ok (map KS ks).
Proof. exact name_split_p. Qed.
Print Assumptions name_split.

Theorem default_delimiter_fresh : forall alnum top d l t x k, names_default alnum top = Some (d, l) ->
  In (t, x) (tuples (CDict top)) -> In k t -> memc d (key_str k) = false /\ d <> BS.
Proof. exact default_delim_fresh. Qed.
Print Assumptions default_delimiter_fresh.

(* int(str(i)) = i: a list index survives being written into a name and read back *)
Theorem index_str_int : forall i, (0 <= i)%Z -> py_int (Z_str i) = Some i.
Proof. exact py_int_Z_str. Qed.
Print Assumptions index_str_int.

(* string-layer core: a path of string keys (no delimiter inside, no non-final key ending in a backslash) whose
   name is not shadowed by a top-level key retrieves what the path leads to, for EVERY character classification *)
Theorem names_retrieve_string_path : forall alnum top d l ks x,
  names_default alnum top = Some (d, l) -> alnum d = false ->
  In (map KS ks, x) (tuples (CDict top)) -> nonlast_ok ks = true ->
  walk (map KS ks) (CDict top) = Ok (Some x) ->
  In (mkname d (map KS ks), x) l /\
  lookup alnum top (mkname d (map KS ks)) = Ok x /\ contains alnum top (mkname d (map KS ks)) = Ok true.
Proof. exact names_retrieve_partial_p. Qed.
Print Assumptions names_retrieve_string_path.

(* EVERY key reported by names() retrieves its value and is `in` the Config, for whole trees of nested dicts and lists
   (list indices included), provided keys_ok: every dict key anywhere in the tree is a str that does not end in a
   backslash and no dict holds two equal keys.  PARTIAL with respect to the property: the two excluded key shapes are
   exactly the refuted cases below; `alnum d = false` is the documented fact that the chosen delimiter is not alphanumeric. *)
Theorem names_retrieve_partial : forall alnum top d l,
  keys_okb (CDict top) = true -> names_default alnum top = Some (d, l) -> alnum d = false ->
  forall n x, In (n, x) l -> lookup alnum top n = Ok x /\ contains alnum top n = Ok true.
Proof. exact names_retrieve_keys_ok_p. Qed.
Print Assumptions names_retrieve_partial.

(* {"a": {"b.c": [1, {"": "v"}]}, "→x": 0}: keys_ok, names() succeeds (the delimiter moves on to U+2193), 6 names *)
Example names_retrieve_nonvacuous :
  let top := [(KS [97], CDict [(KS [98; 46; 99], CList [CInt 1%Z; CDict [(KS [], CStr [118])]])]); (KS [8594; 120], CInt 0%Z)] in
  keys_okb (CDict top) = true
  /\ names_default ascii_alnum top = Some (8595%N, names_with 8595%N top)
  /\ List.length (names_with 8595%N top) = 6%nat.
Proof. vm_compute. repeat split; reflexivity. Qed.

(* the property itself fails on the faithful model: a key ending in a backslash; a non-string key; an explicit delimiter *)
Theorem names_retrieve_refuted : refutes w_backslash.
Proof. exact names_retrieve_refuted_backslash_p. Qed.
Print Assumptions names_retrieve_refuted.

Theorem names_retrieve_refuted_nonstring_key : refutes w_intkey.
Proof. exact names_retrieve_refuted_intkey_p. Qed.
Print Assumptions names_retrieve_refuted_nonstring_key.

Theorem names_explicit_delimiter_refuted :
  exists top l n x, names_explicit ascii_alnum 46%N top = Some l /\ In (n, x) l /\ lookup ascii_alnum top n = Err ValueErr.
Proof. exact names_explicit_refuted_p. Qed.
Print Assumptions names_explicit_delimiter_refuted.
