#!/usr/bin/env python3
"""tools/status.py -- print the numbers DESIGN.md section 8 quotes (theorem counts, findings, seeds) from the tree."""
import json
import re
from collections import Counter
from pathlib import Path

V = Path(__file__).resolve().parent.parent
kf = json.loads((V / "known_findings.json").read_text())["findings"]
cnt = Counter((f["property"], f["status"]) for f in kf)
print("| Prop | theorems | examples | known | fixed | proof files | model files |")
for i in range(1, 21):
    p = f"C{i:02d}"
    src = (V / "coq" / "Props" / f"{p}.v").read_text()
    th = len(re.findall(r"^\s*(?:Theorem|Lemma|Corollary)\s", src, re.M))
    ex = len(re.findall(r"^\s*Example\s", src, re.M))
    imps = sorted(set(re.findall(r"(Model\.\w+|Gen\.\w+)", src)))
    print(f"| {p} | {th} | {ex} | {cnt[(p, 'known')]} | {cnt[(p, 'fixed')]} | | {' '.join(x.split('.')[1] for x in imps)} |")
print()
print("fixed commits:", sorted({f.get("commit") for f in kf if f["status"] == "fixed"}))
print()
print("| Seed | Prop | first run | now | signature(s) |")
for d in sorted((V / "seeded").iterdir()):
    m = json.loads((d / "meta.json").read_text())
    first = "missed" if m.get("initially_missed") else "caught"
    cr = m.get("check_result") or {}
    crs = m.get("check_results") or {}
    if first is None:
        first = {0: "missed", 1: "caught"}.get(cr.get("exit"), "?")
    now = "caught" if any(v.get("detected") or v.get("exit") == 1 for v in crs.values()) or cr.get("exit") == 1 else "MISSED"
    sigs = []
    for v in list(crs.values()) + [cr]:
        for r in (v.get("replays") or []):
            if r.get("signature"):
                sigs.append(r["signature"])
        sigs += v.get("signatures", []) if isinstance(v.get("signatures"), list) else []
    print(f"| {d.name} | {m['property']} | {first} | {now} | {', '.join(sorted(set(sigs))[:3])} |")
