#!/usr/bin/env python3
"""Assemble MANIFEST.json from manifest.d/*.json fragments (one per claimed property)."""
import json
from pathlib import Path

V = Path(__file__).resolve().parent.parent
props = [json.loads(l) for l in (V / "properties.jsonl").read_text().splitlines() if l.strip()]
na_file = V / "manifest.d" / "not_applicable.json"
na_reasons = json.loads(na_file.read_text()) if na_file.exists() else {}
ready_file = V / "manifest.d" / "ready.json"
ready = set(json.loads(ready_file.read_text())) if ready_file.exists() else None   # properties whose check is finished and reviewed
checks, na = [], []
for p in props:
    pid = p["id"]
    frag = V / "manifest.d" / f"{pid}.json"
    if frag.exists() and (V / "harness" / "props" / f"{pid.lower()}.py").exists() and (ready is None or pid in ready):
        f = json.loads(frag.read_text())
        checks.append({
            "property_id": pid,
            "quick_cmd": f"./check {pid} --tier quick",
            "thorough_cmd": f"./check {pid} --tier thorough",
            "evidence_file": f"/verif/evidence/{pid}.json",
            "replay_cmd_template": f"./check {pid} --replay {{path}}",
            "engine": "coq-proof+correspondence",
            "level_claimed": f["level_claimed"],
            "level_note": f["level_note"],
            "technique": f.get("technique", "Coq proof + model/implementation correspondence"),
        })
    else:
        na.append({"property_id": pid, "reason": na_reasons.get(pid, "check not built yet in this round; planned per DESIGN.md section 7 (not a claim of inapplicability)")})
hooks_file = V / "manifest.d" / "hooks.json"
hooks = json.loads(hooks_file.read_text())
m = {
    "version": 1,
    "setup_cmd": "./setup.sh",
    "hooks": hooks,
    "engines": [{
        "name": "coq-proof+correspondence",
        "path": "/verif/check",
        "serves_properties": [c["property_id"] for c in checks],
        "kind_free_text": "Coq 8.16.1 theorems over hand-written / source-regenerated Gallina models (coq/), tied to /repo by translators and by a correspondence run that evaluates the model with vm_compute on the implementation's recorded observations; property oracle on the implementation decides violations",
    }],
    "checks": checks,
    "notes": "See DESIGN.md. Every check: regenerate translated models from /repo, rebuild the property's theorems (full .vo), audit Print Assumptions, run correspondence + oracle, write evidence.",
    "not_applicable": na,
}
# known findings: fragments known_findings.d/*.json -> known_findings.json (the committed file the checks read)
kf = []
for f in sorted((V / "known_findings.d").glob("*.json")):
    if ready is not None and f.stem != "_fixed" and f.stem not in ready:
        continue
    kf.extend(json.loads(f.read_text()))
(V / "known_findings.json").write_text(json.dumps({
    "comment": "status=known: a genuine defect of the unchanged tree, printed as KNOWN-FINDING and not counted as a violation when the shrunk failing case matches `signature` (a regex over the check's case signature); status=fixed: repaired by the named 'fix:' commit in /repo, suppresses nothing",
    "findings": kf}, indent=1) + "\n")
(V / "MANIFEST.json").write_text(json.dumps(m, indent=1) + "\n")
print(f"{len(checks)} checks, {len(na)} not claimed")
