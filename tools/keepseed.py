#!/usr/bin/env python3
"""tools/keepseed.py <tag> <pid> [--check]  -- confirm a seeded change produced by an independent sub-agent in /tmp/mut-<tag>
(tests still pass with it, the demonstration fails with it and passes without it), optionally run ./check <pid> against the
changed tree in isolated mode, store it as /verif/seeded/<tag>/ and remove the scratch worktree."""
import json
import re
import shutil
import subprocess
import sys
import time
from pathlib import Path

V = Path(__file__).resolve().parent.parent
tag, pid = sys.argv[1], sys.argv[2]
do_check = "--check" in sys.argv
keep_wt = "--keep-worktree" in sys.argv
d = Path(f"/tmp/mut-{tag}")
seed = d / "_seed"


def sh(cmd, timeout=1500, env=None):
    import os
    e = dict(os.environ)
    e.update(env or {})
    p = subprocess.run(cmd, shell=True, stdout=subprocess.PIPE, stderr=subprocess.STDOUT, text=True, timeout=timeout, env=e)
    return p.returncode, p.stdout


def suite():
    rc, out = sh(f"cd {d} && PYTHONPATH={d}/python timeout 900 /venv/bin/python -m pytest -q -p no:cacheprovider --timeout=900 "
                 f"--continue-on-collection-errors -rA 2>&1")
    passed = sorted(set(re.findall(r"^PASSED (\S+)", out, re.M)))
    return passed, out.strip().splitlines()[-1]


def demo():
    rc, out = sh(f"cd {d} && PYTHONPATH={d}/python timeout 300 /venv/bin/python _seed/demo.py 2>&1", timeout=400)
    return rc, out.strip()[-600:]


patch = (seed / "patch.diff").read_text()
# state: changed tree
rc, cur = sh(f"git -C {d} diff -- python")
if cur.strip() == "":
    rc, out = sh(f"git -C {d} apply {seed}/patch.diff")
    assert rc == 0, out
rc, cur = sh(f"git -C {d} diff -- python")
(seed / "patch.diff").write_text(cur)
passed_mut, tail_mut = suite()
rc_mut, out_mut = demo()
check = None
if do_check:
    t0 = time.time()
    rc_c, out_c = sh(f"cd {V} && VERIF_REPO={d} ./check {pid} --tier quick 2>&1", timeout=3000)
    lines = [l for l in out_c.splitlines() if l.startswith("VIOLATION") or "KNOWN-FINDING" in l]
    reps = []
    for l in lines:
        m = re.search(r"replay=(\S+)", l)
        if m and Path(m.group(1)).exists():
            try:
                r = json.loads(Path(m.group(1)).read_text())
                reps.append({"signature": r.get("signature"), "what": str(r.get("what"))[:300],
                             "no_longer_checks": [x.get("name") for x in r.get("no_longer_checks", [])][:5]})
            except Exception:  # noqa: BLE001
                pass
    check = {"cmd": f"VERIF_REPO=<changed tree> ./check {pid} --tier quick", "exit": rc_c, "wall_s": round(time.time() - t0),
             "violation_lines": [re.sub(r"replay=\S+", "replay=<file>", l) for l in lines][:6], "replays": reps[:6],
             "tail": out_c.strip().splitlines()[-1][-300:]}
# state: original tree
rc, out = sh(f"git -C {d} checkout -- python")
passed_orig, tail_orig = suite()
rc_orig, out_orig = demo()
ok = passed_orig == passed_mut and len(passed_orig) >= 254 and rc_orig == 0 and rc_mut != 0
meta = {
    "property": pid, "tag": tag, "confirmed": ok,
    "suite_unchanged_tree": tail_orig, "suite_changed_tree": tail_mut, "same_passing_set": passed_orig == passed_mut,
    "n_passed": len(passed_mut),
    "demo_unchanged_tree": {"exit": rc_orig, "out": out_orig[-300:]},
    "demo_changed_tree": {"exit": rc_mut, "out": out_mut[-400:]},
    "needs_to_manifest": (seed / "notes.md").read_text()[:1500] if (seed / "notes.md").exists() else "",
    "ran": ["pytest (pinned command) on both trees in the scratch worktree", "demo.py on both trees", ] + ([check["cmd"]] if check else []),
    "check_result": check,
}
print(json.dumps(meta, indent=1)[:3000])
if ok:
    out_dir = V / "seeded" / tag
    out_dir.mkdir(parents=True, exist_ok=True)
    (out_dir / "patch.diff").write_text(cur)
    shutil.copy(seed / "demo.py", out_dir / "demo.py")
    if (seed / "notes.md").exists():
        shutil.copy(seed / "notes.md", out_dir / "notes.md")
    (out_dir / "meta.json").write_text(json.dumps(meta, indent=1) + "\n")
    print("kept as", out_dir)
else:
    print("NOT CONFIRMED; not kept")
if not keep_wt:
    import hashlib
    alt = hashlib.md5(str(d).encode()).hexdigest()[:10]
    sh(f"git -C /repo worktree remove --force {d}; rm -f {d}.task.md; rm -rf /var/tmp/verif-alt-{alt}")
