#!/bin/sh
# usage: tools/mkworktree.sh <dir>   -- scratch git worktree of /repo HEAD that the real Butler can run from
set -e
D="$1"
git -C /repo worktree add -q --detach "$D" HEAD
cp /repo/python/lsst/daf/butler/version.py "$D/python/lsst/daf/butler/version.py"
echo "$D ready; run checks with VERIF_REPO=$D ./check Cxx ; remove with: git -C /repo worktree remove --force $D"
