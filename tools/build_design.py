#!/usr/bin/env python3
"""tools/build_design.py -- refresh DESIGN.md section 8.2-8.6 from the staged head (sections up to 8.2 text are kept in
DESIGN.md itself), tools/design_tail_template.md and the tables printed by tools/design_tables.py."""
import subprocess
from pathlib import Path

V = Path(__file__).resolve().parent.parent
out = subprocess.run(["python3", str(V / "tools" / "design_tables.py")], capture_output=True, text=True, check=True).stdout
t83, rest = out.split("\n(total:", 1)
total_line, t86 = rest.split("\n\n", 1)
tail = (V / "tools" / "design_tail_template.md").read_text()
tail = tail.replace("@@TABLE83@@", t83.strip() + "\n\n(total:" + total_line.strip()).replace("@@TABLE86@@", t86.strip())
d = (V / "DESIGN.md").read_text()
i = d.index("### 8.3 Status per property")
(V / "DESIGN.md").write_text(d[:i] + tail)
print("DESIGN.md refreshed:", len(d[:i] + tail))
