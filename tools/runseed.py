#!/usr/bin/env python3
"""tools/runseed.py <tag> [pid ...] [--tier quick|thorough]
Apply /verif/seeded/<tag>/patch.diff to a fresh scratch worktree of /repo HEAD, run the demonstration and ./check <pid>
(default: the property recorded in meta.json) against it in isolated mode, record the outcome in meta.json["check_results"],
remove the worktree and its private build tree."""
import hashlib
import json
import os
import re
import subprocess
import sys
import time
from pathlib import Path

V = Path(__file__).resolve().parent.parent
args = [a for a in sys.argv[1:] if not a.startswith("--")]
tier = "thorough" if "--tier=thorough" in sys.argv or "thorough" in sys.argv[1:] and "--tier" in sys.argv else "quick"
tag = args[0]
sd = V / "seeded" / tag
meta = json.loads((sd / "meta.json").read_text())
pids = [a for a in args[1:] if re.fullmatch(r"C\d\d", a)] or [meta["property"]]
d = Path(f"/tmp/seedrun-{tag}")
alt = Path(f"/var/tmp/verif-alt-{hashlib.md5(str(d).encode()).hexdigest()[:10]}")


def sh(cmd, timeout=3600):
    p = subprocess.run(cmd, shell=True, stdout=subprocess.PIPE, stderr=subprocess.STDOUT, text=True, timeout=timeout)
    return p.returncode, p.stdout


sh(f"git -C /repo worktree remove --force {d}; rm -rf {d} {alt}")
rc, out = sh(f"{V}/tools/mkworktree.sh {d}")
assert rc == 0, out
rc, out = sh(f"git -C {d} apply {sd}/patch.diff")
if rc != 0:
    print("PATCH DOES NOT APPLY to current HEAD:", out)
    sh(f"git -C /repo worktree remove --force {d}")
    sys.exit(2)
rc_demo, out_demo = sh(f"cd {d} && PYTHONPATH={d}/python timeout 300 /venv/bin/python {sd}/demo.py 2>&1", timeout=400)
results = meta.get("check_results", {})
head = sh("git -C /repo rev-parse --short HEAD")[1].strip()
for pid in pids:
    t0 = time.time()
    rc_c, out_c = sh(f"cd {V} && VERIF_REPO={d} ./check {pid} --tier {tier} 2>&1")
    lines = [l for l in out_c.splitlines() if l.startswith("VIOLATION") or l.startswith("KNOWN-FINDING")]
    reps = []
    for l in lines:
        m = re.search(r"replay=(\S+)", l)
        if m and Path(m.group(1)).exists():
            try:
                r = json.loads(Path(m.group(1)).read_text())
                reps.append({"signature": r.get("signature"), "what": str(r.get("what"))[:300],
                             "no_longer_checks": [f"{x.get('kind')}:{x.get('name')}" for x in r.get("no_longer_checks", [])][:6]})
            except Exception:  # noqa: BLE001
                pass
    broken = sorted(set(re.findall(r"BROKEN (\w+ \S+):", out_c)))[:10]
    results[pid] = {
        "cmd": f"VERIF_REPO=<HEAD {head} + patch> ./check {pid} --tier {tier}", "exit": rc_c, "wall_s": round(time.time() - t0),
        "detected": rc_c == 1 and any(l.startswith("VIOLATION") for l in lines),
        "violation_lines": [re.sub(r"replay=\S+", "replay=<file>", l)[:200] for l in lines if l.startswith("VIOLATION")][:6],
        "replays": reps[:6], "broken": broken, "tail": out_c.strip().splitlines()[-1][-300:] if out_c.strip() else "",
    }
    print(pid, "exit", rc_c, "detected" if results[pid]["detected"] else "NOT DETECTED", [r["signature"] for r in reps][:6], broken[:4])
meta["check_results"] = results
meta["demo_on_head_plus_patch"] = {"exit": rc_demo, "out": out_demo.strip()[-300:], "head": head}
meta.pop("check_result", None)
(sd / "meta.json").write_text(json.dumps(meta, indent=1) + "\n")
if "--keep" not in sys.argv:
    sh(f"git -C /repo worktree remove --force {d}; rm -rf {d} {alt}")
