#!/usr/bin/env python3
"""tools/mkmut.py <pid> <tag> [hint...]  -- scratch worktree /tmp/mut-<tag> + task file /tmp/mut-<tag>.task.md for an
independent sub-agent that is asked for a property-breaking change (it gets the property text only)."""
import json
import subprocess
import sys
from pathlib import Path

V = Path(__file__).resolve().parent.parent
pid, tag = sys.argv[1], sys.argv[2]
hint = " ".join(sys.argv[3:])
d = f"/tmp/mut-{tag}"
if not Path(d).exists():
    subprocess.run([str(V / "tools" / "mkworktree.sh"), d], check=True, stdout=subprocess.DEVNULL)
prop = next(json.loads(l) for l in (V / "properties.jsonl").read_text().splitlines() if l.strip() and json.loads(l)["id"] == pid)
task = f"""# Task: seed one realistic property-breaking change

You are probing how good a project's safety net is. `{d}` is a scratch git worktree of the Python library
lsst/daf_butler (Rubin Data Butler). There is no network. Run Python from this tree as
`PYTHONPATH={d}/python /venv/bin/python` (check `lsst.daf.butler.__file__` points into {d}).

Make ONE realistic change to the library source (under `{d}/python/lsst/daf/butler`, not the tests) that BREAKS the
semantic property below, such that

* the package still imports and the existing test suite still passes exactly as on the unmodified tree:
  `cd {d} && PYTHONPATH={d}/python timeout 900 /venv/bin/python -m pytest -q -p no:cacheprovider --timeout=900 --continue-on-collection-errors 2>&1 | tail -5`
  (on the unmodified tree: 254 passed and about 52 failures / collection errors, which are expected because
  `lsst.daf.butler.tests` is not importable in this sandbox; the set of passing tests must be the same before and after);
* it looks like a plausible slip a developer could make (flipped/shifted comparison, dropped guard, reordered steps, a cache
  not invalidated, wrong variable, an optimisation that is wrong in a corner, ...), NOT an obviously deliberate sabotage;
* it needs something specific to manifest — an unusual input or corner of the input space, a multi-step sequence of
  operations, a fault/crash at a particular point, a particular interleaving, or two cooperating edit sites that each look
  fine alone — and is NOT something that ordinary everyday use would expose at once.
{('Preferred area / flavour for this change: ' + hint) if hint else ''}

## The property (id {pid})

**{prop['title']}**

{prop['statement']}

Quantified over: {prop['quantifier']['text']}

Why the existing tests cannot settle it: {prop['why_tests_cant']}

Anchors in the code: {json.dumps(prop['anchors'], indent=1)}

## Deliverables, all in `{d}/_seed/`

* `patch.diff` — `git -C {d} diff -- python` of the source change only (small: a few lines).
* `demo.py` — a small standalone program (public API only, takes the tree from PYTHONPATH, creates any repository it needs
  in a fresh temp dir and removes it) that prints `PASS` and exits 0 on the unmodified tree and prints `FAIL: ...` and exits 1
  on the changed tree, demonstrating the property violated. Always run it as `timeout 120 ...`.
* `notes.md` — what the change is, what it needs in order to manifest, and the exact commands you ran with their results
  for BOTH trees (test suite pass counts and demo output). To toggle: `git -C {d} diff -- python > {d}/_seed/patch.diff;
  git -C {d} checkout -- python` and `git -C {d} apply {d}/_seed/patch.diff`.

Leave the worktree with the change APPLIED (uncommitted) when you finish. Do not commit. Never run `git stash` (the stash is shared with /repo). Never touch `/repo` or `/verif`
and do not read anything under `/verif`. Practical facts: a real repository = `from lsst.daf.butler import Butler;
Butler.makeRepo(root); b = Butler.from_config(root, writeable=True)` (SQLite + POSIX files, ~0.3 s);
`lsst.daf.butler.tests` is NOT importable here (write your own fixtures: `registry.insertDimensionData`,
`DatasetType(...)`, `registry.registerDatasetType`, storage class `StructuredDataDict`); run every program that opens a
Butler under `timeout`. Your final message: a 10-line summary (change, trigger, test-suite result, demo results).
"""
Path(f"{d}.task.md").write_text(task)
print(f"{d}.task.md")
