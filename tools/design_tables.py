#!/usr/bin/env python3
"""tools/design_tables.py -- print the two tables of DESIGN.md section 8 (8.3 status, 8.6 seeds) from the tree."""
import json
import re
from collections import Counter
from pathlib import Path

V = Path(__file__).resolve().parent.parent
HEAD = {
 "C01": ("T+K", "under the explicit path-collision guard every held dataset reads back as stored (invariant over all histories, three datastore kinds, transfers between kinds), frame lemmas, identity stable, refused operations change nothing; the guard is shown necessary by refutations over the regenerated template, and `template_injective` discharges it for separator-free values"),
 "C02": ("K", "refinement `abs_commutes` to an abstract map for every honest history (and guarded forged ones); one dataset per (collection, type, data ID); batch conflict-iff for insert / associate / import; second layer: chains as unions over flattened children, calibration rows, dataset-type removal"),
 "C03": ("T+K", "chains acyclic after every history, cycle check sound and complete, four find-first entry points = first match of the flattening also under governor constraints and with CALIBRATION collections in the path, edit orders through the regenerated position arithmetic"),
 "C04": ("T+K", "validity ranges pairwise disjoint after every history, decertify pointwise exact (regenerated `Timespan.difference`), `lookup_path_first_wins` for any search path incl. chains and RUNs, unique-or-ambiguous never arbitrary"),
 "C05": ("T+K", "`compile_correct`: generated SQL (SQLite semantics) = documented three-valued meaning for every well-typed expression; strided ranges for all integers over the regenerated `visit_in_range`; constraint summary sound; `legacy_agrees` on the legacy path's fragment"),
 "C06": ("T+K", "`plan_correct` / `query_correct` / `records_query_correct` / `operand_query_correct`: query = brute-force spec for every well-formed universe, group, FK-closed population, covering plan and join operand; exact overlap-table invariant and order independence over all histories"),
 "C07": ("K", "registry and file-system atomicity of blocks / put / ingest / import / transfer for all additive programs, nesting depths and fault positions (guard: fault not at a COMMIT/RELEASE), removals never harm other datasets, leftovers collected by emptyTrash for any number of datasets, pointer and frame discipline, reverted fixes refuted"),
 "C08": ("K", "for every history, operation and crash index: bystanders intact (also with shared artifacts), never a partial file under a final name, interrupted insertion all-or-nothing (prefix for loops), `rerun_completes` from every reachable state"),
 "C09": ("T+K", "an artifact is removed only when unreferenced (multi-ref files, zip members), `never_touch_foreign_full` with no state guard, `writes_inside_root` unconditional, every escape spelling refused with the repaired location checks"),
 "C10": ("K", "purge / removeRuns exact for any list of runs, other datasets' observations unchanged, existence flags truthful (exact guard for carried records), bulk = single-ref existence, chain views follow, cycle check exact with fuel adequacy"),
 "C11": ("T+K", "every Timespan operation = set semantics on [begin,end), SQL forms agree, NULL never yields true; **float conversion exact and strictly monotone for every ns of the supported range** (Flocq model of the exact binary64 operation sequence; 4 stdlib real-number axioms)"),
 "C12": ("T+K", "generated `DimensionGroup` constructor = hand model for any well-formed universe (`gen_new_agrees`), closure least / idempotent / monotone, canonical spelling, required/implied partition, n-ary lattice laws; shipped universes well-formed, lookup order valid for all 8192 subsets"),
 "C13": ("T+K", "equality / hash spec, standardize restricts, union total and commutative, `expandDataId` as one function sound and complete (current and old universes 2..7), DataCoordinate arguments and `records=`, alternate keys, only documented error classes"),
 "C14": ("T+K", "precedence / associativity from the regenerated tables, `parse_canonical`, fuel adequacy, string-level round trip, keyword case and whitespace, literal values; over lexer ∘ parser ∘ conversion: ill-typed strings rejected (outside two stated quirks)"),
 "C15": ("T+K", "AND / OR / NOT of the new system (regenerated) and CNF / DNF of the legacy tree preserve the truth table under every assignment"),
 "C16": ("T+K", "ordered result is a sorted permutation, limit is a prefix, pages yield every row once for every raw page size over the regenerated limit counter, count / any agree, three constraint spellings give the same rows"),
 "C17": ("K", "file-cache bookkeeping invariant over all histories (two managers, clock, outside deletes), four expiry bounds, moved file present; registry caches: cached = uncached for every history incl. chain edits, removals with key reuse, pattern lookups and refused operations"),
 "C18": ("T+K", "round trips of the value objects through simple / JSON / pickle (reduce tables regenerated), component refs, opaque payloads, persistence-context caches transparent under the key-soundness condition, every reported Config key retrieves (under stated key guards, explicit delimiters too)"),
 "C19": ("K", "`transfer_exact`, `transfer_idempotent`, `import_export_exact` (rows, contents, tags, validity ranges, chains, dimension records), acceptance by empty / partial targets, refused import leaves the registry unchanged, populated-by closure of transferred dimension records"),
 "C20": ("K", "single-block calls serialise in commit order for every schedule, one winner, get-or-create, dimension-group key unique, cycle race impossible with the fix; every non-serial outcome of 2 (and a family of 3) clients explained by one of five mechanisms (complete enumeration); multi-block calls in general: partial"),
}
kf = json.loads((V / "known_findings.json").read_text())["findings"]
cnt = Counter((f["property"], f["status"]) for f in kf)
print("| Prop | Thms | Tie | What is proved for all inputs / histories (headline) | known / fixed |")
print("|---|---|---|---|---|")
tot = 0
for i in range(1, 21):
    p = f"C{i:02d}"
    src = (V / "coq" / "Props" / f"{p}.v").read_text()
    th = len(re.findall(r"^\s*(?:Theorem|Lemma|Corollary)\s", src, re.M))
    tot += th
    print(f"| {p} | {th} | {HEAD[p][0]} | {HEAD[p][1]} | {cnt[(p, 'known')]} / {cnt[(p, 'fixed')]} |")
print(f"\n(total: {tot} theorems)\n")

DESC = {
 "C01a": "`_check_resource_size` treats recorded size −1 as known (ingest with `record_validation_info=False`)",
 "C01b": "`emptyTrash` tests `info.path` instead of `info.artifact_path` (prune one member of an ingested Zip)",
 "C02a": "summary cache cleared only when a dataset-type row was added (new governor value inside a caching context)",
 "C02b": "existing-ID rows deleted before `_validate_import` (import of a live id with another run / data ID)",
 "C02c": "disassociate keyed on (collection, type, data ID) instead of the dataset id (disassociate a non-member sharing the key)",
 "C03a": "chain records rebuilt from id-deduplicated rows (collection reached by two routes)",
 "C03b": "summary pruning ignores the dataset type's dimensions (constraint on a foreign governor)",
 "C03c": "`_find_many.order()` marks siblings visited before descending (collection nested earlier and named later)",
 "C04a": "shared row dict in decertify (timespan strictly inside a range)",
 "C04b": "early `break` in the rank loop hides ambiguity (row order from registration order)",
 "C05a": "negated governor equality recorded as a positive constraint (per-instrument RUNs)",
 "C05b": "`stop` tested for truthiness in `visit_in_range` (range with inclusive upper bound −1)",
 "C06a": "overlap-row deletes skipped when the new region is NULL (replace a region by NULL)",
 "C06b": "automatic spatial join decided on the operand's dimensions (fine query joined to a coarse materialization)",
 "C07a": "`except BaseException` → `except Exception` in `Datastore.transaction` (KeyboardInterrupt / SystemExit)",
 "C07b": "`@transactional` moved from `ingest` to its registry helper (ingest failing in the datastore phase)",
 "C08a": "artifacts unlinked after the rows are deleted (death between)",
 "C08b": "datastore transfer moved out of the registry transaction in `transfer_from` (death between)",
 "C09a": "fragment recount overwrites the preserved set (zip member + shared file in one trash)",
 "C09b": "`_delete_artifact` guard by location instead of ownership (direct ingest of a file below the root)",
 "C10a": "`moveToTrash` without `check` (unstore of an already unstored dataset, re-put, unrelated prune)",
 "C10b": "single-ref list unwrapped in `FileDatastore.trash` (external delete, then a one-dataset removal)",
 "C11a": "flipped comparison in a Timespan method", "C11b": "flipped comparison in a compound SQL form",
 "C11c": "wrong index in SQL `__gt__` (non-empty > empty)",
 "C12a": "`lookup_order` single pass (subfilter with visit)",
 "C12b": "n-ary `union` rebuilds from `self.names` (two contributing operands)",
 "C13a": "record cache reset only when sync returned `True` (update after cache load)",
 "C13b": "union of expanded data IDs claims records by names instead of elements (join elements)",
 "C14a": "`%` on the additive precedence row", "C14b": "upper-case exponent rejected with `ValueError`",
 "C14c": "range stop `+ stride` instead of `+ 1` when converting IN (stop off the stride lattice)",
 "C15a": "wrong operator in one distribution branch of the legacy normal form",
 "C15b": "early exit of variadic `logical_or` on constant False",
 "C16a": "limit counter written back only at zero", "C16b": "limit counter copied to a local, not written back on the early return",
 "C16c": "`reverse` flag not reset between order_by keys (descending key before an ascending one)",
 "C17a": "`remove_from_cache` iterates a list it mutates (multi-file dataset)",
 "C17b": "cached record discarded before the database delete (refused removal, then a pattern lookup)",
 "C18a": "None records mishandled in the simple form", "C18b": "pickle drops records of non-dimension elements",
 "C18c": "`from_simple` memo keyed on the parent storage class (same name, other storage class, inside a persistence context)",
 "C19a": "chain children set only for a newly created chain (second import after a prepend)",
 "C19b": "`continue` → `break` in populated-by record extraction (dataset over visit + detector)",
 "C04c": "`if data_ids is not None` → `if data_ids` in the calibration overlap query (decertify with an empty data-ID selection)",
 "C06c": "`\"region\" in updated` → `updated.get(\"region\") is not None` in sync (region filled in later by sync(update=True))",
 "C12c": "strict `<` / `>` of groups compare `required` with `names` (equal groups with implied dimensions)",
 "C15c": "second distribution branch of the legacy normal form uses `self._lhs` / `self._rhs` (NOT over a nested group)",
 "C19c": "`break` instead of `continue` in `_computeDatasetAssociations` (CALIBRATION exported, no TAGGED, non-calibration type first)",
 "C02d": "governor summary rows written only when a dataset-type row was new (new instrument for an already summarised type)",
 "C07c": "undo errors swallowed around the whole rollback loop instead of per event (put, ingest, purge of the ingested dataset, then failure)",
 "C10c": "`REPLACE` mode falls through in `_register_datasets`: no location row (datasets stored by `transfer_from`)",
 "C13c": "defaults merged before the dimension group is inferred in `standardize` (default instrument, data ID without it)",
 "C16d": "`yield_per` → `limit` in `any(exact=True)` with post-filtering (first 10 raw rows all rejected)",
 "C03d": "`done` guard moved inside the CHAINED branch of `_filter_collections.recurse` (repeated non-chained collection in the path; rank dict keeps the last index)",
 "C05c": "end of a timespan inclusive in SQL `contains(time)` (`timespan OVERLAPS time` at exactly the end bound)",
 "C08c": "`@transactional` dropped from `Butler.ingest` (death between registry commit and datastore records)",
 "C11d": "canonicalisation of empty timespans only on the public constructor path (intersection of disjoint spans)",
 "C20a": "dimension-group re-read moved out of the locked block (two clients, new dimension group)",
 "C20b": "`ensureTableExists` no longer absorbs SQLite's 'table already exists' (two clients, new dynamic table)",
}
print("| Seed | Change (needs …) | First run | Now | Reported as |")
print("|---|---|---|---|---|")
nm = 0
for d in sorted((V / "seeded").iterdir()):
    m = json.loads((d / "meta.json").read_text())
    first = "missed" if m.get("initially_missed") else "caught"
    nm += first == "missed"
    cr = m.get("check_result") or {}
    crs = m.get("check_results") or {}
    now = "caught" if any(v.get("detected") or v.get("exit") == 1 for v in crs.values()) or cr.get("exit") == 1 else "MISSED"
    by = [k for k, v in crs.items() if v.get("detected") or v.get("exit") == 1] or [m["property"]]
    sigs = []
    for v in list(crs.values()) + [cr]:
        for r in (v.get("replays") or []):
            if r.get("signature"):
                sigs.append(r["signature"])
    sig = sorted(set(sigs))[0] if sigs else ""
    extra = "" if by == [m["property"]] else f" (by {', '.join(by)})"
    print(f"| {d.name} | {DESC.get(d.name, '')} | {first} | {now}{extra} | `{sig}` |")
print(f"\n({len(list((V / 'seeded').iterdir()))} seeds, {nm} missed on first contact)")
