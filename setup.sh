#!/bin/sh
# Build the framework from files on disk only (offline): translators -> coq/Gen, coq_makefile, full make.
HERE="$(cd "$(dirname "$0")" && pwd)"
cd "$HERE" || exit 1
export PYTHONPATH="/repo/python:$HERE" PYTHONHASHSEED=0 PYTHONDONTWRITEBYTECODE=1 OMP_NUM_THREADS=1
mkdir -p coq/Gen replays evidence
exec /venv/bin/python -u -m harness.setup
