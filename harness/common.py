"""Shared machinery for every property check.

One `Ctx` per check run.  A property module (harness/props/cXX.py) exposes `run(ctx)` and uses:

  ctx.regen(name, fn)            run a translator (tie T); failure is recorded, never fatal
  ctx.build_props()              build coq/Props/<pid>.vo, parse Print Assumptions, audit
  ctx.coq_cases(...)             evaluate the Coq model on generated cases with vm_compute (tie K)
  ctx.oracle_fail(sig, replay)   the property's statement failed on the implementation
  ctx.tie_broken(kind, what)     an obligation / translator / correspondence no longer checks
  ctx.finish()                   verdict, evidence, exit code

Verdict policy (DESIGN.md 1.3): oracle failures decide; a broken tie without an oracle failure is
reported with `no-failing-input-found` after the property module ran its search.
"""
from __future__ import annotations

import hashlib
import json
import os
import random
import re
import shutil
import subprocess
import sys
import time
from pathlib import Path

VERIF = Path(__file__).resolve().parent.parent
REPO = Path(os.environ.get("VERIF_REPO", "/repo"))
COQ = VERIF / "coq"
OUT = VERIF
PKG = REPO / "python" / "lsst" / "daf" / "butler"
if REPO != Path("/repo"):
    # Isolated mode for testing the machinery against a mutated copy of the repository (seeded changes,
    # scratch worktrees): private Coq build tree and private evidence/replay directories, so that
    # concurrent runs against different trees never share regenerated files.
    _tag = hashlib.md5(str(REPO).encode()).hexdigest()[:10]
    COQ = Path(f"/var/tmp/verif-alt-{_tag}/coq")
    OUT = Path(f"/var/tmp/verif-alt-{_tag}")
    COQ.mkdir(parents=True, exist_ok=True)
    subprocess.run(["rsync", "-a", "--exclude", "Cases/", "--exclude", "Gen/*", "--exclude", ".lock",
                    str(VERIF / "coq") + "/", str(COQ) + "/"], check=False)
    (COQ / "Gen").mkdir(exist_ok=True)
NCPU = int(os.environ.get("VERIF_NCPU", "0") or 0) or os.cpu_count() or 4

FORBIDDEN = re.compile(
    r"\b(Admitted|admit|Axiom|Axioms|Parameter|Parameters|Conjecture|Conjectures|Hypothesis|Hypotheses|Variable|Variables)\b"
    r"|Unset\s+Guard|bypass_check|Admit\s+Obligations|-type-in-type|-impredicative-set|native_compute"
)
SECTION_OK = re.compile(r"\b(Variable|Variables|Hypothesis|Hypotheses)\b")

# Axioms of the standard library that the brief allows, provided they are named in the evidence.
STDLIB_AXIOMS = {
    "functional_extensionality_dep",
    "FunctionalExtensionality.functional_extensionality_dep",
    "Eqdep.Eq_rect_eq.eq_rect_eq",
    "eq_rect_eq",
    "classic",
    "Classical_Prop.classic",
    "proof_irrelevance",
    "JMeq_eq",
    "JMeq.JMeq_eq",
    # real numbers (Coq.Reals, pulled in by Flocq / Interval / Coquelicot): declared by the standard library itself
    "ClassicalDedekindReals.sig_forall_dec",
    "sig_forall_dec",
    "ClassicalDedekindReals.sig_not_dec",
    "sig_not_dec",
    "constructive_indefinite_description",
    "ClassicalEpsilon.constructive_indefinite_description",
    "propositional_extensionality",
    "PropExtensionality.propositional_extensionality",
}


def scratch_root() -> Path:
    p = Path(os.environ.get("VERIF_SCRATCH", f"/var/tmp/verif.{os.getpid()}"))
    p.mkdir(parents=True, exist_ok=True)
    return p


def sh(cmd, timeout=900, cwd=None, env=None, input=None):
    """Run a command, never raise; returns (rc, stdout+stderr)."""
    try:
        p = subprocess.run(
            cmd, cwd=cwd, env=env, input=input, timeout=timeout, shell=isinstance(cmd, str),
            stdout=subprocess.PIPE, stderr=subprocess.STDOUT, text=True,
        )
        return p.returncode, p.stdout
    except subprocess.TimeoutExpired as e:
        out = e.stdout.decode() if isinstance(e.stdout, bytes) else (e.stdout or "")
        return 124, out + "\n[timeout]"


def ensure_makefile():
    import fcntl
    with open(COQ / ".mk.lock", "w") as lk:
        fcntl.flock(lk, fcntl.LOCK_EX)
        _ensure_makefile()


def _ensure_makefile():
    mk = COQ / "Makefile"
    proj = COQ / "_CoqProject"
    files = sorted(
        str(p.relative_to(COQ)) for d in ("Base", "Model", "Gen", "Proofs", "Props") for p in (COQ / d).glob("*.v")
    )
    text = "-Q . V\n-arg -w -arg -notation-overridden,-deprecated\n" + "\n".join(files) + "\n"
    if not proj.exists() or proj.read_text() != text or not mk.exists():
        proj.write_text(text)
        sh(["coq_makefile", "-f", "_CoqProject", "-o", "Makefile"], cwd=COQ)


def coq_make(targets, timeout=1500, jobs=None):
    """Full .vo build of the given targets (relative to coq/), serialised by a lock."""
    ensure_makefile()
    jobs = jobs or NCPU
    cmd = ["flock", str(COQ / ".lock"), "timeout", str(timeout), "make", f"-j{jobs}", "-k"] + list(targets)
    rc, out = sh(cmd, timeout=timeout + 60, cwd=COQ)
    return rc == 0, out


def write_if_changed(path: Path, text: str) -> bool:
    path.parent.mkdir(parents=True, exist_ok=True)
    if path.exists() and path.read_text() == text:
        return False
    tmp = path.with_suffix(path.suffix + f".tmp{os.getpid()}")
    tmp.write_text(text)
    os.replace(tmp, path)
    return True


# ---------------------------------------------------------------------------------------------
# Coq literal helpers (Python value -> Gallina term text)
# ---------------------------------------------------------------------------------------------

def cz(n: int) -> str:
    return f"({n})%Z" if n < 0 else f"{n}%Z"


def cn(n: int) -> str:
    assert n >= 0
    return f"{n}%N"


def cnat(n: int) -> str:
    assert 0 <= n < 5000
    return f"{n}%nat"


def cbool(b) -> str:
    return "true" if b else "false"


def cstr(s: str) -> str:
    """Coq string literal; only printable ASCII survives verbatim, everything else must be pre-encoded."""
    out = []
    for ch in s:
        o = ord(ch)
        if ch == '"':
            out.append('""')
        elif 32 <= o < 127:
            out.append(ch)
        else:
            raise ValueError(f"non-printable character {o} in Coq string literal; encode first")
    return '"' + "".join(out) + '"%string'


def clist(items) -> str:
    return "[" + "; ".join(items) + "]"


def copt(x, f) -> str:
    return "None" if x is None else f"(Some {f(x)})"


def cpair(a, b) -> str:
    return f"({a}, {b})"


# ---------------------------------------------------------------------------------------------

class Ctx:
    def __init__(self, pid: str, tier: str, seed: int, replay: str | None = None):
        self.pid = pid
        self.tier = tier
        self.seed = seed
        self.replay = replay
        self.rng = random.Random(f"{pid}:{seed}")
        self.t0 = time.time()
        self.cov: dict = {
            "obligations": 0, "discharged": 0, "checker_cmd": "", "trusted_base": [],
            "evaluations": 0, "distinct_nontrivial": 0, "programs": 0, "disagreements_checked": 0,
            "rule": "", "samples": [], "ties": {}, "histograms": {}, "structural_drift": [],
        }
        self.assumptions: list[str] = []
        self.oracle_failures: list[tuple[str, dict]] = []   # (signature, replay object)
        self.broken: list[tuple[str, str, str]] = []         # (kind, name, detail)
        self.known_printed: set[str] = set()
        self._nontrivial: set[str] = set()
        self.known = load_known(pid)
        self.scratch = scratch_root() / pid
        if self.scratch.exists():
            shutil.rmtree(self.scratch, ignore_errors=True)
        self.scratch.mkdir(parents=True, exist_ok=True)
        self.log_lines: list[str] = []

    # -- logging -------------------------------------------------------------------------
    def log(self, *a):
        msg = " ".join(str(x) for x in a)
        self.log_lines.append(msg)
        print(f"[{self.pid} {time.time() - self.t0:6.1f}s] {msg}", flush=True)

    @property
    def quick(self) -> bool:
        return self.tier == "quick"

    # -- counters ------------------------------------------------------------------------
    def count(self, n=1):
        self.cov["evaluations"] += n

    def nontrivial(self, case) -> None:
        """Record one case that is non-trivial by the property's rule (distinctness by hash)."""
        h = hashlib.sha1(json.dumps(case, sort_keys=True, default=str).encode()).hexdigest()
        self._nontrivial.add(h)

    def hist(self, name: str, key, n=1):
        h = self.cov["histograms"].setdefault(name, {})
        h[str(key)] = h.get(str(key), 0) + n

    def sample(self, obj, cap=8):
        if len(self.cov["samples"]) < cap:
            self.cov["samples"].append(obj)

    # -- tie T ---------------------------------------------------------------------------
    def regen(self, name: str, fn, *args):
        """Run translator `fn(*args) -> {relative path under coq/: text}`; fail-closed."""
        try:
            outs = fn(*args)
            changed = [p for p, t in outs.items() if write_if_changed(COQ / p, t)]
            self.cov["ties"][f"T:{name}"] = "ok"
            if changed:
                self.log(f"translator {name}: regenerated {changed}")
            return True
        except Exception as e:  # noqa: BLE001 - fail closed on anything
            self.cov["ties"][f"T:{name}"] = f"broken: {type(e).__name__}: {e}"
            self.tie_broken("translator", name, f"{type(e).__name__}: {e}")
            return False

    # -- obligations ---------------------------------------------------------------------
    def build_props(self, extra_targets=(), props_file=None, timeout=1500):
        """Build coq/Props/<pid>.vo from scratch-of-dependencies, parse Print Assumptions, audit sources."""
        pf = props_file or f"Props/{self.pid}.v"
        src = (COQ / pf).read_text()
        thms = re.findall(r"^\s*(?:Theorem|Lemma|Corollary)\s+([A-Za-z0-9_']+)", src, re.M)
        pas = re.findall(r"^\s*Print Assumptions\s+([A-Za-z0-9_'.]+)\s*\.", src, re.M)
        self.cov["obligations"] += len(thms)
        self.cov["checker_cmd"] = (
            f"make -C coq {pf[:-2]}.vo (coq_makefile, full .vo) && coqc -Q coq V coq/{pf} (Print Assumptions); coqc 8.16.1"
        )
        missing_pa = [t for t in thms if t not in pas]
        if missing_pa:
            self.tie_broken("obligation", pf, f"theorems without Print Assumptions: {missing_pa}")
        # dependencies first (so that a failure is attributed), then the props file itself with captured output
        deps_ok, out = coq_make([pf[:-2] + ".vo"] + list(extra_targets), timeout=timeout)
        if not deps_ok:
            failing = re.findall(r'File "\./([^"]+)", line (\d+)', out)
            err = out[-1500:]
            self.tie_broken("obligation", pf, f"build failed at {failing[:3]}: {err}")
            # count what did compile: nothing from this file
            return False
        rc, out = sh(["coqc", "-Q", ".", "V", "-w", "-notation-overridden,-deprecated", pf], cwd=COQ, timeout=timeout)
        if rc != 0:
            self.tie_broken("obligation", pf, out[-1500:])
            return False
        blocks = re.split(r"(?=^(?:Closed under the global context|Axioms:|Fetching opaque proofs))", out, flags=re.M)
        results = [b for b in blocks if b.startswith("Closed under") or b.startswith("Axioms:")]
        tb = self.cov["trusted_base"]
        bad = []
        for name, blk in zip(pas, results):
            if blk.startswith("Closed under"):
                continue
            axs = [a for a in re.findall(r"^([A-Za-z0-9_'.]+)\s*:", blk, re.M) if a != "Axioms"]   # "Axioms:" is the header
            for a in axs:
                short = a.split(".")[-1]
                if a in STDLIB_AXIOMS or short in {x.split(".")[-1] for x in STDLIB_AXIOMS}:
                    ent = f"axiom {a} (standard library) used by {name}"
                    if ent not in tb:
                        tb.append(ent)
                else:
                    bad.append((name, a))
        if len(results) != len(pas):
            self.tie_broken("obligation", pf, f"Print Assumptions outputs {len(results)} != statements {len(pas)}")
        if bad:
            self.tie_broken("obligation", pf, f"non-stdlib axioms or section hypotheses leaked: {bad}")
        closed = sum(1 for b in results if b.startswith("Closed under"))
        tb.insert(0, f"{pf}: {len(thms)} theorems, {closed} closed under the global context, "
                     f"{len(results) - closed} rely on named stdlib axioms")
        # source audit over the dependency cone
        cone = self._cone(pf)
        hits = []
        for f in cone:
            txt = (COQ / f).read_text()
            txt_nc = re.sub(r"\(\*.*?\*\)", "", txt, flags=re.S)
            in_section = 0
            for i, line in enumerate(txt_nc.splitlines(), 1):
                if re.match(r"\s*Section\b", line):
                    in_section += 1
                if re.match(r"\s*End\b", line) and in_section:
                    in_section -= 1
                m = FORBIDDEN.search(line)
                if m:
                    if SECTION_OK.fullmatch(m.group(0)) and in_section:
                        continue
                    hits.append(f"{f}:{i}: {m.group(0)}")
        if hits:
            self.tie_broken("obligation", pf, f"forbidden constructs in dependency cone: {hits[:5]}")
        self.cov["audited_files"] = cone
        if not self.quick and os.environ.get("VERIF_COQCHK", "1") != "0":
            # independent re-check of the compiled theorems and everything they depend on
            mod = "V." + pf[:-2].replace("/", ".")
            rc_k, out_k = sh(["timeout", "1500", "coqchk", "-silent", "-o", "-Q", ".", "V", mod], cwd=COQ, timeout=1600)
            summ = out_k[out_k.find("CONTEXT SUMMARY"):] if "CONTEXT SUMMARY" in out_k else out_k[-600:]
            ax = re.search(r"\* Axioms:(.*?)\n\s*\n\* ", summ, re.S)
            axl = " ".join(ax.group(1).split()) if ax else "?"
            unsafe = [l.strip() for l in summ.splitlines() if l.strip().startswith("* ") and "<none>" not in l
                      and not l.strip().startswith(("* Theory", "* Axioms"))]
            tb.append(f"coqchk -o {mod}: exit {rc_k}; axioms of the loaded libraries: {axl}; "
                      f"type-in-type / unsafe fixpoints / assumed positivity: {unsafe or 'none'}")
            if rc_k != 0:
                self.tie_broken("obligation", pf, f"coqchk failed: {out_k[-600:]}")
        if not (missing_pa or bad or hits or len(results) != len(pas)):
            self.cov["discharged"] += len(thms)
            self.cov["theorems"] = self.cov.get("theorems", []) + thms
            return True
        return False

    def _cone(self, pf):
        seen, todo = [], [pf]
        while todo:
            f = todo.pop()
            if f in seen or not (COQ / f).exists():
                continue
            seen.append(f)
            txt = re.sub(r"\(\*.*?\*\)", "", (COQ / f).read_text(), flags=re.S)
            # `From V Require Import A.B C.D.` and `Require Import V.A.B.`: module names contain dots, the sentence ends
            # with a dot followed by white space
            for m in re.finditer(r"(?:From\s+([\w.]+)\s+)?Require\s+(?:Import\s+|Export\s+)?((?:[\w']+(?:\.[\w']+)*\s*)+)\.(?:\s|$)", txt):
                prefix = m.group(1)
                for mod in m.group(2).split():
                    if prefix == "V":
                        todo.append(mod.replace(".", "/") + ".v")
                    elif mod.startswith("V."):
                        todo.append(mod[2:].replace(".", "/") + ".v")
        return sorted(seen)

    # -- tie K: evaluate the Coq model with vm_compute -------------------------------------
    def coq_cases(self, name: str, header: str, cases: list[str], checker: str, shard=400, timeout=600):
        """`cases` are Gallina terms of one type; `checker : that type -> bool` says model agrees with the
        implementation's recorded observation.  Returns sorted list of indices where it does not
        (None if the model could not be evaluated).  One coqc per shard, in parallel."""
        d = COQ / "Cases" / self.pid
        d.mkdir(parents=True, exist_ok=True)
        for old in d.glob(f"{name}_*"):
            old.unlink()
        shards = [cases[i:i + shard] for i in range(0, len(cases), shard)]
        files = []
        for k, sh_cases in enumerate(shards):
            f = d / f"{name}_{k}.v"
            body = header + "\nOpen Scope list_scope.\n"
            body += f"Definition cases_{k} := [\n  " + ";\n  ".join(sh_cases) + "\n].\n"
            body += (
                "Fixpoint bad_idx {A} (f : A -> bool) (i : N) (l : list A) : list N :=\n"
                "  match l with nil => nil | x :: r => if f x then bad_idx f (N.succ i) r else i :: bad_idx f (N.succ i) r end.\n"
                f"Eval vm_compute in (bad_idx ({checker}) 0%N cases_{k}).\n"
            )
            f.write_text(body)
            files.append(f)
        bad: list[int] = []
        ok = True
        env = dict(os.environ)
        maxpar = max(1, NCPU // 2)
        pending = list(enumerate(files))
        running: list = []
        outs = {}
        while pending or running:
            while pending and len(running) < maxpar:
                k, f = pending.pop(0)
                p = subprocess.Popen(
                    ["timeout", str(timeout), "coqc", "-Q", str(COQ), "V", "-w", "-notation-overridden,-deprecated", str(f)],
                    stdout=subprocess.PIPE, stderr=subprocess.STDOUT, text=True, cwd=d, env=env)
                running.append((k, p))
            k, p = running.pop(0)
            out, _ = p.communicate()
            outs[k] = (p.returncode, out)
        for k in sorted(outs):
            rc, out = outs[k]
            m = re.search(r"=\s*(\[[^\]]*\]|nil)\s*:\s*list N", out, re.S)
            if rc != 0 or not m:
                ok = False
                self.tie_broken("correspondence", name, f"model evaluation failed (shard {k}): {out[-800:]}")
                continue
            idxs = [int(x) for x in re.findall(r"\d+", m.group(1))]
            bad.extend(k * shard + i for i in idxs)
        self.cov["programs"] += len(cases)
        self.cov["ties"][f"K:{name}"] = "ok" if ok and not bad else ("broken" if not ok else f"{len(bad)} disagreements")
        return sorted(bad) if ok else None

    def coq_eval(self, name: str, header: str, expr: str, timeout=300):
        """Evaluate one closed term with vm_compute and return Coq's printed text (used for replays/search)."""
        d = COQ / "Cases" / self.pid
        d.mkdir(parents=True, exist_ok=True)
        f = d / f"{name}.v"
        f.write_text(header + f"\nOpen Scope list_scope.\nEval vm_compute in ({expr}).\n")
        rc, out = sh(["timeout", str(timeout), "coqc", "-Q", str(COQ), "V", "-w", "-notation-overridden,-deprecated", str(f)], cwd=d)
        return rc, out

    # -- verdict -------------------------------------------------------------------------
    def oracle_fail(self, signature: str, replay: dict, what: str = ""):
        """The property's own statement failed on implementation observations."""
        for k in self.known:
            if k.get("status", "known") == "known" and re.fullmatch(k["signature"], signature):
                if k["id"] not in self.known_printed:
                    self.known_printed.add(k["id"])
                    print(f"KNOWN-FINDING: property={self.pid} {k['what']}", flush=True)
                return
        self.oracle_failures.append((signature, dict(replay, what=what, signature=signature)))

    def tie_broken(self, kind: str, name: str, detail: str = ""):
        self.log(f"BROKEN {kind} {name}: {detail[:400]}")
        self.broken.append((kind, name, detail))

    def disagreement(self, name: str, case: dict, detail: str = ""):
        """Model and implementation differ on an observable (tie K) without the oracle failing."""
        self.cov["disagreements_checked"] += 1
        self.tie_broken("correspondence", name, json.dumps(case, default=str)[:600] + " " + detail)

    def finish(self) -> int:
        self.cov["distinct_nontrivial"] = len(self._nontrivial)
        rep_dir = OUT / "replays"
        rep_dir.mkdir(parents=True, exist_ok=True)
        rc = 0
        lines = []
        head = repo_head()
        if self.oracle_failures:
            seen = set()
            for sig, rep in self.oracle_failures:
                if sig in seen:
                    continue
                seen.add(sig)
                h = hashlib.sha1(sig.encode()).hexdigest()[:10]
                path = rep_dir / f"{self.pid}-{h}.json"
                path.write_text(json.dumps(dict(rep, property=self.pid, tier=self.tier, seed=self.seed, repo=head,
                                                broken=[list(b) for b in self.broken]), indent=1, default=str))
                lines.append(f"VIOLATION property={self.pid} replay={path}")
                if len(seen) >= 5:
                    break
            rc = 1
        elif self.broken:
            h = hashlib.sha1(json.dumps(self.broken).encode()).hexdigest()[:10]
            path = rep_dir / f"{self.pid}-unproved-{h}.json"
            path.write_text(json.dumps({
                "property": self.pid, "tier": self.tier, "seed": self.seed, "repo": head,
                "no_longer_checks": [{"kind": k, "name": n, "detail": d} for k, n, d in self.broken],
                "search": self.cov.get("search", "the property oracle held on every implementation case of this run"),
            }, indent=1))
            lines.append(f"VIOLATION property={self.pid} replay={path} no-failing-input-found")
            rc = 1
        if self.cov["discharged"] < 1:
            # schema: a proof-level file needs discharged >= 1; a run whose obligations broke falls back
            # to the generic counts and says so
            self.cov["obligations_not_discharged"] = self.cov.pop("obligations")
            self.cov.pop("discharged")
        ev = {
            "property_id": self.pid, "tier": self.tier, "seed": self.seed, "level": "proof",
            "coverage": self.cov, "assumptions": self.assumptions,
            "wall_s": round(time.time() - self.t0, 2),
            "violations": len({s for s, _ in self.oracle_failures}) + (1 if (self.broken and not self.oracle_failures) else 0),
            "known_findings_reported": sorted(self.known_printed),
        }
        (OUT / "evidence").mkdir(exist_ok=True)
        ev_name = f"{self.pid}.json" if not self.replay else f"{self.pid}.replay.json"
        (OUT / "evidence" / ev_name).write_text(json.dumps(ev, indent=1, default=str) + "\n")
        shutil.rmtree(self.scratch, ignore_errors=True)
        try:
            scratch_root().rmdir()
        except OSError:
            pass
        for ln in lines:
            print(ln, flush=True)
        self.log(f"done rc={rc} obligations={self.cov.get('obligations')}/{self.cov.get('discharged')} "
                 f"evaluations={self.cov['evaluations']} nontrivial={self.cov['distinct_nontrivial']}")
        return rc


def repo_head():
    rc, h = sh(["git", "-C", str(REPO), "rev-parse", "HEAD"])
    if rc != 0:
        h = f"(not a git tree: {REPO})"
    rc2, d = sh(["git", "-C", str(REPO), "diff", "--stat"])
    return {"head": h.strip(), "diff_stat": d.strip()[-600:]}


def load_known(pid: str):
    p = VERIF / "known_findings.json"
    if not p.exists():
        return []
    data = json.loads(p.read_text())
    return [k for k in data.get("findings", []) if k["property"] == pid]


# ---------------------------------------------------------------------------------------------
# implementation workers: every Butler case runs in a subprocess under a watchdog
# ---------------------------------------------------------------------------------------------

def run_worker(module: str, func: str, payload, timeout=120, env_extra=None):
    """Run harness.impl.<module>.<func>(payload) in a fresh interpreter; returns ('ok', result) |
    ('hang', None) | ('crash', text)."""
    env = dict(os.environ)
    env["PYTHONPATH"] = f"{REPO}/python:{VERIF}"
    env["PYTHONHASHSEED"] = "0"
    if env_extra:
        env.update(env_extra)
    code = (
        "import sys, json, importlib\n"
        f"m = importlib.import_module('harness.impl.{module}')\n"
        "payload = json.load(sys.stdin)\n"
        f"res = getattr(m, '{func}')(payload)\n"
        "sys.stdout.write('\\n@@RESULT@@' + json.dumps(res, default=str))\n"
    )
    def _limit():
        # a runaway case (exponential normal forms, an unbounded query) must not take the machine down
        import resource
        gb = int(os.environ.get("VERIF_WORKER_MEM_GB", "8"))
        resource.setrlimit(resource.RLIMIT_AS, (gb << 30, gb << 30))

    try:
        p = subprocess.run([sys.executable, "-u", "-c", code], input=json.dumps(payload), text=True,
                           stdout=subprocess.PIPE, stderr=subprocess.PIPE, timeout=timeout, env=env,
                           preexec_fn=_limit)
    except subprocess.TimeoutExpired:
        return "hang", None
    if "@@RESULT@@" not in p.stdout:
        return "crash", (p.stdout[-2000:] + p.stderr[-4000:])
    return "ok", json.loads(p.stdout.split("@@RESULT@@", 1)[1])


def parallel_workers(module: str, func: str, payloads: list, timeout=120, par=None):
    """Run many worker payloads concurrently (process pool of subprocesses), preserving order."""
    from concurrent.futures import ThreadPoolExecutor
    par = par or max(2, NCPU - 2)
    with ThreadPoolExecutor(max_workers=par) as ex:
        return list(ex.map(lambda pl: run_worker(module, func, pl, timeout=timeout), payloads))
