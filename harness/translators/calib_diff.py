"""Translator (tie T) for C04: regenerate coq/Gen/CalibDiffGen.v from the *current* bodies of
`Timespan.intersection` and `Timespan.difference` (python/lsst/daf/butler/_timespan.py) -- the two methods
`ByDimensionsDatasetRecordStorageManager.decertify` relies on to compute what is left of a validity range.

Fail-closed: any construct outside the subset below raises `Untranslatable`.

intersection(self, *args):
    if not args: return self
    lowers = [self.nsec[0]]; lowers.extend(ts.nsec[0] for ts in args)
    uppers = [self.nsec[1]]; uppers.extend(ts.nsec[1] for ts in args)
    nsec = (F(*lowers), G(*uppers))            F, G in {max, min}; the indices 0/1 are read from the source
    return Timespan(begin=None, end=None, _nsec=nsec)
  -> py_inter2 a b := py_mk (F' (i a) (i b)) (G' (j a) (j b))        (one argument, which is how difference calls it)

difference(self, other):   a generator
    stmts ::= intersection = self.intersection(other) ; gen*
    gen   ::= yield self | yield other | yield intersection | yield from ()
            | yield Timespan(None, None, _nsec=(atom, atom))
            | if test: gen+ [elif ...] [else: gen+]
    test  ::= NAME.isEmpty() | NAME == NAME | atom cmp atom | test and test | test or test | not test
    atom  ::= NAME.nsec[0|1]                  NAME in {self, other, intersection}
  -> py_difference a b : list ts   (the yielded timespans in order)
"""
from __future__ import annotations

import ast

from harness.common import PKG
from harness.translators.timespan import CMP, Untranslatable, _find_method, _strip_doc

NAMES = {"self": "a", "other": "b", "intersection": "i"}


def _atom(n) -> str:
    if isinstance(n, ast.Subscript) and isinstance(n.value, ast.Attribute) and n.value.attr == "nsec" \
            and isinstance(n.value.value, ast.Name) and n.value.value.id in NAMES \
            and isinstance(n.slice, ast.Constant) and n.slice.value in (0, 1):
        return f"({'fst' if n.slice.value == 0 else 'snd'} {NAMES[n.value.value.id]})"
    raise Untranslatable(f"difference: unsupported atom {ast.unparse(n)}")


def _ts_name(n) -> str:
    if isinstance(n, ast.Name) and n.id in NAMES:
        return NAMES[n.id]
    raise Untranslatable(f"difference: unsupported timespan expression {ast.unparse(n)}")


def _test(n) -> str:
    if isinstance(n, ast.BoolOp):
        op = "&&" if isinstance(n.op, ast.And) else "||"
        return "(" + f" {op} ".join(_test(v) for v in n.values) + ")"
    if isinstance(n, ast.UnaryOp) and isinstance(n.op, ast.Not):
        return f"(negb {_test(n.operand)})"
    if isinstance(n, ast.Call) and isinstance(n.func, ast.Attribute) and n.func.attr == "isEmpty" and not n.args and not n.keywords:
        return f"(py_isEmpty {_ts_name(n.func.value)})"
    if isinstance(n, ast.Compare) and len(n.ops) == 1:
        l, r = n.left, n.comparators[0]
        if isinstance(l, ast.Name) and isinstance(r, ast.Name):
            if isinstance(n.ops[0], ast.Eq):
                return f"(py_eq {_ts_name(l)} {_ts_name(r)})"
            if isinstance(n.ops[0], ast.NotEq):
                return f"(negb (py_eq {_ts_name(l)} {_ts_name(r)}))"
            raise Untranslatable(f"difference: comparison of timespans {ast.unparse(n)}")
        if type(n.ops[0]) in CMP:
            return f"({_atom(l)} {CMP[type(n.ops[0])]} {_atom(r)})"
    raise Untranslatable(f"difference: unsupported test {ast.unparse(n)}")


def _yield(v) -> str:
    """value of a `yield` -> Gallina list"""
    if isinstance(v, ast.Name):
        return f"[{_ts_name(v)}]"
    if isinstance(v, ast.Call) and isinstance(v.func, ast.Name) and v.func.id == "Timespan":
        pos_ok = len(v.args) == 2 and all(isinstance(x, ast.Constant) and x.value is None for x in v.args)
        kw = {k.arg: k.value for k in v.keywords}
        if pos_ok and set(kw) == {"_nsec"} and isinstance(kw["_nsec"], ast.Tuple) and len(kw["_nsec"].elts) == 2:
            b, e = kw["_nsec"].elts
            return f"[py_mk {_atom(b)} {_atom(e)}]"
    raise Untranslatable(f"difference: unsupported yield {ast.unparse(v)}")


def _gen(stmts) -> str:
    parts = []
    for s in stmts:
        if isinstance(s, ast.Expr) and isinstance(s.value, ast.Yield) and s.value.value is not None:
            parts.append(_yield(s.value.value))
        elif isinstance(s, ast.Expr) and isinstance(s.value, ast.YieldFrom):
            v = s.value.value
            if not (isinstance(v, ast.Tuple) and not v.elts):
                raise Untranslatable(f"difference: unsupported yield from {ast.unparse(v)}")
            parts.append("[]")
        elif isinstance(s, ast.If):
            parts.append(f"(if {_test(s.test)} then {_gen(s.body)} else {_gen(s.orelse) if s.orelse else '[]'})")
        elif isinstance(s, ast.Pass):
            parts.append("[]")
        else:
            raise Untranslatable(f"difference: unsupported statement {ast.unparse(s)[:120]}")
    if not parts:
        return "[]"
    return parts[0] if len(parts) == 1 else "(" + " ++ ".join(parts) + ")"


def _intersection(fn: ast.FunctionDef) -> str:
    if not (len(fn.args.args) == 1 and fn.args.vararg is not None and fn.args.vararg.arg == "args"
            and not fn.args.kwonlyargs and fn.args.kwarg is None):
        raise Untranslatable("intersection: signature must be (self, *args)")
    body = _strip_doc(fn.body)
    if len(body) != 7:
        raise Untranslatable(f"intersection: expected 7 statements, found {len(body)}")
    if ast.unparse(body[0]) != "if not args:\n    return self":
        raise Untranslatable("intersection: must start with `if not args: return self`")

    def seed(s, name):
        ok = (isinstance(s, ast.Assign) and len(s.targets) == 1 and isinstance(s.targets[0], ast.Name) and s.targets[0].id == name
              and isinstance(s.value, ast.List) and len(s.value.elts) == 1)
        if not ok:
            raise Untranslatable(f"intersection: `{name} = [self.nsec[i]]` expected, found {ast.unparse(s)}")
        e = s.value.elts[0]
        if not (isinstance(e, ast.Subscript) and ast.unparse(e.value) == "self.nsec" and isinstance(e.slice, ast.Constant) and e.slice.value in (0, 1)):
            raise Untranslatable(f"intersection: unsupported seed {ast.unparse(e)}")
        return e.slice.value

    def ext(s, name):
        ok = (isinstance(s, ast.Expr) and isinstance(s.value, ast.Call) and ast.unparse(s.value.func) == f"{name}.extend"
              and len(s.value.args) == 1 and isinstance(s.value.args[0], ast.GeneratorExp) and not s.value.keywords)
        if not ok:
            raise Untranslatable(f"intersection: `{name}.extend(ts.nsec[i] for ts in args)` expected, found {ast.unparse(s)}")
        g = s.value.args[0]
        if not (len(g.generators) == 1 and not g.generators[0].ifs and ast.unparse(g.generators[0].target) == "ts"
                and ast.unparse(g.generators[0].iter) == "args" and isinstance(g.elt, ast.Subscript)
                and ast.unparse(g.elt.value) == "ts.nsec" and isinstance(g.elt.slice, ast.Constant) and g.elt.slice.value in (0, 1)):
            raise Untranslatable(f"intersection: unsupported generator {ast.unparse(g)}")
        return g.elt.slice.value

    sel = {0: "fst", 1: "snd"}
    li, lj = seed(body[1], "lowers"), ext(body[2], "lowers")
    ui, uj = seed(body[3], "uppers"), ext(body[4], "uppers")
    s = body[5]
    if not (isinstance(s, ast.Assign) and ast.unparse(s.targets[0]) == "nsec" and isinstance(s.value, ast.Tuple) and len(s.value.elts) == 2):
        raise Untranslatable("intersection: `nsec = (f(*lowers), g(*uppers))` expected")
    fs = []
    for e, name in zip(s.value.elts, ("lowers", "uppers")):
        if not (isinstance(e, ast.Call) and isinstance(e.func, ast.Name) and e.func.id in ("max", "min") and not e.keywords
                and len(e.args) == 1 and isinstance(e.args[0], ast.Starred) and ast.unparse(e.args[0].value) == name):
            raise Untranslatable(f"intersection: unsupported bound {ast.unparse(e)}")
        fs.append("Z.max" if e.func.id == "max" else "Z.min")
    if ast.unparse(body[6]) != "return Timespan(begin=None, end=None, _nsec=nsec)":
        raise Untranslatable(f"intersection: unsupported return {ast.unparse(body[6])}")
    return f"py_mk ({fs[0]} ({sel[li]} a) ({sel[lj]} b)) ({fs[1]} ({sel[ui]} a) ({sel[uj]} b))"


def translate() -> dict:
    py = ast.parse((PKG / "_timespan.py").read_text())
    inter = _intersection(_find_method(py, "Timespan", "intersection"))
    fn = _find_method(py, "Timespan", "difference")
    if not ([a.arg for a in fn.args.args] == ["self", "other"] and fn.args.vararg is None and fn.args.kwarg is None and not fn.args.kwonlyargs):
        raise Untranslatable("difference: signature must be (self, other)")
    body = _strip_doc(fn.body)
    if not body or ast.unparse(body[0]) != "intersection = self.intersection(other)":
        raise Untranslatable("difference: must start with `intersection = self.intersection(other)`")
    gen = _gen(body[1:])
    out = [
        "(* GENERATED by harness/translators/calib_diff.py from /repo's working tree -- do not edit *)",
        "From Coq Require Import ZArith Bool List.",
        "From V Require Import Base.Tri Gen.TimespanGen.",
        "Import ListNotations.",
        "Open Scope Z_scope.",
        "(* Timespan.intersection(other) *)",
        f"Definition py_inter2 (a b : ts) : ts := {inter}.",
        "(* Timespan.difference(other): the yielded timespans, in order *)",
        f"Definition py_difference (a b : ts) : list ts := let i := py_inter2 a b in {gen}.",
    ]
    return {"Gen/CalibDiffGen.v": "\n".join(out) + "\n"}


if __name__ == "__main__":
    for k, v in translate().items():
        print(v)
