"""Translator (tie T) for C03: regenerate coq/Gen/ChainPosGen.v from the *current* bodies of the position arithmetic of
chain edits in python/lsst/daf/butler/registry/collections/_base.py (class DefaultCollectionManager):

    _find_prepend_position(self, c)      return <expr>
    _find_extend_position(self, c)       return <expr>
    _find_position_in_collection_chain(self, chain_key, begin_or_end)

Fail-closed: anything outside the subset below raises `Untranslatable`.

    expr ::= expr + expr | expr - expr | INT | len(c.child_keys)
           | self._find_position_in_collection_chain(c.parent_key, "begin" | "end")

    _find_position_in_collection_chain:
        table = self._tables.collection_chain
        func: sqlalchemy.Function
        match begin_or_end:
            case "begin": func = sqlalchemy.func.<min|max>(table.c.position)
            case "end":   func = sqlalchemy.func.<min|max>(table.c.position)
        query = sqlalchemy.select(func).where(table.c.parent == chain_key)
        with self._db.query(query) as cursor:
            position = cursor.scalar()
        if position is None:
            return INT
        return position

Gallina: the aggregate over the rows of the parent is a parameter -- `lo` = MIN(position), `hi` = MAX(position), `None`
when the chain has no rows (SQL aggregates over an empty set are NULL) -- and `n` = len(child_keys).
"""
from __future__ import annotations

import ast

from harness.common import PKG
from harness.translators.timespan import Untranslatable, _find_method, _strip_doc

CLS = "DefaultCollectionManager"
FILE = "registry/collections/_base.py"


def _expr(n) -> str:
    if isinstance(n, ast.BinOp) and isinstance(n.op, (ast.Add, ast.Sub)):
        return f"({_expr(n.left)} {'+' if isinstance(n.op, ast.Add) else '-'} {_expr(n.right)})"
    if isinstance(n, ast.Constant) and type(n.value) is int:
        return f"({n.value})"
    if isinstance(n, ast.Call) and not n.keywords:
        src = ast.unparse(n)
        if src == "len(c.child_keys)":
            return "n"
        if src == "self._find_position_in_collection_chain(c.parent_key, 'begin')":
            return "(gen_find_position Begin lo hi)"
        if src == "self._find_position_in_collection_chain(c.parent_key, 'end')":
            return "(gen_find_position End lo hi)"
    raise Untranslatable(f"position arithmetic: unsupported expression {ast.unparse(n)}")


def _single_return(f: ast.FunctionDef) -> str:
    if [a.arg for a in f.args.args] != ["self", "c"]:
        raise Untranslatable(f"{f.name}: unexpected signature")
    body = _strip_doc(f.body)
    if len(body) != 1 or not isinstance(body[0], ast.Return) or body[0].value is None:
        raise Untranslatable(f"{f.name}: body is not a single return")
    return _expr(body[0].value)


def _find_position(f: ast.FunctionDef) -> str:
    if [a.arg for a in f.args.args] != ["self", "chain_key", "begin_or_end"]:
        raise Untranslatable(f"{f.name}: unexpected signature")
    body = _strip_doc(f.body)
    if len(body) != 7:
        raise Untranslatable(f"{f.name}: expected 7 statements, found {len(body)}")
    fixed = {0: "table = self._tables.collection_chain", 1: "func: sqlalchemy.Function",
             3: "query = sqlalchemy.select(func).where(table.c.parent == chain_key)",
             4: "with self._db.query(query) as cursor:\n    position = cursor.scalar()"}
    for i, want in fixed.items():
        if ast.unparse(body[i]) != want:
            raise Untranslatable(f"{f.name}: statement {i} is {ast.unparse(body[i])!r}, expected {want!r}")
    m = body[2]
    if not isinstance(m, ast.Match) or ast.unparse(m.subject) != "begin_or_end" or len(m.cases) != 2:
        raise Untranslatable(f"{f.name}: unexpected match statement")
    agg = {}
    for case in m.cases:
        if not (isinstance(case.pattern, ast.MatchValue) and isinstance(case.pattern.value, ast.Constant)
                and case.pattern.value.value in ("begin", "end") and case.guard is None and len(case.body) == 1):
            raise Untranslatable(f"{f.name}: unexpected case {ast.unparse(case.pattern)}")
        src = ast.unparse(case.body[0])
        for fn, var in (("min", "lo"), ("max", "hi")):
            if src == f"func = sqlalchemy.func.{fn}(table.c.position)":
                agg[case.pattern.value.value] = var
                break
        else:
            raise Untranslatable(f"{f.name}: unsupported aggregate {src!r}")
    if set(agg) != {"begin", "end"}:
        raise Untranslatable(f"{f.name}: cases {sorted(agg)}")
    t = body[5]
    if not (isinstance(t, ast.If) and ast.unparse(t.test) == "position is None" and not t.orelse and len(t.body) == 1
            and isinstance(t.body[0], ast.Return) and isinstance(t.body[0].value, ast.Constant)
            and type(t.body[0].value.value) is int):
        raise Untranslatable(f"{f.name}: unexpected NULL handling {ast.unparse(t)!r}")
    if ast.unparse(body[6]) != "return position":
        raise Untranslatable(f"{f.name}: unexpected final statement {ast.unparse(body[6])!r}")
    return (f"  match (match w with Begin => {agg['begin']} | End => {agg['end']} end) with\n"
            f"  | None => ({t.body[0].value.value})\n  | Some position => position\n  end")


def _dispatch(tree, method: str, func: str):
    """prepend_collection_chain / extend_collection_chain hand the expected position function to _add_to_collection_chain"""
    body = _strip_doc(_find_method(tree, CLS, method).body)
    want = f"self._add_to_collection_chain(parent_collection_name, child_collection_names, self.{func})"
    if len(body) != 1 or ast.unparse(body[0]) != want:
        raise Untranslatable(f"{method}: body is {[ast.unparse(b) for b in body]!r}, expected {want!r}")


def translate() -> dict[str, str]:
    tree = ast.parse((PKG / FILE).read_text())
    _dispatch(tree, "prepend_collection_chain", "_find_prepend_position")
    _dispatch(tree, "extend_collection_chain", "_find_extend_position")
    pre = _single_return(_find_method(tree, CLS, "_find_prepend_position"))
    ext = _single_return(_find_method(tree, CLS, "_find_extend_position"))
    pos = _find_position(_find_method(tree, CLS, "_find_position_in_collection_chain"))
    text = (
        "(* GENERATED by harness/translators/chain_pos.py from registry/collections/_base.py -- do not edit.\n"
        "   lo / hi = MIN / MAX(position) over the rows of the parent chain (None: no rows), n = len(child_keys). *)\n"
        "From Coq Require Import ZArith.\nOpen Scope Z_scope.\n\n"
        "Inductive which := Begin | End.\n\n"
        "(* _find_position_in_collection_chain *)\n"
        f"Definition gen_find_position (w : which) (lo hi : option Z) : Z :=\n{pos}.\n\n"
        "(* _find_prepend_position *)\n"
        f"Definition gen_prepend_position (lo hi : option Z) (n : Z) : Z :=\n  {pre}.\n\n"
        "(* _find_extend_position *)\n"
        f"Definition gen_extend_position (lo hi : option Z) (n : Z) : Z :=\n  {ext}.\n"
    )
    return {"Gen/ChainPosGen.v": text}
