"""Translator (tie T) for C14: regenerate coq/Gen/GrammarGen.v from the *current* source text of
registry/queries/expressions/parser/parserYacc.py and parserLex.py (Python `ast`, nothing imported):

  * `ParserYacc.precedence`           -> precedence : list (assoc * list string)      (row order = binding power)
  * production docstrings of `p_*`    -> productions : list (string * list string)    (lhs, rhs symbols incl. %prec)
  * `ParserLex.reserved`              -> reserved : list (string * string)
  * `ParserLex.tokens`                -> tokens : list string
  * lexer rules in PLY's master-regex order (functions by line, then strings by decreasing regex length),
    regexes normalised the way re.VERBOSE reads them (whitespace and # comments outside classes dropped)
                                       -> lex_rules : list (string * string), lex_ignore : string
  * the literal regex flags requested in make_lexer -> lex_flags : list string

The Coq model reads its binding powers/associativities from `precedence`; the productions, token list,
reserved words and lexer rules are compared with the grammar the model was written for by theorems
(`gen_productions_expected` ...), so ANY edit to these tables breaks an obligation on the next run.
Fail-closed: anything outside the expected shapes raises `Untranslatable`.
"""
from __future__ import annotations

import ast
import re

from harness.common import PKG

PARSER_DIR = PKG / "registry" / "queries" / "expressions" / "parser"


class Untranslatable(Exception):
    pass


def _cls(tree: ast.Module, name: str) -> ast.ClassDef:
    for n in tree.body:
        if isinstance(n, ast.ClassDef) and n.name == name:
            return n
    raise Untranslatable(f"class {name} not found")


def _const_str(n) -> str:
    if isinstance(n, ast.Constant) and isinstance(n.value, str):
        return n.value
    raise Untranslatable(f"expected a string constant, got {ast.dump(n)[:80]}")


def _coq_str(s: str) -> str:
    for ch in s:
        if not (32 <= ord(ch) < 127):
            raise Untranslatable(f"non-printable character {ord(ch)} in {s!r}")
    return '"' + s.replace('"', '""') + '"'


def _coq_list(items) -> str:
    return "[" + "; ".join(items) + "]"


def _verbose_normalise(rx: str) -> str:
    """What re.VERBOSE does to a pattern: drop unescaped whitespace and #-comments outside character classes."""
    out, i, in_class = [], 0, False
    while i < len(rx):
        c = rx[i]
        if c == "\\":
            if i + 1 >= len(rx):
                raise Untranslatable("dangling backslash in regex")
            out.append(rx[i:i + 2])
            i += 2
            continue
        if in_class:
            out.append(c)
            if c == "]":
                in_class = False
            i += 1
            continue
        if c == "[":
            in_class = True
            out.append(c)
        elif c in " \t\n\r\f\v":
            pass
        elif c == "#":
            while i < len(rx) and rx[i] != "\n":
                i += 1
            continue
        else:
            out.append(c)
        i += 1
    return "".join(out)


def _module_string_constants(tree: ast.Module) -> dict:
    consts = {}
    for n in tree.body:
        if isinstance(n, ast.Assign) and len(n.targets) == 1 and isinstance(n.targets[0], ast.Name) \
                and isinstance(n.value, ast.Constant) and isinstance(n.value.value, str):
            consts[n.targets[0].id] = n.value.value
    return consts


def read_lexer():
    src = (PARSER_DIR / "parserLex.py").read_text()
    tree = ast.parse(src)
    consts = _module_string_constants(tree)
    cls = _cls(tree, "ParserLex")
    reserved, tokens, str_rules, fn_rules, ignore, flags = None, None, [], [], None, None
    for n in cls.body:
        if isinstance(n, ast.Assign) and len(n.targets) == 1 and isinstance(n.targets[0], ast.Name):
            name = n.targets[0].id
            if name == "reserved":
                if not (isinstance(n.value, ast.Call) and isinstance(n.value.func, ast.Name) and n.value.func.id == "dict"
                        and not n.value.args):
                    raise Untranslatable("reserved is not dict(KEY='VALUE', ...)")
                reserved = [(k.arg, _const_str(k.value)) for k in n.value.keywords]
                if any(k is None for k, _ in reserved):
                    raise Untranslatable("reserved uses **kwargs")
            elif name == "tokens":
                v = n.value
                if not (isinstance(v, ast.BinOp) and isinstance(v.op, ast.Add) and isinstance(v.left, ast.Tuple)):
                    raise Untranslatable("tokens is not (<tuple>) + tuple(reserved.values())")
                r = v.right
                if not (isinstance(r, ast.Call) and isinstance(r.func, ast.Name) and r.func.id == "tuple"
                        and ast.unparse(r.args[0]) == "reserved.values()"):
                    raise Untranslatable("tokens tail is not tuple(reserved.values())")
                tokens = [_const_str(e) for e in v.left.elts]
            elif name == "t_ignore":
                ignore = _const_str(n.value)
            elif name.startswith("t_"):
                str_rules.append((name[2:], _const_str(n.value)))
            elif name == "literals":
                raise Untranslatable("lexer `literals` are not modelled")
        elif isinstance(n, ast.FunctionDef):
            if n.name == "make_lexer":
                kws = [s for s in ast.walk(n) if isinstance(s, ast.Call) and isinstance(s.func, ast.Name) and s.func.id == "dict"]
                if len(kws) != 1 or len(kws[0].keywords) != 1 or kws[0].keywords[0].arg != "reflags":
                    raise Untranslatable("make_lexer: expected kw = dict(reflags=...)")
                fl = ast.unparse(kws[0].keywords[0].value)
                parts = [p.strip() for p in fl.split("|")]
                if parts[0] != "reflags" or not all(re.fullmatch(r"re\.[A-Z]+", p) for p in parts[1:]):
                    raise Untranslatable(f"make_lexer flags not understood: {fl}")
                flags = sorted(p[3:] for p in parts[1:])
            elif n.name.startswith("t_") and n.name != "t_error":
                rx = None
                for d in n.decorator_list:
                    if isinstance(d, ast.Call) and ast.unparse(d.func) == "lex.TOKEN" and len(d.args) == 1:
                        a = d.args[0]
                        if isinstance(a, ast.Name) and a.id in consts:
                            rx = consts[a.id]
                        else:
                            rx = _const_str(a)
                    else:
                        raise Untranslatable(f"unsupported decorator on {n.name}")
                if rx is None:
                    doc = ast.get_docstring(n, clean=False)
                    if doc is None:
                        raise Untranslatable(f"{n.name} has no regex docstring")
                    rx = doc
                # (what the rule does with the value is covered by the correspondence run, not by the translator)
                body = [s for s in n.body if not (isinstance(s, ast.Expr) and isinstance(s.value, ast.Constant))]
                fn_rules.append((n.lineno, n.name[2:], rx, " ; ".join(ast.unparse(s).replace("\n", " ") for s in body)))
    if reserved is None or tokens is None or ignore is None or flags is None:
        raise Untranslatable("reserved / tokens / t_ignore / make_lexer flags missing")
    if "VERBOSE" not in flags:
        raise Untranslatable("lexer no longer uses re.VERBOSE; normalisation would be wrong")
    fn_rules.sort()
    # PLY: string rules are collected in dir() (alphabetical) order and stably sorted by decreasing regex length
    str_sorted = sorted(sorted(str_rules), key=lambda x: len(x[1]), reverse=True)
    rules = [(nm, _verbose_normalise(rx)) for _, nm, rx, _ in fn_rules] + [(nm, _verbose_normalise(rx)) for nm, rx in str_sorted]
    actions = [(nm, re.sub(r"\s+", " ", body)) for _, nm, _, body in fn_rules]
    return {"reserved": reserved, "tokens": tokens + [v for _, v in reserved], "ignore": ignore, "flags": flags,
            "rules": rules, "actions": actions}


def read_yacc():
    src = (PARSER_DIR / "parserYacc.py").read_text()
    tree = ast.parse(src)
    cls = _cls(tree, "ParserYacc")
    precedence, prods, actions = None, [], []
    for n in cls.body:
        if isinstance(n, ast.Assign) and len(n.targets) == 1 and isinstance(n.targets[0], ast.Name) \
                and n.targets[0].id == "precedence":
            if not isinstance(n.value, ast.Tuple):
                raise Untranslatable("precedence is not a tuple")
            precedence = []
            for row in n.value.elts:
                if not isinstance(row, ast.Tuple) or len(row.elts) < 2:
                    raise Untranslatable("precedence row is not a tuple (assoc, TOKEN, ...)")
                vals = [_const_str(e) for e in row.elts]
                if vals[0] not in ("left", "right", "nonassoc"):
                    raise Untranslatable(f"unknown associativity {vals[0]}")
                precedence.append((vals[0], vals[1:]))
        elif isinstance(n, ast.FunctionDef) and n.name.startswith("p_") and n.name != "p_error":
            doc = ast.get_docstring(n, clean=False)
            if doc is None:
                raise Untranslatable(f"{n.name} has no grammar docstring")
            lhs = None
            for line in doc.splitlines():
                ws = line.split()
                if not ws:
                    continue
                if len(ws) >= 2 and ws[1] in (":", "::="):
                    lhs, rhs = ws[0], ws[2:]
                elif ws[0] == "|":
                    if lhs is None:
                        raise Untranslatable(f"{n.name}: '|' before any rule")
                    rhs = ws[1:]
                elif len(ws) == 1 and ws[0].endswith(":"):
                    lhs, rhs = ws[0][:-1], []
                else:
                    raise Untranslatable(f"{n.name}: cannot read grammar line {line!r}")
                prods.append((n.lineno, lhs, rhs))
            body = [s for s in n.body if not (isinstance(s, ast.Expr) and isinstance(s.value, ast.Constant))]
            actions.append((n.lineno, n.name[2:], re.sub(r"\s+", " ", " ; ".join(ast.unparse(s) for s in body))))
    if precedence is None or not prods:
        raise Untranslatable("precedence tuple or productions missing")
    prods.sort(key=lambda x: x[0])  # PLY orders grammar functions by line number
    actions.sort()
    return {"precedence": precedence, "productions": [(l, r) for _, l, r in prods], "actions": [(a, b) for _, a, b in actions]}


def _short_hash(s: str) -> str:
    import hashlib
    return hashlib.sha1(s.encode()).hexdigest()[:16]


def translate() -> dict:
    lx, yc = read_lexer(), read_yacc()
    assoc = {"left": "ALeft", "right": "ARight", "nonassoc": "ANon"}
    L = []
    L.append("(* GENERATED by harness/translators/grammar.py from parserYacc.py / parserLex.py -- do not edit, never committed *)")
    L.append("From Coq Require Import List String.")
    L.append("Import ListNotations.")
    L.append("Open Scope string_scope.")
    L.append("Inductive assoc := ALeft | ARight | ANon.")
    L.append("(* ParserYacc.precedence, lowest binding power first *)")
    L.append("Definition precedence : list (assoc * list string) :=\n  " + _coq_list(
        f"({assoc[a]}, {_coq_list(_coq_str(t) for t in toks)})" for a, toks in yc["precedence"]) + ".")
    L.append("(* grammar productions in PLY's order: (lhs, rhs symbols; %prec kept as two symbols) *)")
    L.append("Definition productions : list (string * list string) :=\n  [" + ";\n   ".join(
        f"({_coq_str(l)}, {_coq_list(_coq_str(x) for x in r)})" for l, r in yc["productions"]) + "].")
    L.append("Definition reserved : list (string * string) :=\n  " + _coq_list(
        f"({_coq_str(k)}, {_coq_str(v)})" for k, v in lx["reserved"]) + ".")
    L.append("Definition tokens : list string :=\n  " + _coq_list(_coq_str(t) for t in lx["tokens"]) + ".")
    L.append("(* lexer rules in master-regex order, regexes as re.VERBOSE reads them *)")
    L.append("Definition lex_rules : list (string * string) :=\n  [" + ";\n   ".join(
        f"({_coq_str(n)}, {_coq_str(r)})" for n, r in lx["rules"]) + "].")
    L.append("Definition lex_ignore : string := " + _coq_str(lx["ignore"].replace("\t", "\\t")) + ".")
    L.append("Definition lex_flags : list string := " + _coq_list(_coq_str(f) for f in lx["flags"]) + ".")
    return {"Gen/GrammarGen.v": "\n".join(L) + "\n"}


if __name__ == "__main__":
    print(translate()["Gen/GrammarGen.v"])
