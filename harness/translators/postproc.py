"""Translator (tie T) for C16: regenerate coq/Gen/PostprocGen.v from the *current* body of
`Postprocessing.apply` (python/lsst/daf/butler/direct_query_driver/_postprocessing.py): the post-query limit
counter that is shared by all raw pages of one query, and where the row filter sits relative to it.

Fail-closed: any construct outside the subset below raises `Untranslatable`.

apply(self, rows)  -- a generator
    [docstring]
    if <btest>: yield from rows; return            btest over `self` (truthiness) and self.check_validity_match_count
    pre*                                           counter statements and opaque statements
    for row in rows:
        A*  filter+  B*  `yield row`  C*           A, B, C: counter statements;  filter: `if <opaque test>: continue`
    post*                                          counter statements and opaque statements

counter variables: `self._limit` and AT MOST ONE local name (any name that shares an assignment with a counter
variable); all hold `int | None`.
counter statement ::= VAR = cexpr | VAR -= INT | VAR += INT | return | break (loop only) | pass
                    | if ctest: block [elif ...] [else: block]
cexpr ::= VAR | INT | None | VAR + INT | VAR - INT        (arithmetic only where VAR is known not to be None)
ctest ::= VAR == INT | VAR != INT | VAR is None | VAR is not None | VAR | VAR < <= > >= INT (VAR known not None)
        | not ctest | ctest and ctest | ctest or ctest
opaque statement: does not mention a counter variable, `self` only as self.<spatial_* | check_validity_match_count |
    VALIDITY_MATCH_COUNT>, no yield / return / break / try / del / global, does not rebind `rows` / `row`;
    `continue` only as the filter shape above.  The filter's test is the model's abstract `keep` predicate
    (a row passes iff no filter test is true); the CalibrationLookupError check is outside the model.

Generated (state s = (self._limit, local), flow = Fall | Ret | Brk, see coq/Model/PagingPPBase.v):
    pp_inactive t c : bool        pp_pre  pp_row_start (A)  pp_before_yield (B)  pp_yielded (C)  pp_post : ppstate -> flow
The hand-written skeleton coq/Model/PagingPP.v runs them in the order the generator does.

Also pinned (exact text modulo formatting/comments; these are what the skeleton takes for granted):
    Postprocessing.limit getter / setter, _Cursor.next, DirectQueryDriver._read_results.
"""
from __future__ import annotations

import ast

from harness.common import PKG


class Untranslatable(Exception):
    pass


OPAQUE_SELF_ATTRS = {"spatial_join_filtering", "spatial_where_filtering", "spatial_expression_filtering",
                     "check_validity_match_count", "VALIDITY_MATCH_COUNT"}
FORBIDDEN_NAMES = {"setattr", "getattr", "delattr", "vars", "locals", "globals", "exec", "eval", "super", "object", "type"}

PINS = {
    ("_postprocessing.py", "Postprocessing", "limit", 0): "return self._limit",
    ("_postprocessing.py", "Postprocessing", "limit", 1):
        "if value and (not self):\n    raise RuntimeError(\"Postprocessing should only implement 'limit' if it needs to do spatial filtering.\")\n"
        "self._limit = value",
    ("_driver.py", "_Cursor", "next", 0):
        "if self._closed:\n    raise RuntimeError('Cannot continue query result iteration: cursor has been closed')\n"
        "try:\n    raw_page = next(self._iterator, None)\n    if raw_page is None:\n        self.close()\n        return None\n"
        "    postprocessed_rows = self._postprocessing.apply(raw_page)\n    return self._page_converter.convert(postprocessed_rows)\n"
        "except BaseException:\n    self.close(*sys.exc_info())\n    raise",
    ("_driver.py", "DirectQueryDriver", "_read_results", 0):
        "try:\n    while (result_page := cursor.next()) is not None:\n        yield result_page\n"
        "finally:\n    self._cursors.discard(cursor)\n    cursor.close()",
}


def _strip_doc(body):
    if body and isinstance(body[0], ast.Expr) and isinstance(body[0].value, ast.Constant) and isinstance(body[0].value.value, str):
        return body[1:]
    return body


def _methods(tree: ast.Module, cls: str, name: str):
    out = []
    for node in tree.body:
        if isinstance(node, ast.ClassDef) and node.name == cls:
            out += [f for f in node.body if isinstance(f, ast.FunctionDef) and f.name == name]
    if not out:
        raise Untranslatable(f"{cls}.{name} not found")
    return out


def _is_limit(n) -> bool:
    return isinstance(n, ast.Attribute) and n.attr == "_limit" and isinstance(n.value, ast.Name) and n.value.id == "self"


def _is_int(n) -> bool:
    return isinstance(n, ast.Constant) and type(n.value) is int


def _is_none(n) -> bool:
    return isinstance(n, ast.Constant) and n.value is None


def _neg_int(n):
    """INT or -INT -> python int, else None"""
    if _is_int(n):
        return n.value
    if isinstance(n, ast.UnaryOp) and isinstance(n.op, ast.USub) and _is_int(n.operand):
        return -n.operand.value
    return None


def cz(k: int) -> str:
    return f"({k})" if k < 0 else str(k)


class Apply:
    def __init__(self, fn: ast.FunctionDef):
        self.fn = fn
        a = fn.args
        if not ([x.arg for x in a.args] == ["self", "rows"] and not a.posonlyargs and not a.kwonlyargs and a.vararg is None and a.kwarg is None):
            raise Untranslatable("apply: signature must be (self, rows)")
        self.locals = self._counter_locals()
        if len(self.locals) > 1:
            raise Untranslatable(f"apply: more than one local counter variable: {sorted(self.locals)}")
        self.local = next(iter(self.locals), None)

    # ---- classification ------------------------------------------------------------------------------
    def _counter_locals(self) -> set:
        L: set = set()
        changed = True
        while changed:
            changed = False
            for n in ast.walk(self.fn):
                if isinstance(n, (ast.Assign, ast.AugAssign, ast.AnnAssign, ast.NamedExpr)):
                    names = {x.id for x in ast.walk(n) if isinstance(x, ast.Name)} - {"self"}
                    if any(_is_limit(x) for x in ast.walk(n)) or names & L:
                        if not names <= L:
                            L |= names
                            changed = True
        return L

    def is_counter(self, s) -> bool:
        for x in ast.walk(s):
            if _is_limit(x) or (isinstance(x, ast.Name) and x.id in self.locals):
                return True
            if isinstance(x, ast.Attribute) and x.attr == "limit" and isinstance(x.value, ast.Name) and x.value.id == "self":
                raise Untranslatable("apply: uses the `limit` property instead of self._limit")
        return False

    @staticmethod
    def has_continue(s) -> bool:
        def walk(n, top):
            if isinstance(n, ast.Continue):
                return True
            if not top and isinstance(n, (ast.For, ast.While, ast.AsyncFor)):
                return False
            return any(walk(c, False) for c in ast.iter_child_nodes(n))
        return walk(s, True)

    def check_opaque(self, s, what: str):
        """statement that must not influence the counter, the set of yielded rows or control flow"""
        ok_self = set()
        for x in ast.walk(s):
            if isinstance(x, ast.Attribute) and isinstance(x.value, ast.Name) and x.value.id == "self" and x.attr in OPAQUE_SELF_ATTRS \
                    and isinstance(x.ctx, ast.Load):
                ok_self.add(id(x.value))
        for x in ast.walk(s):
            if isinstance(x, (ast.Yield, ast.YieldFrom, ast.Return, ast.Break, ast.Continue, ast.Global, ast.Nonlocal, ast.Delete, ast.Try,
                              ast.Await, ast.FunctionDef, ast.AsyncFunctionDef, ast.ClassDef, ast.With, ast.AsyncWith)) \
                    or type(x).__name__ in ("TryStar", "Match"):
                raise Untranslatable(f"apply: {type(x).__name__} inside {what}: {ast.unparse(s)[:100]}")
            if isinstance(x, ast.Name):
                if x.id == "self" and id(x) not in ok_self:
                    raise Untranslatable(f"apply: `self` used outside the read-only filter attributes in {what}: {ast.unparse(s)[:100]}")
                if x.id in FORBIDDEN_NAMES:
                    raise Untranslatable(f"apply: {x.id} in {what}")
                if x.id in ("rows", "row") and not isinstance(x.ctx, ast.Load):
                    raise Untranslatable(f"apply: {what} rebinds `{x.id}`")
            if isinstance(x, ast.Attribute) and x.attr.startswith("__"):
                raise Untranslatable(f"apply: dunder attribute {x.attr} in {what}")

    # ---- counter expressions ---------------------------------------------------------------------------
    def var_of(self, n):
        if _is_limit(n):
            return "sl"
        if isinstance(n, ast.Name) and n.id == self.local:
            return "lc"
        return None

    @staticmethod
    def rd(var: str) -> str:
        return "(fst s)" if var == "sl" else "(snd s)"

    def expr(self, n, known):
        """-> (gallina : option Z, value is certainly an int)"""
        v = self.var_of(n)
        if v:
            return self.rd(v), v in known
        if _neg_int(n) is not None:
            return f"(Some {cz(_neg_int(n))})", True
        if _is_none(n):
            return "(@None Z)", False
        if isinstance(n, ast.BinOp) and isinstance(n.op, (ast.Add, ast.Sub)) and self.var_of(n.left) and _is_int(n.right):
            v = self.var_of(n.left)
            if v not in known:
                raise Untranslatable(f"apply: arithmetic on a counter that may be None: {ast.unparse(n)}")
            k = n.right.value if isinstance(n.op, ast.Add) else -n.right.value
            return f"(oz_add {self.rd(v)} {cz(k)})", True
        raise Untranslatable(f"apply: unsupported counter expression {ast.unparse(n)}")

    def test(self, n, known):
        """-> (gallina : bool, vars known not None when true, vars known not None when false)"""
        v = self.var_of(n)
        if v:
            return f"(oz_truthy {self.rd(v)})", {v}, set()
        if isinstance(n, ast.UnaryOp) and isinstance(n.op, ast.Not):
            c, t, f = self.test(n.operand, known)
            return f"(negb {c})", f, t
        if isinstance(n, ast.BoolOp):
            is_and = isinstance(n.op, ast.And)
            parts, acc = [], set()
            for sub in n.values:
                c, t, f = self.test(sub, known | acc)
                parts.append(c)
                acc |= t if is_and else f
            g = "(" + (" && " if is_and else " || ").join(parts) + ")"
            return (g, acc, set()) if is_and else (g, set(), acc)
        if isinstance(n, ast.Compare) and len(n.ops) == 1 and self.var_of(n.left):
            v, op, r = self.var_of(n.left), n.ops[0], n.comparators[0]
            a = self.rd(v)
            if _is_none(r) and isinstance(op, (ast.Is, ast.Eq)):
                return f"(oz_none {a})", set(), {v}
            if _is_none(r) and isinstance(op, (ast.IsNot, ast.NotEq)):
                return f"(negb (oz_none {a}))", {v}, set()
            k = _neg_int(r)
            if k is not None:
                if isinstance(op, ast.Eq):
                    return f"(oz_eqb {a} {cz(k)})", {v}, set()
                if isinstance(op, ast.NotEq):
                    return f"(negb (oz_eqb {a} {cz(k)}))", set(), {v}
                fn = {ast.Lt: "oz_ltb", ast.LtE: "oz_leb", ast.Gt: "oz_gtb", ast.GtE: "oz_geb"}.get(type(op))
                if fn:
                    if v not in known:
                        raise Untranslatable(f"apply: ordered comparison of a counter that may be None: {ast.unparse(n)}")
                    return f"({fn} {a} {cz(k)})", set(), set()
        raise Untranslatable(f"apply: unsupported counter test {ast.unparse(n)}")

    # ---- counter blocks --------------------------------------------------------------------------------
    def block(self, stmts, known, in_loop):
        """-> (gallina : flow over the state variable s, vars known not None on fall-through | None if it never falls through)"""
        if not stmts:
            return "Fall s", set(known)
        s, rest = stmts[0], stmts[1:]
        if isinstance(s, ast.Pass):
            return self.block(rest, known, in_loop)
        if not isinstance(s, (ast.Return, ast.Break)) and not self.is_counter(s):
            self.check_opaque(s, "a statement between counter statements")
            return self.block(rest, known, in_loop)
        if isinstance(s, (ast.Return, ast.Break)):
            if isinstance(s, ast.Return) and s.value is not None:
                raise Untranslatable("apply: return with a value")
            if isinstance(s, ast.Break) and not in_loop:
                raise Untranslatable("apply: break outside the row loop")
            if rest:
                raise Untranslatable(f"apply: statements after {type(s).__name__.lower()}")
            return ("Ret s" if isinstance(s, ast.Return) else "Brk s"), None
        if isinstance(s, (ast.Assign, ast.AnnAssign, ast.AugAssign)):
            if isinstance(s, ast.Assign):
                if len(s.targets) != 1:
                    raise Untranslatable(f"apply: chained assignment {ast.unparse(s)}")
                tgt, val = s.targets[0], s.value
            elif isinstance(s, ast.AnnAssign):
                if s.value is None:
                    return self.block(rest, known, in_loop)
                tgt, val = s.target, s.value
            else:
                if not isinstance(s.op, (ast.Add, ast.Sub)) or not _is_int(s.value):
                    raise Untranslatable(f"apply: unsupported augmented assignment {ast.unparse(s)}")
                tgt = s.target
                load = ast.Attribute(value=ast.Name(id="self", ctx=ast.Load()), attr="_limit", ctx=ast.Load()) if _is_limit(tgt) \
                    else ast.Name(id=getattr(tgt, "id", "?"), ctx=ast.Load())
                val = ast.BinOp(left=load, op=s.op, right=s.value)
            v = self.var_of(tgt)
            if not v:
                raise Untranslatable(f"apply: assignment to something that is not a counter variable: {ast.unparse(s)}")
            e, isint = self.expr(val, known)
            k2 = (set(known) - {v}) | ({v} if isint else set())
            t, ka = self.block(rest, k2, in_loop)
            return f"(let s := set_{v} {e} s in {t})", ka
        if isinstance(s, ast.If):
            c, kt, kf = self.test(s.test, known)
            ta, ka = self.block(s.body, set(known) | kt, in_loop)
            tb, kb = self.block(s.orelse, set(known) | kf, in_loop)
            ite = f"(if {c} then {ta} else {tb})"
            falls = [k for k in (ka, kb) if k is not None]
            if not falls:
                if rest:
                    raise Untranslatable("apply: statements after an if whose branches all leave")
                return ite, None
            kafter = set.intersection(*falls)
            if not rest:
                return ite, kafter
            tr, kr = self.block(rest, kafter, in_loop)
            return f"(bindf {ite} (fun s => {tr}))", kr
        raise Untranslatable(f"apply: unsupported counter statement {ast.unparse(s)[:100]}")

    # ---- the inactive pass-through test ----------------------------------------------------------------
    def btest(self, n) -> str:
        if isinstance(n, ast.Name) and n.id == "self":
            return "t"
        if isinstance(n, ast.Attribute) and n.attr == "check_validity_match_count" and isinstance(n.value, ast.Name) and n.value.id == "self":
            return "c"
        if isinstance(n, ast.UnaryOp) and isinstance(n.op, ast.Not):
            return f"(negb {self.btest(n.operand)})"
        if isinstance(n, ast.BoolOp):
            return "(" + (" && " if isinstance(n.op, ast.And) else " || ").join(self.btest(v) for v in n.values) + ")"
        raise Untranslatable(f"apply: unsupported pass-through test {ast.unparse(n)}")

    # ---- whole function --------------------------------------------------------------------------------
    def translate(self) -> dict:
        body = _strip_doc(self.fn.body)
        ys = [x for x in ast.walk(self.fn) if isinstance(x, (ast.Yield, ast.YieldFrom))]
        if len(ys) != 2:
            raise Untranslatable(f"apply: expected exactly one `yield from rows` and one `yield row`, found {len(ys)} yields")
        if not body or not isinstance(body[0], ast.If) or body[0].orelse \
                or [ast.unparse(x) for x in body[0].body] != ["yield from rows", "return"]:
            raise Untranslatable("apply: must start with `if <test>: yield from rows; return`")
        inactive = self.btest(body[0].test)
        loops = [i for i, s in enumerate(body) if isinstance(s, (ast.For, ast.While, ast.AsyncFor))]
        if len(loops) != 1 or not isinstance(body[loops[0]], ast.For):
            raise Untranslatable("apply: expected exactly one top-level `for row in rows:` loop")
        loop = body[loops[0]]
        if not (isinstance(loop.target, ast.Name) and loop.target.id == "row" and isinstance(loop.iter, ast.Name) and loop.iter.id == "rows"
                and not loop.orelse):
            raise Untranslatable(f"apply: unsupported loop header `for {ast.unparse(loop.target)} in {ast.unparse(loop.iter)}`")
        pre, post = body[1:loops[0]], body[loops[0] + 1:]
        # the local counter, if any, must be bound by a plain top-level assignment before anything reads it
        if self.local:
            first = next((s for s in pre if any(isinstance(x, ast.Name) and x.id == self.local for x in ast.walk(s))), None)
            ok = (isinstance(first, ast.Assign) and len(first.targets) == 1 and isinstance(first.targets[0], ast.Name)
                  and first.targets[0].id == self.local
                  and not any(isinstance(x, ast.Name) and x.id == self.local for x in ast.walk(first.value)))
            if not ok:
                raise Untranslatable(f"apply: local counter `{self.local}` is not bound by a top-level assignment before the loop")
        # loop body: A* filter+ B* yield C*
        lb = loop.body
        yi = [i for i, s in enumerate(lb) if isinstance(s, ast.Expr) and isinstance(s.value, ast.Yield)]
        if len(yi) != 1 or ast.unparse(lb[yi[0]]) != "yield row":
            raise Untranslatable("apply: the loop body must contain exactly one top-level `yield row`")
        yi = yi[0]
        filt = []
        for i, s in enumerate(lb):
            if i == yi or self.is_counter(s):
                if i != yi and self.has_continue(s):
                    raise Untranslatable("apply: `continue` inside a counter statement")
                continue
            if self.has_continue(s):
                if not (isinstance(s, ast.If) and not s.orelse and len(s.body) == 1 and isinstance(s.body[0], ast.Continue)):
                    raise Untranslatable(f"apply: row filter is not of the shape `if <test>: continue`: {ast.unparse(s)[:100]}")
                self.check_opaque(s.test, "the row filter test")
                if i > yi:
                    raise Untranslatable("apply: row filter after the yield")
                filt.append(i)
            else:
                self.check_opaque(s, "an opaque loop statement")
        if not filt:
            raise Untranslatable("apply: the row filter (`if <test>: continue`) is missing")
        cnt = [i for i, s in enumerate(lb) if i != yi and self.is_counter(s)]
        if any(filt[0] < i < filt[-1] for i in cnt):
            raise Untranslatable("apply: counter statement between two row filters")
        seg_a = [lb[i] for i in cnt if i < filt[0]]
        seg_b = [lb[i] for i in cnt if filt[-1] < i < yi]
        seg_c = [lb[i] for i in cnt if i > yi]
        for s in pre + post:
            if not self.is_counter(s):
                self.check_opaque(s, "a statement outside the loop")
        t_pre, _ = self.block([s for s in pre if self.is_counter(s)], set(), False)
        t_a, ka = self.block(seg_a, set(), True)
        t_b, kb = self.block(seg_b, ka or set(), True)
        t_c, _ = self.block(seg_c, kb or set(), True)
        t_post, _ = self.block([s for s in post if self.is_counter(s)], set(), False)
        filters = "; ".join(" ".join(ast.unparse(lb[i].test).split()) for i in filt)
        out = [
            "(* GENERATED by harness/translators/postproc.py from /repo's working tree -- do not edit, do not commit *)",
            "From Coq Require Import ZArith Bool.",
            "From V Require Import Model.PagingPPBase.",
            "Open Scope Z_scope.",
            f"(* Postprocessing.apply, line {self.fn.lineno}.  state s = (self._limit, {self.local or '<no local counter>'}) *)",
            f"(* row filter (abstract `keep` of the model; a row passes iff the test is false): {filters[:600].replace('*)', '* )')} *)",
            "(* pass-through: t = bool(self), c = self.check_validity_match_count *)",
            f"Definition pp_inactive (t c : bool) : bool := {inactive}.",
            "(* between the pass-through test and the row loop; Ret = the generator ends without looking at a row *)",
            f"Definition pp_pre (s : ppstate) : flow := {t_pre}.",
            "(* loop body, before the row filter: runs for every raw row *)",
            f"Definition pp_row_start (s : ppstate) : flow := {t_a}.",
            "(* loop body, after the row filter and before `yield row`: runs for every passing row *)",
            f"Definition pp_before_yield (s : ppstate) : flow := {t_b}.",
            "(* loop body, after `yield row` *)",
            f"Definition pp_yielded (s : ppstate) : flow := {t_c}.",
            "(* after the loop (only reached when the loop ends or breaks, not on return) *)",
            f"Definition pp_post (s : ppstate) : flow := {t_post}.",
        ]
        return {"Gen/PostprocGen.v": "\n".join(out) + "\n"}


def _check_pins():
    trees = {}
    for (fname, cls, meth, idx), want in PINS.items():
        if fname not in trees:
            trees[fname] = ast.parse((PKG / "direct_query_driver" / fname).read_text())
        fns = _methods(trees[fname], cls, meth)
        if idx >= len(fns):
            raise Untranslatable(f"{cls}.{meth}[{idx}] not found")
        got = "\n".join(ast.unparse(s) for s in _strip_doc(fns[idx].body))
        if got != ast.unparse(ast.parse(want)):
            raise Untranslatable(f"{cls}.{meth} differs from the pinned text the page-loop skeleton relies on:\n{got[:400]}")


def translate() -> dict:
    _check_pins()
    tree = ast.parse((PKG / "direct_query_driver" / "_postprocessing.py").read_text())
    fns = _methods(tree, "Postprocessing", "apply")
    if len(fns) != 1:
        raise Untranslatable("Postprocessing.apply defined more than once")
    return Apply(fns[0]).translate()


if __name__ == "__main__":
    for k, v in translate().items():
        print(v)
