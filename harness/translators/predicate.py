"""Translator (tie T) for C15: regenerate coq/Gen/PredGen.v from the *current* bodies of

    Predicate._impl_and / _impl_or / from_bool / logical_and / logical_or / logical_not
    PredicateLeafBase.invert / LogicalNot.invert

in python/lsst/daf/butler/queries/tree/_predicate.py.  Props/C15.v states its new-query-system theorems over
the generated `py_*` definitions, so a semantic edit of one of these methods breaks a proof on the next run.

Fail-closed: anything outside the subset below raises `Untranslatable`.

  value types   operands tuple -> cnf = list (list lit);  or-group -> list lit;  leaf -> lit;  bool
  expr  ::= name | self.operands | <loopvar over *args>.operands | () | (e, ...) | e + e
          | e if c else e | not c | all(e) | any(e) | p is q | p is not q   (p, q the two parameters)
          | tuple([e for x, y in itertools.product(e, e)])  (list or generator form)
          | self|cls|Predicate._impl_and(e, e) | ..._impl_or(e, e) | <name>.invert() | True | False
  stmt  ::= docstring | name [: ann] = e | for x in e: stmt+ | if c: name = e
          | return e | return cls|Predicate.model_construct(operands=e)
  A `for` loop must update exactly one variable that is live before the loop (the accumulator); it becomes
  fold_left.  An `if` without else must re-assign exactly one already-bound variable.

Object identity (`a is b` in _impl_and) is not a function of the values: it becomes an explicit boolean
parameter `same_a_b`, supplied at each call site as
  * the flag carried by the element of *args when the second argument is `<arg>.operands`,
  * `false` when the second argument is a tuple display containing a call (a freshly built object).
"""
from __future__ import annotations

import ast

from harness.common import PKG


class Untranslatable(Exception):
    pass


SRC = "queries/tree/_predicate.py"


def _find_method(tree: ast.Module, cls: str, name: str) -> ast.FunctionDef:
    for node in tree.body:
        if isinstance(node, ast.ClassDef) and node.name == cls:
            for f in node.body:
                if isinstance(f, ast.FunctionDef) and f.name == name:
                    return f
    raise Untranslatable(f"{cls}.{name} not found")


def _strip_doc(body):
    if body and isinstance(body[0], ast.Expr) and isinstance(body[0].value, ast.Constant) and isinstance(body[0].value.value, str):
        return body[1:]
    return body


def _has_call(n) -> bool:
    return any(isinstance(x, ast.Call) for x in ast.walk(n))


class Fn:
    """One method body -> one Gallina term."""

    def __init__(self, name, params, vararg=None, selfname=None):
        self.name = name
        self.params = params          # value parameters (Gallina binders)
        self.vararg = vararg          # name of *args or None
        self.selfname = selfname      # 'self' when it denotes a Predicate (its .operands is the value `self`)
        self.bound = set(params) | ({selfname} if selfname else set()) | ({vararg} if vararg else set())
        self.loopvars_over_args = set()
        self.flagged_args = False     # elements of *args are (identity flag, operands) pairs

    # ---- expressions ---------------------------------------------------------------------------
    def expr(self, n) -> str:
        if isinstance(n, ast.Constant) and n.value is True:
            return "true"
        if isinstance(n, ast.Constant) and n.value is False:
            return "false"
        if isinstance(n, ast.Name):
            if n.id not in self.bound or n.id == self.vararg:
                raise Untranslatable(f"{self.name}: use of unbound or unsupported name {n.id}")
            if n.id == self.selfname:
                raise Untranslatable(f"{self.name}: bare use of self")
            return n.id
        if isinstance(n, ast.Attribute) and n.attr == "operands" and isinstance(n.value, ast.Name):
            if n.value.id == self.selfname:
                return "self"
            if n.value.id in self.loopvars_over_args:
                return f"(snd {n.value.id})" if self.flagged_args else n.value.id
            raise Untranslatable(f"{self.name}: .operands of {n.value.id}")
        if isinstance(n, ast.Tuple):
            return "[" + "; ".join(self.expr(e) for e in n.elts) + "]"
        if isinstance(n, ast.BinOp) and isinstance(n.op, ast.Add):
            return f"({self.expr(n.left)} ++ {self.expr(n.right)})"
        if isinstance(n, ast.IfExp):
            return f"(if {self.cond(n.test)} then {self.expr(n.body)} else {self.expr(n.orelse)})"
        if isinstance(n, ast.Call):
            return self.call(n)
        raise Untranslatable(f"{self.name}: unsupported expression {ast.dump(n)[:160]}")

    def cond(self, n) -> str:
        if isinstance(n, ast.UnaryOp) and isinstance(n.op, ast.Not):
            return f"(negb {self.cond(n.operand)})"
        if isinstance(n, ast.Compare) and len(n.ops) == 1 and isinstance(n.ops[0], (ast.Is, ast.IsNot)):
            l, r = n.left, n.comparators[0]
            if not (isinstance(l, ast.Name) and isinstance(r, ast.Name) and {l.id, r.id} == set(self.params[-2:])
                    and len(self.params) >= 3 and self.params[0] == "same_a_b"):
                raise Untranslatable(f"{self.name}: identity test on something other than the two operand parameters")
            return "same_a_b" if isinstance(n.ops[0], ast.Is) else "(negb same_a_b)"
        if isinstance(n, ast.Call) and isinstance(n.func, ast.Name) and n.func.id in ("all", "any") and len(n.args) == 1 and not n.keywords:
            return f"(py_{n.func.id} {self.expr(n.args[0])})"
        if isinstance(n, ast.Name):
            # truthiness of a bool parameter only
            if n.id in self.params and n.id == "value":
                return n.id
        raise Untranslatable(f"{self.name}: unsupported condition {ast.dump(n)[:160]}")

    def call(self, n: ast.Call) -> str:
        f = n.func
        if n.keywords:
            raise Untranslatable(f"{self.name}: keyword arguments in {ast.dump(n)[:100]}")
        # tuple([... for x, y in itertools.product(a, b)])
        if isinstance(f, ast.Name) and f.id == "tuple" and len(n.args) == 1 and isinstance(n.args[0], (ast.ListComp, ast.GeneratorExp)):
            c = n.args[0]
            if len(c.generators) != 1 or c.generators[0].ifs or c.generators[0].is_async:
                raise Untranslatable(f"{self.name}: comprehension shape")
            g = c.generators[0]
            it = g.iter
            if not (isinstance(it, ast.Call) and isinstance(it.func, ast.Attribute) and it.func.attr == "product"
                    and isinstance(it.func.value, ast.Name) and it.func.value.id == "itertools" and len(it.args) == 2
                    and not it.keywords):
                raise Untranslatable(f"{self.name}: comprehension must iterate over itertools.product(x, y)")
            if not (isinstance(g.target, ast.Tuple) and len(g.target.elts) == 2 and all(isinstance(e, ast.Name) for e in g.target.elts)):
                raise Untranslatable(f"{self.name}: comprehension target must be a pair of names")
            x, y = (e.id for e in g.target.elts)
            if x == y:
                raise Untranslatable(f"{self.name}: repeated comprehension variable")
            a, b = self.expr(it.args[0]), self.expr(it.args[1])
            saved = set(self.bound)
            self.bound |= {x, y}
            body = self.expr(c.elt)
            self.bound = saved
            return f"(map (fun '({x}, {y}) => {body}) (list_prod {a} {b}))"
        if isinstance(f, ast.Attribute) and isinstance(f.value, ast.Name):
            who, meth = f.value.id, f.attr
            if who in ("self", "cls", "Predicate") and meth == "_impl_or" and len(n.args) == 2:
                return f"(py_impl_or {self.expr(n.args[0])} {self.expr(n.args[1])})"
            if who in ("self", "cls", "Predicate") and meth == "_impl_and" and len(n.args) == 2:
                a, b = n.args
                if isinstance(b, ast.Attribute) and b.attr == "operands" and isinstance(b.value, ast.Name) \
                        and b.value.id in self.loopvars_over_args and self.flagged_args:
                    flag = f"(fst {b.value.id})"
                elif isinstance(b, ast.Tuple) and b.elts and _has_call(b):
                    flag = "false"
                else:
                    raise Untranslatable(f"{self.name}: cannot decide object identity of the operands of _impl_and "
                                         f"in {ast.unparse(n)}")
                return f"(py_impl_and {flag} {self.expr(a)} {self.expr(b)})"
            if meth == "invert" and not n.args and who in self.bound and who not in (self.selfname, self.vararg):
                return f"(py_invert {who})"
        raise Untranslatable(f"{self.name}: unsupported call {ast.unparse(n)[:120]}")

    # ---- statements ----------------------------------------------------------------------------
    @staticmethod
    def _assigned(stmts) -> list[str]:
        out = []
        for s in stmts:
            if isinstance(s, ast.Assign) and len(s.targets) == 1 and isinstance(s.targets[0], ast.Name):
                out.append(s.targets[0].id)
            elif isinstance(s, ast.AnnAssign) and isinstance(s.target, ast.Name):
                out.append(s.target.id)
            elif isinstance(s, ast.For):
                out += Fn._assigned(s.body)
            elif isinstance(s, ast.If):
                out += Fn._assigned(s.body) + Fn._assigned(s.orelse)
        return out

    def block(self, stmts, result: str | None) -> str:
        """Compile statements into nested lets ending in `result` (a variable) or in the return value."""
        stmts = _strip_doc(list(stmts))
        if not stmts:
            if result is None:
                raise Untranslatable(f"{self.name}: missing return")
            return result
        s, rest = stmts[0], stmts[1:]
        if isinstance(s, ast.Return):
            if rest or result is not None or s.value is None:
                raise Untranslatable(f"{self.name}: return in an unsupported position")
            v = s.value
            if isinstance(v, ast.Call) and isinstance(v.func, ast.Attribute) and v.func.attr == "model_construct":
                if not (isinstance(v.func.value, ast.Name) and v.func.value.id in ("cls", "Predicate") and not v.args
                        and len(v.keywords) == 1 and v.keywords[0].arg == "operands"):
                    raise Untranslatable(f"{self.name}: return must be Predicate.model_construct(operands=...)")
                return self.expr(v.keywords[0].value)
            return self.expr(v)
        if isinstance(s, (ast.Assign, ast.AnnAssign)):
            tgt = s.targets[0] if isinstance(s, ast.Assign) and len(s.targets) == 1 else getattr(s, "target", None)
            if not isinstance(tgt, ast.Name) or s.value is None:
                raise Untranslatable(f"{self.name}: unsupported assignment {ast.unparse(s)[:80]}")
            e = self.expr(s.value)
            self.bound.add(tgt.id)
            return f"let {tgt.id} := {e} in\n  {self.block(rest, result)}"
        if isinstance(s, ast.For):
            if s.orelse or not isinstance(s.target, ast.Name):
                raise Untranslatable(f"{self.name}: unsupported for-loop")
            x = s.target.id
            over_args = isinstance(s.iter, ast.Name) and s.iter.id == self.vararg
            it = self.vararg if over_args else self.expr(s.iter)
            accs = sorted({v for v in self._assigned(s.body) if v in self.bound})
            if len(accs) != 1 or x in self.bound:
                raise Untranslatable(f"{self.name}: loop must update exactly one live variable, found {accs}")
            acc = accs[0]
            saved = set(self.bound)
            self.bound.add(x)
            if over_args:
                self.loopvars_over_args.add(x)
            body = self.block(s.body, acc)
            self.loopvars_over_args.discard(x)
            self.bound = saved
            return (f"let {acc} := fold_left (fun {acc} {x} =>\n  {body}) {it} {acc} in\n  "
                    f"{self.block(rest, result)}")
        if isinstance(s, ast.If):
            if s.orelse:
                raise Untranslatable(f"{self.name}: if/else statement")
            names = self._assigned(s.body)
            if len(s.body) != 1 or len(names) != 1 or names[0] not in self.bound or isinstance(s.body[0], (ast.For, ast.If)):
                raise Untranslatable(f"{self.name}: `if` must re-assign exactly one bound variable")
            v = names[0]
            c = self.cond(s.test)
            e = self.expr(s.body[0].value)
            return f"let {v} := if {c} then {e} else {v} in\n  {self.block(rest, result)}"
        raise Untranslatable(f"{self.name}: unsupported statement {ast.unparse(s)[:100]}")


def _check_sig(f: ast.FunctionDef, first: str, names: list[str], vararg: bool, decorator: str | None):
    a = f.args
    got = [x.arg for x in a.args]
    if got != [first] + names or a.kwonlyargs or a.kwarg or a.defaults or a.posonlyargs or bool(a.vararg) != vararg:
        raise Untranslatable(f"{f.name}: unexpected signature {ast.unparse(a)}")
    decs = [ast.unparse(d) for d in f.decorator_list]
    if decs != ([decorator] if decorator else []):
        raise Untranslatable(f"{f.name}: unexpected decorators {decs}")


def _calls_impl_and(f: ast.FunctionDef) -> bool:
    return any(isinstance(x, ast.Call) and isinstance(x.func, ast.Attribute) and x.func.attr == "_impl_and" for x in ast.walk(f))


def _nary(tree, meth: str) -> str:
    f = _find_method(tree, "Predicate", meth)
    _check_sig(f, "self", [], True, None)
    va = f.args.vararg.arg
    fn = Fn(meth, [], vararg=va, selfname="self")
    fn.flagged_args = _calls_impl_and(f)
    ty = "list (bool * cnf)" if fn.flagged_args else "list cnf"
    return f"Definition py_{meth} (self : cnf) ({va} : {ty}) : cnf :=\n  {fn.block(f.body, None)}.", fn.flagged_args


def translate() -> dict:
    tree = ast.parse((PKG / SRC).read_text())
    out = [
        f"(* GENERATED by harness/translators/predicate.py from {SRC} of /repo's working tree -- do not edit *)",
        "From Coq Require Import NArith List Bool.",
        "From V Require Import Base.Tri Model.Pred.",
        "Import ListNotations.",
        "Open Scope list_scope.",
    ]
    # ---- leaf inversion: base class wraps in LogicalNot, LogicalNot unwraps
    inv = _find_method(tree, "PredicateLeafBase", "invert")
    b = _strip_doc(inv.body)
    ok = (len(b) == 1 and isinstance(b[0], ast.Return) and isinstance(b[0].value, ast.Call)
          and ast.unparse(b[0].value.func) == "LogicalNot.model_construct" and not b[0].value.args
          and len(b[0].value.keywords) == 1 and b[0].value.keywords[0].arg == "operand")
    if ok:
        v = b[0].value.keywords[0].value
        if isinstance(v, ast.Call) and ast.unparse(v.func) == "cast" and len(v.args) == 2:
            v = v.args[1]
        ok = isinstance(v, ast.Name) and v.id == "self"
    if not ok:
        raise Untranslatable("PredicateLeafBase.invert must be `return LogicalNot.model_construct(operand=self)`")
    inv2 = _find_method(tree, "LogicalNot", "invert")
    b2 = _strip_doc(inv2.body)
    if not (len(b2) == 1 and isinstance(b2[0], ast.Return) and ast.unparse(b2[0].value) == "self.operand"):
        raise Untranslatable("LogicalNot.invert must be `return self.operand`")
    # no other leaf class may override invert
    for node in tree.body:
        if isinstance(node, ast.ClassDef) and node.name not in ("PredicateLeafBase", "LogicalNot"):
            if any(isinstance(f, ast.FunctionDef) and f.name == "invert" for f in node.body):
                raise Untranslatable(f"{node.name} overrides invert")
    out.append("Definition py_invert (leaf : lit) : lit := match leaf with Pos a => Neg a | Neg a => Pos a end.")

    # ---- _impl_and / _impl_or
    f = _find_method(tree, "Predicate", "_impl_and")
    _check_sig(f, "cls", ["a", "b"], False, "classmethod")
    fn = Fn("_impl_and", ["same_a_b", "a", "b"])
    out.append(f"Definition py_impl_and (same_a_b : bool) (a b : cnf) : cnf :=\n  {fn.block(f.body, None)}.")
    f = _find_method(tree, "Predicate", "_impl_or")
    _check_sig(f, "cls", ["a", "b"], False, "classmethod")
    fn = Fn("_impl_or", ["a", "b"])
    out.append(f"Definition py_impl_or (a b : cnf) : cnf :=\n  {fn.block(f.body, None)}.")
    # ---- from_bool
    f = _find_method(tree, "Predicate", "from_bool")
    _check_sig(f, "cls", ["value"], False, "classmethod")
    fn = Fn("from_bool", ["value"])
    out.append(f"Definition py_from_bool (value : bool) : cnf :=\n  {fn.block(f.body, None)}.")
    # ---- logical_and / logical_or / logical_not
    d_and, fl_and = _nary(tree, "logical_and")
    d_or, fl_or = _nary(tree, "logical_or")
    out += [d_and, d_or]
    f = _find_method(tree, "Predicate", "logical_not")
    _check_sig(f, "self", [], False, None)
    fn = Fn("logical_not", [], selfname="self")
    out.append(f"Definition py_logical_not (self : cnf) : cnf :=\n  {fn.block(f.body, None)}.")
    # ---- _from_leaf / _from_or_group (atoms)
    f = _find_method(tree, "Predicate", "_from_leaf")
    b = _strip_doc(f.body)
    if not (len(b) == 1 and isinstance(b[0], ast.Return) and ast.unparse(b[0].value) == "cls._from_or_group((leaf,))"):
        raise Untranslatable("_from_leaf must be `return cls._from_or_group((leaf,))`")
    f = _find_method(tree, "Predicate", "_from_or_group")
    b = _strip_doc(f.body)
    if not (len(b) == 1 and isinstance(b[0], ast.Return)
            and ast.unparse(b[0].value) == "Predicate.model_construct(operands=(or_group,))"):
        raise Untranslatable("_from_or_group must be `return Predicate.model_construct(operands=(or_group,))`")
    out.append("Definition py_from_leaf (leaf : lit) : cnf := [[leaf]].")
    # ---- fixed trailer: formulas built through the public interface (composition only)
    out.append(
        "Fixpoint py_build (f : form) : cnf :=\n"
        "  match f with\n"
        "  | FAtom a => py_from_leaf (Pos a)\n"
        "  | FConst b => py_from_bool b\n"
        "  | FNot f => py_logical_not (py_build f)\n"
        f"  | FAnd s f g => py_logical_and (py_build f) [{'(s, py_build g)' if fl_and else 'py_build g'}]\n"
        f"  | FOr f g => py_logical_or (py_build f) [{'(false, py_build g)' if fl_or else 'py_build g'}]\n"
        "  end.\n"
        "(* the identity flags inside a formula are consistent with the values actually built *)\n"
        "Fixpoint py_form_ok (f : form) : Prop :=\n"
        "  match f with\n"
        "  | FAtom _ | FConst _ => True\n"
        "  | FNot f => py_form_ok f\n"
        "  | FAnd s f g => py_form_ok f /\\ py_form_ok g /\\ (s = true -> py_build g = py_build f)\n"
        "  | FOr f g => py_form_ok f /\\ py_form_ok g\n"
        "  end."
    )
    return {"Gen/PredGen.v": "\n".join(out) + "\n"}


if __name__ == "__main__":
    for k, v in translate().items():
        print(v)
