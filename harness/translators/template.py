"""Translator (tie T) for C01: regenerate coq/Gen/TemplateGen.v from the working tree.

* the default file templates of configs/datastores/fileDatastore.yaml, parsed with string.Formatter().parse
  exactly as FileTemplate.format does (segments: literal, alternates, optional "?", keep-slash "/");
* the three sanitising tables, read from the `.replace(<char>, <text>)` calls in the source of
  FileTemplate.format:   value.replace(" ", "_")            (always, str values)
                         value.replace("/", "_")            (inside `if replace_slash:`)
                         tail.replace(".", "_"), tail.replace("#", "HASH")
* the formatter extensions of Yaml/Json/Pickle formatters.

Fail-closed: any other `.replace` call, a replacement text that contains a character replaced later (the
model substitutes character-wise), a conversion (`!r`) or a non-empty format spec in the template, raise.
"""
from __future__ import annotations

import ast
import string

import yaml

from harness.common import PKG, cstr


class Untranslatable(Exception):
    pass


def _coq_char(c: str) -> str:
    if c == '"':
        return '""""%char'
    if not (32 <= ord(c) < 127):
        raise Untranslatable(f"non printable character {c!r}")
    return f'"{c}"%char'


def _replace_calls(fn: ast.FunctionDef):
    """[(receiver name, old, new, name tested by the enclosing `if <name>:` or None)] in source order."""
    out = []

    def visit(node, guard):
        if isinstance(node, ast.If):
            g = node.test.id if isinstance(node.test, ast.Name) else guard
            visit(node.test, guard)
            for sub in node.body:
                visit(sub, g)
            for sub in node.orelse:
                visit(sub, guard)
            return
        if isinstance(node, ast.Call) and isinstance(node.func, ast.Attribute) and node.func.attr == "replace":
            recv = node.func.value
            if not (isinstance(recv, ast.Name) and len(node.args) == 2 and not node.keywords
                    and all(isinstance(a, ast.Constant) and isinstance(a.value, str) for a in node.args)):
                raise Untranslatable(f"unsupported replace call at line {node.lineno}")
            out.append((recv.id, node.args[0].value, node.args[1].value, guard))
        for child in ast.iter_child_nodes(node):
            visit(child, guard)

    visit(fn, None)
    return out


def sanitising_tables():
    src = (PKG / "datastore" / "file_templates.py").read_text()
    tree = ast.parse(src)
    fn = None
    for node in tree.body:
        if isinstance(node, ast.ClassDef) and node.name == "FileTemplate":
            for f in node.body:
                if isinstance(f, ast.FunctionDef) and f.name == "format":
                    fn = f
    if fn is None:
        raise Untranslatable("FileTemplate.format not found")
    value_tbl, slash_tbl, tail_tbl = [], [], []
    for recv, old, new, guard in _replace_calls(fn):
        if recv == "format_spec":
            if new != "" or old not in ("?", "/"):
                raise Untranslatable(f"unexpected format_spec.replace({old!r}, {new!r})")
            continue
        if len(old) != 1:
            raise Untranslatable(f"replace of a multi-character text {old!r}")
        if recv == "value" and guard is None:
            value_tbl.append((old, new))
        elif recv == "value" and guard == "replace_slash":
            slash_tbl.append((old, new))
        elif recv == "tail" and guard is None:
            tail_tbl.append((old, new))
        else:
            raise Untranslatable(f"unexpected {recv}.replace({old!r}, {new!r}) under {guard}")
    # value: inside `if isinstance(value, str)` -- that `if` has a Call test, so guard stays None: fine.
    for tbl in (value_tbl + slash_tbl, tail_tbl):
        for i, (_, new) in enumerate(tbl):
            later = {o for o, _ in tbl[i + 1:]}
            if any(ch in later for ch in new):
                raise Untranslatable("a replacement text contains a character replaced later; character-wise model is wrong")
        if len({o for o, _ in tbl}) != len(tbl):
            raise Untranslatable("duplicate replace source")
    return value_tbl, slash_tbl, tail_tbl


def parse_template(t: str):
    """-> (segments [(literal, [alternates], optional, keep_slash)], trailing literal)"""
    segs, trailing = [], ""
    for literal, field_name, spec, conv in string.Formatter().parse(t):
        if trailing:
            raise Untranslatable("literal without field in the middle of a template")
        if spec is None or field_name is None:
            trailing = literal
            continue
        if conv:
            raise Untranslatable(f"conversion !{conv} not supported")
        rest = spec.replace("?", "").replace("/", "")
        if rest:
            raise Untranslatable(f"format spec {spec!r} not supported")
        if not field_name:
            raise Untranslatable("blank field name")
        segs.append((literal, field_name.split("|"), "?" in spec, "/" in spec))
    return segs, trailing


def default_templates():
    cfg = yaml.safe_load(_strip_tags((PKG / "configs" / "datastores" / "fileDatastore.yaml").read_text()))
    t = cfg["datastore"]["templates"]
    return t["default"], t.get("physical_filter+detector+exposure")


def _strip_tags(text: str) -> str:
    return "\n".join(ln for ln in text.splitlines() if "!include" not in ln)


def extensions():
    from lsst.daf.butler.formatters.json import JsonFormatter
    from lsst.daf.butler.formatters.pickle import PickleFormatter
    from lsst.daf.butler.formatters.yaml import YamlFormatter
    return [YamlFormatter.default_extension, JsonFormatter.default_extension, PickleFormatter.default_extension]


def coq_template(name: str, t: str) -> str:
    segs, trailing = parse_template(t)
    items = []
    for lit, alts, opt, keep in segs:
        items.append(f"mkSeg {cstr(lit)} [{'; '.join(cstr(a) for a in alts)}] {'true' if opt else 'false'} {'true' if keep else 'false'}")
    return f"Definition {name} : template :=\n  ([ " + ";\n     ".join(items) + f" ],\n   {cstr(trailing)}).\n"


def coq_table(name: str, tbl) -> str:
    return f"Definition {name} : table := [" + "; ".join(f"({_coq_char(o)}, {cstr(n)})" for o, n in tbl) + "].\n"


def translate():
    v, s, t = sanitising_tables()
    default, raw = default_templates()
    if raw is None:
        raise Untranslatable("raw template missing")
    exts = extensions()
    if any(e is None or not e.startswith(".") for e in exts):
        raise Untranslatable(f"formatter extensions {exts}")
    text = (
        "(* GENERATED on every run by harness/translators/template.py from\n"
        "   python/lsst/daf/butler/datastore/file_templates.py (FileTemplate.format) and\n"
        "   python/lsst/daf/butler/configs/datastores/fileDatastore.yaml.  Do not edit, do not commit. *)\n"
        "From Coq Require Import String Ascii List.\nFrom V Require Import Model.Template.\nImport ListNotations.\nOpen Scope string_scope.\n\n"
        + coq_table("GEN_SAN_VALUE", v) + coq_table("GEN_SAN_SLASH", s) + coq_table("GEN_SAN_TAIL", t) + "\n"
        + coq_template("GEN_DEFAULT", default) + "\n" + coq_template("GEN_RAW", raw) + "\n"
        + f"Definition GEN_EXT_YAML := {cstr(exts[0])}.\nDefinition GEN_EXT_JSON := {cstr(exts[1])}.\nDefinition GEN_EXT_PICKLE := {cstr(exts[2])}.\n\n"
        + "Definition gen_format (t : template) (fs : fields) : fresult := format GEN_SAN_VALUE GEN_SAN_SLASH GEN_SAN_TAIL t fs.\n"
    )
    return {"Gen/TemplateGen.v": text}


if __name__ == "__main__":
    print(translate()["Gen/TemplateGen.v"])
