"""Tie T for C12: dimension-universe YAML files of the working tree -> coq/Gen/Universes.v.

Only *data* is translated (which elements exist, whether they have keys, governor flag, requires / implies as
written, always_join, populated_by, skypix systems with their level range, topology families).  How a universe is
built from that (dependency waves, lexicographic ties, expansion of `requires`, required/implied ordering) is the
hand model `Model/Group.v:build`, compared with the real DimensionUniverse on every run.

Fail-closed: any key or value shape outside the subset read by `_ElementConfig` / `_SkyPixSectionConfig` /
`_TopologySectionConfig` raises.
"""
from __future__ import annotations

import re
from pathlib import Path

import yaml

from harness.common import PKG, cbool, clist, copt, cstr

ELEMENT_KEYS = {"doc", "keys", "requires", "implies", "metadata", "is_cached", "implied_union_target", "governor",
                "always_join", "populated_by", "storage"}
TOP_KEYS = {"version", "namespace", "skypix", "elements", "topology", "packers"}
NAME_RE = re.compile(r"[A-Za-z_][A-Za-z0-9_]*\Z")


class Unsupported(Exception):
    pass


def _name(x, what):
    if not isinstance(x, str) or not NAME_RE.match(x):
        raise Unsupported(f"{what}: {x!r} is not a plain identifier")
    return x


def _names(x, what):
    if x is None:
        return []
    if not isinstance(x, (list, tuple, set)):
        raise Unsupported(f"{what}: expected a list of names, got {type(x).__name__}")
    out = [_name(v, what) for v in x]
    if len(set(out)) != len(out):
        # pydantic coerces to a set; keep one copy
        out = sorted(set(out), key=out.index)
    return out


def _max_level_of(class_name: str) -> int:
    from lsst.utils.doImport import doImportType
    cls = doImportType(class_name)
    ml = getattr(cls, "MAX_LEVEL", None)
    if not isinstance(ml, int):
        raise Unsupported(f"pixelization class {class_name} has no MAX_LEVEL and no max_level was given")
    return ml


def read_raw(path: Path) -> dict:
    """YAML file -> plain dict describing the raw configuration (also used by the harness for reporting)."""
    d = yaml.safe_load(Path(path).read_text())
    if not isinstance(d, dict):
        raise Unsupported(f"{path}: top level is not a mapping")
    extra = set(d) - TOP_KEYS
    if extra:
        raise Unsupported(f"{path}: unknown top-level keys {sorted(extra)}")
    for k in ("version", "elements", "skypix"):
        if k not in d:
            raise Unsupported(f"{path}: required key {k!r} missing")
    version = d["version"]
    if not isinstance(version, int) or isinstance(version, bool) or not 0 <= version < 1000:
        raise Unsupported(f"{path}: version {version!r}")
    sky = d["skypix"]
    if not isinstance(sky, dict) or "common" not in sky:
        raise Unsupported(f"{path}: skypix section must be a mapping with a 'common' entry")
    systems_src = dict(sky.get("systems") or {})
    for k, v in sky.items():
        if k not in ("common", "systems"):
            systems_src[k] = v
    systems = []
    for sname, sc in systems_src.items():
        _name(sname, "skypix system")
        if not isinstance(sc, dict) or set(sc) - {"class", "min_level", "max_level"} or "class" not in sc:
            raise Unsupported(f"{path}: skypix system {sname}: unsupported description {sc!r}")
        mn = sc.get("min_level", 1)
        mx = sc.get("max_level", None)
        if mx is None:
            mx = _max_level_of(sc["class"])
        if not (isinstance(mn, int) and isinstance(mx, int) and 0 <= mn and mx < 100):
            raise Unsupported(f"{path}: skypix system {sname}: level range {mn!r}..{mx!r}")
        systems.append({"name": sname, "min": mn, "max": mx})
    systems.sort(key=lambda s: s["name"])
    elements = []
    if not isinstance(d["elements"], dict):
        raise Unsupported(f"{path}: elements is not a mapping")
    for ename, ec in d["elements"].items():
        _name(ename, "element")
        if not isinstance(ec, dict):
            raise Unsupported(f"{path}: element {ename} is not a mapping")
        extra = set(ec) - ELEMENT_KEYS
        if extra:
            raise Unsupported(f"{path}: element {ename}: unknown keys {sorted(extra)}")
        keys = ec.get("keys") or []
        if not isinstance(keys, list):
            raise Unsupported(f"{path}: element {ename}: keys is not a list")
        gov = ec.get("governor", False)
        aj = ec.get("always_join", False)
        if not isinstance(gov, bool) or not isinstance(aj, bool):
            raise Unsupported(f"{path}: element {ename}: governor / always_join must be booleans")
        pop = ec.get("populated_by")
        if pop is not None:
            _name(pop, f"element {ename} populated_by")
        elements.append({
            "name": ename, "keys": bool(keys), "governor": gov,
            "requires": _names(ec.get("requires"), f"element {ename} requires"),
            "implies": _names(ec.get("implies"), f"element {ename} implies"),
            "always_join": aj, "populated_by": pop,
        })
    topo = d.get("topology") or {}
    if not isinstance(topo, dict) or set(topo) - {"spatial", "temporal"}:
        raise Unsupported(f"{path}: topology section {topo!r}")
    fams = {}
    for space in ("spatial", "temporal"):
        sec = topo.get(space) or {}
        if not isinstance(sec, dict):
            raise Unsupported(f"{path}: topology.{space} is not a mapping")
        fams[space] = [(_name(fn, "family"), [_name(m, f"family {fn} member") for m in (members or [])])
                       for fn, members in sec.items()]
    # the builder keeps systems, elements and families in ONE dict keyed by name
    allnames = [s["name"] for s in systems] + [e["name"] for e in elements] + [f for sp in fams.values() for f, _ in sp]
    if len(set(allnames)) != len(allnames):
        raise Unsupported(f"{path}: a name is used for more than one of skypix system / element / topological family")
    return {"version": version, "systems": systems, "elements": elements,
            "spatial": fams["spatial"], "temporal": fams["temporal"], "common": sky["common"]}


def raw_to_coq(raw: dict) -> str:
    def el(e):
        return (f"mkRElem {cstr(e['name'])} {cbool(e['keys'])} {cbool(e['governor'])} "
                f"{clist(cstr(x) for x in e['requires'])} {clist(cstr(x) for x in e['implies'])} "
                f"{cbool(e['always_join'])} {copt(e['populated_by'], cstr)}")

    def fam(f):
        return f"({cstr(f[0])}, {clist(cstr(m) for m in f[1])})"

    return ("mkRaw " + str(raw["version"]) + "\n    "
            + clist(f"mkRSys {cstr(s['name'])} {s['min']} {s['max']}" for s in raw["systems"]) + "\n    "
            + "[" + ";\n     ".join(el(e) for e in raw["elements"]) + "]\n    "
            + clist(fam(f) for f in raw["spatial"]) + "\n    " + clist(fam(f) for f in raw["temporal"]))


def sources(pkg: Path = None):
    """[(coq identifier, path)]: the current universe first, then every shipped older one."""
    pkg = pkg or PKG
    out = [("raw_current", pkg / "configs" / "dimensions.yaml")]
    olds = sorted((pkg / "configs" / "old_dimensions").glob("*.yaml"), key=lambda p: p.name)
    for p in olds:
        m = re.fullmatch(r"daf_butler_universe(\d+)\.yaml", p.name)
        if not m:
            raise Unsupported(f"unexpected file in old_dimensions: {p.name}")
        out.append((f"raw_old{int(m.group(1))}", p))
    if len(out) < 2:
        raise Unsupported("no older universes found")
    return out


def custom_sources():
    """hand-made universes kept in corpus/C12 (NOT shipped; never part of shipped_raw)"""
    from harness.common import VERIF
    return [("raw_deadlock", VERIF / "corpus" / "C12" / "deadlock_universe.yaml")]


def translate():
    srcs = sources()
    body = [
        "(* GENERATED by harness/translators/universe.py from the working tree's configs/dimensions.yaml and",
        "   configs/old_dimensions/*.yaml -- do not edit, never committed. *)",
        "From Coq Require Import String List.",
        "From V Require Import Model.Universe Model.Group.",
        "Import ListNotations.",
        "Open Scope string_scope.",
        "",
    ]
    for ident, path in srcs:
        raw = read_raw(path)
        body.append(f"(* {path.name} *)")
        body.append(f"Definition {ident} : rawconf :=\n  {raw_to_coq(raw)}.\n")
    body.append("Definition shipped_raw : list rawconf := " + clist(i for i, _ in srcs) + ".")
    body.append("Definition u_current : universe := Eval vm_compute in universe_of raw_current.")
    for ident, _ in srcs[1:]:
        body.append(f"Definition u_{ident[4:]} : universe := Eval vm_compute in universe_of {ident}.")
    body.append("Definition shipped_universes : list universe := "
                + clist(["u_current"] + [f"u_{i[4:]}" for i, _ in srcs[1:]]) + ".")
    for ident, path in custom_sources():
        body.append(f"(* corpus/C12/{path.name}: hand-made, not shipped *)")
        body.append(f"Definition {ident} : rawconf :=\n  {raw_to_coq(read_raw(path))}.\n")
        body.append(f"Definition u_{ident[4:]} : universe := Eval vm_compute in universe_of {ident}.")
    return {"Gen/Universes.v": "\n".join(body) + "\n"}
