"""Tie T for C12 (algorithms): the *current* bodies of

    dimensions/_group.py     DimensionGroup.__new__  (work-list closure, names / elements / governors / skypix,
                             required / implied split, data-coordinate keys), lookup_order (add_to_order + while loop),
                             union, intersection, __eq__, __le__, isdisjoint, __hash__, data_coordinate_keys
    dimensions/_universe.py  DimensionUniverse.sorted

are compiled into coq/Gen/GroupGen.v by a small fail-closed compiler for the subset of Python these functions use.
Props/C12.v proves that the generated constructor / operators agree with the hand model (Model/Universe.v) for every
well-formed universe, so a semantic edit of these functions breaks a proof; anything outside the subset raises
`Unsupported` (broken tie).

The subset
----------
statements   x = e | x: T = e | self.f = e | x.add(e) | x.update(e) | x.difference_update(e) | x.discard(e)
             | x.append(e) | x.extend(e) | x.reverse() | if/else | while e: ... | for v in e: ...
             | for v in e: if c: ...; break  else: ...          (search loop)
             | def f(arg) -> None  (nested, recursive, mutating variables of the enclosing function) | f(e)
             | return e | pass | docstring
expressions  names, universe[e], x.pop(), set(e) / set() / frozenset(e) / tuple(e) / list(e) / SortedSequenceSet(e),
             e.name, e.required.names, e.implied.names, e.implied (iteration), self.<field>, g.names / .required / ...,
             universe.elements, self._elements, universe.governor_dimensions.names, universe.skypix_dimensions.names,
             universe.sorted(e), a in b, a not in b, a <= b, a >= b, a == b, not / and / or, x.issuperset(e),
             x.isdisjoint(e), set(e).union(*[...]), set(e).intersection(*[...]), generator / list comprehension with
             one `for` and optional `if`s, {k: i for i, k in enumerate(itertools.chain(a, b))} (its keys),
             DimensionGroup(universe, names [, _conform=True|False]), hash(e), isinstance(other, DimensionGroup), True / False

Meaning of the primitives (set methods, pop order, KeyError, ...) is fixed in coq/Model/GroupX.v.  Loops get fuel
`S (length u)` (GOutOfFuel = the Python loop would not end within |u|+1 rounds).
Statements of __new__ that concern things the model does not have (the universe-level group cache, a DimensionGroup
passed as `names`, topological families) must be textually identical to the list SKIP_NEW below.
"""
from __future__ import annotations

import ast

from harness.common import PKG

GROUP_FILE = "dimensions/_group.py"
UNIVERSE_FILE = "dimensions/_universe.py"
FUEL = "(S (length u))"


class Unsupported(Exception):
    pass


COQ_T = {"strset": "pyset", "strlist": "list string", "sortedset": "list string", "strtuple": "list string",
         "dictkeys": "list string", "str": "string", "bool": "bool", "elem": "elem", "elemlist": "list elem",
         "group": "group", "grouplist": "list group", "elemnames": "list string"}
STR_COLL = ("strset", "strlist", "sortedset", "strtuple", "dictkeys")
SETLIKE = ("strset", "sortedset", "dictkeys")

# statements of DimensionGroup.__new__ outside the model; an edit of any of them is reported (fail-closed)
SKIP_NEW = {
    "if isinstance(names, DimensionGroup):\n    if names.universe is universe:\n        return names\n    else:\n        names = names.names",
    "cache_key = frozenset(names)",
    "self = universe._cached_groups.get(cache_key)",
    "if self is not None:\n    return self",
    "self = super().__new__(cls)",
    "self.universe = universe",
    "self._space_families = MappingProxyType({space: NamedValueSet((universe[e].topology[space] for e in self.elements "
    "if space in universe[e].topology)).freeze() for space in TopologicalSpace.__members__.values()})",
}
NEW_RETURN = "return universe._cached_groups.set_or_get(cache_key, self)"
GROUP_FIELDS = ("names", "required", "implied", "elements", "governors", "skypix")
GETTER = {"names": "gnames", "required": "grequired", "implied": "gimplied", "elements": "gelements",
          "governors": "ggovernors", "skypix": "gskypix"}
MUTATORS = {"add", "update", "difference_update", "discard", "append", "extend", "reverse"}


def V(name: str) -> str:
    return "v_" + name


def F(name: str) -> str:
    return "f_" + name.lstrip("_")


def _strip_doc(body):
    if body and isinstance(body[0], ast.Expr) and isinstance(body[0].value, ast.Constant) and isinstance(body[0].value.value, str):
        return body[1:]
    return body


def _find_method(tree, cls: str, name: str) -> ast.FunctionDef:
    for n in tree.body:
        if isinstance(n, ast.ClassDef) and n.name == cls:
            found = [m for m in n.body if isinstance(m, ast.FunctionDef) and m.name == name]
            # `sorted` has @overload stubs: take the implementation (the last one, the only one with a real body)
            found = [m for m in found if not any(ast.unparse(d) == "overload" for d in m.decorator_list)]
            if len(found) != 1:
                raise Unsupported(f"{cls}.{name}: expected exactly one definition, found {len(found)}")
            return found[0]
    raise Unsupported(f"class {cls} not found")


def _loose_breaks(stmts) -> bool:
    """a break / continue that belongs to the loop whose body is `stmts` (not to a loop nested in it)"""
    for st in stmts:
        if isinstance(st, (ast.Break, ast.Continue)):
            return True
        if isinstance(st, (ast.For, ast.While)):
            if _loose_breaks(st.orelse):
                return True
            continue
        for field in ("body", "orelse"):
            if _loose_breaks(getattr(st, field, []) or []):
                return True
    return False


def _has_return(stmts) -> bool:
    for st in stmts:
        if isinstance(st, ast.FunctionDef):
            continue
        if any(isinstance(x, ast.Return) for x in ast.walk(st)):
            return True
    return False


class Fn:
    """one translated function: compiles a statement list in continuation-passing style"""

    def __init__(self, coqname: str, monadic: bool, has_sorted: bool = True):
        self.coqname = coqname
        self.monadic = monadic
        self.defs: list[str] = []          # auxiliary definitions (loops, nested functions), in dependency order
        self.nloop = 0
        self.nfor = 0
        self.ntmp = 0
        self.nested: dict[str, dict] = {}  # python name -> {coq, state: [vars], ptype}
        self.in_nested: dict | None = None
        self.depth = 0
        self.ret = None                    # callable(node|None, env) -> text
        self.has_sorted = has_sorted

    # ------------------------------------------------------------------ helpers
    def tmp(self):
        self.ntmp += 1
        return f"t{self.ntmp}"

    def pat(self, vs):
        vs = list(vs)
        if len(vs) == 1:
            return self.ref(vs[0])
        return "(" + ", ".join(self.ref(x) for x in vs) + ")"

    def ref(self, key: str) -> str:
        return F(key[5:]) if key.startswith("self.") else V(key)

    def sttype(self, vs, env):
        return " * ".join(COQ_T[env[x]] for x in vs) if len(vs) > 1 else COQ_T[env[vs[0]]]

    def bindst(self, vs, inner):
        if len(vs) == 1:
            return f"(fun {self.ref(vs[0])} => {inner})"
        return f"(fun st => let '{self.pat(vs)} := st in {inner})"

    def bind(self, m: str, vs, inner: str) -> str:
        """m >>= (state vs -> inner), without the eta-expanded identity continuation"""
        if inner == f"GOk {self.pat(vs)}":
            return m
        return f"gbind ({m}) {self.bindst(vs, inner)}"

    def wrap(self, hoists, inner: str) -> str:
        for kind, tmp, arg in reversed(hoists):
            if kind == "getitem":
                inner = f"getitem u {arg} (fun {tmp} => {inner})"
            elif kind == "pop":
                inner = f"match set_pop {arg} with None => GKeyError | Some ({tmp}, {arg}) => {inner} end"
            else:  # pragma: no cover
                raise Unsupported(kind)
        return inner

    def free(self, nodes, env, exclude=()):
        """keys of env referenced (loaded) in nodes, in env order"""
        used = set()
        for node in nodes:
            for n in ast.walk(node):
                if isinstance(n, ast.Name) and n.id in env and env[n.id] not in ("universe", "newgroup"):
                    used.add(n.id)
                if isinstance(n, ast.Attribute) and isinstance(n.value, ast.Name) and n.value.id == "self" \
                        and f"self.{n.attr}" in env:
                    used.add(f"self.{n.attr}")
                if isinstance(n, ast.Call) and isinstance(n.func, ast.Name) and n.func.id in self.nested:
                    used.update(self.nested[n.func.id]["state"])
        return [k for k in env if k in used and k not in exclude]

    def mutated(self, stmts, env):
        out = set()
        for st in stmts:
            for n in ast.walk(st):
                if isinstance(n, (ast.Assign, ast.AnnAssign)):
                    for t in (n.targets if isinstance(n, ast.Assign) else [n.target]):
                        if isinstance(t, ast.Name):
                            out.add(t.id)
                        elif isinstance(t, ast.Attribute) and isinstance(t.value, ast.Name) and t.value.id == "self":
                            out.add(f"self.{t.attr}")
                if isinstance(n, ast.Call) and isinstance(n.func, ast.Attribute) and n.func.attr in MUTATORS | {"pop"} \
                        and isinstance(n.func.value, ast.Name):
                    out.add(n.func.value.id)
                if isinstance(n, ast.Call) and isinstance(n.func, ast.Name) and n.func.id in self.nested:
                    out.update(self.nested[n.func.id]["state"])
        return [k for k in env if k in out]

    # ------------------------------------------------------------------ expressions
    def E(self, n, env, hoist):
        """-> (gallina text, type).  hoist: list collecting (kind, tmp, arg) for sub-expressions that may raise / mutate;
        None where that is not allowed (inside comprehensions and pure functions)."""
        if isinstance(n, ast.Constant) and isinstance(n.value, bool):
            return ("true" if n.value else "false"), "bool"
        if isinstance(n, ast.Name):
            if n.id not in env:
                raise Unsupported(f"{self.coqname}: unknown name {n.id!r}")
            ty = env[n.id]
            if ty == "universe":
                return "u", ty
            if ty == "newgroup":
                return "<self>", ty
            return V(n.id), ty
        if isinstance(n, ast.Attribute):
            return self.attr(n, env, hoist)
        if isinstance(n, ast.Subscript):
            t, ty = self.E(n.value, env, hoist)
            if ty != "universe":
                raise Unsupported(f"{self.coqname}: subscript of a {ty}: {ast.unparse(n)}")
            k, kty = self.E(n.slice, env, hoist)
            if kty != "str":
                raise Unsupported(f"{self.coqname}: universe[...] with a {kty} key: {ast.unparse(n)}")
            if hoist is None:
                raise Unsupported(f"{self.coqname}: universe[...] (may raise KeyError) in a pure position: {ast.unparse(n)}")
            tmp = self.tmp()
            hoist.append(("getitem", tmp, k))
            return tmp, "elem"
        if isinstance(n, ast.Call):
            return self.call(n, env, hoist)
        if isinstance(n, ast.Compare):
            if len(n.ops) != 1:
                raise Unsupported(f"{self.coqname}: chained comparison {ast.unparse(n)}")
            return self.compare(n.ops[0], n.left, n.comparators[0], env, hoist, ast.unparse(n))
        if isinstance(n, ast.BoolOp):
            parts = []
            for v in n.values:
                t, ty = self.E(v, env, None)   # short-circuit: operands must be pure
                if ty != "bool":
                    raise Unsupported(f"{self.coqname}: non-boolean operand in {ast.unparse(n)}")
                parts.append(t)
            op = " || " if isinstance(n.op, ast.Or) else " && "
            return "(" + op.join(parts) + ")", "bool"
        if isinstance(n, ast.UnaryOp) and isinstance(n.op, ast.Not):
            t, ty = self.E(n.operand, env, hoist)
            if ty == "strset":
                return f"negb (set_truth {t})", "bool"
            if ty != "bool":
                raise Unsupported(f"{self.coqname}: `not` of a {ty}")
            return f"negb ({t})", "bool"
        if isinstance(n, (ast.GeneratorExp, ast.ListComp)):
            return self.comp(n, env)
        if isinstance(n, ast.DictComp):
            # {name: i for i, name in enumerate(X)}: only the keys (insertion order) are modelled
            if len(n.generators) == 1 and not n.generators[0].ifs and not n.generators[0].is_async:
                g = n.generators[0]
                if (isinstance(g.target, ast.Tuple) and len(g.target.elts) == 2
                        and all(isinstance(e, ast.Name) for e in g.target.elts)
                        and isinstance(n.key, ast.Name) and isinstance(n.value, ast.Name)
                        and n.key.id == g.target.elts[1].id and n.value.id == g.target.elts[0].id
                        and isinstance(g.iter, ast.Call) and ast.unparse(g.iter.func) == "enumerate"
                        and len(g.iter.args) == 1 and not g.iter.keywords):
                    t, ty = self.E(g.iter.args[0], env, None)
                    if ty in STR_COLL:
                        return f"dict_keys_enumerate ({t})", "dictkeys"
            raise Unsupported(f"{self.coqname}: unsupported dict comprehension {ast.unparse(n)}")
        raise Unsupported(f"{self.coqname}: unsupported expression {ast.unparse(n)!r} ({type(n).__name__})")

    def attr(self, n: ast.Attribute, env, hoist):
        t, ty = self.E(n.value, env, hoist)
        a = n.attr
        if ty == "newgroup":
            if a == "universe":
                return "u", "universe"
            key = f"self.{a}"
            if key not in env:
                raise Unsupported(f"{self.coqname}: self.{a} read before it is assigned")
            return F(a), env[key]
        if ty == "universe":
            if a in ("elements", "_elements"):
                return "u", "elemlist"
            if a == "governor_dimensions":
                return "(governor_names u)", "nameview"
            if a == "skypix_dimensions":
                return "(skypix_names u)", "nameview"
        if ty == "nameview" and a == "names":
            return t, "strlist"
        if ty == "group":
            if a == "universe":
                return "u", "universe"
            if a in GETTER:
                return f"({GETTER[a]} {t})", "sortedset"
        if ty == "elem":
            if a == "name":
                return f"(ename {t})", "str"
            if a == "required":
                return f"(ereq {t})", "elemnames"
            if a == "implied":
                return f"(eimp {t})", "elemnames"
        if ty == "elemnames" and a == "names":
            return t, "strlist"
        if ty == "sortedset" and a == "_seq":
            return t, "strtuple"
        if ty == "sortedset" and a == "names":
            return t, "sortedset"
        raise Unsupported(f"{self.coqname}: unsupported attribute .{a} of a {ty}: {ast.unparse(n)}")

    def call(self, n: ast.Call, env, hoist):
        src = ast.unparse(n)
        fsrc = ast.unparse(n.func)
        if fsrc == "DimensionGroup":
            # DimensionGroup(universe, names) / DimensionGroup(universe, names=names) [, _conform=True|False]
            args = list(n.args)
            kws = {k.arg: k.value for k in n.keywords}
            conform = "true"
            if "_conform" in kws:
                c = kws.pop("_conform")
                if not (isinstance(c, ast.Constant) and isinstance(c.value, bool)):
                    raise Unsupported(f"{self.coqname}: unsupported constructor call {src}")
                conform = "true" if c.value else "false"
            if len(args) == 1 and set(kws) == {"names"}:
                args.append(kws["names"])
            elif not (len(args) == 2 and not kws):
                raise Unsupported(f"{self.coqname}: unsupported constructor call {src}")
            _, ty0 = self.E(args[0], env, None)
            t, ty = self.E(args[1], env, None)
            if ty0 != "universe" or ty not in STR_COLL:
                raise Unsupported(f"{self.coqname}: unsupported constructor call {src}")
            return f"gen_group u ({t}) {conform}", "gres group"
        if n.keywords:
            raise Unsupported(f"{self.coqname}: keyword arguments in {src}")
        if isinstance(n.func, ast.Name):
            f = n.func.id
            if f in ("set", "frozenset"):
                if not n.args:
                    return "set_empty", "strset"
                if len(n.args) == 1:
                    t, ty = self.E(n.args[0], env, hoist)
                    if ty == "strset":
                        return t, "strset"
                    if ty in STR_COLL:
                        return f"(set_of {t})", "strset"
                    if ty == "elemnames":   # set(element.required.names) is spelled with .names; a NamedValueSet of elements is not a str set
                        raise Unsupported(f"{self.coqname}: set() of element objects: {src}")
            if f in ("tuple", "list", "SortedSequenceSet") and len(n.args) == 1:
                t, ty = self.E(n.args[0], env, hoist)
                if ty in ("strlist", "strtuple", "sortedset"):
                    return t, {"tuple": "strtuple", "list": "strlist", "SortedSequenceSet": "sortedset"}[f]
                raise Unsupported(f"{self.coqname}: {f}() of a {ty}: {src}")
            if f == "hash" and len(n.args) == 1:
                t, ty = self.E(n.args[0], env, hoist)
                if ty != "strtuple":
                    raise Unsupported(f"{self.coqname}: hash of a {ty}")
                return t, "hashed"       # the value that is hashed (hash() of a str tuple is injective up to collisions)
            if f == "isinstance" and len(n.args) == 2 and ast.unparse(n.args[1]) == "DimensionGroup":
                _, ty = self.E(n.args[0], env, None)
                if ty == "group":
                    return "true", "bool"
        if fsrc == "itertools.chain" and len(n.args) == 2:
            a, ta = self.E(n.args[0], env, hoist)
            b, tb = self.E(n.args[1], env, hoist)
            if ta in STR_COLL and tb in STR_COLL:
                return f"({a} ++ {b})", "strlist"
        if isinstance(n.func, ast.Attribute):
            m = n.func.attr
            if m == "sorted" and len(n.args) == 1 and self.has_sorted:
                r, rty = self.E(n.func.value, env, None)
                t, ty = self.E(n.args[0], env, hoist)
                if rty == "universe" and ty in STR_COLL:
                    return f"(gen_sorted u {t} false)", "elemlist"
            if m == "pop" and not n.args and isinstance(n.func.value, ast.Name):
                r, rty = self.E(n.func.value, env, None)
                if rty != "strset":
                    raise Unsupported(f"{self.coqname}: pop() on a {rty}")
                if hoist is None:
                    raise Unsupported(f"{self.coqname}: pop() in a pure position")
                tmp = self.tmp()
                hoist.append(("pop", tmp, r))
                return tmp, "str"
            if m in ("issuperset", "issubset", "isdisjoint") and len(n.args) == 1:
                r, rty = self.E(n.func.value, env, hoist)
                t, ty = self.E(n.args[0], env, hoist)
                if rty in SETLIKE and ty in STR_COLL:
                    return {"issuperset": f"set_issuperset {r} {t}", "issubset": f"set_le {r} {t}",
                            "isdisjoint": f"set_isdisjoint {r} {t}"}[m], "bool"
            if m in ("union", "intersection") and len(n.args) == 1 and isinstance(n.args[0], ast.Starred):
                r, rty = self.E(n.func.value, env, hoist)
                t, ty = self.E(n.args[0].value, env, None)
                if rty == "strset" and ty == "strlistlist":
                    return (f"(set_union_all {r} {t})" if m == "union" else f"(set_intersection_all {r} {t})"), "strset"
            if m == "keys" and not n.args:
                r, rty = self.E(n.func.value, env, hoist)
                if rty == "dictkeys":
                    return r, "dictkeys"
        raise Unsupported(f"{self.coqname}: unsupported call {src}")

    def compare(self, op, left, right, env, hoist, src):
        l, lt = self.E(left, env, hoist)
        r, rt = self.E(right, env, hoist)
        if isinstance(op, (ast.In, ast.NotIn)):
            if lt == "str" and rt in STR_COLL:
                t = f"memb {l} {r}"
            elif lt == "elem" and rt == "strset":
                # DimensionElement.__hash__ is hash(name) and __eq__ falls back to `self.name == other` for a str
                t = f"memb (ename {l}) {r}"
            else:
                raise Unsupported(f"{self.coqname}: membership of a {lt} in a {rt}: {src}")
            return (t if isinstance(op, ast.In) else f"negb ({t})"), "bool"
        if lt in STR_COLL and rt in STR_COLL and (lt in SETLIKE or lt == "strlist") and (rt in SETLIKE or rt == "strlist"):
            if isinstance(op, ast.LtE):
                return f"set_le {l} {r}", "bool"
            if isinstance(op, ast.GtE):
                return f"set_le {r} {l}", "bool"
            if isinstance(op, ast.Eq) and lt in SETLIKE and rt in SETLIKE:
                return f"set_eqb {l} {r}", "bool"
        if isinstance(op, ast.Eq) and lt == rt == "hashed":
            return f"list_eqb {l} {r}", "bool"
        raise Unsupported(f"{self.coqname}: unsupported comparison {src} ({lt} vs {rt})")

    def comp(self, n, env):
        if len(n.generators) != 1 or n.generators[0].is_async or not isinstance(n.generators[0].target, ast.Name):
            raise Unsupported(f"{self.coqname}: unsupported comprehension {ast.unparse(n)}")
        g = n.generators[0]
        it, ity = self.E(g.iter, env, None)
        if ity in STR_COLL:
            vty = "str"
        elif ity == "elemlist":
            vty = "elem"
        elif ity == "grouplist":
            vty = "group"
        else:
            raise Unsupported(f"{self.coqname}: comprehension over a {ity}: {ast.unparse(n)}")
        v = g.target.id
        env2 = dict(env)
        env2[v] = vty
        conds = []
        for c in g.ifs:
            t, ty = self.E(c, env2, None)
            if ty != "bool":
                raise Unsupported(f"{self.coqname}: non-boolean filter in {ast.unparse(n)}")
            conds.append(t)
        elt, ety = self.E(n.elt, env2, None)
        src = it
        if conds:
            src = f"(filter (fun {V(v)} => {' && '.join('(' + c + ')' for c in conds)}) {it})"
        if ety == "str":
            rty = "strlist"
        elif ety == "elem":
            rty = "elemlist"
        elif ety in ("sortedset", "strlist"):
            rty = "strlistlist"
        else:
            raise Unsupported(f"{self.coqname}: comprehension producing {ety}: {ast.unparse(n)}")
        if elt == V(v):
            return src, rty
        return f"(map (fun {V(v)} => {elt}) {src})", rty

    # ------------------------------------------------------------------ statements
    def B(self, stmts, env, k):
        """stmts then continuation k(env) -> text"""
        if not stmts:
            return k(env)
        return self.S(stmts[0], stmts[1:], env, k)

    def S(self, st, rest, env, k):
        cont = lambda e: self.B(rest, e, k)   # noqa: E731
        if isinstance(st, ast.Pass) or (isinstance(st, ast.Expr) and isinstance(st.value, ast.Constant)):
            return cont(env)
        if isinstance(st, ast.Return):
            return self.ret(st.value, env)
        if isinstance(st, (ast.Assign, ast.AnnAssign)):
            if isinstance(st, ast.Assign):
                if len(st.targets) != 1:
                    raise Unsupported(f"{self.coqname}: multiple assignment targets")
                tgt = st.targets[0]
            else:
                tgt = st.target
                if st.value is None:
                    raise Unsupported(f"{self.coqname}: bare annotation {ast.unparse(st)}")
            hoist = [] if self.monadic else None
            if isinstance(st.value, ast.List) and not st.value.elts:
                t, ty = "[]", "strlist"
            else:
                t, ty = self.E(st.value, env, hoist)
            if ty not in COQ_T:
                raise Unsupported(f"{self.coqname}: cannot bind a value of kind {ty}: {ast.unparse(st)}")
            env2 = dict(env)
            if isinstance(tgt, ast.Name):
                if tgt.id in env and env[tgt.id] in ("universe", "newgroup", "group"):
                    raise Unsupported(f"{self.coqname}: assignment to {tgt.id}")
                env2.pop(tgt.id, None)
                env2[tgt.id] = ty
                name = V(tgt.id)
            elif isinstance(tgt, ast.Attribute) and isinstance(tgt.value, ast.Name) and tgt.value.id == "self" \
                    and env.get("self") == "newgroup":
                env2[f"self.{tgt.attr}"] = ty
                name = F(tgt.attr)
            else:
                raise Unsupported(f"{self.coqname}: unsupported assignment target {ast.unparse(tgt)}")
            return self.wrap(hoist or [], f"let {name} := {t} in\n  {cont(env2)}")
        if isinstance(st, ast.Expr) and isinstance(st.value, ast.Call):
            c = st.value
            if isinstance(c.func, ast.Name) and c.func.id in self.nested:
                return self.call_nested(c, env, cont)
            if isinstance(c.func, ast.Attribute) and isinstance(c.func.value, ast.Name) and c.func.attr in MUTATORS \
                    and not c.keywords:
                return self.mutate(c, env, cont)
            raise Unsupported(f"{self.coqname}: unsupported statement {ast.unparse(st)}")
        if isinstance(st, ast.If):
            hoist = [] if self.monadic else None
            t, ty = self.E(st.test, env, hoist)
            if ty == "strset":
                t = f"set_truth {t}"
            elif ty != "bool":
                raise Unsupported(f"{self.coqname}: condition of kind {ty}: {ast.unparse(st.test)}")
            if not _has_return(st.body) and not _has_return(st.orelse):
                # both branches fall through: join, so that the rest of the function is not duplicated
                state = self.mutated(st.body + st.orelse, env)
                if not state:
                    raise Unsupported(f"{self.coqname}: an `if` that changes nothing: {ast.unparse(st.test)}")
                envs = []

                def kk(e, state=state):
                    envs.append(e)
                    return (f"GOk {self.pat(state)}" if self.monadic else self.pat(state))
                a = self.B(st.body, dict(env), kk)
                b = self.B(st.orelse, dict(env), kk)
                env2 = dict(env)
                for x in state:
                    tys = {e[x] for e in envs}
                    if len(tys) != 1:
                        raise Unsupported(f"{self.coqname}: {x} has different kinds after the branches of `if {ast.unparse(st.test)}`")
                    env2[x] = tys.pop()
                if self.monadic:
                    return self.wrap(hoist or [], f"gbind (if {t}\n  then {a}\n  else {b})\n  {self.bindst(state, cont(env2))}")
                return f"let '{self.pat(state)} := (if {t} then {a} else {b}) in\n  {cont(env2)}" if len(state) > 1 \
                    else f"let {self.pat(state)} := (if {t} then {a} else {b}) in\n  {cont(env2)}"
            a = self.B(st.body, dict(env), cont)
            b = self.B(st.orelse, dict(env), cont)
            return self.wrap(hoist or [], f"if {t}\n  then {a}\n  else {b}")
        if isinstance(st, ast.While):
            return self.while_(st, env, cont)
        if isinstance(st, ast.For):
            return self.for_(st, env, cont)
        if isinstance(st, ast.FunctionDef):
            self.nested_def(st, env)
            return cont(env)
        raise Unsupported(f"{self.coqname}: unsupported statement {type(st).__name__}: {ast.unparse(st)[:80]}")

    def mutate(self, c: ast.Call, env, cont):
        x = c.func.value.id
        m = c.func.attr
        if x not in env:
            raise Unsupported(f"{self.coqname}: method call on unknown {x}")
        ty = env[x]
        hoist = [] if self.monadic else None
        if m == "reverse" and not c.args and ty in ("elemlist", "strlist"):
            return f"let {V(x)} := rev {V(x)} in\n  {cont(env)}"
        if len(c.args) != 1:
            raise Unsupported(f"{self.coqname}: {ast.unparse(c)}")
        a, aty = self.E(c.args[0], env, hoist)
        if ty == "strset" and m == "add" and aty == "str":
            t = f"set_add {V(x)} {a}"
        elif ty == "strset" and m == "discard" and aty == "str":
            t = f"set_discard {V(x)} {a}"
        elif ty == "strset" and m == "update" and aty in STR_COLL:
            t = f"set_update {V(x)} {a}"
        elif ty == "strset" and m == "difference_update" and aty in STR_COLL:
            t = f"set_difference_update {V(x)} {a}"
        elif ty == "strlist" and m == "append" and aty == "str":
            t = f"list_append {V(x)} {a}"
        elif ty == "strlist" and m == "extend" and aty in STR_COLL:
            t = f"list_extend {V(x)} {a}"
        else:
            raise Unsupported(f"{self.coqname}: {ast.unparse(c)} with receiver {ty}, argument {aty}")
        return self.wrap(hoist or [], f"let {V(x)} := {t} in\n  {cont(env)}")

    def while_(self, st: ast.While, env, cont):
        if not self.monadic or st.orelse or self.in_nested is not None:
            raise Unsupported(f"{self.coqname}: while loop in an unsupported position")
        state = self.mutated(st.body, env)
        if not state:
            raise Unsupported(f"{self.coqname}: while loop that changes nothing")
        params = self.free([st], env, exclude=state)
        self.nloop += 1
        name = f"{self.coqname}_loop{self.nloop}"
        c, cty = self.E(st.test, env, None)
        if cty == "strset":
            c = f"set_truth {c}"
        elif cty != "bool":
            raise Unsupported(f"{self.coqname}: while condition of kind {cty}")
        stv = self.pat(state)
        self.depth += 1
        body = self.B(st.body, dict(env), lambda e: f"GOk {stv}")
        self.depth -= 1
        ps = "".join(f" ({self.ref(p)} : {COQ_T[env[p]]})" for p in params)
        pa = "".join(f" {self.ref(p)}" for p in params)
        stt = self.sttype(state, env)
        self.defs.append(
            f"Fixpoint {name} (u : universe){ps} (fuel : nat) (st : {stt}) {{struct fuel}} : gres ({stt}) :=\n"
            f"  let '{stv} := st in\n"
            f"  if {c} then\n"
            f"    match fuel with\n    | O => GOutOfFuel\n    | S fuel' =>\n      gbind ({body})\n            ({name} u{pa} fuel')\n    end\n"
            f"  else GOk {stv}.\n")
        return self.bind(f"{name} u{pa} {FUEL} {stv}", state, cont(env))

    def for_(self, st: ast.For, env, cont):
        if not self.monadic or not isinstance(st.target, ast.Name):
            raise Unsupported(f"{self.coqname}: for loop in an unsupported position")
        it, ity = self.E(st.iter, env, None)
        v = st.target.id
        env2 = dict(env)
        if ity in STR_COLL:
            env2[v] = "str"
            bind = lambda inner: f"(fun {V(v)} st => {inner})"   # noqa: E731
        elif ity == "elemnames":
            env2[v] = "elem"
            bind = lambda inner: f"(fun n st => getitem u n (fun {V(v)} => {inner}))"   # noqa: E731
        else:
            raise Unsupported(f"{self.coqname}: for over a {ity}")
        # search loop:  for v in it: if c: ...; break   else: ...
        if st.orelse:
            if not (len(st.body) == 1 and isinstance(st.body[0], ast.If) and not st.body[0].orelse
                    and st.body[0].body and isinstance(st.body[0].body[-1], ast.Break)
                    and not _loose_breaks(st.body[0].body[:-1])
                    and ity in STR_COLL):
                raise Unsupported(f"{self.coqname}: for/else outside the search-loop pattern")
            hoist: list = []
            c, cty = self.E(st.body[0].test, env2, hoist)
            if cty != "bool":
                raise Unsupported(f"{self.coqname}: search condition of kind {cty}")
            found = self.B(st.body[0].body[:-1], dict(env2), cont)
            notfound = self.B(st.orelse, dict(env), cont)
            return (f"gbind (find_m (fun {V(v)} => {self.wrap(hoist, f'GOk ({c})')}) {it})\n"
                    f"  (fun r => match r with\n   | Some {V(v)} => {found}\n   | None => {notfound}\n   end)")
        if _loose_breaks(st.body):
            raise Unsupported(f"{self.coqname}: break / continue outside the search-loop pattern")
        state = self.mutated(st.body, env)
        if not state:
            raise Unsupported(f"{self.coqname}: for loop that changes nothing")
        stv = self.pat(state)
        self.depth += 1
        body = self.B(st.body, env2, lambda e: f"GOk {stv}")
        self.depth -= 1
        unpack = f"let '{stv} := st in " if len(state) > 1 else f"let {stv} := st in "
        loop = f"for_m {it} {bind(unpack + body)}"
        if self.depth == 0 and self.in_nested is None:
            # outlined so that the proofs can name it
            params = self.free([st], env, exclude=state)
            self.nfor += 1
            name = f"{self.coqname}_for{self.nfor}"
            ps = "".join(f" ({self.ref(p)} : {COQ_T[env[p]]})" for p in params)
            pa = "".join(f" {self.ref(p)}" for p in params)
            stt = self.sttype(state, env)
            self.defs.append(f"Definition {name} (u : universe){ps} (st0 : {stt}) : gres ({stt}) :=\n  {loop} st0.\n")
            return self.bind(f"{name} u{pa} {stv}", state, cont(env))
        return self.bind(f"{loop} {stv}", state, cont(env))

    def nested_def(self, fd: ast.FunctionDef, env):
        if self.in_nested is not None or not self.monadic:
            raise Unsupported(f"{self.coqname}: nested function in an unsupported position")
        a = fd.args
        if len(a.args) != 1 or a.vararg or a.kwarg or a.kwonlyargs or a.defaults or fd.decorator_list:
            raise Unsupported(f"{self.coqname}.{fd.name}: unsupported signature")
        ann = ast.unparse(a.args[0].annotation) if a.args[0].annotation is not None else None
        if ann != "DimensionElement" or ast.unparse(fd.returns) != "None":
            raise Unsupported(f"{self.coqname}.{fd.name}: unsupported annotations")
        arg = a.args[0].arg
        body = _strip_doc(fd.body)
        info = {"coq": f"{self.coqname}_{fd.name}", "state": [], "arg": arg}
        self.nested[fd.name] = info           # registered first: the body may call itself
        state = self.mutated(body, env)
        info["state"] = state
        state = self.mutated(body, env)       # now including what the recursive calls change
        info["state"] = state
        if not state:
            raise Unsupported(f"{self.coqname}.{fd.name}: changes nothing")
        params = self.free(body, env, exclude=state)
        info["params"] = params
        env2 = dict(env)
        env2[arg] = "elem"
        stv = self.pat(state)
        stt = self.sttype(state, env)
        saved = self.ret
        self.in_nested = info
        self.ret = lambda node, e: self._nested_ret(node, stv)
        text = self.B(body, env2, lambda e: f"GOk {stv}")
        self.ret = saved
        self.in_nested = None
        ps = "".join(f" ({self.ref(p)} : {COQ_T[env[p]]})" for p in params)
        self.defs.append(
            f"Fixpoint {info['coq']} (u : universe){ps} (fuel : nat) ({V(arg)} : elem) (st : {stt}) {{struct fuel}} : gres ({stt}) :=\n"
            f"  match fuel with\n  | O => GOutOfFuel\n  | S fuel' =>\n  let '{stv} := st in\n  {text}\n  end.\n")

    def _nested_ret(self, node, stv):
        if node is not None:
            raise Unsupported(f"{self.coqname}: nested function returning a value")
        return f"GOk {stv}"

    def call_nested(self, c: ast.Call, env, cont):
        info = self.nested[c.func.id]
        if len(c.args) != 1 or c.keywords:
            raise Unsupported(f"{self.coqname}: {ast.unparse(c)}")
        hoist: list = []
        a, aty = self.E(c.args[0], env, hoist)
        if aty != "elem":
            raise Unsupported(f"{self.coqname}: {ast.unparse(c)}: argument of kind {aty}")
        fuel = "fuel'" if self.in_nested is info else FUEL
        pa = "".join(f" {self.ref(p)}" for p in info["params"])
        stv = self.pat(info["state"])
        return self.wrap(hoist, self.bind(f"{info['coq']} u{pa} {fuel} {a} {stv}", info["state"], cont(env)))


# ----------------------------------------------------------------------------------------------------------------------
def _args(fd: ast.FunctionDef):
    a = fd.args
    if a.vararg and a.kwonlyargs:
        raise Unsupported(f"{fd.name}: unsupported signature")
    return [x.arg for x in a.args], (a.vararg.arg if a.vararg else None), [x.arg for x in a.kwonlyargs]


def tr_sorted(tree) -> str:
    fd = _find_method(tree, "DimensionUniverse", "sorted")
    pos, var, kwo = _args(fd)
    if pos != ["self", "elements"] or var or kwo != ["reverse"] or ast.unparse(fd.args.kw_defaults[0]) != "False":
        raise Unsupported("DimensionUniverse.sorted: unexpected signature")
    fn = Fn("gen_sorted", monadic=False, has_sorted=False)

    def ret(node, env):
        t, ty = fn.E(node, env, None)
        if ty != "elemlist":
            raise Unsupported(f"DimensionUniverse.sorted returns a {ty}")
        return t
    fn.ret = ret
    env = {"self": "universe", "elements": "strset", "reverse": "bool"}
    body = fn.B(_strip_doc(fd.body), env, lambda e: (_ for _ in ()).throw(Unsupported("sorted: falls off the end")))
    return ("(* DimensionUniverse.sorted(elements, reverse=...) for a collection of NAMES *)\n"
            f"Definition gen_sorted (u : universe) (v_elements : list string) (v_reverse : bool) : list elem :=\n  {body}.\n")


def tr_new(tree) -> str:
    fd = _find_method(tree, "DimensionGroup", "__new__")
    pos, var, kwo = _args(fd)
    if pos != ["cls", "universe", "names", "_conform"] or var or kwo \
            or [ast.unparse(d) for d in fd.args.defaults] != ["frozenset()", "True"]:
        raise Unsupported("DimensionGroup.__new__: unexpected signature")
    fn = Fn("gen_new", monadic=True)
    body = []
    seen_skip = set()
    for st in _strip_doc(fd.body):
        src = ast.unparse(st)
        if src in SKIP_NEW:
            seen_skip.add(src)
            continue
        body.append(st)
    if seen_skip != SKIP_NEW:
        raise Unsupported("DimensionGroup.__new__: cache / shortcut statements changed: missing "
                          + repr(sorted(SKIP_NEW - seen_skip))[:300])
    if not body or ast.unparse(body[-1]) != NEW_RETURN:
        raise Unsupported("DimensionGroup.__new__: does not end with the cache insertion")

    def ret(node, env):
        if node is None or ast.unparse(node) != NEW_RETURN[7:]:
            raise Unsupported(f"DimensionGroup.__new__: unexpected return {ast.unparse(node) if node else None}")
        for f in GROUP_FIELDS:
            if env.get(f"self.{f}") != "sortedset":
                raise Unsupported(f"DimensionGroup.__new__: self.{f} is not assigned a SortedSequenceSet")
        if env.get("self._data_coordinate_indices") != "dictkeys":
            raise Unsupported("DimensionGroup.__new__: self._data_coordinate_indices is not assigned")
        extra = {k for k in env if k.startswith("self.")} - {f"self.{f}" for f in GROUP_FIELDS} - {"self._data_coordinate_indices"}
        if extra:
            raise Unsupported(f"DimensionGroup.__new__: attributes outside the model: {sorted(extra)}")
        return ("GOk ({| gnames := f_names; grequired := f_required; gimplied := f_implied; gelements := f_elements;\n"
                "         ggovernors := f_governors; gskypix := f_skypix;\n"
                "         glookup := gen_lookup_order u f_required f_elements |}, f_data_coordinate_indices)")
    fn.ret = ret
    env = {"universe": "universe", "names": "strlist", "_conform": "bool", "self": "newgroup"}
    text = fn.B(body, env, lambda e: (_ for _ in ()).throw(Unsupported("__new__: falls off the end")))
    return ("".join(d + "\n" for d in fn.defs)
            + "(* DimensionGroup.__new__(cls, universe, names, _conform): the group and the keys of _data_coordinate_indices *)\n"
            "Definition gen_new (u : universe) (v_names : list string) (v__conform : bool) : gres (group * list string) :=\n  "
            + text + ".\n")


def tr_lookup(tree) -> str:
    fd = _find_method(tree, "DimensionGroup", "lookup_order")
    if [ast.unparse(d) for d in fd.decorator_list] != ["property", "cached_getter"] or _args(fd) != (["self"], None, []):
        raise Unsupported("DimensionGroup.lookup_order: unexpected signature / decorators")
    fn = Fn("gen_lookup_order", monadic=True)

    def ret(node, env):
        t, ty = fn.E(node, env, None)
        if ty != "strtuple":
            raise Unsupported(f"lookup_order returns a {ty}")
        return f"GOk {t}"
    fn.ret = ret
    # `self` is the group under construction: only self.required / self.elements / self.universe may be read
    env = {"self": "newgroup", "self.required": "sortedset", "self.elements": "sortedset"}
    text = fn.B(_strip_doc(fd.body), env, lambda e: (_ for _ in ()).throw(Unsupported("lookup_order: falls off the end")))
    return ("".join(d + "\n" for d in fn.defs)
            + "(* DimensionGroup.lookup_order *)\n"
            "Definition gen_lookup_order (u : universe) (f_required f_elements : list string) : gres (list string) :=\n  "
            + text + ".\n")


def tr_nary(tree, method: str) -> str:
    fd = _find_method(tree, "DimensionGroup", method)
    if _args(fd) != (["self"], "others", []) or fd.decorator_list:
        raise Unsupported(f"DimensionGroup.{method}: unexpected signature")
    fn = Fn(f"gen_{method}", monadic=True)

    def ret(node, env):
        t, ty = fn.E(node, env, None)
        if ty != "gres group":
            raise Unsupported(f"{method} returns a {ty}")
        return t
    fn.ret = ret
    env = {"self": "group", "others": "grouplist"}
    text = fn.B(_strip_doc(fd.body), env, lambda e: (_ for _ in ()).throw(Unsupported(f"{method}: falls off the end")))
    if fn.defs:
        raise Unsupported(f"{method}: loops are outside the supported shape of this method")
    return (f"(* DimensionGroup.{method}(self, *others) *)\n"
            f"Definition gen_{method} (u : universe) (v_self : group) (v_others : list group) : gres group :=\n  {text}.\n")


def tr_binop(tree, method: str, target: str) -> None:
    """__or__ / __and__ must be `return self.<target>(other)`"""
    fd = _find_method(tree, "DimensionGroup", method)
    body = _strip_doc(fd.body)
    want = f"return self.{target}(other)"
    if _args(fd) != (["self", "other"], None, []) or len(body) != 1 or ast.unparse(body[0]) != want:
        raise Unsupported(f"DimensionGroup.{method}: expected `{want}`")


def tr_pred(tree, method: str, coqname: str, rty: str, decorators=()) -> str:
    fd = _find_method(tree, "DimensionGroup", method)
    pos, var, kwo = _args(fd)
    if pos not in (["self", "other"], ["self"]) or var or kwo or [ast.unparse(d) for d in fd.decorator_list] != list(decorators):
        raise Unsupported(f"DimensionGroup.{method}: unexpected signature")
    fn = Fn(coqname, monadic=False)

    def ret(node, env):
        t, ty = fn.E(node, env, None)
        if ty != rty:
            raise Unsupported(f"{method} returns a {ty}, expected {rty}")
        return t
    fn.ret = ret
    env = {"self": "group"}
    if len(pos) == 2:
        env["other"] = "group"
    text = fn.B(_strip_doc(fd.body), env, lambda e: (_ for _ in ()).throw(Unsupported(f"{method}: falls off the end")))
    ps = " ".join(f"(v_{p} : group)" for p in pos)
    coq_r = "bool" if rty == "bool" else "list string"
    return f"(* DimensionGroup.{method} *)\nDefinition {coqname} {ps} : {coq_r} :=\n  {text}.\n"


def tr_dck(tree) -> None:
    fd = _find_method(tree, "DimensionGroup", "data_coordinate_keys")
    body = _strip_doc(fd.body)
    if len(body) != 1 or ast.unparse(body[0]) != "return self._data_coordinate_indices.keys()":
        raise Unsupported("DimensionGroup.data_coordinate_keys: expected `return self._data_coordinate_indices.keys()`")


def translate() -> dict[str, str]:
    gtree = ast.parse((PKG / GROUP_FILE).read_text())
    utree = ast.parse((PKG / UNIVERSE_FILE).read_text())
    parts = [
        "(* GENERATED by harness/translators/group_algo.py from dimensions/_group.py and dimensions/_universe.py of the\n"
        "   working tree -- do not edit, never committed.  Primitives: Model/GroupX.v. *)\n"
        "From Coq Require Import String List Bool Arith.\n"
        "From V Require Import Model.Universe Model.GroupX.\n"
        "Import ListNotations.\nOpen Scope string_scope.\nOpen Scope list_scope.\n",
        tr_sorted(utree),
        tr_lookup(gtree),
        tr_new(gtree),
        "(* DimensionGroup(universe, names, _conform) as a group *)\n"
        "Definition gen_group (u : universe) (v_names : list string) (v__conform : bool) : gres group :=\n"
        "  gbind (gen_new u v_names v__conform) (fun p => GOk (fst p)).\n"
        "(* DimensionGroup(universe, names).data_coordinate_keys *)\n"
        "Definition gen_data_coordinate_keys (u : universe) (v_names : list string) : gres (list string) :=\n"
        "  gbind (gen_new u v_names true) (fun p => GOk (snd p)).\n",
    ]
    tr_dck(gtree)
    parts.append(tr_nary(gtree, "union"))
    parts.append(tr_nary(gtree, "intersection"))
    tr_binop(gtree, "__or__", "union")
    tr_binop(gtree, "__and__", "intersection")
    parts.append(tr_pred(gtree, "__eq__", "gen_eq", "bool"))
    parts.append(tr_pred(gtree, "__le__", "gen_le", "bool"))
    parts.append(tr_pred(gtree, "issubset", "gen_issubset", "bool"))
    parts.append(tr_pred(gtree, "isdisjoint", "gen_isdisjoint", "bool"))
    parts.append(tr_pred(gtree, "__hash__", "gen_hash", "hashed"))
    return {"Gen/GroupGen.v": "\n".join(parts)}


if __name__ == "__main__":
    print(translate()["Gen/GroupGen.v"])
