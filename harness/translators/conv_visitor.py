"""Translator (tie T) for C14, conversion layer: regenerate coq/Gen/ConvGen.v from the *current* bodies of

    _ConversionVisitor.visitBinaryOp / visitUnaryOp / visitIsIn / visitFunctionCall / visitBind / visitNumericLiteral /
        visitParens / visitRangeLiteral / visitStringLiteral / visitTimeLiteral / visitTupleNode
    _to_timespan_bound, _convert_comparison_operator, _convert_in_clause_to_predicate
    (python/lsst/daf/butler/queries/_expression_strings.py)

as Gallina functions over Model/ConvPrims.v (`vres` = _VisitorResult, `res` = returns / InvalidQueryError / any other
exception).  Proofs/ConvProofs.v proves that the tree traversal over these generated methods (Model/ConvVisit.v `visit`) equals
C05's hand model `SqlExpr.conv` / `ctype` composed with `ParserConv.of_tree` wherever `of_tree` converts, so a semantic edit
of a `match` arm (which node kinds convert to which constructor, NULL comparisons, IN -> container / range / equality, the
range `stop + 1`, the int-vs-float rule of numeric literals, tuple bounds, bind lookup) breaks a proof on the next run.

Not translated (their `ast` is pinned by `gen_untranslated_digest`, theorem `gen_conv_untranslated_expected`): the wrapper
classes _ColExpr / _Null / _RangeLiteral / _Sequence, _make_literal, _get_boolean_column_reference (hand primitive
ConvPrims.get_bool_ref) and convert_expression_string_to_predicate (ParserConv.parsed_verdict).  Not read at all:
visitIdentifier (identifier resolution is a parameter observed on every run), visitPointNode / _get_float_literal_value
(outside C05's fragment).

Fail-closed: anything outside the subset below raises `Untranslatable`.

  types   bop uop (operator strings, mapped to constructors by the tables BOPS / UOPS) | str | vres | pred | colx (_ColExpr,
          represented by its expression) | expr | timelit | rangelit | seq | litval | opttime | optint | optexpr | int | bool |
          nat | list_vres | list_pred | time
  stmt    docstring | bare annotation | name = e | name = int(x) (Crash on ValueError) |
          try: name = int(x) except ValueError: name = float(x) | if c: .. [else ..] | match subject: case ... |
          return e | raise InvalidQueryError(..) (Invalid) | raise <other>(..) (Crash)
  match   subject a name or a tuple of names; patterns: sequence, top-level or-pattern, "literal", "a" | "b" [as x], _,
          Predicate() / _ColExpr() / _Null() / _RangeLiteral() / _Sequence() [as x], _ColExpr(column_type="int" | "float",
          value=x) (keyword sub-patterns become a guard), `case P if name.expression_type == "datetime"`.  First matching
          case wins; a failed guard goes on to the next case; a case body that does not return continues AFTER the match.
  test    isinstance(x, _ColExpr) | not c | x is None | x is not None | len(x) != k | len(x) == k | "s" in x | c or c | c and c | name
  expr    see Tr.expr
"""
from __future__ import annotations

import ast
import hashlib

from harness.common import PKG


class Untranslatable(Exception):
    pass


SRC = "queries/_expression_strings.py"
BOPS = {"OR": "ExprTree.BOr", "AND": "ExprTree.BAnd", "=": "BEq", "!=": "BNe", "<": "BLt", "<=": "BLe", ">": "BGt", ">=": "BGe",
        "OVERLAPS": "BOverlaps", "+": "BAdd", "-": "BSub", "*": "BMul", "/": "BDiv", "%": "BMod"}
UOPS = {"+": "UPlus", "-": "UMinus", "NOT": "UNot"}
TYS = {"int": "TyInt", "float": "TyReal", "string": "TyStr", "datetime": "TyTime", "timespan": "TySpan", "bool": "TyBool"}
VCLASS = {"Predicate": "pred", "_ColExpr": "colx", "_Null": "null", "_RangeLiteral": "rangelit", "_Sequence": "seq"}

# name -> (parameters as written in the source, their types (None: ignored), result type)
METHODS = {
    "visitBinaryOp": (["self", "operator", "lhs", "rhs", "node"], [None, "bop", "vres", "vres", None], "vres"),
    "visitIsIn": (["self", "lhs", "values", "not_in", "node"], [None, "vres", "list_vres", "bool", None], "vres"),
    "visitFunctionCall": (["self", "name", "args", "node"], [None, "str", "list_vres", None], "vres"),
    "visitBind": (["self", "name", "node"], [None, "str", None], "vres"),
    "visitNumericLiteral": (["self", "value", "node"], [None, "str", None], "vres"),
    "visitParens": (["self", "expression", "node"], [None, "vres", None], "vres"),
    "visitRangeLiteral": (["self", "start", "stop", "stride", "node"], [None, "int", "int", "optint", "rangenode"], "vres"),
    "visitStringLiteral": (["self", "value", "node"], [None, "str", None], "vres"),
    "visitTimeLiteral": (["self", "value", "node"], [None, "time", None], "vres"),
    "visitTupleNode": (["self", "items", "node"], [None, "list_vres", None], "vres"),
    "visitUnaryOp": (["self", "operator", "operand", "node"], [None, "uop", "vres", None], "vres"),
}
FUNCTIONS = {
    "_convert_comparison_operator": (["value"], ["bop"], "str"),
    "_to_timespan_bound": (["value", "node"], ["vres", None], "opttime"),
    "_convert_in_clause_to_predicate": (["lhs", "rhs", "node"], ["expr", "vres", None], "pred"),
}
ORDER = ["_convert_comparison_operator", "_to_timespan_bound", "_convert_in_clause_to_predicate",
         "visitBinaryOp", "visitIsIn", "visitFunctionCall", "visitBind", "visitNumericLiteral", "visitParens", "visitRangeLiteral",
         "visitStringLiteral", "visitTimeLiteral", "visitTupleNode", "visitUnaryOp"]
GTY = {"bop": "bop", "uop": "uop", "str": "string", "vres": "vres", "pred": "bform", "expr": "expr", "bool": "bool", "int": "Z",
       "optint": "option Z", "list_vres": "list vres", "time": "Z", "opttime": "option Z"}
PINNED = ["_ColExpr", "_Null", "_RangeLiteral", "_Sequence", "_make_literal", "_get_boolean_column_reference",
          "convert_expression_string_to_predicate"]


def _dotted(n) -> str | None:
    if isinstance(n, ast.Name):
        return n.id
    if isinstance(n, ast.Attribute):
        b = _dotted(n.value)
        return None if b is None else b + "." + n.attr
    return None


def cstr(s: str) -> str:
    if any(ord(c) < 32 or ord(c) > 126 for c in s):
        raise Untranslatable(f"string constant {s!r}")
    return '"' + s.replace('"', '""') + '"%string'


def _strip_doc(node):
    """ast of a definition without docstrings (comments are not in the ast anyway)"""
    for n in ast.walk(node):
        if isinstance(n, (ast.FunctionDef, ast.ClassDef)) and n.body and isinstance(n.body[0], ast.Expr) \
                and isinstance(n.body[0].value, ast.Constant) and isinstance(n.body[0].value.value, str):
            n.body = n.body[1:] or [ast.Pass()]
    return node


class Tr:
    def __init__(self, rtype):
        self.fresh = 0
        self.rtype = rtype          # result type of the function being translated
        self.pending = []           # [(var, res-term)] fallible sub-expressions of the statement being translated
        self.uses = set()           # context parameters the function needs (bind_has, ident)

    def name(self, base):
        self.fresh += 1
        return f"{base}_{self.fresh}"

    # ---- fallible sub-expressions ------------------------------------------------------------------------------
    def fallible(self, term, base="r"):
        v = self.name(base)
        self.pending.append((v, term))
        return v

    def wrap(self, term, pend):
        for v, t in reversed(pend):
            term = f"(rbind {t} (fun {v} => {term}))"
        return term

    def with_pending(self, fn):
        """run fn() (which translates expressions and returns a term using them), wrapped in the binds it needed"""
        saved, self.pending = self.pending, []
        try:
            term = fn()
            return self.wrap(term, self.pending)
        finally:
            self.pending = saved

    # ---- expressions: (term, type) -----------------------------------------------------------------------------
    def as_expr(self, n, env):
        """a ColumnExpression argument"""
        t, ty = self.expr(n, env)
        if ty in ("expr", "timelit", "boolref"):
            return t
        raise Untranslatable(f"a column expression is expected, got {ty} (line {n.lineno})")

    def as_str(self, n, env):
        t, ty = self.expr(n, env)
        if ty == "str":
            return t
        if ty == "bop":
            return f"(gen_bop_text {t})"
        if ty == "uop":
            return f"(gen_uop_text {t})"
        raise Untranslatable(f"a string is expected, got {ty} (line {n.lineno})")

    def args_of(self, n, names):
        """positional or keyword arguments of a call, in the order `names`; evaluation order = source order"""
        if len(n.args) + len(n.keywords) != len(names) or any(isinstance(a, ast.Starred) for a in n.args):
            raise Untranslatable(f"arguments of {_dotted(n.func)} (line {n.lineno})")
        got = dict(zip(names, n.args))
        for k in n.keywords:
            if k.arg not in names or k.arg in got:
                raise Untranslatable(f"keyword {k.arg} of {_dotted(n.func)} (line {n.lineno})")
            got[k.arg] = k.value
        # Python evaluates positional arguments, then keywords, in source order
        order = list(n.args) + [k.value for k in n.keywords]
        return got, order

    def expr(self, n, env):
        if isinstance(n, ast.Name):
            if n.id not in env:
                raise Untranslatable(f"unbound name {n.id} (line {n.lineno})")
            return env[n.id]
        if isinstance(n, ast.Constant):
            if n.value is None:
                return ("None", "none")
            if isinstance(n.value, bool):
                return ("true" if n.value else "false", "bool")
            if isinstance(n.value, int):
                return (f"({n.value})%Z", "int")
            if isinstance(n.value, str):
                return (cstr(n.value), "str")
            raise Untranslatable(f"constant {n.value!r} (line {n.lineno})")
        if isinstance(n, ast.BinOp) and isinstance(n.op, (ast.Add, ast.Sub)):
            (a, ta), (b, tb) = self.expr(n.left, env), self.expr(n.right, env)
            if ta == "int" and tb == "int":
                return (f"({a} {'+' if isinstance(n.op, ast.Add) else '-'} {b})%Z", "int")
            raise Untranslatable(f"arithmetic on {ta}, {tb} (line {n.lineno})")
        if isinstance(n, ast.Subscript) and isinstance(n.slice, ast.Constant) and isinstance(n.slice.value, int) and n.slice.value >= 0:
            t, ty = self.expr(n.value, env)
            if ty != "list_vres":
                raise Untranslatable(f"subscript of a {ty} (line {n.lineno})")
            return (self.fallible(f"(rnth {t} {n.slice.value})", "item"), "vres")
        if isinstance(n, ast.Attribute):
            t, ty = self.expr(n.value, env)
            if n.attr == "value":
                if ty == "colx":
                    return (t, "expr")
                if ty == "seq":
                    return (t, "seqv")
                if ty == "rangelit":
                    return (t, "rangenode")
                if ty == "timelit":
                    return (f"(time_lit_value {t})", "time")
            if ty == "rangenode" and n.attr in ("start", "stop", "stride"):
                a, b, st = t
                return {"start": (a, "int"), "stop": (b, "int"), "stride": (st, "optint")}[n.attr]
            raise Untranslatable(f"attribute .{n.attr} of a {ty} (line {n.lineno})")
        if isinstance(n, ast.ListComp):
            if len(n.generators) != 1 or n.generators[0].ifs or n.generators[0].is_async or not isinstance(n.generators[0].target, ast.Name):
                raise Untranslatable(f"comprehension form (line {n.lineno})")
            it, ity = self.expr(n.generators[0].iter, env)
            if ity != "list_vres":
                raise Untranslatable(f"comprehension over a {ity} (line {n.lineno})")
            x = self.name(n.generators[0].target.id)
            env2 = dict(env, **{n.generators[0].target.id: (x, "vres")})
            res = {}

            def elt():
                t, ty = self.expr(n.elt, env2)
                res["ty"] = ty
                return f"(Ok {t})"
            body = self.with_pending(elt)
            if res["ty"] != "pred":
                raise Untranslatable(f"comprehension of {res['ty']} (line {n.lineno})")
            return (self.fallible(f"(rmap (fun {x} => {body}) {it})", "preds"), "list_pred")
        if isinstance(n, ast.Call):
            return self.call(n, env)
        raise Untranslatable(f"expression {type(n).__name__} (line {n.lineno})")

    def call(self, n, env):
        f = _dotted(n.func)
        ln = n.lineno
        # ---- methods of a Predicate value / of a string
        if isinstance(n.func, ast.Attribute) and f is None or (f and "." in f and f.split(".")[0] in env):
            recv, rty = self.expr(n.func.value, env)
            m = n.func.attr
            if rty == "pred" and m in ("logical_or", "logical_and") and not n.keywords:
                con = "SqlExpr.BOr" if m == "logical_or" else "SqlExpr.BAnd"
                if len(n.args) == 1 and isinstance(n.args[0], ast.Starred):
                    t, ty = self.expr(n.args[0].value, env)
                    if ty != "list_pred":
                        raise Untranslatable(f"*{ty} (line {ln})")
                    return (f"(fold_left {con} {t} {recv})", "pred")
                if len(n.args) == 1:
                    t, ty = self.expr(n.args[0], env)
                    if ty != "pred":
                        raise Untranslatable(f"{m} of a {ty} (line {ln})")
                    return (f"({con} {recv} {t})", "pred")
            if rty == "pred" and m == "logical_not" and not n.args and not n.keywords:
                return (f"(SqlExpr.BNot {recv})", "pred")
            if rty == "str" and m == "lower" and not n.args and not n.keywords:
                return (f"(lower {recv})", "str")
            raise Untranslatable(f"method .{m} of a {rty} (line {ln})")
        if f == "Predicate.compare":
            got, order = self.args_of(n, ["a", "operator", "b"])
            vals = {}
            for node in order:                       # evaluation order of the source
                k = [k for k, v in got.items() if v is node][0]
                vals[k] = self.as_str(node, env) if k == "operator" else self.as_expr(node, env)
            return (self.fallible(f"(p_compare {vals['a']} {vals['operator']} {vals['b']})", "p"), "pred")
        if f == "Predicate.is_null":
            got, _ = self.args_of(n, ["operand"])
            return (f"(p_is_null {self.as_expr(got['operand'], env)})", "pred")
        if f == "Predicate.in_container":
            got, order = self.args_of(n, ["member", "container"])
            a = self.as_expr(got["member"], env)
            c, cty = self.expr(got["container"], env)
            if cty != "seqv" or order[0] is not got["member"]:
                raise Untranslatable(f"in_container arguments (line {ln})")
            return (self.fallible(f"(p_in_container {a} {c})", "p"), "pred")
        if f == "Predicate.in_range":
            got, order = self.args_of(n, ["member", "start", "stop", "step"])
            if order != [got[k] for k in ("member", "start", "stop", "step")]:
                raise Untranslatable(f"in_range argument order (line {ln})")
            a = self.as_expr(got["member"], env)
            xs = [self.expr(got[k], env) for k in ("start", "stop", "step")]
            if any(ty != "int" for _, ty in xs):
                raise Untranslatable(f"in_range bounds of type {[ty for _, ty in xs]} (line {ln})")
            return (self.fallible(f"(p_in_range {a} {xs[0][0]} {xs[1][0]} {xs[2][0]})", "p"), "pred")
        if f == "Predicate.from_bool" and len(n.args) == 1 and not n.keywords:
            t, ty = self.expr(n.args[0], env)
            if ty != "bool":
                raise Untranslatable(f"from_bool of a {ty} (line {ln})")
            return (f"(SqlExpr.BConst {t})", "pred")
        if f == "BinaryExpression":
            got, order = self.args_of(n, ["a", "b", "operator"])
            vals = {}
            for node in order:
                k = [k for k, v in got.items() if v is node][0]
                vals[k] = self.as_str(node, env) if k == "operator" else self.as_expr(node, env)
            return (self.fallible(f"(p_binexpr {vals['a']} {vals['operator']} {vals['b']})", "e"), "expr")
        if f == "UnaryExpression":
            got, order = self.args_of(n, ["operand", "operator"])
            vals = {}
            for node in order:
                k = [k for k, v in got.items() if v is node][0]
                vals[k] = self.as_str(node, env) if k == "operator" else self.as_expr(node, env)
            return (self.fallible(f"(p_unexpr {vals['operator']} {vals['operand']})", "e"), "expr")
        if f == "_ColExpr" and len(n.args) == 1 and not n.keywords:
            return (self.as_expr(n.args[0], env), "colx")
        if f == "_RangeLiteral" and len(n.args) == 1 and not n.keywords:
            t, ty = self.expr(n.args[0], env)
            if ty != "rangenode":
                raise Untranslatable(f"_RangeLiteral of a {ty} (line {ln})")
            return (t, "rangelit")
        if f == "_make_literal" and len(n.args) == 1 and not n.keywords:
            t, ty = self.expr(n.args[0], env)
            con = {"litval": "{}", "str": "(VStr {})", "time": "(VTime {})", "int": "(VInt {})"}.get(ty)
            if con is None:
                raise Untranslatable(f"_make_literal of a {ty} (line {ln})")
            return (f"(ELit {con.format(t)})", "colx")
        if f == "Timespan" and len(n.args) == 2 and not n.keywords:
            xs = [self.expr(a, env) for a in n.args]
            if any(ty != "opttime" for _, ty in xs):
                raise Untranslatable(f"Timespan of {[ty for _, ty in xs]} (line {ln})")
            return (f"(mk_timespan {xs[0][0]} {xs[1][0]})", "litval")
        if f == "float" and len(n.args) == 1 and not n.keywords:
            t, ty = self.expr(n.args[0], env)
            if ty != "str":
                raise Untranslatable(f"float of a {ty} (line {ln})")
            return (f"(py_float {t})", "litval")
        if f == "len" and len(n.args) == 1 and not n.keywords:
            t, ty = self.expr(n.args[0], env)
            if ty not in ("list_vres", "list_pred"):
                raise Untranslatable(f"len of a {ty} (line {ln})")
            return (f"(List.length {t})", "nat")
        if f == "_get_boolean_column_reference" and len(n.args) == 1 and not n.keywords:
            t, ty = self.expr(n.args[0], env)
            if ty != "pred":
                raise Untranslatable(f"_get_boolean_column_reference of a {ty} (line {ln})")
            return (f"(get_bool_ref {t})", "optexpr")
        if f in FUNCTIONS:
            names, tys, rty = FUNCTIONS[f]
            if n.keywords or len(n.args) != len(names):
                raise Untranslatable(f"call to {f} (line {ln})")
            ts = []
            for a, want in zip(n.args, tys):
                if want is None:
                    continue
                t, ty = self.expr(a, env)
                if want == "expr" and ty in ("expr", "timelit", "boolref"):
                    ty = "expr"
                if want == "vres" and ty in ("pred", "colx", "rangelit"):      # a narrowed _VisitorResult passed on
                    t = {"pred": "(XPred {})", "colx": "(XCol {})"}[ty].format(t) if ty != "rangelit" else f"(XRange {t[0]} {t[1]} {t[2]})"
                    ty = "vres"
                if ty != want:
                    raise Untranslatable(f"argument of {f}: {ty} where {want} is expected (line {ln})")
                ts.append(t)
            return (self.fallible(f"(gen{f} {' '.join(ts)})", "c"), rty)
        if f == "self.visitIdentifier" and len(n.args) == 2 and not n.keywords:
            t, ty = self.expr(n.args[0], env)
            if ty != "str":
                raise Untranslatable(f"visitIdentifier of a {ty} (line {ln})")
            self.uses.add("ident")
            return (self.fallible(f"(ident {t})", "v"), "vres")
        raise Untranslatable(f"call to {f or ast.unparse(n.func)} (line {ln})")

    # ---- tests --------------------------------------------------------------------------------------------------
    def test_plain(self, n, env):
        if isinstance(n, ast.UnaryOp) and isinstance(n.op, ast.Not):
            return f"(negb {self.test_plain(n.operand, env)})"
        if isinstance(n, ast.BoolOp):
            op = "&&" if isinstance(n.op, ast.And) else "||"
            return "(" + f" {op} ".join(self.test_plain(v, env) for v in n.values) + ")"
        if isinstance(n, ast.Compare) and len(n.ops) == 1:
            op, lhs, rhs = n.ops[0], n.left, n.comparators[0]
            if isinstance(op, (ast.In, ast.NotIn)):
                if _dotted(rhs) == "self.context.bind":
                    t, ty = self.expr(lhs, env)
                    if ty != "str":
                        raise Untranslatable(f"bind lookup of a {ty} (line {n.lineno})")
                    self.uses.add("bind_has")
                    r = f"(bind_has {t})"
                else:
                    (a, ta), (b, tb) = self.expr(lhs, env), self.expr(rhs, env)
                    if ta != "str" or tb != "str":
                        raise Untranslatable(f"`in` on {ta}, {tb} (line {n.lineno})")
                    r = f"(str_in {a} {b})"
                return r if isinstance(op, ast.In) else f"(negb {r})"
            if isinstance(op, (ast.Eq, ast.NotEq)):
                (a, ta), (b, tb) = self.expr(lhs, env), self.expr(rhs, env)
                if ta == "nat" and tb == "int":
                    r = f"(Nat.eqb {a} {ast.literal_eval(rhs)})"
                elif ta == "int" and tb == "int":
                    r = f"(Z.eqb {a} {b})"
                else:
                    raise Untranslatable(f"comparison of {ta}, {tb} (line {n.lineno})")
                return r if isinstance(op, ast.Eq) else f"(negb {r})"
        if isinstance(n, ast.Name):
            t, ty = self.expr(n, env)
            if ty == "bool":
                return t
        raise Untranslatable(f"test {ast.unparse(n)[:80]} (line {n.lineno})")

    def branch(self, test, env, then, other):
        """`if test then then(env') else other(env'')` with narrowing; then / other: env -> term"""
        if isinstance(test, ast.UnaryOp) and isinstance(test.op, ast.Not):
            return self.branch(test.operand, env, other, then)
        if isinstance(test, ast.Call) and _dotted(test.func) == "isinstance" and len(test.args) == 2 \
                and isinstance(test.args[0], ast.Name) and isinstance(test.args[1], ast.Name):
            nm, cls = test.args[0].id, test.args[1].id
            t, ty = self.expr(test.args[0], env)
            if ty != "vres" or cls not in VCLASS:
                raise Untranslatable(f"isinstance({nm}: {ty}, {cls}) (line {test.lineno})")
            pat, _, env2 = self.class_pattern(cls, nm, env)
            return f"(match {t} with {pat} => {then(env2)} | _ => {other(env)} end)"
        if isinstance(test, ast.Compare) and len(test.ops) == 1 and isinstance(test.ops[0], (ast.Is, ast.IsNot)) \
                and isinstance(test.left, ast.Name) and isinstance(test.comparators[0], ast.Constant) and test.comparators[0].value is None:
            nm = test.left.id
            t, ty = self.expr(test.left, env)
            inner = {"optint": "int", "optexpr": "boolref", "opttime": "time"}.get(ty)
            if inner is None:
                raise Untranslatable(f"None test on a {ty} (line {test.lineno})")
            v = self.name(nm)
            env_some = dict(env, **{nm: (v, inner)})
            if isinstance(test.ops[0], ast.Is):
                return f"(match {t} with None => {then(env)} | Some {v} => {other(env_some)} end)"
            return f"(match {t} with Some {v} => {then(env_some)} | None => {other(env)} end)"
        return self.with_pending(lambda: f"(if {self.test_plain(test, env)} then {then(env)} else {other(env)})")

    # ---- patterns -----------------------------------------------------------------------------------------------
    def class_pattern(self, cls, bind, env, kwd=()):
        """Gallina pattern for the class pattern `cls(**kwd) as bind` on a vres; returns (pattern, guards, env')"""
        ty = VCLASS[cls]
        env2, guards = dict(env), []
        if kwd and cls != "_ColExpr":
            raise Untranslatable(f"keyword sub-patterns of {cls}")
        if ty == "pred":
            v = self.name(bind or "p")
            if bind:
                env2[bind] = (v, "pred")
            return f"XPred {v}", guards, env2
        if ty == "colx":
            v = self.name(bind or "e")
            if bind:
                env2[bind] = (v, "colx")
            for attr, pat in kwd:
                if attr == "column_type":
                    alts = pat.patterns if isinstance(pat, ast.MatchOr) else [pat]
                    if not all(isinstance(a, ast.MatchValue) and isinstance(a.value, ast.Constant) and a.value.value in TYS for a in alts):
                        raise Untranslatable("column_type sub-pattern")
                    guards.append(f"ctype_in {v} [{'; '.join(TYS[a.value.value] for a in alts)}]")
                elif attr == "value" and isinstance(pat, ast.MatchAs) and pat.pattern is None and pat.name:
                    env2[pat.name] = (v, "expr")
                else:
                    raise Untranslatable(f"sub-pattern {attr}= of _ColExpr")
            return f"XCol {v}", guards, env2
        if ty == "null":
            return "XNull", guards, env2
        if ty == "rangelit":
            a, b, st = self.name("start"), self.name("stop"), self.name("stride")
            if bind:
                env2[bind] = ((a, b, st), "rangelit")
            return f"XRange {a} {b} {st}", guards, env2
        if ty == "seq":
            v = self.name(bind or "vs")
            if bind:
                env2[bind] = (v, "seq")
            return f"XSeq {v}", guards, env2
        raise Untranslatable(f"class pattern {cls}")

    def subpattern(self, p, sty, sname, env):
        """pattern p against a subject of type sty (named sname if it is a plain name); (pattern, guards, env')"""
        name = None
        if isinstance(p, ast.MatchAs):
            if p.pattern is None:
                if p.name is None:
                    return "_", [], env
                raise Untranslatable(f"capture pattern {p.name} (line {p.lineno})")
            name, p = p.name, p.pattern
        if sty in ("bop", "uop"):
            table = BOPS if sty == "bop" else UOPS
            alts = p.patterns if isinstance(p, ast.MatchOr) else [p]
            if not all(isinstance(a, ast.MatchValue) and isinstance(a.value, ast.Constant) and a.value.value in table for a in alts):
                raise Untranslatable(f"operator pattern {ast.unparse(p)} (line {p.lineno})")
            pat = "(" + " | ".join(table[a.value.value] for a in alts) + ")"
            if name:
                v = self.name(name)
                return f"({pat} as {v})", [], dict(env, **{name: (v, sty)})
            return pat, [], env
        if sty == "vres" and isinstance(p, ast.MatchClass) and isinstance(p.cls, ast.Name) and p.cls.id in VCLASS and not p.patterns:
            # `match x: case C():` narrows x itself inside the case body
            return self.class_pattern(p.cls.id, name or sname, env, list(zip(p.kwd_attrs, p.kwd_patterns)))
        raise Untranslatable(f"pattern {ast.unparse(p)} on a {sty} (line {p.lineno})")

    def case_pattern(self, p, subj, env):
        """whole case pattern; subj = [(term, type, name)]; returns (pattern text, guards, env')"""
        if isinstance(p, ast.MatchOr) and len(subj) > 1:
            parts = [self.case_pattern(q, subj, env) for q in p.patterns]
            if any(g for _, g, _ in parts):
                raise Untranslatable(f"guarded alternative in an or-pattern (line {p.lineno})")
            # all alternatives must bind the same names; rename them to those of the first
            keys0 = {k: v for k, v in parts[0][2].items() if env.get(k) != v}
            pats = [parts[0][0]]
            for pat, _, e2 in parts[1:]:
                keys = {k: v for k, v in e2.items() if env.get(k) != v}
                if set(keys) != set(keys0) or any(keys[k][1] != keys0[k][1] or not isinstance(keys[k][0], str) for k in keys):
                    raise Untranslatable(f"alternatives bind different names (line {p.lineno})")
                for k in keys:
                    pat = pat.replace(keys[k][0], keys0[k][0])
                pats.append(pat)
            return " | ".join(pats), [], parts[0][2]
        if len(subj) == 1:
            pat, g, e2 = self.subpattern(p, subj[0][1], subj[0][2], env)
            return pat, g, e2
        if not isinstance(p, ast.MatchSequence) or len(p.patterns) != len(subj):
            raise Untranslatable(f"pattern {ast.unparse(p)} for a {len(subj)}-tuple (line {p.lineno})")
        pats, guards, e2 = [], [], env
        for q, (_, sty, _sname) in zip(p.patterns, subj):
            pat, g, e2 = self.subpattern(q, sty, None, e2)      # tuple subjects: only explicit `as` binds
            pats.append(pat)
            guards += g
        return ", ".join(pats), guards, e2

    def match(self, s, env, rest):
        if isinstance(s.subject, ast.Tuple) and all(isinstance(e, ast.Name) for e in s.subject.elts):
            names = [e.id for e in s.subject.elts]
        elif isinstance(s.subject, ast.Name):
            names = [s.subject.id]
        else:
            raise Untranslatable(f"match subject {ast.unparse(s.subject)} (line {s.lineno})")
        subj = []
        for nm in names:
            if nm not in env:
                raise Untranslatable(f"unbound name {nm} (line {s.lineno})")
            t, ty = env[nm]
            if ty not in ("bop", "uop", "vres"):
                raise Untranslatable(f"match on {nm}: {ty} (line {s.lineno})")
            subj.append((t, ty, nm))
        scrut = ", ".join(t for t, _, _ in subj)
        wild = ", ".join("_" for _ in subj)

        def cases_term(cases):
            if not cases:
                return rest(env)
            arms = []
            for i, c in enumerate(cases):
                pat, guards, env2 = self.case_pattern(c.pattern, subj, env)
                irrefutable = pat.replace(" ", "") == wild.replace(" ", "") and not guards and c.guard is None
                if c.guard is not None:
                    g = c.guard
                    # the only guard form: NAME.expression_type == "datetime"  (narrows NAME to a time literal)
                    if isinstance(g, ast.Compare) and len(g.ops) == 1 and isinstance(g.ops[0], ast.Eq) \
                            and isinstance(g.left, ast.Attribute) and g.left.attr == "expression_type" and isinstance(g.left.value, ast.Name) \
                            and isinstance(g.comparators[0], ast.Constant) and g.comparators[0].value == "datetime" \
                            and env2.get(g.left.value.id, (None, None))[1] == "expr":
                        nm = g.left.value.id
                        guards = guards + [f"is_time_lit {env2[nm][0]}"]
                        env2 = dict(env2, **{nm: (env2[nm][0], "timelit")})
                    else:
                        raise Untranslatable(f"guard {ast.unparse(g)} (line {g.lineno})")
                body = self.block(c.body, env2, rest)
                if guards:
                    nxt = cases_term(cases[i + 1:])
                    arms.append(f"| {pat} => if {' && '.join('(' + x + ')' for x in guards)} then {body} else {nxt}")
                    arms.append(f"| {wild} => {nxt}")
                    return f"(match {scrut} with {' '.join(arms)} end)"
                arms.append(f"| {pat} => {body}")
                if irrefutable:
                    if i != len(cases) - 1:
                        raise Untranslatable(f"case after an irrefutable pattern (line {c.pattern.lineno})")
                    return f"(match {scrut} with {' '.join(arms)} end)"
            arms.append(f"| {wild} => {rest(env)}")
            return f"(match {scrut} with {' '.join(arms)} end)"
        return cases_term(s.cases)

    # ---- statements (continuation style) ------------------------------------------------------------------------
    def ret(self, n, env):
        def go():
            t, ty = self.expr(n, env)
            want = self.rtype
            if want == "vres":
                if ty == "pred":
                    t = f"(XPred {t})"
                elif ty == "colx":
                    t = f"(XCol {t})"
                elif ty == "rangelit":
                    t = f"(XRange {t[0]} {t[1]} {t[2]})"
                elif ty != "vres":
                    raise Untranslatable(f"returns a {ty} where a _VisitorResult is expected (line {n.lineno})")
            elif want == "opttime":
                if ty == "time":
                    t = f"(Some {t})"
                elif ty == "none":
                    t = "None"
                elif ty != "opttime":
                    raise Untranslatable(f"returns a {ty} where Time | None is expected (line {n.lineno})")
            elif want == "str":
                if ty == "bop":
                    t = f"(gen_bop_text {t})"
                elif ty != "str":
                    raise Untranslatable(f"returns a {ty} where a string is expected (line {n.lineno})")
            elif want != ty:
                raise Untranslatable(f"returns a {ty} where {want} is expected (line {n.lineno})")
            return f"(Ok {t})"
        return self.with_pending(go)

    def block(self, stmts, env, rest):
        if not stmts:
            return rest(env)
        s, tail = stmts[0], stmts[1:]
        if isinstance(s, ast.Expr) and isinstance(s.value, ast.Constant) and isinstance(s.value.value, str):
            return self.block(tail, env, rest)
        if isinstance(s, ast.Pass) or (isinstance(s, ast.AnnAssign) and s.value is None and isinstance(s.target, ast.Name)):
            return self.block(tail, env, rest)
        if isinstance(s, ast.Return):
            if s.value is None:
                raise Untranslatable(f"bare return (line {s.lineno})")
            return self.ret(s.value, env)
        if isinstance(s, ast.Raise):
            exc = s.exc.func if isinstance(s.exc, ast.Call) else s.exc
            return "Invalid" if _dotted(exc) == "InvalidQueryError" else "Crash"
        if isinstance(s, (ast.Assign, ast.AnnAssign)):
            targets = s.targets if isinstance(s, ast.Assign) else [s.target]
            if len(targets) != 1 or not isinstance(targets[0], ast.Name):
                raise Untranslatable(f"assignment form (line {s.lineno})")
            x = targets[0].id
            # name = int(text): ValueError is not the documented error
            if isinstance(s.value, ast.Call) and _dotted(s.value.func) == "int" and len(s.value.args) == 1 and not s.value.keywords:
                t, ty = self.expr(s.value.args[0], env)
                if ty != "str":
                    raise Untranslatable(f"int of a {ty} (line {s.lineno})")
                z = self.name(x)
                return (f"(match py_int {t} with Some {z} => {self.block(tail, dict(env, **{x: (f'(VInt {z})', 'litval')}), rest)} "
                        f"| None => Crash end)")

            def go():
                t, ty = self.expr(s.value, env)
                if ty == "none":
                    raise Untranslatable(f"assignment of None (line {s.lineno})")
                if ty in ("rangelit", "rangenode"):
                    return self.block(tail, dict(env, **{x: (t, ty)}), rest)
                v = self.name(x)
                return f"(let {v} := {t} in {self.block(tail, dict(env, **{x: (v, ty)}), rest)})"
            return self.with_pending(go)
        if isinstance(s, ast.Try):
            # try: x = int(text) / except ValueError: x = float(text)
            ok = (len(s.body) == 1 and len(s.handlers) == 1 and not s.orelse and not s.finalbody
                  and isinstance(s.handlers[0].type, ast.Name) and s.handlers[0].type.id == "ValueError" and len(s.handlers[0].body) == 1)
            b, h = (s.body[0], s.handlers[0].body[0]) if ok else (None, None)
            if ok and isinstance(b, ast.Assign) and isinstance(h, ast.Assign) and len(b.targets) == 1 and len(h.targets) == 1 \
                    and isinstance(b.targets[0], ast.Name) and isinstance(h.targets[0], ast.Name) and b.targets[0].id == h.targets[0].id \
                    and isinstance(b.value, ast.Call) and _dotted(b.value.func) == "int" and len(b.value.args) == 1 and not b.value.keywords:
                x = b.targets[0].id
                t, ty = self.expr(b.value.args[0], env)
                if ty != "str":
                    raise Untranslatable(f"int of a {ty} (line {s.lineno})")
                saved, self.pending = self.pending, []
                ht, hty = self.expr(h.value, env)
                if self.pending or hty != "litval":
                    raise Untranslatable(f"handler of the try (line {s.lineno})")
                self.pending = saved
                z, v = self.name(x), self.name(x)
                return (f"(let {v} := match py_int {t} with Some {z} => VInt {z} | None => {ht} end in "
                        f"{self.block(tail, dict(env, **{x: (v, 'litval')}), rest)})")
            raise Untranslatable(f"try statement (line {s.lineno})")
        if isinstance(s, ast.If):
            cont = lambda e: self.block(tail, e, rest)      # noqa: E731
            return self.branch(s.test, env, lambda e: self.block(s.body, e, cont), lambda e: self.block(s.orelse, e, cont))
        if isinstance(s, ast.Match):
            return self.match(s, env, lambda e: self.block(tail, e, rest))
        raise Untranslatable(f"statement {type(s).__name__} (line {s.lineno})")


def _collect(tree):
    defs, pinned = {}, {}
    for node in tree.body:
        if isinstance(node, ast.FunctionDef):
            defs[node.name] = node
        if isinstance(node, ast.ClassDef) and node.name == "_ConversionVisitor":
            for f in node.body:
                if isinstance(f, ast.FunctionDef):
                    defs[f.name] = f
        if isinstance(node, (ast.FunctionDef, ast.ClassDef)) and node.name in PINNED:
            pinned[node.name] = node
    return defs, pinned


def _function(name, f, sig):
    names, tys, rty = sig
    got = [a.arg for a in f.args.args]
    if got != names or f.args.vararg or f.args.kwarg or f.args.kwonlyargs or f.args.posonlyargs or f.args.defaults:
        raise Untranslatable(f"signature of {name} changed: {got}")
    tr = Tr(rty)
    env, params = {}, []
    for p, ty in zip(names, tys):
        if ty is None:
            continue
        if ty == "rangenode":
            continue
        env[p] = (p, ty)
        params.append(f"({p} : {GTY[ty]})")
    if name == "visitRangeLiteral":
        env["node"] = (("start", "stop", "stride"), "rangenode")     # node IS the RangeLiteral whose fields are the arguments

    def fell_off(_e):
        raise Untranslatable(f"a path through {name} does not return")
    body = tr.block(f.body, env, fell_off)
    ctxp = []
    if "bind_has" in tr.uses:
        ctxp.append("(bind_has : string -> bool)")
    if "ident" in tr.uses:
        ctxp.append("(ident : string -> res vres)")
    gty = {"vres": "vres", "pred": "bform", "str": "string", "opttime": "option Z"}[rty]
    return f"Definition gen{'' if name.startswith('_') else '_'}{name} {' '.join(ctxp + params)} : res ({gty}) :=\n  {body}.\n"


def translate():
    src = (PKG / SRC).read_text()
    defs, pinned = _collect(ast.parse(src))
    out = []
    for name in ORDER:
        if name not in defs:
            raise Untranslatable(f"{name} not found in {SRC}")
        out.append(_function(name, defs[name], METHODS.get(name) or FUNCTIONS[name]))
    missing = [p for p in PINNED if p not in pinned]
    if missing:
        raise Untranslatable(f"{missing} not found in {SRC}")
    digest = hashlib.sha256("\n".join(ast.unparse(_strip_doc(pinned[p])) for p in PINNED).encode()).hexdigest()[:32]
    text = (
        "(* GENERATED by harness/translators/conv_visitor.py from _ConversionVisitor and its helper functions\n"
        "   (python/lsst/daf/butler/queries/_expression_strings.py).  Do not edit; never committed. *)\n"
        "From Coq Require Import ZArith List Bool String.\n"
        "From V Require Import Base.Tri Model.Expr Model.SqlExpr Model.ExprTree Model.ParserConv Model.ConvPrims.\n"
        "Import ListNotations.\n\n"
        "(* the operator strings of BinaryOp.op / UnaryOp.op the patterns were read with *)\n"
        "Definition gen_bop_text (o : bop) : string :=\n  match o with "
        + " | ".join(f"{c} => {cstr(s)}" for s, c in BOPS.items()) + " end.\n"
        "Definition gen_uop_text (o : uop) : string :=\n  match o with "
        + " | ".join(f"{c} => {cstr(s)}" for s, c in UOPS.items()) + " end.\n\n"
        + "\n".join(out)
        + "\n(* sha256 (first 32 hex digits) of the docstring-free ast of the definitions the generated code relies on but that are\n"
          "   not translated: " + ", ".join(PINNED) + " *)\n"
        + f"Definition gen_untranslated_digest : string := {cstr(digest)}.\n"
    )
    return {"Gen/ConvGen.v": text}


if __name__ == "__main__":
    print(translate()["Gen/ConvGen.v"])
